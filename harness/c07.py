"""C07 — time-compositionality. Whole run vs random chunkings (including pieces of length one and
single-step calls) on identical twin instances of every node class and of random models with
feedback; online training (RLS / LMS / FORCE, node and model) whole vs chunks. The whole runs are
also compared with the Lean model (exact), which ties the theorems' definitions to the code."""
import numpy as np

from . import common, flow, c05

LEVEL = "proof"
TRUSTED = [
    "models: lean/RpyModel/Dataflow.lean, Reservoir.lean, Windows.lean, Online.lean",
    "theorems: lean/RpyProofs/Props/C07.lean (chunking of reservoir / delay / NVAR runs; C07_model_chunks: models with feedback, hand-over at the boundary is the identity on the synced store; call = one-step run; online training in chunks for learn_every = 1 and for k | first chunk)",
    "twin instances are built twice from the same descriptor (user-supplied dyadic weights), so equality is bit-exact",
]

K3 = "K3"


def cuts(g, T):
    """random consecutive pieces of a sequence of length T; some pieces of length one"""
    pieces, left = [], T
    while left > 0:
        n = 1 if g.chance(0.3) else g.randint(1, left)
        pieces.append(n)
        left -= n
    return pieces


# ----------------------------------------------------------------------------- nodes

NODE_KINDS = ["reservoir", "reservoir", "nvar", "delay", "linear", "relu", "identity", "input"]


def gen_node_case(g):
    kind = g.choice(NODE_KINDS)
    in_dim = g.randint(1, 3)
    d = flow.gen_node(g, kind, in_dim)
    if kind == "reservoir" and g.chance(0.35):
        # a single-precision node, with weights that are not dyadic: whatever rounding the node applies to its state
        # must be applied at every step, not at the boundaries of a call
        d["dtype"] = "float32"
        d["W"] = [[v * 1.1 for v in row] for row in d["W"]]
        d["Win"] = [[v / 3.0 for v in row] for row in d["Win"]]
    T = g.randint(2, 10)
    return {"kind": "node", "desc": d, "U": flow.seq_rows(g, T, in_dim), "pieces": cuts(g, T),
            "as_calls": g.chance(0.3), "probe": flow.seq_rows(g, 2, in_dim)}


def run_pieces(node, U, pieces, as_calls):
    outs, pos = [], 0
    for n in pieces:
        chunk = U[pos:pos + n]
        if as_calls or (n == 1 and pos % 2 == 0):
            for t in range(n):
                outs.append(np.asarray(node.call(chunk[t:t + 1]), dtype=float).reshape(1, -1))
        else:
            outs.append(np.asarray(node.run(chunk), dtype=float).reshape(n, -1))
        pos += n
    return np.vstack(outs)


def check_node(ctx, c):
    ob = "node_chunks/" + c["desc"]["kind"]
    d = c["desc"]
    U = np.array(c["U"], dtype=float)
    P = np.array(c["probe"], dtype=float)
    a = flow.make_node(d, flow.fresh("w"))
    b = flow.make_node(d, flow.fresh("w"))
    try:
        whole = np.asarray(a.run(U), dtype=float)
        parts = run_pieces(b, U, c["pieces"], c["as_calls"])
        pa, pb = np.asarray(a.run(P), dtype=float), np.asarray(b.run(P), dtype=float)
        sa, sb = np.asarray(a.state(), dtype=float), np.asarray(b.state(), dtype=float)
    except Exception as e:  # noqa
        ctx.violation(f"{d['kind']}: run / call raised {type(e).__name__}: {e}", c, obligation=ob)
        return
    ctx.count(c, nontrivial=len(c["pieces"]) >= 2, obligation=ob)
    ctx.stat("node=" + d["kind"] + ("/" + d["dtype"] if d.get("dtype") else ""))
    ctx.sample({"kind": d["kind"], "T": len(c["U"]), "pieces": c["pieces"], "as_calls": c["as_calls"]})
    if whole.shape != parts.shape or not np.array_equal(whole, parts):
        t = int(np.argmax(np.any(whole != parts, axis=1))) if whole.shape == parts.shape else -1
        ctx.violation(f"{d['kind']}: run in pieces {c['pieces']} differs from the single run (first at step {t})", c,
                      expected=whole.tolist(), observed=parts.tolist(), obligation=ob)
        return
    if not np.array_equal(pa, pb) or not np.array_equal(sa.reshape(-1), sb.reshape(-1)):
        ctx.violation(f"{d['kind']}: after the same data in pieces the node is left in a different state "
                      "(probe run / state() differ)", c, expected=pa.tolist(), observed=pb.tolist(), obligation=ob)
        return
    # tie to the model: whole run
    if d["kind"] in ("reservoir", "nvar", "delay") and not d.get("dtype"):     # (the exact model is about float64 / dyadic data)
        bsc = flow.Built([dict(d, ext_dim=d["in_dim"])], [])
        seq = {"X": {"0": flow.qmat(c["U"])}}
        mo = ctx.model.one(bsc.scenario([{"op": "run", "seqs": [seq]}]))
        if mo[0] != "ok":
            raise common.FrameworkError("model rejected a C07 node scenario: " + mo[1])
        for t in range(len(c["U"])):
            md = flow.row_diff(mo[1][0]["steps"][0][t][0], whole[t])
            if md is not None:
                ctx.violation(f"{d['kind']}: single run disagrees with the Lean model at step {t} ({md}); chunking "
                              "invariance itself holds on this case", c, found_input=False, obligation=ob)
                return


# ----------------------------------------------------------------------------- models

def gen_model_case(g):
    base = c05.gen_case(g)
    T = g.randint(2, 9)
    base["kind"] = "model"
    base["T"] = T
    base["pieces"] = cuts(g, T)
    base["seed"] = g.randint(0, 10 ** 9)
    base["as_calls"] = g.chance(0.3)
    # the model has been used before, and the sequence starts from zero (reset=True) or from given states: the option
    # travels with the FIRST piece only (run, or a single call), the other pieces carry on
    base["start"] = g.choice([None, None, "reset", "from_state", "both"])
    base["warm"] = g.randint(1, 3) if base["start"] else 0
    base.pop("ops")
    return base


def build_twin(case):
    fb_links = {int(k): v for k, v in case["fb"].items()}
    b = flow.Built(case["descs"], [tuple(e) for e in case["edges"]], fb_links=fb_links, outside=case["outside"])
    for (od, on, _) in b.outside:
        on.call(np.array(od["preset"], dtype=float).reshape(1, -1))
    return b


def check_model(ctx, c):
    ob = "model_chunks"
    g = common.Gen(c["seed"])
    try:
        a, b = build_twin(c), build_twin(c)
    except Exception as e:  # noqa
        ctx.violation(f"building a model raised {type(e).__name__}: {e}", c, obligation=ob)
        return
    T = c["T"]
    # everything is keyed by the *user* index of a node (position in the descriptor list): the two
    # twins may number their nodes differently (Python set order)
    ents = sorted(a.nodes.index(a.node_of[e]) for e in a.entries)
    data = {u: flow.seq_rows(g, T, c["descs"][u]["in_dim"]) for u in ents}
    probe = {u: flow.seq_rows(g, 2, c["descs"][u]["in_dim"]) for u in ents}

    def X(bb, rows, lo, hi):
        m = {bb.nodes[u].name: np.array(rows[u][lo:hi], dtype=float).reshape(hi - lo, -1) for u in ents}
        return m if len(ents) > 1 else list(m.values())[0]

    def as_rows(bb, out, n):
        return {u: np.asarray(out[nd.name], dtype=float).reshape(n, -1) for u, nd in enumerate(bb.nodes)}
    start = c.get("start")
    warm = {u: flow.seq_rows(g, c.get("warm", 0), c["descs"][u]["in_dim"]) for u in ents} if start else None
    # "both": some nodes start from given states, every other node from zero (from_state together with reset=True)
    fs_nodes = sorted(g.sample(range(len(c["descs"])), g.randint(1, len(c["descs"])))) if start in ("from_state", "both") else []
    fs_vals = {u: g.dyvec(c["descs"][u]["out_dim"], a=2, k=4) for u in fs_nodes}

    def first_kw(bb):
        if start == "reset":
            return {"reset": True}
        if start in ("from_state", "both"):
            kw = {"from_state": {bb.nodes[u].name: np.array(fs_vals[u], dtype=float).reshape(1, -1) for u in fs_nodes}}
            if start == "both":
                kw["reset"] = True
            return kw
        return {}
    try:
        if start:
            a.model.run(X(a, warm, 0, c["warm"]))
            b.model.run(X(b, warm, 0, c["warm"]))
        whole = as_rows(a, a.model.run(X(a, data, 0, T), return_states="all", **first_kw(a)), T)
        parts = {i: [] for i in whole}
        pos = 0
        first = True
        for n in c["pieces"]:
            if c["as_calls"] or n == 1:
                for t in range(pos, pos + n):
                    o = as_rows(b, b.model.call(X(b, data, t, t + 1), return_states="all", **(first_kw(b) if first else {})), 1)
                    first = False
                    for i in o:
                        parts[i].append(o[i])
            else:
                o = as_rows(b, b.model.run(X(b, data, pos, pos + n), return_states="all", **(first_kw(b) if first else {})), n)
                first = False
                for i in o:
                    parts[i].append(o[i])
            pos += n
        parts = {i: np.vstack(v) for i, v in parts.items()}
        pa = as_rows(a, a.model.run(X(a, probe, 0, 2), return_states="all"), 2)
        pb = as_rows(b, b.model.run(X(b, probe, 0, 2), return_states="all"), 2)
    except Exception as e:  # noqa
        ctx.violation(f"model run / call raised {type(e).__name__}: {e}", c, obligation=ob)
        return
    ctx.count(c, nontrivial=len(c["pieces"]) >= 2 and len(c["fb"]) >= 1, obligation=ob)
    ctx.stat(f"model pieces={len(c['pieces'])} fb={len(c['fb'])} as_calls={c['as_calls']}")
    ctx.stat(f"model start={start}")
    ctx.sample({"kinds": [d["kind"] for d in c["descs"]], "fb": c["fb"], "T": T, "pieces": c["pieces"]})
    for i in whole:
        nm = a.nodes[i].name
        if not np.array_equal(whole[i], parts[i]):
            t = int(np.argmax(np.any(whole[i] != parts[i], axis=1)))
            ctx.violation(f"model: node {nm} output differs between one run and pieces {c['pieces']} "
                          f"(first at step {t})", c, expected=whole[i].tolist(), observed=parts[i].tolist(), obligation=ob)
            return
        if not np.array_equal(pa[i], pb[i]):
            ctx.violation(f"model: after the same data in pieces node {nm} behaves differently (probe run)", c,
                          expected=pa[i].tolist(), observed=pb[i].tolist(), obligation=ob)
            return
    if start:
        return          # (the warm-up / reset / from_state histories are C08's model comparison; here: run = pieces)
    init_states = {a.idx[on]: np.asarray(on.state(), dtype=float).reshape(-1).tolist() for (od, on, _) in a.outside}
    mo = ctx.model.one(a.scenario([{"op": "run", "seqs": [{"X": {str(a.idx[a.nodes[u]]): flow.qmat(data[u]) for u in data}}]}],
                                  init_states=init_states))
    if mo[0] != "ok":
        raise common.FrameworkError("model rejected a C07 scenario: " + mo[1])
    for u in whole:
        i = a.idx[a.nodes[u]]
        for t in range(T):
            md = flow.row_diff(mo[1][0]["steps"][0][t][i], whole[u][t])
            if md is not None:
                ctx.violation(f"model: single run disagrees with RpyModel.Dataflow at node {a.nodes[u].name} step {t} ({md}); "
                              "chunking invariance itself holds on this case", c, found_input=False, obligation=ob)
                return


# ----------------------------------------------------------------------------- online training

def gen_train_case(g):
    rule = g.choice(["rls", "lms", "force_rls", "force_lms"])
    in_model = g.chance(0.4)
    k = g.choice([1, 1, 2, 3])
    d, o = g.randint(1, 3), g.randint(1, 2)
    T = g.randint(2, 12)
    if k == 1:
        pieces = cuts(g, T)
    else:
        # pieces whose lengths are multiples of k and not 1 (the gate restarts in every call)
        pieces, left = [], T - (T % k)
        T = left
        while left > 0:
            n = k * g.randint(1, max(1, left // k))
            pieces.append(n)
            left -= n
        if T < 2:
            T, pieces = 2 * k, [k, k] if k > 1 else [2]
    c = {"kind": "train", "rule": rule, "in_model": in_model, "learn_every": k, "d": d, "o": o, "T": T, "pieces": pieces,
         "bias": g.chance(0.5), "alpha": g.choice([0.25, 0.5, 1.0]) if "rls" in rule else g.choice([2.0 ** -4, 2.0 ** -5]),
         "X": flow.seq_rows(g, T, d), "Y": flow.seq_rows(g, T, o)}
    if in_model:
        c["res"] = flow.gen_node(g, "reservoir", d)
        if g.chance(0.5):
            # the reservoir listens to the readout it feeds; with force_teachers=False it hears the readout's own
            # output of the previous step - also across two train() calls
            flow.add_feedback(g, c["res"], o)
            c["fb"] = True
            c["force_teachers"] = False      # forced feedback restarts from zero at every call, by definition: excluded by the property
        elif g.chance(0.5):
            # "feedback in time": res1 >> readout1 >> res2 >> readout2 with res2 <<= readout1 - the online sender is evaluated
            # BEFORE its receiver at every step, which still hears the sender's output of the previous step
            c["res2"] = flow.gen_node(g, "reservoir", o)
            flow.add_feedback(g, c["res2"], o)
            c["fb_up"] = True
            c["force_teachers"] = False
    return c


def make_trainable(c):
    from reservoirpy.nodes import RLS, LMS, FORCE
    r = c["rule"]
    if r == "rls":
        return RLS(alpha=c["alpha"], input_bias=c["bias"])
    if r == "lms":
        return LMS(alpha=c["alpha"], input_bias=c["bias"])
    return FORCE(alpha=c["alpha"], rule=r.split("_")[1], input_bias=c["bias"])


def check_train(ctx, c):
    ob = "train_chunks/" + c["rule"]
    X, Y = np.array(c["X"], dtype=float), np.array(c["Y"], dtype=float)

    def build():
        ro = make_trainable(c)
        if c["in_model"]:
            res = flow.make_node(c["res"], flow.fresh("t"))
            if c.get("fb"):
                res <<= ro
            if c.get("fb_up"):
                res2 = flow.make_node(c["res2"], flow.fresh("t"))
                ro2 = make_trainable(c)
                res2 <<= ro
                return res >> ro >> res2 >> ro2, ro2, (ro, ro2)
            return res >> ro, ro, None
        return ro, ro, None
    kw = {"learn_every": c["learn_every"]}
    if c.get("fb") or c.get("fb_up"):
        kw["force_teachers"] = c["force_teachers"]

    def tgt(pair, Ys):
        return Ys if pair is None else {pair[0].name: Ys, pair[1].name: Ys}
    try:
        ma, ra, pa = build()
        mb, rb, pb = build()
        ma.train(X, tgt(pa, Y), **kw)
        pos = 0
        for n in c["pieces"]:
            mb.train(X[pos:pos + n], tgt(pb, Y[pos:pos + n]), **kw)
            pos += n
    except Exception as e:  # noqa
        ctx.violation(f"online training raised {type(e).__name__}: {e}", c, obligation=ob)
        return
    ctx.count(c, nontrivial=len(c["pieces"]) >= 2, obligation=ob)
    ctx.stat(f"train rule={c['rule']} k={c['learn_every']} in_model={c['in_model']} fb={c.get('fb', False)} fb_up={c.get('fb_up', False)} forced={c.get('force_teachers')}")
    ctx.sample({k: c[k] for k in ("rule", "in_model", "learn_every", "T", "pieces", "bias")})
    for name in ("Wout", "bias") + (("P",) if "rls" in c["rule"] else ()):
        va, vb = np.asarray(getattr(ra, name), dtype=float), np.asarray(getattr(rb, name), dtype=float)
        if va.shape != vb.shape or not np.allclose(va, vb, rtol=1e-12, atol=1e-12):
            ctx.violation(f"online training on a sequence cut into pieces {c['pieces']} (learn_every={c['learn_every']}) leaves a different "
                          f"{name} than training on the whole sequence", c, expected=va.tolist(), observed=vb.tolist(), obligation=ob)
            return



def check_submodel_sender(ctx, g):
    """feedback THROUGH a model (receiver <<= node_of_the_graph >> outside_node): one free run = the same sequence in
    chunks = successive calls (the per-step refresh of the frozen values must reach the nodes of the sender model)"""
    from reservoirpy.node import Node
    from reservoirpy.nodes import Reservoir, Tanh
    ob = "submodel_sender"
    T = g.randint(3, 8)
    c = {"kind": "submodel_sender", "T": T, "seed": g.randint(0, 10 ** 6), "pieces": cuts(g, T)}
    ctx.count(c, nontrivial=True, obligation=ob)
    ctx.stat("feedback through a sub-model sender")
    X = np.array(flow.seq_rows(common.Gen(c["seed"]), T, 2), dtype=float)

    def lin_init(node, x=None, **kw):
        node.set_input_dim(x.shape[1])
        node.set_output_dim(1)

    def build():
        res = Reservoir(4, seed=c["seed"] % 1000, lr=0.5, sr=0.9, fb_connectivity=1.0, input_connectivity=1.0, rc_connectivity=1.0)
        lin = Node(forward=lambda n, x: x[:, :1] * 0.5 + x[:, 1:2] * 0.25, initializer=lin_init)
        res <<= (lin >> Tanh())
        return res >> lin, res, lin
    try:
        ma, ra, la = build()
        whole = np.asarray(ma.run(X), dtype=float)
        mb, rb, lb = build()
        parts, pos = [], 0
        for n in c["pieces"]:
            parts.append(np.asarray(mb.run(X[pos:pos + n]), dtype=float).reshape(n, -1))
            pos += n
        mc, rc_, lc = build()
        calls = np.vstack([np.asarray(mc.call(X[t:t + 1]), dtype=float).reshape(1, -1) for t in range(T)])
    except Exception as e:  # noqa
        ctx.violation(f"a model with feedback through a sub-model sender raised {type(e).__name__}: {e}", c, obligation=ob)
        return
    chunks = np.vstack(parts)
    for label, other in (("chunks " + str(c["pieces"]), chunks), ("successive calls", calls)):
        if whole.shape != other.shape or not np.allclose(whole, other, rtol=1e-12, atol=1e-12):
            ctx.violation(f"feedback through a sub-model sender: one run of {T} steps differs from the same sequence processed as {label} "
                          f"(max difference {float(np.max(np.abs(whole - other))) if whole.shape == other.shape else 'shape'})", c, obligation=ob)
            return
    if not (np.allclose(ra.state(), rb.state(), atol=1e-12) and np.allclose(ra.state(), rc_.state(), atol=1e-12)):
        ctx.violation("feedback through a sub-model sender: the final reservoir state differs between one run, chunks and calls", c, obligation=ob)


# ----------------------------------------------------------------------------- ESN (finding K3)

def check_esn(ctx):
    from reservoirpy.nodes import ESN
    g = common.Gen(7)
    X = np.array(flow.seq_rows(g, 6, 2), dtype=float)
    Y = np.array(flow.seq_rows(g, 6, 1), dtype=float)

    def build(feedback=False):
        kw = {"fb_connectivity": 1.0, "fb_scaling": 2.0} if feedback else {}      # (a feedback matrix that is not all zeros)
        e = ESN(units=5, seed=3, ridge=0.5, feedback=feedback, **kw)
        e.fit(X, Y)
        return e
    c = {"kind": "esn_witness"}
    # with a feedback connection inside the ESN: one run = successive calls from the same state, and = chunks chained
    # through from_state (what does hold for the ESN node, finding K3 notwithstanding)
    try:
        e1, e2, e3 = build(True), build(True), build(True)
        r_whole = np.asarray(e1.run(X[:5]), dtype=float)
        r_calls = np.vstack([np.asarray(e2(X[t:t + 1]), dtype=float).reshape(1, -1) for t in range(5)])
        st = e3.run(X[:2], return_states="all")
        chained = np.vstack([np.asarray(st["readout"], dtype=float),
                             np.asarray(e3.run(X[2:5], from_state={e3.reservoir.name: st["reservoir"][-1:], e3.readout.name: st["readout"][-1:]}), dtype=float)])
        ctx.count({"kind": "esn_fb_run_vs_calls"}, nontrivial=True, obligation="esn")
        if not np.allclose(r_whole, r_calls, atol=1e-12):
            ctx.violation("ESN with feedback: one run differs from successive single-step calls started from the same state "
                          f"(max difference {float(np.max(np.abs(r_whole - r_calls))):.3g})", {"kind": "esn_witness"},
                          expected=r_whole.tolist(), observed=r_calls.tolist(), obligation="esn")
            return
        if not np.allclose(r_whole, chained, atol=1e-12):
            ctx.violation("ESN with feedback: one run differs from two chunks chained through from_state "
                          f"(max difference {float(np.max(np.abs(r_whole - chained))):.3g})", {"kind": "esn_witness"},
                          expected=r_whole.tolist(), observed=chained.tolist(), obligation="esn")
            return
    except Exception as e:  # noqa
        ctx.violation(f"ESN (feedback) run / call raised {type(e).__name__}: {e}", c, obligation="esn")
        return
    try:
        a, b = build(), build()
        whole = np.asarray(a.run(X), dtype=float)
        parts = np.vstack([np.asarray(b.run(X[:3]), dtype=float), np.asarray(b.run(X[3:]), dtype=float)])
    except Exception as e:  # noqa
        ctx.violation(f"ESN run raised {type(e).__name__}: {e}", c, obligation="esn")
        return
    ctx.count(c, nontrivial=True, obligation="esn")
    # one run = successive single-step calls, from the (non-zero) state left by fit: this part of the
    # property does hold for the ESN node and is checked normally
    try:
        c2, d2 = build(), build()
        r_whole = np.asarray(c2.run(X[:4]), dtype=float)
        r_calls = np.vstack([np.asarray(d2(X[t:t + 1]), dtype=float).reshape(1, -1) for t in range(4)])
        ctx.count({"kind": "esn_run_vs_calls"}, nontrivial=True, obligation="esn")
        if not np.allclose(r_whole, r_calls, atol=1e-12):
            ctx.violation("ESN: one run differs from successive single-step calls started from the same state", {"kind": "esn_witness"},
                          expected=r_whole.tolist(), observed=r_calls.tolist(), obligation="esn")
            return
    except Exception as e:  # noqa
        ctx.violation(f"ESN call raised {type(e).__name__}: {e}", c, obligation="esn")
        return
    if not np.allclose(whole, parts, atol=1e-12):
        if K3 in common.open_findings("C07"):
            ctx.known(K3, "ESN.run works on a copy and never advances the node's state: two chunks differ from one run "
                          f"(max difference {float(np.max(np.abs(whole - parts))):.3g})")
        else:
            ctx.violation("ESN.run in two chunks differs from one run", c, expected=whole.tolist(), observed=parts.tolist(), obligation="esn")


def check_case(ctx, c):
    common.quiet()
    {"node": check_node, "model": check_model, "train": check_train}[c["kind"]](ctx, c)


def run(ctx):
    ctx.notes["rule"] = ("nodes: every class with a run (Reservoir, NVAR, Delay, Ridge with fixed weights, ReLU, Identity, Input), 2-10 steps, random cuts with "
                         "length-1 pieces, pieces run by run() or by successive call()s; models: the random feedback models of C05 (sender down/up/outside), "
                         "2-9 steps, random cuts, pieces by run or call, probe run afterwards; online training: RLS / LMS / FORCE alone or behind a reservoir, "
                         "learn_every 1 (any cuts) or k (pieces of multiples of k); ESN witness. non-trivial = at least 2 pieces")
    g = ctx.gen
    for c in common.load_corpus("C07"):
        check_case(ctx, c)
    common.quiet()
    check_esn(ctx)
    for _ in range(ctx.n(80, 1000)):
        check_case(ctx, gen_node_case(g))
    for _ in range(ctx.n(80, 1000)):
        check_case(ctx, gen_model_case(g))
    for _ in range(ctx.n(60, 800)):
        check_case(ctx, gen_train_case(g))
    for _ in range(ctx.n(10, 100)):
        check_submodel_sender(ctx, g)


def replay(ctx, data):
    if data["case"].get("kind") == "submodel_sender":
        common.quiet()
        for _ in range(10):
            check_submodel_sender(ctx, ctx.gen)
    elif data["case"].get("kind") == "esn_witness":
        common.quiet()
        check_esn(ctx)
    else:
        check_case(ctx, data["case"])
