"""C15 — echo-state contraction and boundedness. The theorems are about C01's `fwdInternal` at the
reals; this harness (i) ties that definition to `Reservoir` once more in the configurations C15
talks about (Float regime, 1e-9), and (ii) evaluates the inequalities directly on float
trajectories of the real code: pairs of start states, recurrent matrices scaled by their SVD to
sigma_max in (0,1), inputs up to 1e6, every step; tanh box invariance."""
import numpy as np

from . import common
from .common import fbits, fvec, fmat, unfbits

LEVEL = "proof"
TRUSTED = [
    "model: lean/RpyModel/Reservoir.lean (`fwdInternal`, the same definition as C01)",
    "theorems: lean/RpyProofs/Props/C15.lean over the reals (the model step with a scalar leak rate IS the Euclidean leaky step; contraction factor (1-lr)+lr*sigma per step and its power after a run; box invariance for |f| <= 1; tanh / relu / identity are 1-Lipschitz; the gain hypothesis follows from the l2 operator norm)",
    "sigma is taken to be the largest singular value computed by numpy's SVD (= l2 operator norm); float rounding is absorbed by a slack of 1e-12 * scale",
]


def gen_case(g):
    n = g.randint(2, 8)
    m = g.randint(1, 3)
    T = g.randint(3, 25)
    act = g.choice(["tanh", "tanh", "relu", "identity"])
    rng = np.random.default_rng(g.randint(0, 2 ** 31))
    W = rng.normal(size=(n, n)) * (rng.random((n, n)) < g.choice([0.4, 0.8, 1.0]))
    if not np.any(W):
        W[0, 0] = 1.0
    sigma = g.choice([0.3, 0.6, 0.9, 0.99])
    s = np.linalg.svd(W, compute_uv=False)[0]
    W = W * (sigma / s)
    scale = g.choice([1.0, 10.0, 1e3, 1e6])
    c = {"kind": "c15", "n": n, "m": m, "act": act, "lr": g.choice([1.0, 0.5, 0.25, 0.9, 0.1]),
         "fmt": g.choice(["dense", "csr", "coo", "csc"]), "W": W.tolist(), "sigma_target": sigma,
         "Win": (rng.normal(size=(n, m)) * g.choice([1.0, 5.0])).tolist(), "bias": rng.normal(size=n).tolist(),
         "U": (rng.normal(size=(T, m)) * scale).tolist(),
         "x0": (rng.uniform(-1, 1, size=n)).tolist(), "y0": (rng.uniform(-1, 1, size=n)).tolist(),
         "mode": g.choice(["from_state", "reset_to", "calls", "runs1"])}
    if g.chance(0.3):
        # a spectral radius handed over next to a user-supplied matrix is documented as ignored: the dynamics (and the
        # contraction factor, which depends on the largest singular value) are those of the matrix given
        c["sr_given"] = g.choice([0.5, 0.95, 2.0])
    if act == "tanh" and g.chance(0.25):
        # a single-precision tanh reservoir driven beyond the float32 range: the state must stay a number inside the box
        c["dtype"] = "float32"
        Win = np.array(c["Win"]).reshape(n, m)
        Win[rng.random((n, m)) < 0.4] = 0.0
        c["Win"] = Win.tolist()
        U = np.array(c["U"]).reshape(T, m)
        U[rng.integers(0, T), rng.integers(0, m)] = g.choice([1e39, -1e39, 1e120, 3e300])
        c["U"] = U.tolist()
        c["mode"] = "reset_to" if c["mode"] in ("calls", "runs1") else c["mode"]
    if g.chance(0.25):
        # a value frozen on the reservoir as what ITS feedback receivers read (state proxy; what Node.with_feedback or a
        # teacher-forced run installs on a sender), outside the box: the reservoir's own dynamics go on from its state
        c["frozen_proxy"] = g.choice([3.0, -2.5, 10.0])
    if g.chance(0.3):
        c["lr_first"] = g.choice([v for v in (1.0, 0.5, 0.25, 0.9, 0.1) if v != c["lr"]])
        c["lr_via"] = g.choice(["set_param", "hypers", "attr"])
    if c.get("dtype") != "float32" and g.chance(0.3):
        # the reservoir is first used with ANOTHER recurrent matrix (gain 0.99), which is then replaced through the parameter
        # interface: the dynamics - and the contraction factor - must be those of the matrix the node holds now
        c["W_swap"] = g.choice(["set_param", "attr"])
    if c.get("dtype") != "float32" and g.chance(0.25):
        # integer-typed input arrays (counts, quantised signals)
        c["udtype"] = g.choice(["int64", "int32"])
        c["U"] = np.round(np.clip(np.array(c["U"]) * (1.0 if scale > 1 else 4.0), -2 ** 30, 2 ** 30)).tolist()
    if act != "tanh" and g.chance(0.5):
        c["x0"] = (rng.normal(size=n) * 5).tolist()
        c["y0"] = (rng.normal(size=n) * 5).tolist()
    return c


def as_fmt(c, W):
    from scipy import sparse
    return {"dense": lambda w: w, "csr": sparse.csr_matrix, "coo": sparse.coo_matrix, "csc": sparse.csc_matrix}[c["fmt"]](W)


def build(c):
    from reservoirpy.nodes import Reservoir
    n, m = c["n"], c["m"]
    W = np.array(c["W"]).reshape(n, n)
    if c.get("W_swap"):
        W = W.T * (0.99 / float(np.linalg.svd(W, compute_uv=False)[0]))
    kw = {"dtype": np.float32} if c.get("dtype") == "float32" else {}
    if c.get("sr_given") is not None:
        kw["sr"] = c["sr_given"]
    return Reservoir(W=as_fmt(c, W), Win=np.array(c["Win"]).reshape(n, m),
                     bias=np.array(c["bias"]).reshape(n, 1), lr=c["lr"], activation=c["act"], **kw)


class CallerArrayChanged(Exception):
    pass


class ReturnedRowsDiffer(Exception):
    pass


class MatrixChanged(Exception):
    pass


def run_from(c, x0):
    r = build(c)
    U = np.array(c["U"]).reshape(len(c["U"]), c["m"]).astype(np.dtype(c.get("udtype", "float64")))
    r.initialize(U[:1])
    lr = c["lr"]
    W_given = np.array(c["W"]).reshape(c["n"], c["n"])
    if c.get("W_swap"):
        W_given = W_given.T * (0.99 / float(np.linalg.svd(W_given, compute_uv=False)[0]))
    W_held = r.W.toarray() if hasattr(r.W, "toarray") else np.asarray(r.W)
    tolW = 1e-6 if c.get("dtype") == "float32" else 0.0
    if not np.allclose(np.asarray(W_held, dtype=float), W_given, rtol=tolW, atol=tolW):
        raise MatrixChanged("the recurrent matrix the node holds after initialisation is not the matrix handed over as W "
                            f"(sr={c.get('sr_given')}): largest singular value {float(np.linalg.svd(np.asarray(W_held, dtype=float), compute_uv=False)[0]):.4g} "
                            f"instead of {float(np.linalg.svd(W_given, compute_uv=False)[0]):.4g}")
    if c.get("W_swap"):
        r.run(U[:2])
        Wnew = as_fmt(c, np.array(c["W"]).reshape(c["n"], c["n"]))
        if c["W_swap"] == "attr":
            r.W = Wnew
        else:
            r.set_param("W", Wnew)
    if c.get("lr_first") is not None:
        # the reservoir is used with another leak rate first, then the rate is changed through the
        # parameter interface: the dynamics must follow the new value
        r2 = r
        r2.set_param("lr", c["lr_first"])
        r2.run(U[:2])
        if c.get("lr_via") == "hypers":
            r2.hypers["lr"] = lr
        elif c.get("lr_via") == "attr":
            r2.lr = lr
        else:
            r2.set_param("lr", lr)
    if c.get("frozen_proxy") is not None:
        r.set_state_proxy(np.full((1, c["n"]), float(c["frozen_proxy"])))
    mine = np.array(x0, dtype=float).reshape(1, -1)       # the caller's own array
    keep = mine.copy()
    if c["mode"] == "from_state":
        out = np.array(r.run(U, from_state=mine), dtype=float)
    elif c["mode"] == "calls":
        rows, x = [], mine
        for t in range(len(U)):
            x_in = x
            before = np.array(x_in, dtype=float).copy()
            y = r.call(U[t:t + 1], from_state=x_in)
            if not np.array_equal(np.asarray(x_in, dtype=float), before):
                raise CallerArrayChanged(f"call(u, from_state=x) overwrote the caller's array x at step {t}")
            rows.append(y)            # kept as returned, WITHOUT a copy: a row handed out must not change afterwards
            x = np.array(y, dtype=float)
        out = np.array([np.array(r_, dtype=float).reshape(-1) for r_ in rows])
    elif c["mode"] == "runs1":
        # streaming: one-step runs, each started from the state the previous one returned
        rows, x = [], mine
        for t in range(len(U)):
            y = r.run(U[t:t + 1], from_state=x)
            rows.append(np.array(y, dtype=float).reshape(-1).copy())
            x = np.array(y, dtype=float).reshape(1, -1)
            if t == 0 and len(U) > 1:
                r.reset()       # the state the node holds must not matter: every run names its starting state
                x = x.copy()
        out = np.array(rows)
    else:
        r.reset(to_state=mine)
        out = np.array(r.run(U), dtype=float)
    if not np.array_equal(mine, keep):
        raise CallerArrayChanged(f"the array handed over as initial state ({c['mode']}) was overwritten by the reservoir")
    # (a float32 reservoir stores its state rounded to single precision and returns the unrounded rows: not compared)
    if len(out) and c.get("dtype") != "float32" and not np.array_equal(out[-1], np.asarray(r.state(), dtype=float).reshape(-1), equal_nan=True):
        raise ReturnedRowsDiffer(f"the last state returned ({out[-1].tolist()}) is not the state the node holds ({np.asarray(r.state()).reshape(-1).tolist()}): "
                                 "the returned trajectory is not the reservoir's")
    return out


def check_cases(ctx, cases):
    common.quiet()
    runs = []
    mcases = []
    for c in cases:
        r = common.exc_class(lambda: (run_from(c, c["x0"]), run_from(c, c["y0"])))
        runs.append(r)
        n, m = c["n"], c["m"]
        mcases.append({"kind": "reservoir_run", "regime": "F", "n": n, "m": m, "k": 1, "eq": "internal", "hasFb": False,
                       "act": c["act"], "fbact": "identity", "W": fmat(c["W"]), "Win": fmat(c["Win"]), "bias": fvec(c["bias"]),
                       "lr": fvec([c["lr"]] * n), "x0": fvec(c["x0"]), "s0": fvec([0.0] * n), "U": fmat(c["U"])})
    outs = ctx.model.batch(mcases)
    for c, r, mo in zip(cases, runs, outs):
        ob = "contraction/" + c["act"]
        ctx.count(c, nontrivial=len(c["U"]) >= 3, obligation=ob)
        ctx.stat(f"act={c['act']} lr={c['lr']} sigma={c['sigma_target']} fmt={c['fmt']} mode={c['mode']}")
        ctx.stat(f"lr_change={c.get('lr_via')}")
        ctx.stat(f"W replaced after first use: {c.get('W_swap')}")
        ctx.stat(f"input dtype={c.get('udtype', 'float64')}")
        ctx.sample({k: c[k] for k in ("n", "m", "act", "lr", "sigma_target", "fmt", "mode")} | {"T": len(c["U"])})
        if r[0] != "ok":
            ctx.violation(f"Reservoir.run raised {r[1]}" + (" - the caller's state array was modified by the reservoir, so distances between the "
                          "states the caller holds no longer contract" if "CallerArrayChanged" in str(r[1]) else ""), c, obligation=ob)
            continue
        X, Y = r[1]
        if c.get("dtype") == "float32":
            ctx.stat("float32 reservoirs beyond the float32 range")
            for Z in (X, Y):
                if not np.all(np.isfinite(Z)) or (max(abs(v) for v in c["x0"]) <= 1 and float(np.max(np.abs(Z))) > 1 + 1e-6):
                    ctx.violation("a single-precision tanh reservoir driven by a finite input beyond the float32 range left the box [-1,1]^n "
                                  f"(non-finite states: {int(np.sum(~np.isfinite(Z)))}, max |state| = {float(np.nanmax(np.abs(Z)))!r})", c, obligation=ob)
                    break
            continue
        W = np.array(c["W"]).reshape(c["n"], c["n"])
        sigma = float(np.linalg.svd(W, compute_uv=False)[0])
        q = (1 - c["lr"]) + c["lr"] * sigma
        px, py = np.array(c["x0"]), np.array(c["y0"])
        bad = None
        for t in range(len(X)):
            d_prev = float(np.linalg.norm(px - py))
            d_new = float(np.linalg.norm(X[t] - Y[t]))
            slack = 1e-12 * max(1.0, float(np.max(np.abs(X[t]))), float(np.max(np.abs(px))))
            if d_new > q * d_prev + slack:
                bad = (t, d_prev, d_new)
                break
            px, py = X[t], Y[t]
        if bad:
            ctx.violation(f"two runs of the same reservoir on the same input did not move closer by the factor (1-lr)+lr*sigma = {q:.6g} "
                          f"at step {bad[0]}: distance {bad[1]:.6g} -> {bad[2]:.6g}", c, expected=q * bad[1], observed=bad[2], obligation=ob)
            continue
        if c["act"] == "tanh" and max(abs(v) for v in c["x0"]) <= 1 and float(np.max(np.abs(X))) > 1 + 1e-12:
            ctx.violation(f"a tanh reservoir left the box [-1,1]^n: max |state| = {float(np.max(np.abs(X)))!r}", c, obligation=ob)
            continue
        # the trajectory is the update law with the matrices the node holds NOW (numpy, independent of the model): the
        # contraction factor above is computed from them
        f = {"tanh": np.tanh, "relu": lambda v: np.maximum(v, 0.0), "identity": lambda v: v}[c["act"]]
        Win_, b_, U_ = np.array(c["Win"]).reshape(c["n"], c["m"]), np.array(c["bias"]), np.array(c["U"]).reshape(len(c["U"]), c["m"])
        prev, law_bad = np.array(c["x0"], dtype=float), None
        for t in range(len(X)):
            want = (1 - c["lr"]) * prev + c["lr"] * f(W @ prev + Win_ @ U_[t] + b_)
            if not np.allclose(X[t], want, rtol=1e-9, atol=1e-9 * max(1.0, float(np.max(np.abs(want))))):
                law_bad = (t, want, X[t])
                break
            prev = X[t]
        if law_bad:
            ctx.violation(f"step {law_bad[0]} of the run is not (1-lr)*x + lr*f(W x + Win u + b) with the recurrent matrix the node holds"
                          + (f" (W was replaced through {c['W_swap']} after the first use)" if c.get("W_swap") else "")
                          + ": the contraction factor of that matrix says nothing about this trajectory", c,
                          expected=law_bad[1].tolist(), observed=law_bad[2].tolist(), obligation=ob)
            continue
        # tie to the model definition
        if mo[0] != "ok":
            raise common.FrameworkError("model rejected a C15 case: " + mo[1])
        for t, row in enumerate(mo[1]["X"]):
            mv = np.array([unfbits(v) for v in row])
            if not np.allclose(mv, X[t], rtol=1e-9, atol=1e-9 * max(1.0, float(np.max(np.abs(mv))))):
                ctx.violation(f"Reservoir disagrees with RpyModel.Reservoir at step {t} (theorems C15_* no longer tied to the code); "
                              "the contraction inequality itself holds on this case", c, expected=mv.tolist(), observed=X[t].tolist(),
                              found_input=False, obligation=ob)
                break


def run(ctx):
    ctx.notes["rule"] = ("random recurrent matrices (dense / csr, 2-8 units) rescaled by their SVD to sigma_max in {0.3, 0.6, 0.9, 0.99}, activation tanh / relu / identity, "
                         "leak rate in {0.1, 0.25, 0.5, 0.9, 1}, inputs scaled up to 1e6, two random start states (given by from_state or by reset(to_state)), "
                         "3-25 steps; the inequality is evaluated at every step. non-trivial = at least 3 steps")
    g = ctx.gen
    cases = common.load_corpus("C15")
    cases += [gen_case(g) for _ in range(ctx.n(200, 3000))]
    check_cases(ctx, cases)


def replay(ctx, data):
    check_cases(ctx, [data["case"]])
