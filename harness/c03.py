"""C03 — graph construction: Model(nodes, edges), >>, &, &=, link on nodes / lists / models.
Exhaustive over all labelled digraphs (with self-loops) on <=3 (quick) / <=4 (thorough) nodes,
plus random digraphs and random expressions. The implementation's graph is canonicalised by the
model's own `canon` (driver kind graph_check) and compared with the model's result."""
import itertools

from . import common

LEVEL = "proof"
TRUSTED = [
    "model: lean/RpyModel/Graph.lean (mirror of ops.py link/merge/concat_multi_inputs, model.py Model/update_graph, utils/graphflow.py find_entries_and_exits/topological_sort)",
    "theorems: lean/RpyProofs/Props/C03.lean (Kahn sound and complete for every closed duplicate-free graph: accepted <=> acyclic, valid order, any cycle rejected; link/merge edge algebra as sets; entries/exits; one-node Concat insertion and the whole pass: every inserted Concat feeds exactly one node and gathers exactly that node's distinct predecessors, whatever the visiting order and however predecessor sets nest - C03_concat_pass)",
    "carried by correspondence only: canonical (Concat-name-free) equality for chained / nested expressions, i.e. associativity of >> and & up to inserted Concat nodes",
    "Python set iteration order is irrelevant to every comparison (sorted canonical forms)",
]

CONCAT_BASE = 1000000
_POOLS = {"A": [], "B": []}
_POOL = _POOLS["A"]
# pool B: names chosen so that different (sender, receiver) pairs have the same concatenated name
# ("qa"+"bbz" = "qab"+"bz" = "qabb"+"z"; "1"+"11" = "11"+"1"): anything keyed by name concatenation collapses them
_NAMES_B = ["qa", "qab", "bz", "bbz", "qabb", "z", "1", "11"]


def use_pool(which):
    global _POOL
    _POOL = _POOLS[which]


def pool(k):
    """k reusable plain nodes (names live in per-class lists with linear look-up: reuse them)."""
    from reservoirpy.node import Node
    while len(_POOL) < k:
        i = len(_POOL)
        name = f"c03_v{i}" if _POOL is _POOLS["A"] else _NAMES_B[i]
        _POOL.append(Node(forward=lambda n, x: x, name=name))
    return _POOL[:k]


def ident(model_nodes):
    """map implementation nodes to model ids: pool node i -> i, Concat j -> base + j"""
    ids = {}
    nc = 0
    for n in model_nodes:
        if n in _POOL:
            ids[n] = _POOL.index(n)
        else:
            ids[n] = CONCAT_BASE + nc
            nc += 1
    return ids


def impl_graph(m):
    ids = ident(m.nodes)
    for a, b in m.edges:
        for x in (a, b):
            if x not in ids:
                ids[x] = CONCAT_BASE + len(ids)
    return {"nodes": sorted(ids[n] for n in m.nodes), "edges": sorted([ids[a], ids[b]] for a, b in m.edges),
            "order": [ids[n] for n in m.nodes],
            "inputs": sorted(ids[n] for n in m.input_nodes), "outputs": sorted(ids[n] for n in m.output_nodes),
            "concat_types_ok": all(type(n).__name__ == "Concat" for n in m.nodes if n not in _POOL)}


# ----------------------------------------------------------------------------- expressions

def eval_py(expr, nodes, env=None):
    from reservoirpy.ops import link
    tag = expr[0]
    if tag == "node":
        return nodes[expr[1]]
    if tag == "var":
        return env[expr[1]]
    if tag == "list":
        return [eval_py(e, nodes, env) for e in expr[1:]]
    if tag == "model":
        from reservoirpy.model import Model
        return Model(nodes=[nodes[i] for i in expr[1]], edges=[(nodes[a], nodes[b]) for a, b in expr[2]])
    if tag == "merge":
        from reservoirpy.ops import merge
        return merge(*[eval_py(e, nodes, env) for e in expr[1:]])
    a = eval_py(expr[1], nodes, env)
    b = eval_py(expr[2], nodes, env)
    if tag == ">>":
        return a >> b
    if tag == "link":
        return link(a, b)
    if tag == "&":
        return a & b
    if tag == "&=":
        a &= b
        return a
    raise ValueError(tag)


def for_model(expr):
    """(the driver evaluates the n-ary `merge` tag itself: union of all operands, ONE model built — a fold of `&` would
    insert concatenation nodes once per step, which is not what `merge(a, b, c)` does)"""
    return expr


def operand_nodes(expr):
    """all pool ids mentioned in an expression"""
    if expr[0] == "node":
        return {expr[1]}
    if expr[0] == "model":
        return set(expr[1])
    s = set()
    for e in expr[1:]:
        s |= operand_nodes(e)
    return s


def gen_expr(g, depth, k):
    if depth == 0 or g.chance(0.25):
        return ["node", g.randint(0, k - 1)]
    r = g.random()
    if r < 0.15:
        n = g.randint(2, 3)
        if depth >= 2 and g.chance(0.4):
            # lists may hold models too ((a >> b) >> [c >> d, e]): an operand that is a Model then takes part in
            # several (left, right) pairs of one link
            # (a list inside a list is not an operand the operators define: elements are nodes or models)
            els = [gen_expr(g, 1, k) if g.chance(0.5) else ["node", g.randint(0, k - 1)] for _ in range(n)]
            return ["list"] + [e_ if e_[0] != "list" else ["node", g.randint(0, k - 1)] for e_ in els]
        return ["list"] + [["node", i] for i in g.sample(range(k), min(n, k))]
    if r < 0.22:
        ns = g.sample(range(k), g.randint(1, min(4, k)))
        es = [[a, b] for a in ns for b in ns if a != b and g.chance(0.25)]
        return ["model", sorted(ns), es]
    tag = g.choice([">>", ">>", ">>", "&", "&", "&=", "link", "merge"])
    if tag == "merge":
        return ["merge"] + [gen_expr(g, depth - 1, k) for _ in range(g.randint(3, 4))]
    return [tag, gen_expr(g, depth - 1, k), gen_expr(g, depth - 1, k)]


def gen_prog(g, k):
    """straight-line program with shared intermediate models"""
    n = g.randint(2, 5)
    stmts = []

    def ex(depth, nvars):
        if nvars and g.chance(0.45):
            return ["var", g.randint(0, nvars - 1)]
        if depth == 0 or g.chance(0.3):
            return ["node", g.randint(0, k - 1)]
        tag = g.choice([">>", ">>", "&", "link", "merge"])
        if tag == "merge":
            return ["merge"] + [ex(depth - 1, nvars) for _ in range(3)]
        return [tag, ex(depth - 1, nvars), ex(depth - 1, nvars)]
    for i in range(n):
        if i > 0 and g.chance(0.2):
            stmts.append(["iand", g.randint(0, i - 1), ex(1, i)])
        e = ex(2, i)
        while e[0] in ("node", "var"):
            e = ex(2, i)
        stmts.append(["set", sum(1 for s_ in stmts if s_[0] == "set"), e])
    return stmts


def run_prog(stmts, nodes):
    env, status = [], []
    for st in stmts:
        tag, k, e = st
        try:
            if tag == "iand":
                v = env[k]
                v &= eval_py(e, nodes, env)
                env[k] = v
            else:
                v = eval_py(e, nodes, env)
                if not hasattr(v, "edges"):
                    raise TypeError("not a model")
                if k < len(env):
                    env[k] = v
                else:
                    env.append(v)
            status.append("ok")
        except Exception as ex_:  # noqa
            if tag == "set" and k >= len(env):
                env.append(None)
            status.append("rej:" + type(ex_).__name__)
            break       # a program stops at its first rejected statement
    return env, status


def check_progs(ctx, cases):
    nodes = pool(8)
    outs = ctx.model.batch([{"kind": "graph_prog", "stmts": [[st[0], st[1], for_model(st[2])] for st in c["stmts"]]} for c in cases])
    for c, mo in zip(cases, outs):
        ob = "program"
        ctx.count(c, nontrivial=True, obligation=ob)
        ctx.stat("stream=program")
        if mo[0] != "ok":
            raise common.FrameworkError("model driver error on C03 program: " + mo[1])
        env, status = run_prog(c["stmts"], nodes)
        m = mo[1]
        ms = ["ok" if s_ == "ok" else "rej" for s_ in m["status"]]
        is_ = ["ok" if s_ == "ok" else "rej" for s_ in status]
        ctx.sample({"stmts": c["stmts"], "status": status})
        if ms != is_:
            ctx.violation(f"program: statement outcomes differ (model {m['status']}, implementation {status})", c,
                          found_input=False, obligation=ob)
            continue
        graphs = [impl_graph(v) if v is not None and hasattr(v, "edges") else None for v in env]
        checks = [{"kind": "graph_check", "nodes": ig["nodes"], "edges": ig["edges"], "order": ig["order"]}
                  for ig in graphs if ig is not None]
        couts = iter(ctx.model.batch(checks))
        for vi, (ig, mv) in enumerate(zip(graphs, m["vars"])):
            if ig is None:
                continue
            co = next(couts)
            orc = oracle_graph(ig, None)
            if orc is not None:
                ctx.violation(f"program: variable {vi}: " + orc, c, observed=ig, obligation=ob)
                break
            if "nodes" not in mv:
                continue
            ic = co[1]["canon"]
            if any(ic[key] != mv[key] for key in ("nodes", "edges", "entries", "exits")):
                diff = {key: {"model": mv[key], "impl": ic[key]} for key in ("nodes", "edges", "entries", "exits") if ic[key] != mv[key]}
                ctx.violation(f"program: the model bound to variable {vi} differs from the link/merge algebra after the "
                              "whole program ran (an operand was modified by a later operation, or an operation "
                              "built the wrong graph)", c, expected=mv, observed=ic, obligation=ob, extra={"diff": diff})
                break
            dups = eff_dups(ig)
            if dups:
                report_dups(ctx, c, dups, canon_dups(mv), ob)


def has_cycle(nodes, edges):
    adj = {n: [] for n in nodes}
    for a, b in edges:
        adj.setdefault(a, []).append(b)
        adj.setdefault(b, [])
    color = {}

    def dfs(u):
        color[u] = 1
        for v in adj[u]:
            if color.get(v) == 1 or (color.get(v) is None and dfs(v)):
                return True
        color[u] = 2
        return False
    return any(color.get(n) is None and dfs(n) for n in list(adj))


def oracle_graph(ig, expected_users):
    """direct property check on the implementation's own graph"""
    nodes, edges, order = ig["nodes"], [tuple(e) for e in ig["edges"]], ig["order"]
    users = sorted(n for n in nodes if n < CONCAT_BASE)
    if expected_users is not None and users != sorted(expected_users):
        return f"model contains nodes {users}, operands were {sorted(expected_users)}"
    if len(set(order)) != len(order) or sorted(order) != sorted(nodes):
        return "execution order does not contain every node exactly once"
    pos = {n: i for i, n in enumerate(order)}
    for a, b in edges:
        if a not in pos or b not in pos or not pos[a] < pos[b]:
            return f"execution order is not topological: edge {a}->{b}"
    preds = {n: [a for a, b in edges if b == n] for n in nodes}
    succs = {n: [b for a, b in edges if a == n] for n in nodes}
    if ig["inputs"] != sorted(n for n in nodes if not preds[n]):
        return "entry nodes are not exactly the nodes without predecessor"
    if ig["outputs"] != sorted(n for n in nodes if not succs[n]):
        return "exit nodes are not exactly the nodes without successor"
    for n in users:
        if len(preds[n]) > 1:
            return f"node {n} has several direct predecessors (no concatenation inserted)"
    for n in nodes:
        if n >= CONCAT_BASE:
            if len(set(preds[n])) < 2:
                return (f"an inserted concatenation node has {len(set(preds[n]))} distinct predecessor(s): a node that "
                        "has ONE predecessor got a Concat in front of it (its direct edge was replaced)")
            if len(succs[n]) != 1:
                return f"an inserted concatenation node feeds {len(succs[n])} nodes instead of exactly one"
    if not ig["concat_types_ok"]:
        return "a node that is neither an operand nor a Concat appeared"
    return None


def eff_dups(ig):
    """user nodes that receive some predecessor more than once through (nested) concatenation"""
    edges = [tuple(e) for e in ig["edges"]]
    preds = {}
    for a, b in edges:
        preds.setdefault(b, []).append(a)

    def eff(v, depth=0):
        out = []
        for p in preds.get(v, []):
            if p >= CONCAT_BASE and depth < 50:
                out += eff(p, depth + 1)
            else:
                out.append(p)
        return out
    bad = {}
    for n in ig["nodes"]:
        if n < CONCAT_BASE:
            e = eff(n)
            d = sorted({p for p in e if e.count(p) > 1})
            if d:
                bad[n] = d
    return bad


def canon_dups(canon):
    es = [tuple(e) for e in canon["edges"]]
    return sorted({e for e in es if es.count(e) > 1})


K12 = "K12"


def report_dups(ctx, c, dups, model_dups, ob):
    """A node receives a predecessor twice. The model mirrors the code here (nested Concat over
    Concats with common parents); attributed to finding K12 only when the model predicts exactly
    these duplicates, otherwise it is a new violation."""
    what = ("a node receives the same predecessor more than once through nested inserted concatenation "
            f"(node -> duplicated predecessors: {dups})")
    predicted = sorted((p, v) for v, ps in dups.items() for p in ps)
    if K12 in common.open_findings("C03") and predicted == [tuple(e) for e in model_dups]:
        ctx.known(K12, what + " when models that already contain a Concat into that node are merged or linked again")
    else:
        ctx.violation("graph construction: " + what, c, obligation=ob)


def check_cases(ctx, cases):
    """cases carry an optional "names": "B" (the pool of adversarially named nodes)"""
    common.quiet()
    groups = {}
    for c in cases:
        groups.setdefault(c.get("names", "A"), []).append(c)
    for which, grp in sorted(groups.items()):
        use_pool(which)
        try:
            _check_cases(ctx, grp)
        finally:
            use_pool("A")


def _check_cases(ctx, cases):
    k = 8
    nodes = pool(k)
    mcases = [{"kind": "graph_expr", "expr": for_model(c["expr"])} for c in cases]
    outs = ctx.model.batch(mcases)
    checks, idx = [], []
    impl = []
    for c in cases:
        r = common.exc_class(eval_py, c["expr"], nodes)
        if r[0] == "ok" and not hasattr(r[1], "edges"):
            r = ("rej", "NotAModel")      # expression evaluated to a bare node or list
        if r[0] == "ok":
            ig = impl_graph(r[1])
            impl.append(("ok", ig))
            idx.append(len(checks))
            checks.append({"kind": "graph_check", "nodes": ig["nodes"], "edges": ig["edges"], "order": ig["order"]})
        else:
            impl.append(r)
            idx.append(None)
    couts = ctx.model.batch(checks)
    for c, mo, im, ci in zip(cases, outs, impl, idx):
        ob = c["stream"]
        ctx.stat(f"stream={ob}")
        expr = c["expr"]
        m_rej = mo[0] != "ok"
        i_rej = im[0] != "ok"
        if mo[0] != "ok" and not (mo[1].startswith("Cycle") or mo[1].startswith("TypeError") or mo[1].startswith("ValueError")):
            raise common.FrameworkError("model driver error on C03 case: " + mo[1])
        ctx.stat("rejected" if m_rej else "accepted")
        if m_rej and mo[0] != "ok":
            ctx.stat("reject_reason=" + mo[1].split(":")[0])
        ctx.count(c, nontrivial=True, obligation=ob)
        ctx.sample({"expr": expr, "model": "rejected" if m_rej else mo[1]})
        # oracle pieces
        if c.get("raw") is not None:
            cyc = has_cycle(c["raw"][0], c["raw"][1])
            if cyc and not i_rej:
                ctx.violation("a graph containing a directed cycle was accepted at construction", c, obligation=ob)
                continue
            if not cyc and i_rej:
                ctx.violation(f"an acyclic graph was rejected at construction ({im[1]})", c, obligation=ob)
                continue
        if not i_rej:
            expected_users = operand_nodes(expr)
            orc = oracle_graph(im[1], expected_users)
            if orc is not None:
                ctx.violation("graph construction: " + orc, c, observed=im[1], obligation=ob)
                continue
        if m_rej != i_rej:
            ctx.violation(f"implementation {'rejects' if i_rej else 'accepts'} an expression the model "
                          f"{'rejects' if m_rej else 'accepts'} ({mo[1] if m_rej else im[1] if i_rej else ''}); "
                          "the structural oracle holds on this case", c, found_input=False, obligation=ob)
            continue
        if m_rej:
            continue
        co = couts[ci]
        if co[0] != "ok":
            raise common.FrameworkError("graph_check failed: " + co[1])
        if not co[1]["valid_order"]:
            ctx.violation("execution order rejected by the model's validOrder", c, observed=im[1], obligation=ob)
            continue
        ic, mc = co[1]["canon"], mo[1]
        if any(ic[key] != mc[key] for key in ("nodes", "edges", "entries", "exits")):
            # which one is wrong w.r.t. the property? edges of the expression are defined by the model's
            # theorems (link = outputs x inputs); report the first difference
            diff = {key: {"model": mc[key], "impl": ic[key]} for key in ("nodes", "edges", "entries", "exits") if ic[key] != mc[key]}
            ctx.violation("the graph built by the implementation differs (up to Concat names) from the one "
                          "defined by the link/merge algebra", c, expected=mc, observed=ic, obligation=ob,
                          extra={"diff": diff})
            continue
        dups = eff_dups(im[1])
        if dups:
            report_dups(ctx, c, dups, canon_dups(mc), ob)


def all_digraphs(n):
    pairs = [(a, b) for a in range(n) for b in range(n)]
    for mask in range(1 << len(pairs)):
        yield [list(p) for i, p in enumerate(pairs) if mask >> i & 1]


def run(ctx):
    ctx.notes["rule"] = ("exhaustive: every labelled digraph with self-loops on 1..3 nodes (quick) / ..4 nodes (thorough) through Model(nodes, edges); "
                         "random digraphs on 5-8 nodes; random expressions (depth<=4) over nodes, lists, explicit models with >>, &, &=, link; straight-line programs with shared intermediate models (every variable re-inspected at the end); "
                         "associativity / commutativity / idempotence triples. Every case is distinct and counts as non-trivial")
    g = ctx.gen
    cases = common.load_corpus("C03")
    nmax = 4 if ctx.tier == "thorough" else 3
    for n in range(1, nmax + 1):
        for es in all_digraphs(n):
            cases.append({"stream": f"exhaustive_n{n}", "expr": ["model", list(range(n)), es],
                          "raw": [list(range(n)), [tuple(e) for e in es]]})
    ctx.notes["exhaustive_part"] = f"all digraphs on <= {nmax} nodes"
    for _ in range(ctx.n(200, 3000)):
        n = g.randint(5, 8)
        p = g.choice([0.1, 0.15, 0.25])
        order = list(range(n))
        g.shuffle(order)
        es = []
        for i in range(n):
            for j in range(n):
                if i != j and g.chance(p):
                    a, b = order[i], order[j]
                    if g.chance(0.85) and i > j:
                        a, b = b, a       # mostly forward edges so that many graphs are acyclic
                    if [a, b] not in es:
                        es.append([a, b])
        cases.append({"stream": "random_digraph", "expr": ["model", list(range(n)), es],
                      "raw": [list(range(n)), [tuple(e) for e in es]]})
    for _ in range(ctx.n(300, 4000)):
        e = gen_expr(g, 4, 6)
        while e[0] in ("node", "list"):
            e = gen_expr(g, 4, 6)
        cases.append({"stream": "expression", "expr": e})
    # algebraic laws as pairs of expressions evaluated separately (each compared with the model, and the
    # model's canonical forms are equal by the theorems on raw sets + correspondence)
    for _ in range(ctx.n(60, 600)):
        a, b, c = (gen_expr(g, 2, 6) for _ in range(3))
        if a[0] == "list":
            a = ["node", 0]
        for e in (["&", a, b], ["&", b, a], ["&", a, a], ["&", ["&", a, b], c], ["&", a, ["&", b, c]],
                  [">>", [">>", a, b], c], [">>", a, [">>", b, c]]):
            cases.append({"stream": "laws", "expr": e})
    # the same kinds of cases over nodes whose names collide under concatenation; colliding edge pairs
    # (0->3, 1->2, 4->5, 6->7, 7->6) are planted in half of the random digraphs
    for _ in range(ctx.n(150, 1500)):
        n = 8
        es = []
        if g.chance(0.5):
            es += g.sample([[0, 3], [1, 2], [4, 5]], 2)
        if g.chance(0.25):
            es += [[6, 7], [7, 6]] if g.chance(0.5) else [[6, 7]]
        for _e in range(g.randint(0, 4)):
            a, b = g.randint(0, n - 1), g.randint(0, n - 1)
            if a != b and [a, b] not in es:
                es.append([min(a, b), max(a, b)] if g.chance(0.8) else [a, b])
        es = [list(x) for x in {tuple(e) for e in es}]
        used = sorted({v for e in es for v in e}) or [0]
        cases.append({"stream": "random_digraph_names", "names": "B", "expr": ["model", used, es], "raw": [used, [tuple(e) for e in es]]})
    for _ in range(ctx.n(100, 1000)):
        e = gen_expr(g, 4, 8)
        while e[0] in ("node", "list"):
            e = gen_expr(g, 4, 8)
        cases.append({"stream": "expression_names", "names": "B", "expr": e})
    # planted shapes the random grammar reaches too rarely:
    #  * a Model operand (with edges of its own) facing a list, or inside a list, so that it takes part in several
    #    (left, right) pairs of ONE link;
    #  * an in-place merge that brings a further predecessor to a node which already has one (or several) in the
    #    model being extended: `m = x >> c; m &= y >> c` must insert / rebuild the Concat exactly as `&` does
    for _ in range(ctx.n(60, 600)):
        ids = g.sample(range(6), 6)
        a, b, c_, d, e_, f = (["node", i] for i in ids)
        chain = lambda *xs: xs[0] if len(xs) == 1 else [">>", chain(*xs[:-1]), xs[-1]]  # noqa: E731
        shape = g.randint(0, 7)
        if shape == 0:
            ex_ = [g.choice([">>", "link"]), chain(a, b), ["list", c_, d]]
        elif shape == 1:
            ex_ = [g.choice([">>", "link"]), ["list", a, b], chain(c_, d)]
        elif shape == 2:
            ex_ = ["link", ["list", chain(a, b), c_], ["list", chain(d, e_), f]]
        elif shape == 3:
            ex_ = [">>", chain(a, b, c_), ["list", d, chain(e_, f)]]
        elif shape == 4:
            ex_ = ["&=", chain(a, c_), chain(b, c_)]
        elif shape == 5:
            ex_ = ["&=", ["&", chain(a, c_), chain(b, c_)], chain(d, c_)]
        elif shape == 6:
            ex_ = ["&=", chain(a, b, c_), ["&", chain(d, b), chain(e_, c_)]]
        else:
            ex_ = ["&=", ["&=", chain(a, c_, f), chain(b, c_)], [">>", ["list", d, e_], c_]]
        cases.append({"stream": "planted_shapes", "expr": ex_})
    corpus_progs = [c for c in cases if "stmts" in c]
    cases = [c for c in cases if "stmts" not in c]
    check_cases(ctx, cases)
    progs = corpus_progs + [{"stream": "program", "stmts": gen_prog(g, 6)} for _ in range(ctx.n(250, 3000))]
    for _ in range(ctx.n(40, 400)):
        ids = g.sample(range(6), 6)
        a, b, c_, d, e_, f = (["node", i] for i in ids)
        st = [["set", 0, [">>", a, c_]], ["iand", 0, [">>", b, c_]]]
        if g.chance(0.5):
            st.append(["iand", 0, [">>", d, g.choice([c_, a, b])]])
        if g.chance(0.5):
            st.append(["set", 1, [">>", ["var", 0], ["list", e_, f]]])
        progs.append({"stream": "program", "stmts": st})
    check_progs(ctx, progs)


def replay(ctx, data):
    common.quiet()
    if "stmts" in data["case"]:
        check_progs(ctx, [data["case"]])
    else:
        check_cases(ctx, [data["case"]])
