"""C06 — training a model equals the explicit node-by-node procedure. Offline: chains, deep models
(2-3 readouts), parallel readouts, input-to-readout shortcuts, teacher-forced feedback, the ESN
node; multi-sequence datasets, warm-up, targets as array or mapping. Online: Model.train with RLS /
LMS behind a reservoir, learn_every, inputs and targets as arrays or one-key mappings. Compared
(1e-9) with the exact explicit procedure computed by the Lean driver and with the explicit
procedure written with node-level calls on twin nodes."""
from fractions import Fraction

import numpy as np

from . import common, flow

LEVEL = "proof"
TRUSTED = [
    "models: lean/RpyModel/Stages.lean (staging of Model.fit), Dataflow.lean, Readout.lean, Online.lean; the driver's explicit node-by-node procedure (lean/RpyModel/Drv/C06.lean) is glue over those definitions",
    "theorems: lean/RpyProofs/Props/C06.lean (staging invariants for every DAG: each readout trained once, after all its ancestors were run, never fed by an unfitted readout; step-by-step run = node-by-node run for feed-forward models; Model.train = gated per-step loop, outputs before update; array = mapping)",
    "carried by correspondence only: that the staged fit as a whole equals the explicit procedure (the composition C06_fit_refines_explicit is not proved)",
    "tolerance 1e-9 relative on small well-conditioned problems",
]

K2 = "K2"


# ----------------------------------------------------------------------------- offline fit

def ridge_desc(g, in_dim, out_dim):
    return {"kind": "ridge", "in_dim": in_dim, "out_dim": out_dim, "ridge": g.choice([0.25, 0.5, 1.0, 2.0]),
            "bias": g.chance(0.6)}


def res_desc(g, in_dim):
    d = flow.gen_node(g, "reservoir", in_dim)
    d["out_dim"] = max(d["out_dim"], 2)
    n = d["out_dim"]
    d["W"] = g.dymat(n, n, density=0.7, a=2, k=3)
    d["Win"] = g.dymat(n, in_dim, a=2, k=4)
    d["bias"] = g.dyvec(n, a=2, k=4)
    return d


def gen_fit_case(g, force=None):
    topo = "deep" if force == "grown" else g.choice(["chain", "chain", "deep", "deep3", "parallel", "shortcut", "esn", "esn", "chain_fb", "deep_fb",
                     "dag", "dag", "dag"])
    d_in = g.randint(1, 3)
    inp = {"kind": "input", "in_dim": d_in, "out_dim": d_in, "ext_dim": d_in}
    descs, edges, fb = [inp], [], {}
    if topo in ("chain", "chain_fb", "esn"):
        r = res_desc(g, d_in)
        o = g.randint(1, 2)
        descs += [r, ridge_desc(g, r["out_dim"], o)]
        edges = [(0, 1), (1, 2)]
        if topo == "chain_fb" or (topo == "esn" and g.chance(0.4)):
            flow.add_feedback(g, descs[1], o)
            fb = {1: 2}
    elif topo in ("deep", "deep3", "deep_fb"):
        cur, ci = d_in, 0
        for _ in range(3 if topo == "deep3" else 2):
            r = res_desc(g, cur)
            descs.append(r)
            edges.append((ci, len(descs) - 1))
            o = g.randint(1, 2)
            descs.append(ridge_desc(g, r["out_dim"], o))
            edges.append((len(descs) - 2, len(descs) - 1))
            cur, ci = o, len(descs) - 1
        if topo == "deep_fb":
            # the first reservoir receives feedback from the LAST readout (fitted in a later stage)
            last = len(descs) - 1
            flow.add_feedback(g, descs[1], descs[last]["out_dim"])
            fb = {1: last}
    elif topo == "parallel":
        r = res_desc(g, d_in)
        descs.append(r)
        edges.append((0, 1))
        for _ in range(2):
            descs.append(ridge_desc(g, r["out_dim"], g.randint(1, 2)))
            edges.append((1, len(descs) - 1))
    elif topo == "dag":
        # a random acyclic topology: every new node (reservoir or readout) listens to one to three earlier nodes, so
        # readouts feed later reservoirs and readouts, and shortcuts skip one or several training stages
        n_new = g.randint(3, 6)
        for v in range(1, n_new + 1):
            ps = sorted(g.sample(range(v), min(v, g.choice([1, 1, 2, 2, 3]))))
            if g.chance(0.5) and (v - 1) not in ps:
                ps = sorted(ps[:-1] + [v - 1])          # mostly a backbone, so that stages pile up
            in_dim = sum(descs[p_]["out_dim"] for p_ in ps)
            last_is_ridge = descs[-1]["kind"] == "ridge"
            if (g.chance(0.45) and not (v == 1)) or (v == n_new and not any(d["kind"] == "ridge" for d in descs)):
                descs.append(ridge_desc(g, in_dim, g.randint(1, 2)))
            else:
                descs.append(res_desc(g, in_dim))
            edges += [(p_, v) for p_ in ps]
    else:   # shortcut: input -> readout and reservoir -> readout (a Concat is inserted)
        r = res_desc(g, d_in)
        descs += [r, ridge_desc(g, r["out_dim"] + d_in, g.randint(1, 2))]
        edges = [(0, 1), (1, 2), (0, 2)]
    nseq = 1 if force == "grown" else g.randint(1, 3)
    lens = [g.randint(3, 8) for _ in range(nseq)]
    c = {"kind": "fit", "topo": topo, "descs": descs, "edges": edges, "fb": {str(k): v for k, v in fb.items()},
         "lens": lens, "warmup": g.randint(0, min(2, min(lens) - 1)), "seed": g.randint(0, 10 ** 9),
         "container": g.choice(["list", "3d"]) if nseq > 1 else "2d",
         "targets_as": g.choice(["array", "mapping"]), "refit": (topo == "esn" or nseq == 1) and g.chance(0.5),
         "failed_between": g.choice([None, None, "short", "nan"]) if (topo == "esn" or nseq == 1) else None,
         "force_teachers": not (topo in ("chain", "chain_fb") and g.chance(0.25))}
    if c["container"] == "3d":
        c["lens"] = [lens[0]] * nseq
        c["warmup"] = min(c["warmup"], lens[0] - 1)
    if topo != "esn" and not c["refit"] and not c["failed_between"] and not fb and g.chance(0.3):
        c["stateful"] = False
    if topo == "deep" and nseq == 1 and (force == "grown" or g.chance(0.35)):
        # the model is first built and fitted WITHOUT its second half, then extended in place (m &= o1 >> r2 >> o2) and
        # fitted again: the second fit must stage the graph the model has now
        c["grown"] = True
        c["refit"], c["failed_between"] = False, None
        c.pop("stateful", None)
        c["targets_as"] = "mapping"
    if (c["refit"] or c["failed_between"] or c.get("stateful") is False or c.get("grown")) and topo != "esn":
        # an earlier fit leaves the external equation's internal_state behind, which no reset clears (finding K4 of
        # C08): histories are generated for the internal equation only
        for d in descs:
            if d["kind"] == "reservoir":
                d["eq"] = "internal"
    return c


def make(d, name):
    return flow.make_node(d, name)


class FitBuilt(flow.Built):
    """flow.Built with trainable Ridge nodes"""
    pass


def build_fit(c):
    from reservoirpy.model import Model
    import reservoirpy.nodes as N
    fb = {int(k): v for k, v in c["fb"].items()}
    try:
        if c["topo"] == "esn":
            names = [flow.fresh("n") for _ in c["descs"]]
            res = make(c["descs"][1], names[1])
            ro = make(c["descs"][2], names[2])
            esn = N.ESN(reservoir=res, readout=ro, feedback=bool(fb), workers=1)
            return ("esn", esn, res, ro)
        b = flow.Built(c["descs"], [tuple(e) for e in c["edges"]], fb_links=fb)
        return ("model", b)
    finally:
        pass


def fit_data(c, dims_in, ridge_dims):
    g = common.Gen(c["seed"])
    X = [flow.seq_rows(g, L, dims_in) for L in c["lens"]]
    Y = {ri: [flow.seq_rows(g, L, o, a=2, k=8) for L in c["lens"]] for ri, o in ridge_dims.items()}
    return X, Y


def pack(seqs, container):
    arrs = [np.array(s, dtype=float).reshape(len(s), -1) for s in seqs]
    if container == "2d":
        return arrs[0]
    if container == "3d":
        return np.stack(arrs)
    return arrs


def order_parents(edges, n, names=None):
    """predecessors of each node in the order the library delivers them: by predecessor name followed by the
    name of the inserted Concat ("C…"); without names, by index (fixed-width increasing names)"""
    key = (lambda a: a) if names is None else (lambda a: names[a] + "C")
    return [sorted((a for a, b in edges if b == v), key=key) for v in range(n)]


def explicit_python(c, X, Y, names=None, parents_override=None):
    """the explicit procedure with node-level calls only, on fresh twin nodes (`parents_override`: the operand order of
    some fan-in nodes replaced - used to evaluate what the routing model PREDICTS for finding K20)"""
    from reservoirpy.nodes import Input as RInput
    descs = c["descs"]
    edges = [tuple(e) for e in c["edges"]]
    fb = {int(k): v for k, v in c["fb"].items()}
    n = len(descs)
    parents = dict(enumerate(order_parents(edges, n, names)))
    parents.update(parents_override or {})
    outs = {v: [None] * len(X) for v in range(n)}
    W = {}
    reset_each = c["topo"] == "esn" or c.get("stateful") is False
    for v in range(n):          # descriptors are in topological order
        d = descs[v]
        ins = []
        for s in range(len(X)):
            parts = [outs[p][s] for p in parents[v]]
            if d.get("ext_dim"):
                parts.append(np.array(X[s], dtype=float))
            ins.append(np.concatenate(parts, axis=1) if len(parts) > 1 else parts[0])
        node = make(d, flow.fresh("e"))
        if d["kind"] == "ridge":
            ys = [np.array(Y[v][s], dtype=float) for s in range(len(X))]
            node.fit(ins if len(ins) > 1 else ins[0], ys if len(ys) > 1 else ys[0], warmup=c["warmup"])
            W[v] = np.vstack([np.asarray(node.bias).reshape(1, -1), np.asarray(node.Wout)]) if d["bias"] else np.asarray(node.Wout)
            outs[v] = [np.asarray(node.run(i_), dtype=float) for i_ in ins]
        elif v in fb:
            stub = RInput(input_dim=d["k"], name=flow.fresh("stub"))
            node <<= stub
            for s in range(len(X)):
                rows = []
                if reset_each and node.is_initialized:
                    # "reset the reservoir" = a fresh reservoir with the same weights (hidden memory included,
                    # see finding K4 of C08: reset() alone keeps internal_state)
                    node = make(d, flow.fresh("e"))
                    stub = RInput(input_dim=d["k"], name=flow.fresh("stub"))
                    node <<= stub
                for t in range(len(ins[s])):
                    fbv = (np.zeros((1, d["k"])) if (t == 0 or not c.get("force_teachers", True))
                           else np.array(Y[fb[v]][s][t - 1], dtype=float).reshape(1, -1))
                    stub.call(fbv)
                    if not node.is_initialized:
                        node.initialize(ins[s][t:t + 1])
                        node.initialize_feedback()
                    rows.append(np.asarray(node.call(ins[s][t:t + 1]), dtype=float).reshape(1, -1))
                outs[v][s] = np.vstack(rows)
        else:
            for s in range(len(X)):
                if reset_each and node.is_initialized:
                    node = make(d, flow.fresh("e"))
                outs[v][s] = np.asarray(node.run(ins[s]), dtype=float)
    return W



K20, K21, K22 = "K20", "K21", "K22"
CUT_EDGE_FINDINGS = {
    K21: "a fan-in node receives a predecessor that was run two or more training stages earlier: its states are not "
         "forwarded (relations only link consecutive stages) and Model.fit raises / fits on the remaining inputs",
    K22: "a fan-in node receives two or more predecessors run in an earlier stage: dist_states_to_next_subgraph keeps "
         "one of them (single-child senders overwrite each other) and Model.fit raises",
    K20: "a fan-in node receives one predecessor from the previous training stage and the others from its own stage: "
         "DataDispatcher.load appends the forwarded states AFTER the others instead of at the predecessor's operand "
         "position, so the readout behind it is fitted on permuted features and the fitted model predicts with the "
         "features in the other order",
}


def cut_edge_signature(ctx, model):
    """Which of the recorded defects of the staged fit's data routing this model runs into, according to the MODEL of that
    routing (lean/RpyModel/Stages.lean: routeFaults, driver kind stages) evaluated on the model's own graph - concatenation
    nodes included, predecessors in operand order: returns a finding id or None"""
    from reservoirpy.utils.graphflow import find_parents_and_children
    ids = {nd: i for i, nd in enumerate(model.nodes)}
    par, _ = find_parents_and_children(model.edges)
    parents = [[ids[p_] for p_ in par.get(nd, [])] for nd in model.nodes]
    mo = ctx.model.one({"kind": "stages", "regime": "E", "nodes": list(range(len(ids))), "parents": parents,
                        "exits": sorted(ids[nd] for nd in model.output_nodes),
                        "offline": sorted(ids[nd] for nd in model.nodes if nd.is_trained_offline)})
    if mo[0] != "ok":
        raise common.FrameworkError("model driver error (stages): " + str(mo[1]))
    kinds = {f["kind"] for f in mo[1]["route_faults"]}
    cut_edge_signature.delivered = {}
    if kinds == {"order"}:
        # what the model says each permuted fan-in receives, in user-level indices: {consumer behind the Concat: operands}
        back = {i: nd for nd, i in ids.items()}
        children = {}
        for a_, b_ in model.edges:
            children.setdefault(a_, []).append(b_)
        got = {c_: l_ for c_, l_ in mo[1]["delivered"]}
        for f in mo[1]["route_faults"]:
            cn = back[f["node"]]
            cut_edge_signature.delivered[children[cn][0]] = [back[i] for i in got[f["node"]]]
    for kind, fid in (("missing", K21), ("overwrite", K22), ("order", K20)):
        if kind in kinds:
            return fid
    return None


def report_fit_failure(ctx, c, model, what, **kw):
    """a fit that crashed or disagrees with the explicit procedure: a recorded finding when the routing model says the
    topology runs into one of the routing defects, a violation otherwise"""
    sig = cut_edge_signature(ctx, model) if (c["topo"] == "dag" and model is not None) else None
    if sig is not None and sig in common.open_findings("C06"):
        ctx.known(sig, CUT_EDGE_FINDINGS[sig])
        ctx.stat(f"dag fit attributed to {sig}")
    else:
        ctx.violation(what, c, **kw)


def check_fit(ctx, c):
    ob = "fit/" + c["topo"]
    descs = c["descs"]
    ridge_idx = [i for i, d in enumerate(descs) if d["kind"] == "ridge"]
    ridge_dims = {i: descs[i]["out_dim"] for i in ridge_idx}
    X, Y = fit_data(c, descs[0]["in_dim"], ridge_dims)
    try:
        built = build_fit(c)
    except Exception as e:  # noqa
        ctx.violation(f"building the model raised {type(e).__name__}: {e}", c, obligation=ob)
        return
    Xarg = pack(X, c["container"])
    model0 = built[1].model if built[0] == "model" else None
    try:
        if built[0] == "esn":
            _, esn, res, ro = built
            Yarg = pack(Y[ridge_idx[0]], c["container"])
            if c.get("refit"):
                # an earlier, completed fit on other data must not influence this one
                c0 = dict(c, seed=c["seed"] + 17)
                X0, Y0 = fit_data(c0, descs[0]["in_dim"], ridge_dims)
                esn.fit(pack(X0, c["container"]), pack(Y0[ridge_idx[0]], c["container"]), warmup=c["warmup"])
                # ... and the fitted node has been USED since (stepped by calls: its reservoir and readout hold non-null
                # states when the next fit starts; every training sequence nevertheless starts from null states, the
                # feedback heard at its first step included)
                # (internal equation only: the external equation's internal_state survives every reset - finding K4 of C08)
                if descs[1].get("eq") == "internal":
                    for t in range(min(3, len(X0[0]))):
                        esn(np.array(X0[0][t], dtype=float).reshape(1, -1))
            if c.get("failed_between"):
                # ... nor a fit that FAILED (while accumulating: a sequence too short for the warm-up; or in the final
                # solve: a NaN target), with or without a completed fit before it
                c1 = dict(c, seed=c["seed"] + 29, lens=[6, 6, 6])
                X1, Y1 = fit_data(c1, descs[0]["in_dim"], ridge_dims)
                Y1 = [np.array(y, dtype=float) for y in Y1[ridge_idx[0]]]
                X1 = [np.array(x, dtype=float) for x in X1]
                if c["failed_between"] == "short":
                    X1[-1], Y1[-1] = X1[-1][:1], Y1[-1][:1]
                    wb = 3
                else:
                    Y1[1][2, 0] = np.nan
                    wb = 0
                try:
                    esn.fit(X1, Y1, warmup=wb)
                except Exception:  # noqa
                    pass
            esn.fit(Xarg, Yarg, warmup=c["warmup"])
            readouts = {ridge_idx[0]: ro}
        else:
            b = built[1]
            if c["targets_as"] == "array" and len(ridge_idx) == 1:
                Yarg = pack(Y[ridge_idx[0]], c["container"])
            else:
                Yarg = {b.nodes[i].name: pack(Y[i], c["container"]) for i in ridge_idx}
            kw = {}
            if not c.get("force_teachers", True):
                kw["force_teachers"] = False
            if c.get("stateful") is False:
                # a non-stateful fit: every sequence starts from the state the model had before the fit (zero for this
                # fresh model) and the states are restored afterwards
                kw["stateful"] = False
            if c.get("refit") or c.get("failed_between"):
                # (single-sequence cases only: the final fit then starts from reset states, like the explicit procedure)
                def named(Ys):
                    if c["targets_as"] == "array" and len(ridge_idx) == 1:
                        return Ys[ridge_idx[0]]
                    return {b.nodes[i].name: Ys[i] for i in ridge_idx}
                if c.get("refit"):
                    c0 = dict(c, seed=c["seed"] + 17)
                    X0, Y0 = fit_data(c0, descs[0]["in_dim"], ridge_dims)
                    b.model.fit(pack(X0, c["container"]), {k_: pack(v, c["container"]) for k_, v in named(Y0).items()}
                                if isinstance(named(Y0), dict) else pack(named(Y0), c["container"]), warmup=c["warmup"], **kw)
                if c.get("failed_between"):
                    c1 = dict(c, seed=c["seed"] + 29, lens=[6, 6, 6])
                    X1, Y1 = fit_data(c1, descs[0]["in_dim"], ridge_dims)
                    X1 = [np.array(x, dtype=float) for x in X1]
                    Y1 = {i: [np.array(y, dtype=float) for y in Y1[i]] for i in ridge_idx}
                    if c["failed_between"] == "short":
                        X1[-1] = X1[-1][:1]
                        for i in ridge_idx:
                            Y1[i][-1] = Y1[i][-1][:1]
                        wb = 3
                    else:
                        Y1[ridge_idx[-1]][1][2, 0] = np.nan
                        wb = 0
                    try:
                        b.model.fit(X1, named(Y1), warmup=wb, **kw)
                    except Exception:  # noqa
                        pass
                kw["reset"] = True
            if c.get("grown"):
                from reservoirpy.model import Model
                nd = b.nodes
                c0 = dict(c, seed=c["seed"] + 17)
                X0, Y0 = fit_data(c0, descs[0]["in_dim"], ridge_dims)
                part = Model(nodes=nd[:3], edges=[(nd[0], nd[1]), (nd[1], nd[2])])
                part.fit(pack(X0, c["container"]), {nd[2].name: pack(Y0[2], c["container"])}, warmup=c["warmup"])
                part &= (nd[2] >> nd[3] >> nd[4])
                part.fit(Xarg, Yarg, warmup=c["warmup"], reset=True)
            else:
                b.model.fit(Xarg, Yarg, warmup=c["warmup"], **kw)
            readouts = {i: b.nodes[i] for i in ridge_idx}
    except Exception as e:  # noqa
        report_fit_failure(ctx, c, model0, f"fit raised {type(e).__name__}: {e} on a valid dataset", obligation=ob)
        return
    impl_W = {}
    for i, ro in readouts.items():
        impl_W[i] = (np.vstack([np.asarray(ro.bias).reshape(1, -1), np.asarray(ro.Wout)]) if descs[i]["bias"]
                     else np.asarray(ro.Wout))
    # ---- explicit procedure, python twins
    try:
        names = built[1].names if built[0] == "model" else None
        W_py = explicit_python(c, X, Y, names)
    except Exception as e:  # noqa
        raise common.FrameworkError(f"explicit procedure (python) failed: {type(e).__name__}: {e}")
    # ---- explicit procedure, exact (driver)
    n = len(descs)
    edges = [tuple(e) for e in c["edges"]]
    parents = order_parents(edges, n, names)
    fbl = [None] * n
    for k, v in c["fb"].items():
        fbl[int(k)] = v
    dn = []
    for d in descs:
        if d["kind"] == "ridge":
            dn.append({"kind": "ridge", "in_dim": d["in_dim"], "out_dim": d["out_dim"], "ridge": flow.q(d["ridge"]), "bias": d["bias"]})
        else:
            x = flow.driver_node(d)
            x["mem0"] = flow.qmat(flow.init_mem(d))
            dn.append(x)
    mcase = {"kind": "explicit_fit", "regime": "E", "nodes": dn, "order": list(range(n)), "parents": parents, "fb": fbl,
             "warmup": c["warmup"], "reset_each_sequence": c["topo"] == "esn" or c.get("stateful") is False, "force_teachers": c.get("force_teachers", True),
             "seqs": [{"X": {"0": flow.qmat(X[s])}, "Y": {str(i): flow.qmat(Y[i][s]) for i in ridge_idx}} for s in range(len(X))]}
    mo = ctx.model.one(mcase)
    if mo[0] != "ok":
        raise common.FrameworkError("model rejected a C06 fit case: " + mo[1])
    ctx.count(c, nontrivial=len(ridge_idx) >= 1 and sum(c["lens"]) - c["warmup"] * len(c["lens"]) >= 2, obligation=ob)
    if c["topo"] == "dag" and model0 is not None:
        ctx.stat("dag fit completed; routing model predicts " + (cut_edge_signature(ctx, model0) or "no fault"))
    if c.get("grown"):
        ctx.stat("fit of a model grown in place after an earlier fit")
    ctx.stat(f"force_teachers={c.get('force_teachers', True)} refit={bool(c.get('refit'))} failed_between={c.get('failed_between')} stateful={c.get('stateful', True)}")
    ctx.stat(f"fit topo={c['topo']} nseq={len(c['lens'])} warmup={c['warmup']} targets={c['targets_as']} container={c['container']} fb={bool(c['fb'])}")
    ctx.sample({k: c[k] for k in ("topo", "lens", "warmup", "container", "targets_as", "fb")})
    for i in ridge_idx:
        ex = [[Fraction(v) for v in row] for row in mo[1]["W"][str(i)]]
        scale = max([1] + [abs(v) for row in ex for v in row])
        got = impl_W[i]
        py = W_py[i]
        bad_py = got.shape != py.shape or not np.allclose(got, py, rtol=1e-9, atol=1e-9 * float(scale))
        bad_m = None
        for a in range(len(ex)):
            for b_ in range(len(ex[0])):
                if abs(Fraction(float(got[a][b_])) - ex[a][b_]) > Fraction(1, 10 ** 9) * scale:
                    bad_m = (a, b_, float(ex[a][b_]), float(got[a][b_]))
        if bad_py and c["topo"] == "dag" and model0 is not None and cut_edge_signature(ctx, model0) == K20 \
                and cut_edge_signature.delivered and K20 in common.open_findings("C06"):
            # only permuted fan-ins: the routing model predicts not just THAT the fit is wrong but WHAT it is - the explicit
            # procedure with those fan-ins concatenated in the delivered order (C06_permuted_fit: the optimum for the permuted
            # features). Anything else is a violation.
            b_ = built[1]
            ov = {b_.nodes.index(v_): [b_.nodes.index(p_) for p_ in ps_] for v_, ps_ in cut_edge_signature.delivered.items()
                  if v_ in b_.nodes and all(p_ in b_.nodes for p_ in ps_)}
            W_pred = explicit_python(c, X, Y, names, parents_override=ov)
            if all(impl_W[j].shape == W_pred[j].shape and np.allclose(impl_W[j], W_pred[j], rtol=1e-9, atol=1e-9) for j in ridge_idx):
                ctx.known(K20, CUT_EDGE_FINDINGS[K20])
                ctx.stat("dag fit attributed to K20: every readout equals the fit on the features in the order the routing model predicts")
                return
            ctx.violation(f"fit ({c['topo']}): readout {i} is neither the explicit procedure's nor the one the routing model predicts "
                          "for this topology (finding K20: fan-in operands in delivered order)", c, obligation=ob)
            return
        if bad_py:
            report_fit_failure(ctx, c, model0,
                               f"fit ({c['topo']}): readout {i} does not get the parameters of the explicit node-by-node procedure "
                               "(run the upstream nodes over the data, fit on their outputs with the same targets and warm-up, feed predictions on)",
                               expected=py.tolist(), observed=got.tolist(), obligation=ob)
            return
        if bad_m is not None:
            ctx.violation(f"fit ({c['topo']}): readout {i} entry {bad_m[:2]} = {bad_m[3]!r} differs from the exact explicit procedure "
                          f"{bad_m[2]!r} computed by the Lean driver; the python explicit procedure agrees with the implementation",
                          c, found_input=False, obligation=ob)
            return


# ----------------------------------------------------------------------------- online training

def gen_train_case(g):
    d_in = g.randint(1, 3)
    r = res_desc(g, d_in)
    T = g.randint(2, 12)
    return {"kind": "train", "res": r, "d_in": d_in, "o": g.randint(1, 2), "rule": g.choice(["rls", "lms", "force_rls"]),
            "alpha": g.choice([0.5, 1.0]), "bias": g.chance(0.5), "learn_every": g.choice([1, 2, 3]),
            "x_as": g.choice(["array", "mapping"]), "y_as": g.choice(["array", "mapping"]),
            "X": flow.seq_rows(g, T, d_in), "Y": None, "T": T, "seed": g.randint(0, 10 ** 9)}


def make_online(c, name=None):
    from reservoirpy.nodes import RLS, LMS, FORCE
    kw = {"name": name} if name else {}
    if c["rule"] == "rls":
        return RLS(alpha=c["alpha"], input_bias=c["bias"], **kw)
    if c["rule"] == "lms":
        return LMS(alpha=c["alpha"] / 16, input_bias=c["bias"], **kw)
    return FORCE(alpha=c["alpha"], rule="rls", input_bias=c["bias"], **kw)


def check_train(ctx, c):
    ob = "train/" + c["rule"]
    g = common.Gen(c["seed"])
    X = np.array(c["X"], dtype=float)
    Y = np.array(flow.seq_rows(g, c["T"], c["o"], a=2, k=8), dtype=float)
    res = flow.make_node(c["res"], flow.fresh("t"))
    ro = make_online(c, flow.fresh("t"))
    m = res >> ro
    Xarg = X if c["x_as"] == "array" else {res.name: X}
    Yarg = Y if c["y_as"] == "array" else {ro.name: Y}
    # the training may come in two successive train() calls (cut at a multiple of learn_every, both pieces longer than one
    # step): the second call carries on from the states the first one left, as the explicit loop does
    k_ = c["learn_every"]
    cut = None
    if c["seed"] % 3 == 0 and c["T"] >= 2 * max(2, k_):
        cut = k_ * max(1, (c["T"] // 2) // k_)
        if cut < 2 or c["T"] - cut < 2:
            cut = None
    try:
        if cut is not None:
            sl = lambda a, lo, hi: ({n_: v[lo:hi] for n_, v in a.items()} if isinstance(a, dict) else a[lo:hi])  # noqa: E731
            o1 = np.asarray(m.train(sl(Xarg, 0, cut), sl(Yarg, 0, cut), learn_every=k_), dtype=float)
            o2 = np.asarray(m.train(sl(Xarg, cut, c["T"]), sl(Yarg, cut, c["T"]), learn_every=k_), dtype=float)
            out = np.vstack([o1.reshape(cut, -1), o2.reshape(c["T"] - cut, -1)])
        else:
            out = np.asarray(m.train(Xarg, Yarg, learn_every=c["learn_every"]), dtype=float)
    except Exception as e:  # noqa
        ctx.violation(f"Model.train raised {type(e).__name__}: {e}", c, obligation=ob)
        return
    # explicit loop on twins, node-level calls only
    res2 = flow.make_node(c["res"], flow.fresh("t"))
    ro2 = make_online(c, flow.fresh("t"))
    preds = []
    if cut is not None:
        ctx.stat("training in two successive train() calls")
    for t in range(c["T"]):
        s = res2.call(X[t:t + 1])
        if t % c["learn_every"] == 0 or c["T"] == 1:
            p = ro2.train(s, Y[t:t + 1])         # a one-step train call always learns; returns the pre-update prediction
        else:
            if not ro2.is_initialized:
                ro2.initialize(s, Y[t:t + 1])
            p = ro2.call(s)
        preds.append(np.asarray(p, dtype=float).reshape(1, -1))
    preds = np.vstack(preds)
    ctx.count(c, nontrivial=c["T"] >= 3, obligation=ob)
    ctx.stat(f"train rule={c['rule']} k={c['learn_every']} x={c['x_as']} y={c['y_as']}")
    ctx.sample({k: c[k] for k in ("rule", "learn_every", "x_as", "y_as", "T", "bias")})
    for name in ("Wout", "bias"):
        a, b = np.asarray(getattr(ro, name), dtype=float), np.asarray(getattr(ro2, name), dtype=float)
        if a.shape != b.shape or not np.allclose(a, b, rtol=1e-9, atol=1e-12):
            ctx.violation(f"Model.train (learn_every={c['learn_every']}, inputs as {c['x_as']}, targets as {c['y_as']}) leaves a different "
                          f"{name} than the explicit per-timestep loop (call the reservoir, then train the readout on that step when "
                          "t % learn_every == 0)", c, expected=b.tolist(), observed=a.tolist(), obligation=ob)
            return
    if out.shape != preds.shape or not np.allclose(out, preds, rtol=1e-9, atol=1e-12):
        ctx.violation("Model.train outputs are not the predictions made before each step's update", c,
                      expected=preds.tolist(), observed=out.tolist(), obligation=ob)


def esn_raw_inputs_witness(ctx):
    """finding K2"""
    from reservoirpy.nodes import ESN
    common.quiet()
    c = {"kind": "esn_raw_inputs"}
    g = common.Gen(1)
    X = np.array(flow.seq_rows(g, 6, 2), dtype=float)
    Y = np.array(flow.seq_rows(g, 6, 1), dtype=float)
    ctx.count(c, nontrivial=True, obligation="esn_raw_inputs")
    r = common.exc_class(lambda: ESN(units=4, ridge=0.5, seed=1, use_raw_inputs=True).fit(X, Y))
    if r[0] != "ok":
        if K2 in common.open_findings("C06"):
            ctx.known(K2, f"ESN(use_raw_inputs=True).fit raises {r[1]} (the input-to-readout shortcut of the ESN node is not wired into its fit)")
        else:
            ctx.violation(f"ESN(use_raw_inputs=True).fit raises {r[1]}", c, obligation="esn_raw_inputs")



# ----------------------------------------------------------------------------- the staging alone

def gen_stage_case(g):
    """a random DAG of forward nodes, offline readouts (some frozen), online readouts and - rarely - a hand-made
    node that carries both an offline and an online rule"""
    n = g.randint(2, 9)
    pool = ["fwd", "fwd", "fwd", "ridge", "ridge", "ridge", "rls", "frozen"]
    kinds = [g.choice(pool) for _ in range(n)]
    if g.chance(0.12):
        kinds[g.randint(0, n - 1)] = "both"
    order = list(range(n))
    g.shuffle(order)
    p = g.choice([0.2, 0.35, 0.5])
    edges = [[order[i], order[j]] for i in range(n) for j in range(i + 1, n) if g.chance(p)]
    if not edges:
        edges = [[order[0], order[1]]]
    return {"kind": "stages", "kinds": kinds, "edges": edges}


class _Alarm(Exception):
    pass


def _with_alarm(seconds, fn, *a):
    import signal

    def h(signum, frame):
        raise _Alarm()
    old = signal.signal(signal.SIGALRM, h)
    signal.setitimer(signal.ITIMER_REAL, seconds)
    try:
        return fn(*a)
    finally:
        signal.setitimer(signal.ITIMER_REAL, 0)
        signal.signal(signal.SIGALRM, old)


def check_stages(ctx, c):
    """`get_offline_subgraphs` on the node list and edges of a real Model vs the staging model (lean/RpyModel/Stages.lean):
    same stages, in the same visiting order; the Model's node list is parents-first (hypothesis of
    C06_staging_terminates); direct oracle: the loop ends, every offline node is trained in exactly one stage, after all
    its predecessors were run, and never more stages than offline nodes"""
    from reservoirpy.model import Model
    from reservoirpy.node import Node
    from reservoirpy.nodes import Ridge, RLS
    from reservoirpy.utils.graphflow import get_offline_subgraphs
    ob = "staging"
    ctx.stat("stream=staging")

    def mk(kind):
        name = flow.fresh("s")
        if kind == "ridge":
            return Ridge(output_dim=1, name=name)
        if kind == "frozen":
            r = Ridge(output_dim=1, name=name)
            r.is_trainable = False
            return r
        if kind == "rls":
            return RLS(output_dim=1, name=name)
        if kind == "both":
            return Node(forward=lambda nd, x: x, backward=lambda nd, X=None, Y=None: None,
                        train=lambda nd, x, y=None: None, name=name)
        return Node(forward=lambda nd, x: x, name=name)
    nodes = [mk(k) for k in c["kinds"]]
    model = Model(nodes, [(nodes[a], nodes[b]) for a, b in c["edges"]])
    ids = {nd: i for i, nd in enumerate(nodes)}
    for nd in model.nodes:
        if nd not in ids:
            ids[nd] = len(ids)      # inserted Concat nodes
    N = len(ids)
    parents = [[] for _ in range(N)]
    for a, b in model.edges:
        parents[ids[b]].append(ids[a])
    order = [ids[nd] for nd in model.nodes]
    offline = sorted(ids[nd] for nd in model.nodes if nd.is_trained_offline)
    n_off = len(offline)
    ctx.count(c, nontrivial=n_off >= 1 and len(model.edges) >= 2, obligation=ob)
    ctx.stat(f"offline_nodes={min(n_off, 4)}")
    if "both" in c["kinds"]:
        ctx.stat("node with an offline and an online rule")
    try:
        res = _with_alarm(5.0, get_offline_subgraphs, list(model.nodes), list(model.edges))
    except _Alarm:
        ctx.violation("the staging of Model.fit (get_offline_subgraphs) does not terminate on this model "
                      "(`while trained != offlines` never becomes false)", c, obligation=ob)
        return
    except IndexError:
        if n_off == 0:
            return      # nothing to fit: Model.fit rejects such a model before staging it
        ctx.violation("the staging of Model.fit (get_offline_subgraphs) raises IndexError on a model that has offline "
                      "nodes to fit (Model.fit accepts it: it fits every node with an offline rule)", c, obligation=ob)
        return
    stages = [[ids[nd] for nd in sub[0][0]] for sub in res]
    ctx.sample({"kinds": c["kinds"], "edges": c["edges"], "stages": stages})
    # direct oracle
    seen_trained, run_before = [], set()
    for st in stages:
        tr = [v for v in st if v in offline and v not in seen_trained]
        fw = [v for v in st if v not in tr]
        for v in tr:
            missing = [p for p in parents[v] if p not in run_before and p not in fw]
            if missing:
                ctx.violation(f"staging: node {v} is trained in a stage although its predecessors {missing} have not "
                              "been run yet", c, observed=stages, obligation=ob)
                return
        for v in fw:
            if v in offline and v not in seen_trained:
                ctx.violation(f"staging: offline node {v} is run forward before it was trained", c, observed=stages, obligation=ob)
                return
        seen_trained += tr
        run_before |= set(fw)
    if sorted(seen_trained) != offline or len(set(seen_trained)) != len(seen_trained):
        ctx.violation(f"staging: trained nodes {sorted(seen_trained)} are not exactly the offline nodes {offline}, each once",
                      c, observed=stages, obligation=ob)
        return
    if len(stages) > max(n_off, 0):
        ctx.violation(f"staging: {len(stages)} stages for {n_off} offline nodes (every stage must train at least one)",
                      c, observed=stages, obligation=ob)
        return
    exits = sorted(ids[nd] for nd in model.output_nodes)
    mo = ctx.model.batch([{"kind": "stages", "regime": "E", "nodes": order, "parents": parents, "exits": exits,
                           "offline": offline}])[0]
    if mo[0] != "ok":
        raise common.FrameworkError("model driver error on C06 stages: " + str(mo[1]))
    m = mo[1]
    if not m["topo"]:
        ctx.violation("the node list of a Model is not parents-first (hypothesis of C06_staging_terminates)", c,
                      observed={"order": order, "parents": parents}, obligation=ob)
        return
    if m["stages"] != stages or not m["all_trained"]:
        ctx.violation("the stages of get_offline_subgraphs differ from the staging model", c, expected=m["stages"],
                      observed=stages, found_input=False, obligation=ob)
        return
    # the relations between the stages (who hands its states to whom): the input of the routing model
    by_name = {nd.name: i for nd, i in ids.items()}
    rel_impl = [sorted([by_name[s_], sorted(by_name[x] for x in cs)] for s_, cs in sub[1].items()) for sub in res]
    rel_model = [sorted([n_, sorted(cs)] for n_, cs in rel) for rel in m["required"]]
    if rel_impl != rel_model:
        ctx.violation("the relations between the stages (_get_required_nodes) differ from the model's `required`", c,
                      expected=rel_model, observed=rel_impl, found_input=False, obligation=ob)
        return
    if m["route_faults"]:
        ctx.stat("staging: routing model predicts " + "+".join(sorted({f["kind"] for f in m["route_faults"]})))
    else:
        ctx.stat("staging: routing model predicts no fault")



def check_teacher_then_targets(ctx, g):
    """online training whose target is first a teacher NODE of the model (the readout learns to reproduce the input node),
    then ordinary target values: every call trains on the targets IT was given - the explicit per-step loop"""
    from reservoirpy.nodes import Input, Reservoir, RLS
    ob = "train/teacher_node_then_targets"
    d, T1, T2 = g.randint(1, 2), g.randint(3, 6), g.randint(3, 6)
    c = {"kind": "teacher_then_targets", "d": d, "T1": T1, "T2": T2, "seed": g.randint(0, 10 ** 6)}
    ctx.count(c, nontrivial=True, obligation=ob)
    ctx.stat("train with a teacher node, then with target values")
    gg = common.Gen(c["seed"])
    X1 = np.array(flow.seq_rows(gg, T1, d), dtype=float)
    X2 = np.array(flow.seq_rows(gg, T2, d), dtype=float)
    Y2 = np.array(flow.seq_rows(gg, T2, d, a=2, k=8), dtype=float)

    def parts():
        return Reservoir(5, seed=c["seed"] % 1000, lr=0.5, sr=0.9, input_connectivity=1.0, rc_connectivity=1.0), RLS(alpha=0.5)
    try:
        inp = Input()
        res, ro = parts()
        m = inp >> res >> ro
        m.train(X1, inp)
        m.train(X2, Y2)
        res2, ro2 = parts()
        for X_, Y_ in ((X1, X1), (X2, Y2)):
            for t in range(len(X_)):
                s_ = res2.call(X_[t:t + 1])
                ro2.train(s_, Y_[t:t + 1])
    except Exception as e:  # noqa
        ctx.violation(f"online training with a teacher node, then with targets, raised {type(e).__name__}: {e}", c, obligation=ob)
        return
    for name in ("Wout", "bias"):
        a, b = np.asarray(getattr(ro, name), dtype=float), np.asarray(getattr(ro2, name), dtype=float)
        if a.shape != b.shape or not np.allclose(a, b, rtol=1e-9, atol=1e-12):
            ctx.violation(f"Model.train(X, teacher_node) followed by Model.train(X, Y): {name} is not the one of the explicit per-step loop trained "
                          f"on the teacher's outputs, then on Y (max difference {float(np.max(np.abs(a - b))) if a.shape == b.shape else 'shape'}): "
                          "the second call did not train on the targets it was given", c, obligation=ob)
            return


def check_case(ctx, c):
    common.quiet()
    {"fit": check_fit, "train": check_train, "stages": check_stages}[c["kind"]](ctx, c)


def run(ctx):
    ctx.notes["rule"] = ("offline: chain / deep (2-3 readouts) / parallel readouts / input-to-readout shortcut / teacher-forced feedback / ESN node; "
                         "1-3 sequences (2-D, list, 3-D), warm-up 0-2, targets as array or mapping; online: reservoir >> RLS|LMS|FORCE, learn_every 1-3, "
                         "inputs and targets as arrays or one-key mappings. non-trivial = at least 2 retained steps / 3 training steps")
    g = ctx.gen
    for c in common.load_corpus("C06"):
        check_case(ctx, c)
    esn_raw_inputs_witness(ctx)
    for _ in range(ctx.n(90, 1200)):
        check_case(ctx, gen_fit_case(g))
    for _ in range(ctx.n(8, 80)):
        check_case(ctx, gen_fit_case(g, force="grown"))
    for _ in range(ctx.n(70, 900)):
        check_case(ctx, gen_train_case(g))
    for _ in range(ctx.n(150, 2500)):
        check_case(ctx, gen_stage_case(g))
    for _ in range(ctx.n(8, 80)):
        check_teacher_then_targets(ctx, g)


def replay(ctx, data):
    if data["case"].get("kind") == "teacher_then_targets":
        common.quiet()
        for _ in range(8):
            check_teacher_then_targets(ctx, ctx.gen)
    elif data["case"].get("kind") == "esn_raw_inputs":
        esn_raw_inputs_witness(ctx)
    else:
        check_case(ctx, data["case"])
