"""C02 — a model computes the composition of its nodes along the graph. Random DAGs of real nodes,
call / run with array or name-keyed inputs and every return_states selection, compared with the
generic dataflow model (exact) and with the direct oracle (node-by-node evaluation of deep copies
in a topological order computed by the harness, node-level API only)."""
import copy

import numpy as np

from . import common, flow

LEVEL = "proof"
TRUSTED = [
    "model: lean/RpyModel/Dataflow.lean (forwardF / stepM / runSeq / callModel, generic in node behaviour), instantiated by the driver with RpyModel.Reservoir / Windows / Readout step functions",
    "theorems: lean/RpyProofs/Props/C02.lean (each node evaluated exactly once after its predecessors on their same-step outputs = unique fixpoint; order-independence; nodes outside the order untouched)",
    "fan-in column order: parents sorted by name as DataDispatcher does (a different fixed order would be reported as a correspondence break, not as a property failure)",
]


def gen_nested_fanin(g):
    """two fan-in nodes whose predecessor sets are nested ({a, b, e} and {a, b}), the wider one listed first: each must
    receive the concatenation of ITS OWN predecessors (a shared or reused concatenation node would be visible here)"""
    dims = g.sample([1, 2, 3, 4], 3)
    descs = []
    for d in dims:
        descs.append(flow.gen_node(g, "input", d))
        descs[-1]["ext_dim"] = d
    sub = sorted(g.sample([0, 1, 2], 2))
    wide_first = g.chance(0.7)
    sets = [[0, 1, 2], sub] if wide_first else [sub, [0, 1, 2]]
    edges = []
    for ps in sets:
        kind = g.choice(["identity", "relu", "plainlinear", "reservoir"])
        descs.append(flow.gen_node(g, kind, sum(dims[p] for p in ps)))
        edges += [(p, len(descs) - 1) for p in ps]
    if g.chance(0.4):       # something downstream of both
        descs.append(flow.gen_node(g, "plainlinear", descs[3]["out_dim"] + descs[4]["out_dim"]))
        edges += [(3, 5), (4, 5)]
    return descs, edges


def gen_case(g):
    descs, edges = gen_nested_fanin(g) if g.chance(0.15) else flow.gen_graph(g)
    if g.chance(0.25):
        # a node linked to nothing: it is an entry AND an exit, evaluated at every step like the others
        dim = g.choice([1, 2, 3])
        descs.append(flow.gen_node(g, g.choice(["identity", "relu", "plainlinear"]), dim))
        descs[-1]["ext_dim"] = dim
    n_ops = g.randint(1, 3)
    ops = []
    for _ in range(n_ops):
        kind = g.choice(["run", "run", "call"])
        op = {"op": kind, "mapping": g.chance(0.5), "rs": g.choice([None, None, "all", "subset"])}
        if kind == "run":
            nseq = 1 if g.chance(0.75) else g.randint(2, 3)
            op["lens"] = [g.randint(1, 6) for _ in range(nseq)]
            op["container"] = g.choice(["list", "3d"]) if nseq > 1 else "2d"
            if op["container"] == "3d":
                op["lens"] = [op["lens"][0]] * nseq
        op["seed"] = g.randint(0, 10 ** 9)
        # the type of the input arrays (counts, quantised or single-precision data): what the nodes compute, and what
        # the model returns, is about their values
        op["xdtype"] = g.choice(["float64", "float64", "float64", "int64", "int8", "float32"])
        ops.append(op)
    return {"kind": "c02", "descs": descs, "edges": edges, "ops": ops,
            "via": g.choice(["ctor", "ctor", "ops", "iand"])}


def materialise(case):
    """deterministic data for the ops of a case (derived from the stored seeds)"""
    return case


def op_inputs(b, op):
    """external input per entry node for an op: {idx: [seq rows]}"""
    g = common.Gen(op["seed"])
    data = {}
    entries = b.entries
    if op["op"] == "call":
        for e in entries:
            data[e] = [[g.dyvec(b.all_descs[e]["in_dim"], a=2, k=6)]]     # one sequence of one row
        return _as_dtype(op, data), [1]
    lens = op["lens"]
    shared = None
    for e in entries:
        data[e] = [flow.seq_rows(g, L, b.all_descs[e]["in_dim"]) for L in lens]
    return _as_dtype(op, data), lens


def _as_dtype(op, data):
    if op.get("xdtype", "float64").startswith("int"):
        return {e: [[[float(round(v)) for v in row] for row in sq] for sq in seqs] for e, seqs in data.items()}
    return data


def impl_args(b, op, data):
    """build the X argument of the real call"""
    entries = b.entries
    single = len(entries) == 1
    same_dims = len({b.all_descs[e]["in_dim"] for e in entries}) == 1
    use_map = op["mapping"] or not (single or False)
    if not single and not use_map:
        use_map = True

    def pack(seqs):
        arrs = [np.array(s, dtype=float).reshape(len(s), -1).astype(np.dtype(op.get("xdtype", "float64"))) for s in seqs]
        if op["op"] == "call":
            return arrs[0]
        if op.get("container") == "2d":
            return arrs[0]
        if op.get("container") == "3d":
            return np.stack(arrs)
        return arrs
    if use_map:
        return {b.name_of[e]: pack(data[e]) for e in entries}
    return pack(data[entries[0]])


def run_impl(b, op, data):
    m = b.model
    X = impl_args(b, op, data)
    rs = op["rs"]
    subset = None
    if rs == "subset":
        g = common.Gen(op["seed"] + 1)
        k = g.randint(1, len(b.mnodes))
        subset = [nd.name for nd in g.sample(b.mnodes, k)]
    kw = {}
    if rs == "all":
        kw["return_states"] = "all"
    elif rs == "subset":
        # the selection is a sequence of names: a list, a tuple or any other iterable of strings
        how = g.choice(["list", "list", "tuple", "dict_keys"])
        kw["return_states"] = subset if how == "list" else tuple(subset) if how == "tuple" else dict.fromkeys(subset).keys()
    if op["op"] == "call":
        out = m.call(X, **kw)
    else:
        out = m.run(X, **kw)
    # the caller reuses its input buffers: once the operation has returned, what it handed over is overwritten in place
    # (a streaming loop with a preallocated array). Nothing the model returned or keeps may change with it.
    import copy as _copy
    out = _copy.deepcopy(out)

    def scribble(a):
        if isinstance(a, np.ndarray) and a.flags.writeable and a.dtype.kind in "fiu":
            a[...] = 99 if a.dtype.kind != "f" else 12345.678
        elif isinstance(a, (list, tuple)):
            for e_ in a:
                scribble(e_)
        elif isinstance(a, dict):
            for e_ in a.values():
                scribble(e_)
    scribble(X)
    states = {i: np.asarray(nd.state(), dtype=float) for nd, i in b.idx.items() if nd in b.mnodes}
    return out, subset, states


def driver_op(b, op, data, lens):
    if op["op"] == "call":
        return {"op": "call", "x": {str(e): flow.qvec(data[e][0][0]) for e in data}}
    seqs = []
    for si in range(len(lens)):
        seqs.append({"X": {str(e): flow.qmat(data[e][si]) for e in data}})
    return {"op": "run", "seqs": seqs}


def oracle_step(b, copies, ext, states):
    """evaluate every node once, after its predecessors, on their outputs of this step"""
    for i in b.order:
        ins = [states[p] for p in b.parents[i]]
        if i in ext:
            ins.append(np.asarray(ext[i], dtype=float).reshape(1, -1))
        nd = copies[i]
        if b.all_descs[i]["kind"] == "concat":
            x = ins if len(ins) > 1 else ins[0]
        else:
            x = np.concatenate(ins, axis=1) if len(ins) > 1 else ins[0]
        states[i] = np.asarray(nd.call(x), dtype=float).reshape(1, -1)
    return states


def check_case(ctx, case):
    common.quiet()
    ob = "model_dataflow"
    g = None
    try:
        b = flow.Built(case["descs"], [tuple(e) for e in case["edges"]], via=case["via"])
    except Exception as e:  # noqa
        ctx.violation(f"building a model from an acyclic graph raised {type(e).__name__}: {e}", case, obligation=ob)
        return
    ctx.stat(f"nodes={len(b.nodes)} concat={len(b.mnodes) - len(b.nodes)}")
    for d in case["descs"]:
        ctx.stat("kind=" + d["kind"])
    ctx.stat(f"entries={len(b.entries)} exits={len(b.exits)} via={case['via']}")
    # entries and exits, from the user's edges alone: the nodes without predecessor / without successor
    # (a node linked to nothing is both)
    ue = [tuple(e) for e in case["edges"]]
    want_in = sorted(b.nodes[i].name for i in range(len(b.nodes)) if not any(t == i for _, t in ue))
    want_out = sorted(b.nodes[i].name for i in range(len(b.nodes)) if not any(f == i for f, _ in ue))
    got_in, got_out = sorted(n.name for n in b.model.input_nodes), sorted(n.name for n in b.model.output_nodes)
    if got_in != want_in or got_out != want_out:
        ctx.violation(f"the model's entry / exit nodes are not the nodes without predecessor / successor: entries {got_in} (expected {want_in}), "
                      f"exits {got_out} (expected {want_out})", case, obligation=ob)
        return
    # initialise on the first op's first row
    dops, impl_obs, oracle_obs = [], [], []
    # oracle copies are made lazily after initialisation (first op initialises the model)
    copies = None
    ostates = None
    for op in case["ops"]:
        data, lens = op_inputs(b, op)
        dops.append(driver_op(b, op, data, lens))
        if copies is None:
            # initialise the model first so that copies carry initialised nodes with zero state
            x0 = {b.name_of[e]: np.array(data[e][0][:1], dtype=float).reshape(1, -1) for e in b.entries}
            try:
                b.model.initialize(x0 if len(b.entries) > 1 else list(x0.values())[0])
            except Exception as e:  # noqa
                ctx.violation(f"Model.initialize raised {type(e).__name__}: {e}", case, obligation=ob)
                return
            copies = {i: copy.deepcopy(nd) for nd, i in b.idx.items() if nd in b.mnodes}
            ostates = {i: np.zeros((1, b.all_descs[i]["out_dim"])) for i in copies}
        r = common.exc_class(run_impl, b, op, data)
        impl_obs.append(r)
        # oracle
        steps = []
        for si, L in enumerate(lens):
            srows = []
            for t in range(L):
                ext = {e: data[e][si][t] for e in data}
                try:
                    ostates = oracle_step(b, copies, ext, ostates)
                except Exception as e:  # noqa
                    # the copies were initialised by the model itself: if they reject their predecessors' outputs
                    # presented in the documented order, the model wired them in another order
                    ctx.violation(f"a node of the model, as initialised by the model, rejects the outputs of its predecessors presented in the documented "
                                  f"order (edges sorted by sender name + receiver name): {type(e).__name__}: {str(e)[:160]}", case, obligation=ob)
                    return
                srows.append({i: ostates[i].copy() for i in ostates})
            steps.append(srows)
        oracle_obs.append(steps)
        if r[0] != "ok":
            break
    mo = ctx.model.one(b.scenario(dops))
    if mo[0] != "ok":
        raise common.FrameworkError("model rejected a C02 scenario: " + mo[1])
    total_steps = 0
    for oi, (op, r, osteps, mres) in enumerate(zip(case["ops"], impl_obs, oracle_obs, mo[1])):
        ctx.stat(f"op={op['op']} mapping={op['mapping']} rs={op['rs']}")
        ctx.stat(f"input dtype={op.get('xdtype', 'float64')}")
        if r[0] != "ok":
            ctx.violation(f"op {oi} ({op['op']}) raised {r[1]} on well-formed input", case, obligation=ob)
            return
        out, subset, states = r[1]
        lens = [1] if op["op"] == "call" else op["lens"]
        total_steps += sum(lens)
        msteps = [mres["steps"]] if op["op"] == "call" else mres["steps"]
        if op["op"] == "call":
            msteps = [[mres["steps"]]]
        # ---- return convention
        if op["rs"] == "all":
            want = [nd.name for nd in b.mnodes]
        elif op["rs"] == "subset":
            want = subset
        else:
            want = [b.name_of[i] for i in b.exits]
        bare = op["rs"] is None and len(want) == 1
        if bare and isinstance(out, dict):
            ctx.violation(f"op {oi}: a model with a single output returned a mapping", case, obligation=ob)
            return
        if not bare and not isinstance(out, dict):
            ctx.violation(f"op {oi}: expected outputs keyed by node name {want}, got a bare value", case, obligation=ob)
            return
        if not bare and sorted(out.keys()) != sorted(want):
            ctx.violation(f"op {oi}: returned keys {sorted(out.keys())}, requested {sorted(want)}", case, obligation=ob)
            return
        name_to_idx = {nm: i for i, nm in b.name_of.items()}
        got = {want[0]: out} if bare else dict(out)
        for nm, val in got.items():
            i = name_to_idx[nm]
            nseq = len(lens)
            if op["op"] == "call":
                seqs = [np.asarray(val, dtype=float).reshape(1, -1)]
            elif nseq == 1:
                seqs = [np.asarray(val, dtype=float)]
            else:
                seqs = [np.asarray(v, dtype=float) for v in val]
            if len(seqs) != nseq:
                ctx.violation(f"op {oi}: node {nm}: {len(seqs)} output sequences for {nseq} input sequences", case, obligation=ob)
                return
            for si, (arr, L) in enumerate(zip(seqs, lens)):
                if arr.shape != (L, b.all_descs[i]["out_dim"]):
                    ctx.violation(f"op {oi}: node {nm}: output shape {arr.shape}, expected {(L, b.all_descs[i]['out_dim'])}", case, obligation=ob)
                    return
                for t in range(L):
                    od = None if np.array_equal(arr[t], osteps[si][t][i].reshape(-1)) else "differs"
                    if od is not None and not np.allclose(arr[t], osteps[si][t][i].reshape(-1), rtol=0, atol=1e-12):
                        ctx.violation(f"op {oi}: output of node {nm} at step {t} of sequence {si} is not what evaluating each node once "
                                      "after its predecessors on their same-step outputs gives", case,
                                      expected=osteps[si][t][i].reshape(-1).tolist(), observed=arr[t].tolist(), obligation=ob)
                        return
                    md = flow.row_diff(msteps[si][t][i], arr[t])
                    if md is not None:
                        ctx.violation(f"op {oi}: node {nm} step {t}: implementation disagrees with RpyModel.Dataflow ({md}); "
                                      "the node-by-node oracle agrees with the implementation", case, found_input=False, obligation=ob)
                        return
        # ---- states of all nodes after the op
        for i, st in states.items():
            if st.shape != (1, b.all_descs[i]["out_dim"]):
                ctx.stat("state_shape_not_2d_row")      # C12's business (D7), not compared here
            orow = osteps[-1][-1][i].reshape(-1)
            if not np.allclose(st.reshape(-1), orow, rtol=0, atol=1e-12):
                ctx.violation(f"op {oi}: state() of node {b.name_of[i]} after the operation is not its last output", case,
                              expected=orow.tolist(), observed=st.reshape(-1).tolist(), obligation=ob)
                return
            md = flow.row_diff(mres["store"][i]["st"], st)
            if md is not None:
                ctx.violation(f"op {oi}: state of {b.name_of[i]} disagrees with RpyModel.Dataflow ({md})", case,
                              found_input=False, obligation=ob)
                return
    ctx.count(case, nontrivial=(len(b.mnodes) >= 3 and total_steps >= 2), obligation=ob)
    ctx.sample({"kinds": [d["kind"] for d in case["descs"]], "edges": case["edges"],
                "ops": [{k: v for k, v in op.items() if k != "seed"} for op in case["ops"]]})


def run(ctx):
    ctx.notes["rule"] = ("random DAGs of 2-7 real nodes (Input, Output, Identity, ReLU, Ridge with fixed weights, Reservoir with piecewise-linear "
                         "activation, Delay, NVAR; fan-in, fan-out, diamonds, several entries/exits, built by Model(nodes, edges) or by >> and &), "
                         "1-3 operations (call / run, array or name-keyed inputs, 1-3 sequences as 2-D / list / 3-D, return_states None / 'all' / random subset). "
                         "non-trivial = at least 3 nodes (incl. inserted Concat) and 2 timesteps")
    g = ctx.gen
    for c in common.load_corpus("C02"):
        check_case(ctx, c)
    for _ in range(ctx.n(150, 2000)):
        check_case(ctx, gen_case(g))


def replay(ctx, data):
    check_case(ctx, data["case"])
