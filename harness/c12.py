"""C12 — dimensions fixed at initialisation, bad data rejected cleanly. Every public node class
(from reservoirpy.nodes.__all__) gets random histories mixing well-formed data (1-D step, 2-D
sequence, list / 3-D sets) and malformed data (wrong feature count for inputs or targets,
non-numeric, not an array, too many axes, several timesteps where one is expected), before and
after initialisation. Compared with the shape model (accepted / rejected, output shape, dimensions)
and checked directly: a rejected call leaves a digest of state, dimensions and parameters
unchanged; T accepted steps give T rows; the state is a single-row 2-D array."""
import hashlib
from math import comb

import numpy as np

from . import common

LEVEL = "proof"
TRUSTED = [
    "model: lean/RpyModel/Shapes.lean (acceptance rules of check_vector / check_one_sequence / check_n_sequences / check_xy and the dimension state machine of set_input_dim / set_output_dim / initialize)",
    "theorems: lean/RpyProofs/Props/C12.lean (dimensions of an initialised node never change over any operation sequence; rejected => unchanged; T steps => T rows of the output size; one-row state; unsupported operations and malformed data rejected)",
    "rejections are compared as accepted / rejected only, never by exception class",
    "the numpy shape glue inside each node's forward function is seen only by the correspondence",
]

SKIP = {"ESN", "Concat", "ScikitLearnNode", "IPReservoir"}


def specs():
    """(constructor, kind_spec) per public node class"""
    import reservoirpy.nodes as N
    out = {}
    same = {"out": "same", "offline": False, "online": False}
    out["Reservoir"] = (lambda: N.Reservoir(5), {"out": "units", "units": 5, "offline": False, "online": False}, 5)
    out["NVAR"] = (lambda: N.NVAR(delay=2, order=2), {"out": "table", "table": [[d, 2 * d + comb(2 * d + 1, 2)] for d in range(1, 7)],
                                                     "offline": False, "online": False}, None)
    out["Delay"] = (lambda: N.Delay(delay=2), same, None)
    for nm in ("Input", "Output", "Identity", "Tanh", "ReLU", "Sigmoid", "Softmax", "Softplus"):
        out[nm] = ((lambda nm=nm: getattr(N, nm)()), same, None)
    out["Ridge"] = (lambda: N.Ridge(ridge=1.0), {"out": "target", "offline": True, "online": False}, None)
    out["RLS"] = (lambda: N.RLS(), {"out": "target", "offline": False, "online": True}, None)
    out["LMS"] = (lambda: N.LMS(), {"out": "target", "offline": False, "online": True}, None)
    out["FORCE"] = (lambda: N.FORCE(), {"out": "target", "offline": False, "online": True}, None)
    return out


def all_public():
    import reservoirpy.nodes as N
    return list(N.__all__)


def gen_inp(g, d_ok, role="x", allow_sets=False):
    """a random input form; mostly valid with the right feature count"""
    r = g.random()
    d = d_ok if g.chance(0.75) else g.choice([x for x in (1, 2, 3, 4, 5) if x != d_ok])
    if r < 0.2:
        return {"t": "step", "d": d}
    if r < 0.62:
        return {"t": "seq", "T": g.choice([1, 1, 2, 3, 5, 0]), "d": d}
    if r < 0.72 and allow_sets:
        k = g.randint(1, 3)
        return {"t": "nseq", "lens": [g.randint(2, 4) for _ in range(k)], "d": d, "as3d": False}
    if r < 0.78:
        return {"t": "nseq", "lens": [3, 3], "d": d, "as3d": True}
    if r < 0.86:
        return {"t": "nonNumeric", "how": g.choice(["str", "bool", "object"]), "d": d}
    if r < 0.94:
        return {"t": "notArray", "how": g.choice(["string", "none", "pylist", "dict"]), "d": d}
    return {"t": "badRank", "d": d}


def realise(inp, g):
    t = inp["t"]
    d = inp.get("d", 3)

    def arr(*shape):
        return np.array([g.dy(a=2, k=8) for _ in range(int(np.prod(shape)))], dtype=float).reshape(shape)
    if t == "step":
        return arr(d)
    if t == "seq":
        return arr(inp["T"], d)
    if t == "nseq":
        if inp.get("as3d"):
            return arr(len(inp["lens"]), inp["lens"][0], d)
        return [arr(L, d) for L in inp["lens"]]
    if t == "nonNumeric":
        if inp["how"] == "str":
            return np.array([["a"] * d] * 2)
        if inp["how"] == "bool":
            return np.ones((2, d), dtype=bool)
        return np.array([[1, "a"] + [2] * max(0, d - 2)][:1], dtype=object)
    if t == "notArray":
        # (the Python list is RAGGED: a flat list of d numbers is perfectly good data - numpy makes one step of d features of it)
        return {"string": "abc", "none": None, "pylist": [[1.0] * d, [1.0] * (d + 1)], "dict": {"a": 1}}[inp["how"]]
    return arr(2, 2, 2, d)


def digest(node):
    h = hashlib.sha1()
    h.update(repr((node.is_initialized, node.input_dim, node.output_dim)).encode())
    st = node.state() if node.is_initialized else None
    if st is not None:
        h.update(np.ascontiguousarray(st).tobytes())
        h.update(repr(np.shape(st)).encode())
    for k in sorted(node.params):
        v = node.params[k]
        if hasattr(v, "toarray"):
            v = v.toarray()
        if isinstance(v, np.ndarray):
            h.update(k.encode() + np.ascontiguousarray(v).tobytes() + repr(v.shape).encode())
        elif v is None:
            h.update(k.encode() + b"None")
    # training buffers are state too (public accessor get_buffer)
    for name in ("XXT", "YXT"):
        try:
            b = node.get_buffer(name)
            h.update(name.encode() + np.ascontiguousarray(np.asarray(b)).tobytes())
        except Exception:  # noqa
            pass
    return h.hexdigest()


def gen_case(g, cls):
    d = g.randint(1, 4)
    o = g.randint(1, 3)
    declare = g.chance(0.3)
    ops = []
    for _ in range(g.randint(3, 7)):
        kind = g.choice(["call", "run", "run", "fit", "train"])
        op = {"op": kind, "x": gen_inp(g, d, allow_sets=(kind == "fit"))}
        if kind in ("fit", "train"):
            y = gen_inp(g, o, allow_sets=(kind == "fit"))
            # mostly matching lengths
            if g.chance(0.8) and op["x"]["t"] in ("seq", "nseq", "step") and y["t"] in ("seq", "nseq", "step"):
                y = dict(op["x"], d=y.get("d", o))
            op["y"] = y
        ops.append(op)
    return {"kind": "shapes", "cls": cls, "d": d, "o": o, "declare": declare, "ops": ops, "seed": g.randint(0, 10 ** 9)}


def check_case(ctx, c):
    common.quiet()
    sp = specs()
    cls = c["cls"]
    ctor, kspec, fixed_out = sp[cls]
    ob = "shapes/" + cls
    node = ctor()
    g = common.Gen(c["seed"])
    mcase = {"kind": "shapes", "kind_spec": kspec, "ops": c["ops"]}
    if kspec["out"] == "units":
        mcase["out_dim"] = kspec["units"]
    mo = ctx.model.one(mcase)
    if mo[0] != "ok":
        raise common.FrameworkError("model rejected a C12 case: " + mo[1])
    ctx.count(c, nontrivial=len(c["ops"]) >= 3, obligation=ob)
    ctx.stat("cls=" + cls)
    ctx.sample({"cls": cls, "ops": c["ops"][:3]})
    dims_at_init = None
    for oi, (op, m) in enumerate(zip(c["ops"], mo[1])):
        x = realise(op["x"], g)
        y = realise(op["y"], g) if "y" in op else None
        before = digest(node)
        was_init = node.is_initialized
        fn = {"call": lambda: node.call(x), "run": lambda: node.run(x), "fit": lambda: node.fit(x, y),
              "train": lambda: node.train(x, y)}[op["op"]]
        with np.errstate(all="ignore"):
            r = common.exc_class(fn)
        accepted = r[0] == "ok"
        form = op["x"]["t"] + ("/" + op["y"]["t"] if "y" in op else "")
        ctx.stat(f"op={op['op']} {'accepted' if accepted else 'rejected'}")
        ctx.stat(f"form={op['op']}:{form}")
        after = digest(node)
        # ---- direct checks
        if not accepted and was_init and before != after:
            ctx.violation(f"{cls}: a rejected {op['op']} ({r[1]}) on an initialised node changed its state, dimensions or parameters "
                          f"(operation {oi}, data form {form})", c, obligation=ob)
            return
        if was_init and dims_at_init is not None and (node.input_dim, node.output_dim) != dims_at_init:
            ctx.violation(f"{cls}: dimensions changed after initialisation: {dims_at_init} -> {(node.input_dim, node.output_dim)} "
                          f"(operation {oi})", c, obligation=ob)
            return
        if node.is_initialized and dims_at_init is None:
            dims_at_init = (node.input_dim, node.output_dim)
        if accepted and op["op"] in ("call", "run", "train"):
            out = np.asarray(r[1])
            T = 1 if op["x"]["t"] == "step" else op["x"].get("T", 1)
            if out.shape != (T, node.output_dim):
                ctx.violation(f"{cls}: {op['op']} on {T} timesteps returned shape {out.shape}, expected {(T, node.output_dim)}", c, obligation=ob)
                return
            st = node.state()
            if T >= 1 and (np.ndim(st) != 2 or np.shape(st) != (1, node.output_dim)):
                ctx.violation(f"{cls}: state() has shape {np.shape(st)} after an accepted {op['op']}, expected {(1, node.output_dim)}", c, obligation=ob)
                return
        # ---- model
        if accepted != m["accepted"]:
            # an uninitialised node that a rejected call initialised is a state change of its own
            if not accepted and not was_init and node.is_initialized:
                ctx.violation(f"{cls}: a rejected {op['op']} ({r[1]}, data form {form}) left the node initialised with dimensions "
                              f"{(node.input_dim, node.output_dim)} inferred from the rejected data", c, obligation=ob)
                return
            ctx.violation(f"{cls}: operation {oi} ({op['op']}, data form {form}) was {'accepted' if accepted else 'rejected (' + r[1] + ')'} "
                          f"but the shape model {'accepts' if m['accepted'] else 'rejects'} it", c, found_input=False, obligation=ob)
            return
        if not accepted and not was_init and node.is_initialized:
            ctx.violation(f"{cls}: a rejected {op['op']} ({r[1]}, data form {form}) left the node initialised with dimensions "
                          f"{(node.input_dim, node.output_dim)} inferred from the rejected data", c, obligation=ob)
            return
        if accepted:
            if (node.input_dim, node.output_dim) != (m["in_dim"], m["out_dim"]):
                ctx.violation(f"{cls}: dimensions {(node.input_dim, node.output_dim)} after operation {oi}, shape model says "
                              f"{(m['in_dim'], m['out_dim'])}", c, found_input=False, obligation=ob)
                return


def special_checks(ctx):
    """classes outside the generic stream, and the state-shape clause on the convenience paths"""
    import reservoirpy.nodes as N
    g = common.Gen(31)

    def arr(*shape):
        return np.array([g.dy(a=2, k=8) for _ in range(int(np.prod(shape)))], dtype=float).reshape(shape)

    def expect_state(label, node, out_dim, case):
        st = node.state()
        ctx.count(case, nontrivial=True, obligation="special/" + label)
        if np.ndim(st) != 2 or np.shape(st) != (1, out_dim):
            ctx.violation(f"{label}: state() has shape {np.shape(st)}, expected a single-row 2-D array {(1, out_dim)}", case,
                          obligation="special/" + label)
            return False
        return True
    # ESN.fit leaves the reservoir state as a row
    c = {"kind": "special", "what": "esn_fit_state"}
    r = common.exc_class(lambda: N.ESN(units=4, ridge=1.0, seed=1).fit(arr(6, 2), arr(6, 1)))
    if r[0] == "ok":
        expect_state("ESN.fit reservoir", r[1].reservoir, 4, c)
    else:
        ctx.violation(f"ESN.fit raised {r[1]}", c, obligation="special/esn")
    # a user-supplied 1-D bias
    c = {"kind": "special", "what": "reservoir_1d_bias"}
    res = N.Reservoir(3, bias=np.array([0.5, -0.25, 0.125]))
    r = common.exc_class(lambda: res.run(arr(4, 2)))
    ctx.count(c, nontrivial=True, obligation="special/reservoir_1d_bias")
    if r[0] == "ok":
        if np.shape(r[1]) != (4, 3):
            ctx.violation(f"Reservoir with a 1-D bias: run returned shape {np.shape(r[1])}, expected (4, 3)", c, obligation="special/reservoir_1d_bias")
        else:
            expect_state("Reservoir(bias 1-D)", res, 3, c)
    else:
        # rejecting a 1-D bias is fine, but it must be clean: no half-initialised state behind
        st = res.state() if res.is_initialized else None
        if st is not None and np.shape(st) != (1, 3):
            ctx.violation(f"Reservoir with a 1-D bias: run raised {r[1]} after storing a state of shape {np.shape(st)}", c,
                          obligation="special/reservoir_1d_bias")
    # single-output scikit-learn readout
    c = {"kind": "special", "what": "sklearn_single_output"}
    try:
        from sklearn.linear_model import Ridge as SkRidge
        node = N.ScikitLearnNode(SkRidge, model_hypers={"alpha": 1.0})
        node.fit(arr(8, 3), arr(8, 1))
        out = node.run(arr(5, 3))
        ctx.count(c, nontrivial=True, obligation="special/sklearn")
        if np.shape(out) != (5, 1):
            ctx.violation(f"ScikitLearnNode: run on 5 steps returned shape {np.shape(out)}", c, obligation="special/sklearn")
        else:
            expect_state("ScikitLearnNode (1 output)", node, 1, c)
    except Exception as e:  # noqa
        ctx.violation(f"single-output ScikitLearnNode fit/run raised {type(e).__name__}: {e}", c, obligation="special/sklearn")
    # Concat and IPReservoir
    c = {"kind": "special", "what": "concat"}
    cc = N.Concat()
    r = common.exc_class(lambda: cc.call([arr(1, 2), arr(1, 3)]))
    if r[0] == "ok":
        expect_state("Concat", cc, 5, c)
    c = {"kind": "special", "what": "ipreservoir"}
    ip = N.IPReservoir(4, seed=2)
    r = common.exc_class(lambda: ip.fit(arr(6, 2)).run(arr(3, 2)))
    if r[0] == "ok" and np.shape(r[1]) == (3, 4):
        expect_state("IPReservoir", ip, 4, c)
    else:
        ctx.violation(f"IPReservoir fit/run: {r}", c, obligation="special/ipreservoir")


def delay_initial_values_checks(ctx, g):
    """a Delay built with user-supplied initial values (array of shape (delay, dim) or list of rows): T rows of the declared
    size from the first step on, the state a single-row 2-D array, a wrong feature count rejected with nothing modified"""
    import reservoirpy.nodes as N
    ob = "delay_initial_values"
    delay, dim = g.randint(1, 3), g.randint(1, 3)
    iv = [g.dyvec(dim, a=2, k=6) for _ in range(delay)]
    form = g.choice(["array", "rows", "row_arrays"])
    c = {"kind": "delay_iv", "delay": delay, "dim": dim, "form": form, "iv": iv, "n": ctx.evaluations}
    arg = np.array(iv, dtype=float) if form == "array" else ([list(r) for r in iv] if form == "rows" else [np.array(r, dtype=float) for r in iv])
    ctx.count(c, nontrivial=True, obligation=ob)
    ctx.stat(f"delay_iv form={form} delay={delay} dim={dim}")
    r = common.exc_class(lambda: N.Delay(delay=delay, initial_values=arg))
    if r[0] != "ok":
        ctx.violation(f"Delay(delay={delay}, initial_values of shape {(delay, dim)} as {form}) raised {r[1]}", c, obligation=ob)
        return
    node = r[1]
    steps = g.choice(["calls", "short_run", "run"])
    T = {"calls": delay + 1, "short_run": max(1, delay - 1), "run": delay + 2}[steps]
    X = np.array([g.dyvec(dim, a=2, k=6) for _ in range(T)], dtype=float)
    want = np.array(([iv[delay - 1 - t] for t in range(min(delay, T))] + X[:max(0, T - delay)].tolist()), dtype=float)
    if steps == "calls":
        outs = []
        for t in range(T):
            q_ = common.exc_class(lambda: node.call(X[t:t + 1]))
            if q_[0] != "ok":
                ctx.violation(f"Delay with initial values: call {t} raised {q_[1]}", c, obligation=ob)
                return
            o_ = np.asarray(q_[1])
            if o_.shape != (1, dim):
                ctx.violation(f"Delay with initial values ({form}): call {t} returned shape {o_.shape}, expected {(1, dim)}", c, obligation=ob)
                return
            if np.shape(node.state()) != (1, dim):
                ctx.violation(f"Delay with initial values ({form}): state() has shape {np.shape(node.state())} after call {t}, expected {(1, dim)}", c, obligation=ob)
                return
            outs.append(o_[0])
        out = np.array(outs)
    else:
        q_ = common.exc_class(lambda: node.run(X))
        if q_[0] != "ok":
            ctx.violation(f"Delay with initial values: run of {T} steps raised {q_[1]}", c, obligation=ob)
            return
        out = np.asarray(q_[1])
        if out.shape != (T, dim):
            ctx.violation(f"Delay with initial values ({form}): run on {T} timesteps returned shape {out.shape}, expected {(T, dim)}", c, obligation=ob)
            return
        if np.shape(node.state()) != (1, dim):
            ctx.violation(f"Delay with initial values ({form}): state() has shape {np.shape(node.state())} after a run of {T} steps (delay {delay}), expected {(1, dim)}", c, obligation=ob)
            return
    if not np.array_equal(out, want):
        ctx.violation(f"Delay with initial values ({form}): outputs {out.tolist()} differ from the initial values (last one first) followed by the delayed input {want.tolist()}", c, obligation=ob)
        return
    before = digest(node)
    q_ = common.exc_class(lambda: node.call(np.ones((1, dim + 1))))
    if q_[0] == "ok" or digest(node) != before:
        ctx.violation(f"Delay with initial values: an input of {dim + 1} features was {'accepted' if q_[0] == 'ok' else 'rejected only after the node was modified'} (declared size {dim})", c, obligation=ob)


def fit_container_checks(ctx, g):
    """wrong feature counts in every container (2-D array, list of arrays, 3-D array) are rejected by
    fit on an initialised readout before anything - parameters or training buffers - is touched"""
    import reservoirpy.nodes as N
    d, o, T, k = g.randint(1, 4), g.randint(1, 3), g.randint(3, 6), g.randint(2, 3)

    def arr(*shape):
        return np.array([g.dy(a=2, k=8) for _ in range(int(np.prod(shape)))], dtype=float).reshape(shape)
    node = N.Ridge(ridge=0.5)
    node.fit(arr(k, T, d), arr(k, T, o))
    for container in ("2d", "list", "3d"):
        for which in ("x", "y"):
            dx, dy = (d + 1, o) if which == "x" else (d, o + 1)
            X, Y = arr(k, T, dx), arr(k, T, dy)
            if container == "2d":
                X, Y = X[0], Y[0]
            elif container == "list":
                X, Y = list(X), list(Y)
            c = {"kind": "fit_container", "container": container, "wrong": which, "d": d, "o": o}
            before = digest(node)
            r = common.exc_class(lambda: node.fit(X, Y))
            ctx.count(c, nontrivial=True, obligation="fit_container")
            ctx.stat(f"fit_container {container}/{which}")
            if r[0] == "ok":
                ctx.violation(f"Ridge.fit accepted {'inputs' if which == 'x' else 'targets'} with a wrong feature count given as a "
                              f"{container} container", c, obligation="fit_container")
                return
            if digest(node) != before:
                ctx.violation(f"Ridge.fit rejected ({r[1]}) {'inputs' if which == 'x' else 'targets'} with a wrong feature count given as a "
                              f"{container} container only after modifying parameters or training buffers", c, obligation="fit_container")
                return



def first_use_checks(ctx, g):
    """(a) a NOT yet initialised offline readout handed a list batch in which ONE sequence (the first, a middle one or the
    last; inputs or targets) has another feature count: rejected, and the node is left exactly as it was - not initialised,
    no dimension, no buffer; (b) a node built with a declared input_dim, first used inside a Model whose upstream width
    disagrees: rejected, the declared dimension stays, and so does the rejection when the attempt is repeated"""
    import reservoirpy.nodes as N
    ob = "first_use"
    d, o, T = g.randint(1, 4), g.randint(1, 3), g.randint(3, 6)
    k = g.randint(2, 4)

    def arr(*shape):
        return np.array([g.dy(a=2, k=8) for _ in range(int(np.prod(shape)))], dtype=float).reshape(shape)
    for which in ("x", "y"):
        for pos in sorted({0, k - 1, g.randint(0, k - 1)}):
            for op in ("partial_fit", "fit"):
                X = [arr(T, d) for _ in range(k)]
                Y = [arr(T, o) for _ in range(k)]
                if which == "x":
                    X[pos] = arr(T, d + 1)
                else:
                    Y[pos] = arr(T, o + 1)
                node = N.Ridge(ridge=0.5)
                c = {"kind": "first_use", "what": "batch", "wrong": which, "pos": pos, "k": k, "op": op}
                ctx.count(c, nontrivial=True, obligation=ob)
                ctx.stat(f"first_use batch {which} pos={'last' if pos == k - 1 else 'first' if pos == 0 else 'middle'} {op}")
                before = digest(node)
                r = common.exc_class(lambda: getattr(node, op)(X, Y))
                if r[0] == "ok":
                    ctx.violation(f"Ridge.{op} on a fresh node accepted a batch of {k} sequences whose sequence {pos} has another "
                                  f"{'input' if which == 'x' else 'target'} feature count", c, obligation=ob)
                    return
                if digest(node) != before or node.is_initialized:
                    ctx.violation(f"Ridge.{op} on a fresh node rejected ({r[1]}) a batch whose sequence {pos} of {k} has another "
                                  f"{'input' if which == 'x' else 'target'} feature count only after initialising the node or filling "
                                  f"its buffers (initialised={node.is_initialized}, input_dim={node.input_dim}, output_dim={node.output_dim})",
                                  c, obligation=ob)
                    return
    # (b) declared input dimension against the upstream width, inside a model
    declared, actual = g.randint(1, 4), g.randint(5, 7)
    for kind in ("reservoir", "nvar", "ridge_after_reservoir"):
        if kind == "reservoir":
            node = N.Reservoir(6, input_dim=declared, seed=1)
            model = N.Input() >> node
        elif kind == "nvar":
            node = N.NVAR(delay=2, order=1, input_dim=declared)
            model = N.Input() >> node
        else:
            node = N.Reservoir(5, input_dim=declared, seed=2)
            model = N.Reservoir(actual, seed=3) >> node
        c = {"kind": "first_use", "what": "declared_dim", "node": kind, "declared": declared, "actual": actual}
        ctx.count(c, nontrivial=True, obligation=ob)
        ctx.stat(f"first_use declared_dim {kind}")
        data = arr(T, actual)
        for attempt in (1, 2):
            r = common.exc_class(lambda: model.run(data))
            if r[0] == "ok":
                ctx.violation(f"{kind} built with input_dim={declared}: attempt {attempt} to run it inside a model on upstream data "
                              f"of width {actual} was accepted", c, obligation=ob)
                return
            if node.input_dim != declared or node.is_initialized:
                ctx.violation(f"{kind} built with input_dim={declared}: after the rejected attempt {attempt} ({r[1]}) the node says "
                              f"input_dim={node.input_dim}, initialised={node.is_initialized}", c, obligation=ob)
                return
        good = common.exc_class(lambda: node.run(arr(T, declared)))
        if good[0] != "ok":
            ctx.violation(f"{kind} built with input_dim={declared} rejects data of that width after two rejected attempts "
                          f"with another width ({good[1]})", c, obligation=ob)
            return
    # (c) a model with two entry nodes of different declared widths, fed ONE array (shared by both): whichever width the
    # array has, one of the two entries must refuse it - before anything is initialised or moved
    d1, d2 = declared, actual
    for kind in ("inputs", "reservoirs"):
        for order in (0, 1):
            if kind == "inputs":
                e1, e2 = N.Input(input_dim=d1), N.Input(input_dim=d2)
            else:
                e1, e2 = N.Reservoir(4, input_dim=d1, seed=1), N.Reservoir(4, input_dim=d2, seed=2)
            model = (e1 & e2) if order == 0 else (e2 & e1)
            for width in (d1, d2):
                c = {"kind": "first_use", "what": "two_entries", "entries": kind, "dims": [d1, d2], "width": width, "order": order}
                ctx.count(c, nontrivial=True, obligation=ob)
                ctx.stat(f"first_use two_entries {kind}")
                for op in ("call", "run"):
                    data = arr(1, width) if op == "call" else arr(T, width)
                    before = (digest(e1), digest(e2))
                    r = common.exc_class(lambda: getattr(model, op)(data))
                    if r[0] == "ok":
                        ctx.violation(f"a model with two entry nodes declared with {d1} and {d2} features accepted one shared array of "
                                      f"{width} features through {op} (the entry declared with {d2 if width == d1 else d1} must refuse it)",
                                      c, obligation=ob)
                        return
                    if (digest(e1), digest(e2)) != before:
                        ctx.violation(f"a model with two entry nodes declared with {d1} and {d2} features rejected ({r[1]}) a shared array of "
                                      f"{width} features through {op} only after initialising or moving a node", c, obligation=ob)
                        return


def container_state_checks(ctx, g):
    """(a) partial_fit on an initialised readout and (b) run / fit of an initialised MODEL: wrong feature
    counts in every container (2-D array, list, 3-D array; wrong in the first or only in a later
    sequence) are rejected before any state, parameter or buffer is touched; (c) a state handed to reset /
    from_state / with_state as a row, a flat vector or (one unit) a scalar is stored as a single-row 2-D
    array, a wrong-sized one is rejected and leaves the state alone"""
    import reservoirpy.nodes as N
    d, o, T, k = g.randint(1, 4), g.randint(1, 3), g.randint(3, 6), g.randint(2, 3)

    def arr(*shape):
        return np.array([g.dy(a=2, k=8) for _ in range(int(np.prod(shape)))], dtype=float).reshape(shape)

    def containers(dx_first, dx_later, dy_first, dy_later):
        X = [arr(T, dx_first)] + [arr(T, dx_later) for _ in range(k - 1)]
        Y = [arr(T, dy_first)] + [arr(T, dy_later) for _ in range(k - 1)]
        out = [("list", X, Y)]
        if dx_first == dx_later and dy_first == dy_later:
            out.append(("3d", np.stack(X), np.stack(Y)))
            out.append(("2d", X[0], Y[0]))
        return out
    ob = "containers"
    # (a) partial_fit
    node = N.Ridge(ridge=0.5)
    node.partial_fit(arr(k, T, d), arr(k, T, o))
    for wrong in ("x_all", "y_all", "x_later", "y_later"):
        dxf, dxl = (d + 1, d + 1) if wrong == "x_all" else ((d, d + 1) if wrong == "x_later" else (d, d))
        dyf, dyl = (o + 1, o + 1) if wrong == "y_all" else ((o, o + 1) if wrong == "y_later" else (o, o))
        for cname, X, Y in containers(dxf, dxl, dyf, dyl):
            c = {"kind": "containers", "what": "partial_fit", "container": cname, "wrong": wrong, "d": d, "o": o}
            before = digest(node)
            r = common.exc_class(lambda: node.partial_fit(X, Y))
            ctx.count(c, nontrivial=True, obligation=ob)
            ctx.stat(f"containers partial_fit {cname}/{wrong}")
            if r[0] == "ok":
                ctx.violation(f"Ridge.partial_fit accepted data with a wrong feature count ({wrong}) given as a {cname} container", c, obligation=ob)
                return
            if digest(node) != before:
                ctx.violation(f"Ridge.partial_fit rejected ({r[1]}) data with a wrong feature count ({wrong}, {cname} container) only after "
                              "modifying the training buffers", c, obligation=ob)
                return
    # (b) models
    for mk in ("input_delay", "res_ridge"):
        if mk == "input_delay":
            a, b = N.Input(), N.Delay(delay=2)
            m = a >> b
            m.run(arr(T, d))
            nodes = [a, b]
        else:
            a, b = N.Reservoir(4, seed=3), N.Ridge(ridge=0.5)
            m = a >> b
            m.fit(arr(T + 3, d), arr(T + 3, o))
            nodes = [a, b]
        for wrong in ("x_all", "x_later"):
            dxf, dxl = (d + 2, d + 2) if wrong == "x_all" else (d, d + 2)
            for cname, X, _ in containers(dxf, dxl, o, o):
                c = {"kind": "containers", "what": "model.run", "model": mk, "container": cname, "wrong": wrong, "d": d}
                before = [digest(n) for n in nodes]
                r = common.exc_class(lambda: m.run(X))
                ctx.count(c, nontrivial=True, obligation=ob)
                ctx.stat(f"containers model.run {mk} {cname}/{wrong}")
                if r[0] == "ok":
                    ctx.violation(f"a model initialised on {d} features accepted run() on data with another feature count ({wrong}, {cname} container)", c, obligation=ob)
                    return
                if [digest(n) for n in nodes] != before:
                    ctx.violation(f"a model initialised on {d} features rejected ({r[1]}) run() on data with another feature count ({wrong}, {cname} container) "
                                  "only after a node's state or buffer had been modified", c, obligation=ob)
                    return
    # (b') targets handed to a MODEL for a readout whose dimensions are fixed (online learners from their first training,
    # an offline readout after its first fit): wrong feature count or type, with and without teacher forcing, as array or
    # name-keyed mapping - rejected before the reservoir has moved or anything was initialised
    o2 = g.randint(2, 3)
    for rk in ("RLS", "LMS", "FORCE", "Ridge"):
        for fresh in (False, True):
            a = N.Reservoir(4, seed=5)
            b = getattr(N, rk)(ridge=0.5) if rk == "Ridge" else getattr(N, rk)()
            m = a >> b
            nodes = [a, b]
            if not fresh:
                (m.fit if rk == "Ridge" else m.train)(arr(T + 2, d), arr(T + 2, o2))
            wrongs = {"fewer": arr(T, o2 - 1), "more": arr(T, o2 + 1), "string": np.array([["a"] * o2] * T)}
            if fresh:
                wrongs = {"string": wrongs["string"]}       # (no dimension to disagree with yet)
            for wname, Yw in wrongs.items():
                for ft in (True, False):
                    for as_map in (False, True):
                        c = {"kind": "containers", "what": "model targets", "readout": rk, "fresh": fresh, "wrong": wname,
                             "force_teachers": ft, "mapping": as_map, "d": d, "o": o2}
                        Yarg = {b.name: Yw} if as_map else Yw
                        before = [digest(n) for n in nodes]
                        fn = (lambda: m.fit(arr(T, d), Yarg, force_teachers=ft)) if rk == "Ridge" else (lambda: m.train(arr(T, d), Yarg, force_teachers=ft))
                        r = common.exc_class(fn)
                        ctx.count(c, nontrivial=True, obligation=ob)
                        ctx.stat(f"containers model targets {rk} fresh={fresh} {wname} ft={ft}")
                        what = (f"{'a fresh' if fresh else 'an initialised'} model reservoir >> {rk} ({'no dimension yet' if fresh else str(o2) + ' outputs'}), "
                                f"{'fit' if rk == 'Ridge' else 'train'}(force_teachers={ft}) with a {wname} target given as {'a mapping' if as_map else 'an array'}")
                        if r[0] == "ok":
                            ctx.violation(what + ": accepted", c, obligation=ob)
                            return
                        if [digest(n) for n in nodes] != before:
                            ctx.violation(what + f": rejected ({r[1]}) only after a node had been initialised or its state, parameters or buffers modified", c, obligation=ob)
                            return
    # (c) forms of a state
    for units in (1, g.randint(2, 5)):
        res = N.Reservoir(units, seed=4)
        res.run(arr(3, d))
        forms = {"row": arr(1, units), "flat": arr(units), "wrong_row": arr(1, units + 1), "wrong_flat": arr(units + 2)}
        if units == 1:
            forms["scalar"] = 0.25
        for fname, st in forms.items():
            for how in ("reset", "from_state", "with_state"):
                c = {"kind": "containers", "what": "state_form", "form": fname, "how": how, "units": units}
                before = digest(res)
                X = arr(4, d)

                def go():
                    if how == "reset":
                        res.reset(to_state=st)
                        return None
                    if how == "from_state":
                        return res.run(X, from_state=st)
                    with res.with_state(st):
                        return res.run(X)
                r = common.exc_class(go)
                ctx.count(c, nontrivial=True, obligation=ob)
                ctx.stat(f"containers state {fname}/{how}")
                if fname.startswith("wrong"):
                    if r[0] == "ok":
                        ctx.violation(f"a state of the wrong size ({np.shape(st)} for {units} units) was accepted by {how}", c, obligation=ob)
                        return
                    if digest(res) != before:
                        ctx.violation(f"a state of the wrong size was rejected by {how} ({r[1]}) after the node had been modified", c, obligation=ob)
                        return
                    continue
                if r[0] != "ok":
                    ctx.violation(f"a correctly sized state given as a {fname} ({np.shape(st)}) was rejected by {how}: {r[1]}", c, obligation=ob)
                    return
                if r[1] is not None and np.shape(r[1]) != (4, units):
                    ctx.violation(f"run from a state given as a {fname} returned shape {np.shape(r[1])}, expected {(4, units)}", c, obligation=ob)
                    return
                cur = res.state()
                if np.ndim(cur) != 2 or np.shape(cur) != (1, units):
                    ctx.violation(f"after {how} with a state given as a {fname} ({np.shape(st)}), state() has shape {np.shape(cur)} instead of {(1, units)}",
                                  c, obligation=ob)
                    return


def teacher_node_checks(ctx, g):
    """online training of a node or a model with a teacher NODE as target: a teacher whose (already fixed) output size
    disagrees with the trained node's is rejected before any state, parameter or registration is touched; a teacher of
    the right size is accepted"""
    import reservoirpy.nodes as N
    ob = "teacher_nodes"
    o = g.randint(1, 2)
    wrong = o + g.randint(1, 2)
    rule = g.choice(["LMS", "RLS"])

    def arr(*shape):
        return np.array([g.dy(a=2, k=8) for _ in range(int(np.prod(shape)))], dtype=float).reshape(shape)
    for where in ("model", "node"):
        for size, ok in ((o, True), (wrong, False)):
            for force in (True, False):
                c = {"kind": "teacher_nodes", "where": where, "o": o, "teacher_dim": size, "rule": rule, "force_teachers": force}
                teacher = N.Tanh()
                teacher.run(arr(3, size))
                res, ro = N.Reservoir(4, seed=5), getattr(N, rule)(o)
                if where == "model":
                    target = res >> ro
                    target.train(arr(4, 2), arr(4, o))
                    nodes = [res, ro]
                    call = lambda: target.train(arr(3, 2), {ro.name: teacher}, force_teachers=force)
                else:
                    ro.train(arr(4, 4), arr(4, o))
                    nodes = [ro]
                    call = lambda: ro.train(arr(3, 4), teacher)
                before = [digest(n) for n in nodes]
                r = common.exc_class(call)
                ctx.count(c, nontrivial=True, obligation=ob)
                ctx.stat(f"teacher_nodes {where} ok={ok}")
                if ok:
                    if r[0] != "ok":
                        ctx.violation(f"training a {where} with a teacher node of the right size ({size}) raised {r[1]}", c, obligation=ob)
                        return
                    continue
                if r[0] == "ok":
                    ctx.violation(f"training a {where} accepted a teacher node whose output size {size} differs from the trained node's {o}", c, obligation=ob)
                    return
                if [digest(n) for n in nodes] != before or getattr(ro, "_teacher", None) is not None:
                    ctx.violation(f"training a {where} rejected ({r[1]}) a teacher node of the wrong size ({size} for {o}) only after a state / parameter had been "
                                  f"modified or leaving the teacher registered (force_teachers={force})", c, obligation=ob)
                    return


def link_dims_checks(ctx, g):
    """C12 for `ops.py`: linking already initialised nodes whose dimensions disagree is rejected at
    construction, also when an operand is a model; matching dimensions are accepted"""
    import reservoirpy.nodes as N
    dims = [g.randint(1, 4) for _ in range(4)]
    units = [g.randint(2, 5) for _ in range(3)]
    # a chain  in(d0) -> R0(units0) -> lin1 (expects e1) -> R2 ...: each node initialised on its own
    nodes, outs = [], []
    d = dims[0]
    e_in = []
    for i in range(3):
        r = N.Reservoir(units[i])
        wrong = g.chance(0.35) and i > 0
        din = d if not wrong else d + 1
        r.initialize(np.zeros((1, din)))
        nodes.append(r)
        e_in.append(din)
        outs.append(units[i])
        d = units[i]
    mismatch = any(e_in[i] != outs[i - 1] for i in range(1, 3))
    shape = g.choice(["flat", "left_nested", "right_nested"])
    c = {"kind": "link_dims", "in": e_in, "out": outs, "shape": shape}

    def build():
        a, b, cc = nodes
        if shape == "flat":
            return a >> b >> cc
        if shape == "left_nested":
            return (a >> b) >> cc
        return a >> (b >> cc)
    r = common.exc_class(build)
    ctx.count(c, nontrivial=True, obligation="link_dims")
    ctx.stat(f"link_dims shape={shape} mismatch={mismatch}")
    if mismatch and r[0] == "ok":
        ctx.violation(f"linking initialised nodes with disagreeing dimensions was accepted (inputs expected {e_in}, outputs {outs}, "
                      f"expression shape {shape})", c, obligation="link_dims")
    elif not mismatch and r[0] != "ok":
        ctx.violation(f"linking initialised nodes with matching dimensions raised {r[1]}", c, obligation="link_dims")


def class_coverage(ctx):
    """every public node class is either exercised or explicitly skipped"""
    pub = set(all_public())
    known = set(specs()) | SKIP
    missing = pub - known
    if missing:
        raise common.FrameworkError(f"node classes without a C12 spec: {sorted(missing)}")
    ctx.notes["classes_exercised"] = sorted(set(specs()))
    ctx.notes["classes_skipped"] = sorted(SKIP)


def run(ctx):
    ctx.notes["rule"] = ("for each public node class (ESN, Concat, ScikitLearnNode, IPReservoir skipped: multi-input / sklearn / unsupervised API), random histories "
                         "of 3-7 operations (call / run / fit / train) whose inputs and targets are drawn from: 1-D step, 2-D sequence (T in 0..5), list of sequences, "
                         "3-D array, wrong feature count, string / bool / object arrays, str / None / python list / dict, 4-D arrays. non-trivial = at least 3 operations")
    common.quiet()
    class_coverage(ctx)
    g = ctx.gen
    for c in common.load_corpus("C12"):
        if c.get("kind") == "first_use":
            first_use_checks(ctx, common.Gen(38))      # (every call of the stream holds the declared-dimension cases)
        else:
            check_case(ctx, c)
    special_checks(ctx)
    for _ in range(ctx.n(40, 400)):
        link_dims_checks(ctx, g)
    for _ in range(ctx.n(6, 60)):
        fit_container_checks(ctx, g)
    for _ in range(ctx.n(6, 60)):
        container_state_checks(ctx, g)
    for _ in range(ctx.n(6, 60)):
        first_use_checks(ctx, g)
    for _ in range(ctx.n(4, 40)):
        teacher_node_checks(ctx, g)
    for _ in range(ctx.n(12, 100)):
        delay_initial_values_checks(ctx, g)
    names = sorted(specs())
    for _ in range(ctx.n(12, 150)):
        for cls in names:
            check_case(ctx, gen_case(g, cls))


def replay(ctx, data):
    if data["case"].get("kind") == "special":
        common.quiet()
        special_checks(ctx)
    elif data["case"].get("kind") == "fit_container":
        common.quiet()
        for _ in range(6):
            fit_container_checks(ctx, ctx.gen)
    elif data["case"].get("kind") == "teacher_nodes":
        common.quiet()
        for _ in range(4):
            teacher_node_checks(ctx, ctx.gen)
    elif data["case"].get("kind") == "first_use":
        common.quiet()
        for _ in range(6):
            first_use_checks(ctx, ctx.gen)
    elif data["case"].get("kind") == "containers":
        common.quiet()
        for _ in range(6):
            container_state_checks(ctx, ctx.gen)
    elif data["case"].get("kind") == "link_dims":
        common.quiet()
        for _ in range(40):
            link_dims_checks(ctx, ctx.gen)
    else:
        check_case(ctx, data["case"])
