"""C08 — stateful=False, state contexts, reset, from_state — also when the operation fails
part-way. Random histories on single nodes and on models (with feedback), with every combination
of the flags, temporary-state contexts, and a node whose forward function raises at a chosen
step. After every operation the implementation is compared exactly with the generic dataflow
model (states of all nodes; outputs), and the property itself is evaluated directly: a stateless
operation leaves state() unchanged and, repeated, gives the same result; a reset model behaves
like a fresh twin; from_state equals setting the state first."""
import numpy as np

from . import common, flow, c05

LEVEL = "proof"
TRUSTED = [
    "model: lean/RpyModel/Dataflow.lean (enterState / exitState / runSeq / callModel / runSeqFail / callModelFail)",
    "theorems: lean/RpyProofs/Props/C08.lean (stateless run is the identity on the store, also when it fails at any step after any evaluated prefix; repeat gives the same result; from_state = overwrite then run; reset makes stores that differ only in model states equal) - `_partial`: guard NoHidden (no hidden memory outside the state); C08_hidden_leak_witness shows the guard is needed (finding K4)",
    "the failure model assumes try/finally unwinding of the state / feedback contexts (defect D4, repaired)",
]

K4 = "K4"
HIDDEN = ("nvar", "delay", "reservoir_external")


def has_hidden(descs):
    out = []
    for d in descs:
        if d["kind"] == "nvar" or (d["kind"] == "delay" and d.get("delay", 0) >= 1):
            out.append(d["kind"])
        if d["kind"] == "reservoir" and d.get("eq") == "external":
            out.append("reservoir_external")
    return out


def gen_case(g):
    single = g.chance(0.35)
    if single:
        kind = g.choice(["reservoir", "reservoir", "nvar", "delay", "plainlinear", "relu"])
        d = flow.gen_node(g, kind, g.randint(1, 3))
        d["ext_dim"] = d["in_dim"]
        base = {"descs": [d], "edges": [], "fb": {}, "outside": [], "ridge_sender": None}
    else:
        base = c05.gen_case(g)
        base.pop("ops")
    # optionally insert a failing identity node somewhere after an entry
    fail_node = None
    if not single and g.chance(0.5):
        n = len(base["descs"])
        cands = [i for i in range(n) if base["descs"][i]["kind"] in ("identity", "relu", "plainlinear")]
        if cands:
            fail_node = g.choice(cands)
    elif single and g.chance(0.3) and base["descs"][0]["kind"] in ("relu", "plainlinear"):
        fail_node = 0
    ops = []
    for _ in range(g.randint(2, 7)):
        kind = g.choice(["run", "run", "call", "reset", "run_ctx"])
        op = {"op": kind, "seed": g.randint(0, 10 ** 9)}
        if kind != "reset":
            op["stateful"] = g.chance(0.45)
            op["reset"] = g.chance(0.2)
            op["from_state"] = g.chance(0.3)
            op["T"] = 1 if kind == "call" else g.randint(1, 5)
            if kind == "run" and not single and g.chance(0.3):
                # a batch of several sequences (list or 3-D array): reset / from_state apply to EVERY sequence of the batch
                op["nseq"] = g.randint(2, 3)
                op["batch"] = g.choice(["list", "3d"])
                if g.chance(0.5):
                    op["reset"] = True
            elif fail_node is not None and g.chance(0.4):
                op["fail_step"] = g.randint(0, op["T"] - 1)
                # the failure is an ordinary error or an interruption (Ctrl-C in a notebook): both end the operation part-way
                op["fail_kind"] = g.choice(["RuntimeError", "RuntimeError", "KeyboardInterrupt"])
        else:
            op["to_state"] = g.chance(0.3)
        ops.append(op)
    return {"kind": "c08", **base, "ops": ops, "fail_node": fail_node, "single": single}


class FailCtl:
    """makes one node's forward raise at its n-th call from now"""

    def __init__(self, node):
        self.node = node
        self.count = 0
        self.fail_at = None
        self.kind = "RuntimeError"
        orig = node._forward

        def fwd(nd, x, *a, **kw):
            self.count += 1
            if self.fail_at is not None and self.count == self.fail_at:
                self.fail_at = None
                if self.kind == "KeyboardInterrupt":
                    raise KeyboardInterrupt("injected failure")
                raise RuntimeError("injected failure")
            return orig(nd, x, *a, **kw)
        node._forward = fwd

    def arm(self, k, kind="RuntimeError"):
        self.fail_at = self.count + k + 1
        self.kind = kind

    def disarm(self):
        self.fail_at = None


def op_payload(b, case, op):
    g = common.Gen(op["seed"])
    ents = b.entries
    T = op.get("T", 1) * op.get("nseq", 1)
    X = {e: flow.seq_rows(g, T, b.all_descs[e]["in_dim"]) for e in ents}
    fs = None
    if op.get("from_state"):
        k = g.randint(1, len(b.mnodes))
        fs = {b.idx[nd]: g.dyvec(b.all_descs[b.idx[nd]]["out_dim"], a=2, k=4) for nd in g.sample(b.mnodes, k)}
    ts = None
    if op.get("to_state"):
        k = g.randint(1, len(b.mnodes))
        ts = {b.idx[nd]: g.dyvec(b.all_descs[b.idx[nd]]["out_dim"], a=2, k=4) for nd in g.sample(b.mnodes, k)}
    return X, fs, ts


def exec_op(b, case, op, X, fs, ts, ctl):
    """run the operation on the real object; returns ('ok', outputs-per-node) | ('raised', name)"""
    single = case["single"]
    tgt = b.nodes[0] if single else b.model
    names = {i: b.name_of[i] for i in b.name_of}

    def xarg(lo, hi):
        m = {names[e]: np.array(X[e][lo:hi], dtype=float).reshape(hi - lo, -1) for e in X}
        return list(m.values())[0] if (single or len(m) == 1) else m

    def fsarg(d):
        if d is None:
            return None
        if single:
            return np.array(list(d.values())[0], dtype=float).reshape(1, -1)
        return {names[i]: np.array(v, dtype=float).reshape(1, -1) for i, v in d.items()}
    kind = op["op"]
    if kind == "reset":
        if ts is None:
            tgt.reset()
        else:
            tgt.reset(to_state=fsarg(ts))
        return ("ok", None)
    kw = {"stateful": op["stateful"], "reset": op["reset"]}
    if fs is not None:
        kw["from_state"] = fsarg(fs)
    if "fail_step" in op and ctl is not None:
        ctl.arm(op["fail_step"], op.get("fail_kind", "RuntimeError"))
    try:
        if kind == "call":
            out = tgt.call(xarg(0, 1), **kw) if single else tgt.call(xarg(0, 1), return_states="all", **kw)
        elif kind == "run" and op.get("nseq", 1) > 1:
            T_, k_ = op["T"], op["nseq"]
            parts = [xarg(j * T_, (j + 1) * T_) for j in range(k_)]
            if isinstance(parts[0], dict):
                batch = {nm: ([p_[nm] for p_ in parts] if op["batch"] == "list" else np.stack([p_[nm] for p_ in parts])) for nm in parts[0]}
            else:
                batch = parts if op["batch"] == "list" else np.stack(parts)
            outs = tgt.run(batch, return_states="all", **kw)
            out = {nm: np.vstack([np.asarray(a_, dtype=float).reshape(T_, -1) for a_ in seqs_]) for nm, seqs_ in outs.items()}
        elif kind == "run":
            out = tgt.run(xarg(0, op["T"]), **kw) if single else tgt.run(xarg(0, op["T"]), return_states="all", **kw)
        else:       # temporary-state context around a plain run
            with tgt.with_state(kw.get("from_state"), stateful=op["stateful"], reset=op["reset"]):
                out = tgt.run(xarg(0, op["T"])) if single else tgt.run(xarg(0, op["T"]), return_states="all")
    except (RuntimeError, KeyboardInterrupt) as e:
        if "injected failure" in str(e):
            return ("raised", "injected")
        raise
    finally:
        if ctl is not None:
            ctl.disarm()
    T = op["T"] * op.get("nseq", 1)
    if single:
        return ("ok", {b.idx[b.nodes[0]]: np.asarray(out, dtype=float).reshape(T, -1)})
    return ("ok", {b.idx[nd]: np.asarray(out[nd.name], dtype=float).reshape(T, -1) for nd in b.mnodes})


def driver_op(b, case, op, X, fs, ts):
    kind = op["op"]
    if kind == "reset":
        o = {"op": "reset"}
        if ts is not None:
            o["to_state"] = {str(i): flow.qvec(v) for i, v in ts.items()}
        return o
    o = {"stateful": op["stateful"], "reset": op["reset"]}
    if fs is not None:
        o["from_state"] = {str(i): flow.qvec(v) for i, v in fs.items()}
    if kind == "call":
        o.update({"op": "call", "x": {str(e): flow.qvec(X[e][0]) for e in X}})
        if "fail_step" in op and case["fail_node"] is not None:
            fi = b.idx[b.nodes[case["fail_node"]]]
            o["fail"] = {"pre": b.order[:b.order.index(fi)]}
    else:
        T_, k_ = op["T"], op.get("nseq", 1)
        o.update({"op": "run", "seqs": [{"X": {str(e): flow.qmat(X[e][j * T_:(j + 1) * T_]) for e in X}} for j in range(k_)]})
        if "fail_step" in op and case["fail_node"] is not None:
            fi = b.idx[b.nodes[case["fail_node"]]]
            o["fail"] = {"step": op["fail_step"], "pre": b.order[:b.order.index(fi)]}
    return o


def states_of(b):
    return {i: np.asarray(nd.state(), dtype=float).reshape(-1).copy() for nd, i in b.idx.items()}


def check_case(ctx, case):
    common.quiet()
    ob = "lifecycle"
    fb_links = {int(k): v for k, v in case["fb"].items()}
    try:
        b = flow.Built(case["descs"], [tuple(e) for e in case["edges"]], fb_links=fb_links, outside=case["outside"])
    except Exception as e:  # noqa
        ctx.violation(f"building raised {type(e).__name__}: {e}", case, obligation=ob)
        return
    init_states = {}
    for (od, on, _) in b.outside:
        on.call(np.array(od["preset"], dtype=float).reshape(1, -1))
        init_states[b.idx[on]] = np.asarray(on.state(), dtype=float).reshape(-1).tolist()
    g0 = common.Gen(4242)
    x0 = {b.name_of[e]: np.array([g0.dyvec(b.all_descs[e]["in_dim"])], dtype=float) for e in b.entries}
    try:
        if case["single"]:
            b.nodes[0].initialize(list(x0.values())[0])
        else:
            b.model.initialize(x0 if len(b.entries) > 1 else list(x0.values())[0])
    except Exception as e:  # noqa
        ctx.violation(f"initialize raised {type(e).__name__}: {e}", case, obligation=ob)
        return
    ctl = FailCtl(b.nodes[case["fail_node"]]) if case["fail_node"] is not None else None
    hidden = has_hidden(case["descs"])
    dops, results, oracle_flags = [], [], []
    for op in case["ops"]:
        X, fs, ts = op_payload(b, case, op)
        before = states_of(b)
        try:
            r = exec_op(b, case, op, X, fs, ts, ctl)
        except Exception as e:  # noqa
            ctx.violation(f"operation {op['op']} raised {type(e).__name__}: {e} on well-formed input", case, obligation=ob)
            return
        after = states_of(b)
        failed = r[0] == "raised"
        dop = driver_op(b, case, op, X, fs, ts)
        if not failed:
            dop.pop("fail", None)
        dops.append(dop)
        results.append((op, r, after, failed))
        flag = None
        if op["op"] != "reset" and not op["stateful"]:
            # (1) the current state of every node is unchanged
            for i in before:
                if not np.array_equal(before[i], after[i]):
                    flag = ("state", f"after a {'failing ' if failed else ''}{op['op']} with stateful=False the state of "
                                     f"{b.name_of[i]} changed from {before[i].tolist()} to {after[i].tolist()}")
                    break
            # (2) the same operation repeated gives the same result
            if flag is None and not failed:
                r2 = exec_op(b, case, {k: v for k, v in op.items() if k != "fail_step"}, X, fs, ts, None)
                for i in r[1]:
                    if not np.array_equal(r[1][i], r2[1][i]):
                        flag = ("repeat", f"the same {op['op']} with stateful=False repeated gave a different output for "
                                          f"{b.name_of[i]}")
                        break
                # the repeat is itself an operation of the history
                dops.append(dict(dop))
                results.append((dict(op, _repeat=True), r2, states_of(b), False))
        # (3) from_state: the operation starts from exactly the given state for the named nodes (the others: zero
        # under reset=True, their current state otherwise) - i.e. it gives what overwriting those states by hand and
        # running the plain operation gives. Nodes with hidden memory (K4) are left to the model comparison.
        # (one sequence only: in a batch the given state is the start of EVERY sequence, which a single overwrite by hand
        # does not reproduce - batches are compared with the model)
        if flag is None and fs is not None and not failed and not hidden and op["op"] != "reset" and op.get("nseq", 1) == 1:
            saved = states_of(b)
            try:
                for nd, i in b.idx.items():
                    st = before[i]
                    if nd in b.mnodes or case["single"]:
                        if i in fs:
                            st = np.array(fs[i], dtype=float)
                        elif op["reset"]:
                            st = np.zeros_like(before[i])
                    nd.reset(to_state=np.asarray(st, dtype=float).reshape(1, -1))
                plain = {k: v for k, v in op.items() if k != "fail_step"}
                plain.update(from_state=False, reset=False, stateful=False)
                r3 = exec_op(b, case, plain, X, None, ts, None)
                for i in r[1]:
                    if not np.array_equal(r[1][i], r3[1][i]):
                        flag = ("from_state", f"{op['op']}(from_state=..., reset={op['reset']}) did not start from the given state: the output of "
                                              f"{b.name_of[i]} differs from the one obtained by overwriting the named states by hand and running the "
                                              f"plain operation (first rows {r[1][i][0].tolist()} vs {r3[1][i][0].tolist()})")
                        break
            finally:
                for nd, i in b.idx.items():
                    nd.reset(to_state=saved[i].reshape(1, -1))
            ctx.stat("from_state oracle evaluated" + ("/reset" if op["reset"] else ""))
        if flag:
            oracle_flags.append(flag)
        if flag and flag[0] == "state":
            break
    mo = ctx.model.one(b.scenario(dops, init_states=init_states))
    if mo[0] != "ok":
        raise common.FrameworkError("model rejected a C08 scenario: " + mo[1])
    corr_bad = None
    for oi, ((op, r, after, failed), mres) in enumerate(zip(results, mo[1])):
        ctx.stat("op=" + op["op"] + ("/stateless" if op.get("stateful") is False else "") + ("/failed" if failed else "")
                 + ("/reset" if op.get("reset") else "") + ("/from_state" if op.get("from_state") else "") + ("/batch" if op.get("nseq", 1) > 1 else ""))
        if not failed and op["op"] != "reset":
            msteps = [mres["steps"]] if op["op"] == "call" else [st_ for sq_ in mres["steps"] for st_ in sq_]
            for i, arr in r[1].items():
                for t in range(arr.shape[0]):
                    md = flow.row_diff(msteps[t][i], arr[t])
                    if md is not None and corr_bad is None:
                        corr_bad = f"op {oi} ({op['op']}): output of {b.name_of[i]} at step {t}: {md}"
        for i, st in after.items():
            md = flow.row_diff(mres["store"][i]["st"], st)
            if md is not None and corr_bad is None:
                corr_bad = f"op {oi} ({op['op']}{', failed' if failed else ''}): state of {b.name_of[i]} afterwards: {md}"
    n_stateless = sum(1 for op in case["ops"] if op.get("stateful") is False)
    ctx.count(case, nontrivial=n_stateless >= 1, obligation=ob)
    ctx.sample({"kinds": [d["kind"] for d in case["descs"]], "fb": case["fb"], "fail_node": case["fail_node"],
                "ops": [{k: v for k, v in op.items() if k != "seed"} for op in case["ops"]]})
    if hidden:
        ctx.stat("has_hidden_memory")
    for kind, what in oracle_flags:
        if kind == "repeat" and hidden and corr_bad is None and K4 in common.open_findings("C08"):
            ctx.known(K4, f"hidden memory ({', '.join(sorted(set(hidden)))}) survives stateful=False: " + what)
        else:
            ctx.violation(what, case, obligation=ob, extra={"model_comparison": corr_bad})
            return
    if corr_bad is not None:
        ctx.violation("implementation disagrees with RpyModel.Dataflow: " + corr_bad + "; the direct checks (state unchanged, repeat "
                      "gives the same result) hold on this history", case, found_input=False, obligation=ob)


def reset_fresh_check(ctx, g):
    """reset makes a node / model behave like a freshly initialised twin with the same weights"""
    case = gen_case(g)
    case["fail_node"] = None
    fb_links = {int(k): v for k, v in case["fb"].items()}
    ob = "reset_fresh"
    common.quiet()
    try:
        a = flow.Built(case["descs"], [tuple(e) for e in case["edges"]], fb_links=fb_links, outside=case["outside"])
        b = flow.Built(case["descs"], [tuple(e) for e in case["edges"]], fb_links=fb_links, outside=case["outside"])
        for bb in (a, b):
            for (od, on, _) in bb.outside:
                on.call(np.array(od["preset"], dtype=float).reshape(1, -1))
        ents = sorted(a.nodes.index(a.node_of[e]) for e in a.entries)
        gg = common.Gen(99)
        warm = {u: flow.seq_rows(gg, 4, case["descs"][u]["in_dim"]) for u in ents}
        probe = {u: flow.seq_rows(gg, 3, case["descs"][u]["in_dim"]) for u in ents}

        def X(bb, rows):
            m = {bb.nodes[u].name: np.array(rows[u], dtype=float) for u in ents}
            return list(m.values())[0] if len(m) == 1 else m
        ta = a.nodes[0] if case["single"] else a.model
        tb = b.nodes[0] if case["single"] else b.model
        ta.run(X(a, warm))
        ta.reset()
        if case["single"]:
            pa, pb = {0: np.asarray(ta.run(X(a, probe)))}, {0: np.asarray(tb.run(X(b, probe)))}
        else:
            oa, ob_ = ta.run(X(a, probe), return_states="all"), tb.run(X(b, probe), return_states="all")
            pa = {u: np.asarray(oa[nd.name]) for u, nd in enumerate(a.nodes)}
            pb = {u: np.asarray(ob_[nd.name]) for u, nd in enumerate(b.nodes)}
    except Exception as e:  # noqa
        ctx.violation(f"reset / run raised {type(e).__name__}: {e}", case, obligation=ob)
        return
    ctx.count(case, nontrivial=True, obligation=ob)
    hidden = has_hidden(case["descs"])
    for u in pa:
        if not np.array_equal(pa[u], pb[u]):
            what = (f"after reset, node {u} ({case['descs'][u]['kind']}) does not behave like a freshly initialised twin "
                    "with the same weights")
            if hidden and K4 in common.open_findings("C08"):
                ctx.known(K4, f"hidden memory ({', '.join(sorted(set(hidden)))}) survives reset: " + what)
            else:
                ctx.violation(what, case, expected=pb[u].tolist(), observed=pa[u].tolist(), obligation=ob)
            return


def run(ctx):
    ctx.notes["rule"] = ("random histories (2-7 operations: call / run / run inside a with_state context / reset / reset(to_state)) with every combination of "
                         "stateful, reset and from_state, on single nodes (Reservoir, NVAR, Delay, plain linear, ReLU) and on the random feedback models of C05; "
                         "in half of the models one node's forward raises at a chosen step of a chosen operation; every stateless operation is repeated; "
                         "plus reset-vs-fresh-twin runs. non-trivial = at least one stateless operation")
    g = ctx.gen
    for c in common.load_corpus("C08"):
        check_case(ctx, c)
    for _ in range(ctx.n(150, 2000)):
        check_case(ctx, gen_case(g))
    for _ in range(ctx.n(40, 500)):
        reset_fresh_check(ctx, g)


def replay(ctx, data):
    check_case(ctx, data["case"])
