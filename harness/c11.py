"""C11 — training touches only what it should; sessions are isolated. (a) Ridge histories of run /
partial_fit / fit / fit() / freeze with a `_partial_backward` that raises at a chosen sequence,
compared after every operation with the session model instantiated with the exact ridge rule;
(b) frame: parameter digests of every node of a model around run / fit / train, frozen nodes
included; (c) default-buffer offline nodes (ScikitLearnNode, a custom node) refitted."""
import hashlib
from fractions import Fraction

import numpy as np

from . import common, flow
from .common import q, qmat

LEVEL = "proof"
TRUSTED = [
    "model: lean/RpyModel/Training.lean (buffers, partial_fit / fit / fit() / freeze, failure at sequence k; learning rule abstract), instantiated by the driver with the exact ridge rule of RpyModel.Readout",
    "theorems: lean/RpyProofs/Props/C11.lean (inference pure; fixed weights never written over any history; frozen => every training operation rejected and nothing changes; every fit - completed or failed - leaves clean buffers, so a fit is a function of its own data: fit d1; fit d2 = failed fit; fit d2 = fresh; fit d2; partial fits then fit() = one fit on the concatenation; the model-level switch freezes every learner, each of which then keeps everything under any operation sequence - C11_model_freeze; a rejected fit(X, Y) = a fit failing before its first sequence - C11_rejected_fit)",
    "Python aliasing (shared list objects) is outside a value model: covered by the refit checks on default-buffer nodes",
]


def gen_history(g):
    d, o = g.randint(1, 3), g.randint(1, 2)
    c = {"kind": "history", "d": d, "o": o, "bias": g.chance(0.6), "ridge": g.choice([0.25, 0.5, 1.0]), "ops": []}
    # one history in six is planted around the rare configuration "a frozen node that still owns partial sums": every
    # training operation on it - fit() without data included - is rejected and changes nothing
    planted = None
    if g.chance(1 / 6):
        planted = (["fit"] if g.chance(0.5) else []) + ["partial_fit", "freeze", g.choice(["fit_nodata", "fit_nodata", "partial_fit", "fit"])] \
            + [g.choice(["fit_nodata", "run", "fit"]) for _ in range(g.randint(0, 2))]
    # one history in six starts with a malformed batch handed to the node BEFORE it has seen anything (the up-front
    # checks of a not yet initialised node are a code path of their own)
    first_malformed = planted is None and g.chance(1 / 6)
    for step in range(len(planted) if planted else g.randint(2, 7)):
        op = planted[step] if planted else g.choice(["run", "partial_fit", "fit", "fit", "fit", "fit_nodata", "freeze"])
        if first_malformed and step == 0:
            op = g.choice(["partial_fit", "fit"])
        e = {"op": op}
        if op in ("partial_fit", "fit"):
            k = g.randint(1, 3)
            if first_malformed and step == 0:
                k = g.randint(2, 3)
            e["seqs"] = [{"X": flow.seq_rows(g, L, d), "Y": flow.seq_rows(g, L, o)} for L in [g.randint(2, 5) for _ in range(k)]]
            if g.chance(0.3) and not (first_malformed and step == 0):
                e["fail_at"] = g.randint(0, k - 1)
            elif k >= 2 and (g.chance(0.3) or (first_malformed and step == 0)):
                # a malformed batch: sequence j >= 1 has another feature / target count, fewer target rows, or is no
                # longer than the warm-up. The call must be REJECTED, and as a whole: none of the sequences before the bad
                # one may have been accumulated (the next fit is the one of a node that never saw the batch)
                j = g.randint(1, k - 1)
                bad = g.choice(["features", "targets", "ylen", "short"])
                e["malformed"] = {"at": j, "kind": bad}
                L = len(e["seqs"][j]["X"])
                if bad == "features":
                    e["seqs"][j]["X"] = flow.seq_rows(g, L, d + 1)
                elif bad == "targets":
                    e["seqs"][j]["Y"] = flow.seq_rows(g, L, o + 1)
                elif bad == "ylen":
                    e["seqs"][j]["Y"] = e["seqs"][j]["Y"][:-1]
                else:
                    e["seqs"][j] = {"X": e["seqs"][j]["X"][:1], "Y": e["seqs"][j]["Y"][:1]}
                    e["warmup"] = 1
        elif op == "freeze":
            e["value"] = g.chance(0.5) if not planted else False
        if planted:
            e.pop("fail_at", None)
            if "malformed" in e:
                return gen_history(g)       # keep the planted histories free of other events
        c["ops"].append(e)
    return c


class FailAt:
    def __init__(self, node):
        self.node, self.k, self.n = node, None, 0
        orig = node._partial_backward

        def pb(nd, X, Y=None, **kw):
            if self.k is not None and self.n == self.k:
                self.k = None
                raise RuntimeError("injected failure")
            self.n += 1
            return orig(nd, X, Y, **kw)
        node._partial_backward = pb

    def arm(self, k):
        self.k, self.n = k, 0


def check_history(ctx, c):
    from reservoirpy.nodes import Ridge
    ob = "ridge_history"
    node = Ridge(ridge=c["ridge"], input_bias=c["bias"])
    fa = FailAt(node)
    mops = []
    obs = []
    for e in c["ops"]:
        op = e["op"]
        m = {"op": op}
        kw = {"warmup": e["warmup"]} if "warmup" in e else {}
        if "seqs" in e:
            if "malformed" not in e:
                m["seqs"] = [{"X": qmat(s["X"]), "Y": qmat(s["Y"])} for s in e["seqs"]]
            Xs = [np.array(s["X"], dtype=float) for s in e["seqs"]]
            Ys = [np.array(s["Y"], dtype=float) for s in e["seqs"]]
            if "fail_at" in e:
                m["fail_at"] = e["fail_at"]
                fa.arm(e["fail_at"])
            else:
                fa.k = None
        try:
            if op == "run":
                if node.is_initialized:
                    node.run(np.array(flow.seq_rows(common.Gen(1), 2, c["d"]), dtype=float))
                res = "ok"
            elif op == "partial_fit":
                node.partial_fit(Xs, Ys, **kw)
                res = "ok"
            elif op == "fit":
                node.fit(Xs, Ys, **kw)
                res = "ok"
            elif op == "fit_nodata":
                node.fit()
                res = "ok"
            else:
                m["value"] = not e["value"]          # model: frozen = not trainable
                node.is_trainable = e["value"]
                res = "ok"
        except RuntimeError as ex:
            res = "failed" if "injected failure" in str(ex) else "rejected"
        except Exception:  # noqa
            res = "rejected"
        finally:
            fa.k = None
        if "malformed" in e and op == "partial_fit":
            # not an operation of the session model at all: a rejected partial_fit is the identity (frozen nodes reject it too)
            m = None
        elif "malformed" in e:
            # a rejected fit(X, Y) is a fit that failed before its first sequence: like every failed fit it leaves no
            # buffers behind, those of earlier partial fits included (TOp.fit with failAt = 0)
            m["seqs"] = [{"X": qmat(e["seqs"][0]["X"]), "Y": qmat(e["seqs"][0]["Y"])}]
            m["fail_at"] = 0
        mops.append(m)
        W = None
        if node.is_initialized:
            W = (np.vstack([np.asarray(node.bias).reshape(1, -1), np.asarray(node.Wout)]) if c["bias"] else np.asarray(node.Wout)).copy()
        obs.append((res, W))
    mo = ctx.model.one({"kind": "training_history", "regime": "E", "d": c["d"], "o": c["o"], "bias": c["bias"],
                        "ridge": q(c["ridge"]), "ops": [m for m in mops if m is not None]})
    if mo[0] != "ok":
        raise common.FrameworkError("model rejected a C11 history: " + mo[1])
    # re-align: a rejected malformed batch has no model step; what the model holds after it is what it held before
    mres, it, last = [], iter(mo[1]), {"result": "ok", "W": None, "has_buffers": False}
    for m in mops:
        if m is None:
            mres.append(dict(last, result="rejected"))
        else:
            last = next(it)
            mres.append(last)
    n_fits = sum(1 for e in c["ops"] if e["op"] == "fit")
    ctx.count(c, nontrivial=n_fits >= 2 or any("fail_at" in e for e in c["ops"]), obligation=ob)
    ctx.sample({"d": c["d"], "o": c["o"], "ops": [{k: (v if k != "seqs" else len(v)) for k, v in e.items()} for e in c["ops"]]})
    for i, ((res, W), m, e) in enumerate(zip(obs, mres, c["ops"])):
        ctx.stat(f"op={e['op']} -> {res}" + (" (fail injected)" if "fail_at" in e else "") + (f" (malformed batch: {e['malformed']['kind']})" if "malformed" in e else ""))
        if "malformed" in e and res != "rejected":
            ctx.violation(f"operation {i} ({e['op']}): a batch whose sequence {e['malformed']['at']} is malformed ({e['malformed']['kind']}) was not rejected", c, obligation=ob)
            return
        if "malformed" in e and m["result"] == "failed":
            m = dict(m, result="rejected")
        if res != m["result"]:
            ctx.violation(f"operation {i} ({e['op']}) ended '{res}' but the session model says '{m['result']}'", c,
                          found_input=False, obligation=ob)
            return
        if m["W"] is not None and W is not None:
            ex = [[Fraction(v) for v in row] for row in m["W"]]
            scale = max([1] + [abs(v) for row in ex for v in row])
            for a in range(len(ex)):
                for b_ in range(len(ex[0])):
                    if abs(Fraction(float(W[a][b_])) - ex[a][b_]) > Fraction(1, 10 ** 9) * scale:
                        what = ("the parameters after this operation are not those of a fresh node fitted on the data supplied since the "
                                "previous fit ended")
                        ctx.violation(f"operation {i} ({e['op']}): {what}: entry {(a, b_)} = {float(W[a][b_])!r}, expected {float(ex[a][b_])!r} "
                                      f"(history: {[x['op'] + ('!' if 'fail_at' in x else '') + ('?' + x['malformed']['kind'] if 'malformed' in x else '') for x in c['ops'][:i + 1]]})", c,
                                      expected=float(ex[a][b_]), observed=float(W[a][b_]), obligation=ob)
                        return


# ----------------------------------------------------------------------------- frame (digests)

def param_digest(node):
    out = {}
    for k in sorted(node.params):
        v = node.params[k]
        if hasattr(v, "toarray"):
            v = v.toarray()
        if isinstance(v, np.ndarray):
            out[k] = hashlib.sha1(np.ascontiguousarray(v).tobytes() + repr(v.shape).encode()).hexdigest()
    return out


def check_frame(ctx, g):
    """run / fit / train on reservoir >> readout models: only the learned parameters of the trainable,
    unfrozen nodes the call targets may change"""
    from reservoirpy.nodes import Reservoir, Ridge, RLS, LMS
    ob = "frame"
    d, o, T = g.randint(1, 3), g.randint(1, 2), g.randint(4, 8)
    kind = g.choice(["offline", "online", "online2"])
    res = Reservoir(g.randint(3, 6), seed=g.randint(0, 999), lr=0.5)
    if kind == "offline":
        ros = [Ridge(ridge=0.5)]
    elif kind == "online":
        ros = [g.choice([RLS, LMS])()]
    else:
        ros = [RLS(), LMS()]
    model = res >> ros[0] if len(ros) == 1 else res >> ros
    X = np.array(flow.seq_rows(g, T, d), dtype=float)
    Ys = {r.name: np.array(flow.seq_rows(g, T, o), dtype=float) for r in ros}
    Y = Ys if len(ros) > 1 or g.chance(0.5) else list(Ys.values())[0]
    c = {"kind": "frame", "model": kind, "seed": 0}
    learned = {"Wout", "bias", "P"}

    def snapshot():
        return {n.name: param_digest(n) for n in model.nodes}

    def train_once():
        if kind == "offline":
            model.fit(X, Y)
        else:
            model.train(X, Y)
    try:
        train_once()                       # everything initialised, all params exist
        s0 = snapshot()
        model.run(X)
        s1 = snapshot()
        if s0 != s1:
            ctx.violation("Model.run changed a parameter", c, obligation=ob)
            return
        res.run(X)
        for r in ros:
            r.run(res.state() if False else np.zeros((2, res.output_dim)))
        if snapshot() != s1:
            ctx.violation("Node.run changed a parameter", c, obligation=ob)
            return
        # freeze one readout (after the model was assembled), train again
        frozen = g.choice(ros) if g.chance(0.7) else None
        frozen_names = set()
        how = "none"
        if frozen is not None:
            if g.chance(0.5):
                how = "node"
                frozen.is_trainable = False
                frozen_names = {frozen.name}
            else:
                # the model-level switch freezes every node of the model that learns, online or offline
                how = "model"
                model.is_trainable = False
                frozen_names = {r.name for r in ros}
                if any(r.is_trainable for r in ros):
                    ctx.violation(f"after model.is_trainable = False the node(s) {[r.name for r in ros if r.is_trainable]} still report is_trainable", c, obligation=ob)
                    return
        before = snapshot()
        try:
            train_once()
        except Exception:  # noqa  (a frozen single readout makes the call itself illegal: fine, but nothing may change)
            pass
        if how != "none" and kind != "offline":
            # ... and training a frozen online learner directly is no different
            for r in ros:
                if r.name in frozen_names:
                    try:
                        r.train(np.zeros((2, res.output_dim)) + 0.5, np.ones((2, o)))
                    except Exception:  # noqa
                        pass
        after = snapshot()
    except Exception as e:  # noqa
        ctx.violation(f"training raised {type(e).__name__}: {e}", c, obligation=ob)
        return
    ctx.count(dict(c, n=ctx.evaluations), nontrivial=True, obligation=ob)
    ctx.stat(f"frame model={kind} frozen={how} targets={'mapping' if isinstance(Y, dict) else 'array'}")
    for name in before:
        for k in before[name]:
            changed = before[name][k] != after[name].get(k)
            is_frozen = name in frozen_names
            if changed and (k not in learned or name == res.name):
                ctx.violation(f"a training call changed the fixed weight {name}.{k}", c, obligation=ob)
                return
            if changed and is_frozen:
                ctx.violation(f"a training call changed the parameter {k} of the frozen node {name}", c, obligation=ob)
                return


# ----------------------------------------------------------------------------- default-buffer nodes

def check_default_buffers(ctx, g):
    """offline nodes that use the default _X / _Y storage: a second fit must equal a fresh fit"""
    from reservoirpy.node import Node
    ob = "default_buffers"
    d, T = g.randint(1, 3), g.randint(3, 6)

    def backward(node, X, Y):
        Xc, Yc = np.concatenate(X, axis=0), np.concatenate(Y, axis=0)
        node.set_param("mx", Xc.mean(axis=0, keepdims=True))
        node.set_param("my", Yc.mean(axis=0, keepdims=True))

    def init(node, x=None, y=None):
        if x is not None:
            node.set_input_dim(x.shape[1])
            node.set_output_dim(y.shape[1] if y is not None else 1)

    def mk():
        return Node(forward=lambda n, x: np.zeros((1, n.output_dim)), backward=backward, initializer=init,
                    params={"mx": None, "my": None})
    c = {"kind": "default_buffers", "n": ctx.evaluations}
    X1, Y1 = np.array(flow.seq_rows(g, T, d)), np.array(flow.seq_rows(g, T, 2))
    X2, Y2 = np.array(flow.seq_rows(g, T, d)), np.array(flow.seq_rows(g, T, 2))
    a, b = mk(), mk()
    ctx.count(c, nontrivial=True, obligation=ob)
    k14 = "K14" in common.open_findings("C11")

    def report(what, **kw):
        if k14:
            ctx.known("K14", what + " (clean_buffers makes _X and _Y one shared list)")
        else:
            ctx.violation(what, c, obligation=ob, **kw)
    try:
        a.fit(X1, Y1)
        a.fit(X2, Y2)
        b.fit(X2, Y2)
    except Exception as e:  # noqa
        report(f"refitting an offline node that uses the default buffers raised {type(e).__name__}")
        return
    if not (np.array_equal(a.mx, b.mx) and np.array_equal(a.my, b.my)):
        report("a second fit of a default-buffer offline node differs from a fresh fit on the same data "
               "(inputs mixed with targets)")
        return
    # the real ScikitLearnNode (single output)
    try:
        from sklearn.linear_model import Ridge as SkRidge
        from reservoirpy.nodes import ScikitLearnNode
        s1, s2 = ScikitLearnNode(SkRidge, model_hypers={"alpha": 1.0}), ScikitLearnNode(SkRidge, model_hypers={"alpha": 1.0})
        s1.fit(X1, Y1[:, :1])
        s1.fit(X2, Y2[:, :1])
        s2.fit(X2, Y2[:, :1])
        p = np.array(flow.seq_rows(g, 3, d))
        if not np.allclose(s1.run(p), s2.run(p), atol=1e-12):
            report("ScikitLearnNode: a second fit differs from a fresh fit on the same data")
    except Exception as e:  # noqa
        report(f"ScikitLearnNode: refit raised {type(e).__name__}")


def check_default_buffers_failed(ctx, g):
    """offline nodes that store their sequences (IPReservoir, a user node with a backward function): a fit that
    fails at a later sequence must not leave the earlier ones behind for the next fit (K14's aliasing does not
    interfere here: unsupervised nodes store inputs only; the user node below keeps X and Y apart itself)"""
    from reservoirpy.nodes import IPReservoir
    ob = "default_buffers_failed"
    c = {"kind": "default_buffers_failed", "n": ctx.evaluations, "seed": g.randint(0, 10 ** 6)}
    rng = np.random.default_rng(c["seed"])
    long1, short, good = rng.uniform(-1, 1, (20, 2)), rng.uniform(-1, 1, (3, 2)), rng.uniform(-1, 1, (25, 2))
    bad_at = g.randint(1, 2)
    batch = [long1, rng.uniform(-1, 1, (18, 2)), rng.uniform(-1, 1, (16, 2))]
    batch[bad_at] = short
    ctx.count(c, nontrivial=True, obligation=ob)

    def mk():
        return IPReservoir(5, seed=3, epochs=1, mu=0.0, sigma=0.5)
    a, b = mk(), mk()
    # twin histories: both are initialised on the same first sample
    a.initialize(good[:1])
    b.initialize(good[:1])
    r = common.exc_class(lambda: a.fit(batch, warmup=10))
    if r[0] == "ok":
        ctx.stat("default_buffers_failed: short sequence accepted")
        return
    ra = common.exc_class(lambda: a.fit(good, warmup=2))
    rb = common.exc_class(lambda: b.fit(good, warmup=2))
    if ra[0] != "ok" or rb[0] != "ok":
        ctx.violation(f"IPReservoir.fit after a failed fit raised {ra[1] if ra[0] != 'ok' else rb[1]}", c, obligation=ob)
        return
    if not (np.allclose(a.a, b.a, rtol=0, atol=1e-12) and np.allclose(a.b, b.b, rtol=0, atol=1e-12)):
        ctx.violation(f"IPReservoir: a fit that failed at sequence {bad_at} (shorter than the warm-up) left the sequences before it in the node's "
                      f"store; the next fit learned from them too (gain differs from a twin's by {float(np.max(np.abs(a.a - b.a))):.3g})", c, obligation=ob)


def check_model_failed_fit(ctx, c):
    """a Model.fit / ESN.fit that fails on a later sequence (too short for the warm-up, wrong feature
    count, wrong target size), then the SAME model fitted on good data: the result must be the fit of a
    fresh model on that data alone"""
    import reservoirpy.nodes as N
    ob = "model_failed_fit"
    rng = np.random.default_rng(c["dseed"])
    K = c["K"]
    Xs = [rng.uniform(-1, 1, (L, 2)) for L in c["lens"]]
    Ys = [np.tanh(x.sum(axis=1, keepdims=True)) for x in Xs]
    bad = c["bad"]
    Xb, Yb = list(Xs), list(Ys)
    if c["failure"] == "short":
        Xb[bad], Yb[bad] = Xs[bad][:1], Ys[bad][:1]
        wbad = 3
    elif c["failure"] == "features":
        Xb[bad] = np.hstack([Xs[bad], Xs[bad][:, :1]])
        wbad = c["warmup"]
    elif c["failure"] == "raise":
        # a node of the model raises something that is neither a ValueError nor a LinAlgError while the bad sequence runs
        Xb[bad] = Xs[bad].copy()
        Xb[bad][min(c["warmup"] + 1, len(Xb[bad]) - 1), :] = 1e15
        wbad = c["warmup"]
    elif c["failure"] == "nan":
        # every sequence is accumulated; the failure comes in the final solve
        Yb[bad] = Ys[bad].copy()
        Yb[bad][c["warmup"] + 1, 0] = np.nan
        wbad = c["warmup"]
    else:
        Yb[bad] = np.hstack([Ys[bad], Ys[bad]])
        wbad = c["warmup"]

    def guarded(x):
        if np.any(np.abs(x) > 1e12):      # (beyond the blown-up recurrent matrices of finding K6 too)
            raise FloatingPointError("input out of the sensor's range")
        return np.tanh(x)
    rkw = {"activation": guarded} if c["failure"] == "raise" else {}

    def mk():
        if c["model"] == "node":
            return N.Ridge(ridge=1e-3)
        if c["model"] == "esn":
            if c.get("workers", 1) != 1:
                return N.ESN(units=6, seed=c["seed"], ridge=1e-3, workers=c["workers"], backend="threading", **rkw)
            return N.ESN(units=6, seed=c["seed"], ridge=1e-3, workers=1, **rkw)
        if c["model"] == "deep":
            return N.Reservoir(6, seed=c["seed"], **rkw) >> N.Ridge(ridge=1e-3, name=None) >> N.Reservoir(4, seed=c["seed"] + 1) >> N.Ridge(ridge=1e-3)
        return N.Reservoir(6, seed=c["seed"], **rkw) >> N.Ridge(ridge=1e-3)

    def weights(m):
        if c["model"] == "node":
            return [np.vstack([np.asarray(m.bias), np.asarray(m.Wout)])]
        nodes = [m.readout] if c["model"] == "esn" else [n for n in m.nodes if type(n).__name__ == "Ridge"]
        return [np.vstack([np.asarray(n.bias), np.asarray(n.Wout)]) for n in nodes]
    kw = {} if c["model"] in ("esn", "node") else {"reset": True}
    Yfit = Ys if c["model"] != "deep" else None
    ctx.count(c, nontrivial=True, obligation=ob)
    ctx.stat(f"model_failed_fit {c['model']}/{c['failure']} prior={bool(c.get('prior'))}")

    def targets(m, Y):
        if c["model"] != "deep":
            return Y
        ridges = [n for n in m.nodes if type(n).__name__ == "Ridge"]
        return {n.name: Y for n in ridges}
    fresh = mk()
    r0 = common.exc_class(lambda: fresh.fit(Xs, targets(fresh, Ys), warmup=c["warmup"], **kw))
    if r0[0] != "ok":
        ctx.violation(f"fitting a fresh {c['model']} model raised {r0[1]}", c, obligation=ob)
        return
    m = mk()
    if c.get("prior"):
        # an earlier, completed fit of the same model on other data
        X0 = [rng.uniform(-1, 1, (10, 2)) for _ in range(2)]
        Y0 = [np.tanh(x.sum(axis=1, keepdims=True)) for x in X0]
        rp = common.exc_class(lambda: m.fit(X0, targets(m, Y0), warmup=c["warmup"], **kw))
        if rp[0] != "ok":
            ctx.violation(f"fitting a {c['model']} model raised {rp[1]}", c, obligation=ob)
            return
    r1 = common.exc_class(lambda: m.fit(Xb, targets(m, Yb), warmup=wbad, **kw))
    if r1[0] == "ok":
        ctx.stat("model_failed_fit: malformed data accepted")
        return        # rejection of malformed data is C12's business
    r2 = common.exc_class(lambda: m.fit(Xs, targets(m, Ys), warmup=c["warmup"], **kw))
    if r2[0] != "ok":
        ctx.violation(f"after a failed fit ({r1[1]}, {c['failure']} at sequence {bad}) the same {c['model']} model cannot be fitted on good data: {r2[1]}", c, obligation=ob)
        return
    for a, b in zip(weights(m), weights(fresh)):
        if a.shape != b.shape or not np.allclose(a, b, rtol=0, atol=1e-9 * max(1.0, float(np.max(np.abs(b))))):
            ctx.violation(f"a {c['model']} fit that failed at sequence {bad} ({c['failure']}: {r1[1]}) contaminated the next fit of the same model: readout weights differ "
                          f"from a fresh model fitted on the same data by {float(np.max(np.abs(a - b))):.3g} (the sequences run before the failure were counted twice)",
                          c, obligation=ob)
            return


def gen_model_failed_fit(g):
    K = g.randint(2, 4)
    c = {"kind": "model_failed_fit", "model": g.choice(["chain", "chain", "esn", "esn", "esn", "deep", "node"]),
         "failure": g.choice(["short", "features", "targets", "nan", "raise"]),
         "K": K, "lens": [g.randint(8, 14) for _ in range(K)], "bad": g.randint(1, K - 1), "warmup": g.choice([0, 2]),
         "seed": g.randint(0, 10 ** 6), "dseed": g.randint(0, 10 ** 6), "prior": g.chance(0.5)}
    if c["model"] == "node" and c["failure"] == "raise":
        c["failure"] = "short"          # (a lone readout has no node in front of it that could raise)
    if c["model"] == "esn":
        c["workers"] = g.choice([1, 1, 2, -1])      # several workers (threads): the sums live in the readout they share
    return c


def check_case(ctx, c):
    common.quiet()
    if c["kind"] == "history":
        check_history(ctx, c)
    elif c["kind"] == "model_failed_fit":
        check_model_failed_fit(ctx, c)



def check_clone_session(ctx, g):
    """a training session carried on by a CLONE of the node (Node.copy, deepcopy, pickle round trip taken between two
    partial fits - a checkpoint): the clone finishes the session with the sums it was cloned with, its next fit is again a
    function of its own data only, and the original's session is not touched by what the clone does"""
    import copy
    import pickle
    from reservoirpy.nodes import Ridge
    ob = "clone_session"
    d, o = g.randint(1, 3), g.randint(1, 2)
    lam = g.choice([0.25, 0.5, 1.0])
    via = g.choice(["copy", "deepcopy", "pickle"])
    c = {"kind": "clone_session", "via": via, "d": d, "o": o}
    ctx.count(c, nontrivial=True, obligation=ob)
    ctx.stat(f"clone_session via={via}")

    def data(L):
        return (np.array(flow.seq_rows(g, L, d), dtype=float), np.array(flow.seq_rows(g, L, o), dtype=float))

    def fresh_fit(parts):
        f = Ridge(ridge=lam)
        f.fit([p_[0] for p_ in parts], [p_[1] for p_ in parts])
        return np.vstack([np.asarray(f.bias).reshape(1, -1), np.asarray(f.Wout)])

    def W(n_):
        return np.vstack([np.asarray(n_.bias).reshape(1, -1), np.asarray(n_.Wout)])
    A, B, C_, D_ = data(g.randint(4, 7)), data(g.randint(4, 7)), data(g.randint(4, 7)), data(g.randint(4, 7))
    node = Ridge(ridge=lam)
    node.partial_fit(*A)
    clone = {"copy": lambda n_: n_.copy(), "deepcopy": copy.deepcopy, "pickle": lambda n_: pickle.loads(pickle.dumps(n_))}[via](node)
    try:
        clone.partial_fit(*B)
        clone.fit()
        w1 = W(clone)
        clone.fit(*C_)
        w2 = W(clone)
        node.partial_fit(*D_)
        node.fit()
        w3 = W(node)
    except Exception as ex:  # noqa
        ctx.violation(f"a session carried on by a clone ({via}) raised {type(ex).__name__}: {ex}", c, obligation=ob)
        return
    for label, got, parts, pn in (("the clone's fit() closing the session", w1, [A, B], "A+B"),
                                  ("the clone's NEXT fit", w2, [C_], "C"),
                                  ("the original's own session, closed after the clone's", w3, [A, D_], "A+D")):
        exp = fresh_fit(parts)
        if got.shape != exp.shape or not np.allclose(got, exp, rtol=1e-9, atol=1e-9):
            ctx.violation(f"clone ({via}) taken between two partial fits: {label} is not the fit of a fresh node on "
                          f"{pn} (max difference "
                          f"{float(np.max(np.abs(got - exp))) if got.shape == exp.shape else 'shape'})", c, obligation=ob)
            return



def _guarded_tanh(x):
    if np.any(np.abs(x) > 1e12):
        raise FloatingPointError("input out of range")
    return np.tanh(x)


def check_late_workers(ctx, trial):
    """a parallel ESN.fit (threads) in which a SHORT sequence fails at once while two long ones are still running: the
    workers that outlive the failed fit must not add their sums to the readout it has cleaned - the next fit is the fit of a
    fresh ESN on its own data (defect D40, deterministic witness)"""
    import time
    from reservoirpy.nodes import ESN
    ob = "late_workers"
    c = {"kind": "late_workers", "trial": trial}
    ctx.count(c, nontrivial=True, obligation=ob)
    ctx.stat("failed threaded ESN.fit with workers still running")
    rng = np.random.default_rng(100 + trial)

    def data(L):
        x = rng.uniform(-1, 1, (L, 2))
        return x, np.tanh(x.sum(axis=1, keepdims=True))
    e = ESN(units=20, sr=0.9, lr=0.5, ridge=1e-3, seed=1, workers=3, backend="threading", activation=_guarded_tanh)
    long1, long2, bad = data(3000), data(3000), data(5)
    bad[0][2, :] = 1e15
    r = common.exc_class(lambda: e.fit([bad[0], long1[0], long2[0]], [bad[1], long1[1], long2[1]]))
    if r[0] == "ok":
        ctx.stat("late_workers: the poisoned sequence did not fail")
        return
    time.sleep(0.5)
    good = [data(50) for _ in range(3)]
    f = ESN(units=20, sr=0.9, lr=0.5, ridge=1e-3, seed=1, workers=1, activation=_guarded_tanh)
    r2 = common.exc_class(lambda: (e.fit([g_[0] for g_ in good], [g_[1] for g_ in good]), f.fit([g_[0] for g_ in good], [g_[1] for g_ in good])))
    if r2[0] != "ok":
        ctx.violation(f"after a failed threaded ESN.fit the same ESN cannot be fitted on good data: {r2[1]}", c, obligation=ob)
        return
    d = float(np.max(np.abs(np.asarray(e.readout.Wout) - np.asarray(f.readout.Wout))))
    if d > 1e-8 * max(1.0, float(np.max(np.abs(f.readout.Wout)))):
        ctx.violation("a threaded ESN.fit failed on a short sequence while two long ones were still running; the next fit of that ESN differs "
                      f"from the fit of a fresh ESN on the same data by {d:.3g}: the workers that outlived the failed fit added their sums to the "
                      "readout after it had been cleaned", c, obligation=ob)


def run(ctx):
    ctx.notes["rule"] = ("Ridge histories of 2-7 operations (run, partial_fit / fit on 1-3 sequences with an injected failure at a random sequence in 30% of "
                         "them, fit() without data, freeze / unfreeze); frame: reservoir >> Ridge | RLS | LMS | [RLS, LMS] models, digests of every array parameter of "
                         "every node around run / fit / train, one readout frozen after assembly in 70% of the cases, targets as array or mapping; "
                         "default-buffer offline nodes (custom node, ScikitLearnNode) refitted. non-trivial = at least 2 fits or an injected failure")
    g = ctx.gen
    common.quiet()
    for c in common.load_corpus("C11"):
        check_case(ctx, c)
    for _ in range(ctx.n(150, 2000)):
        check_history(ctx, gen_history(g))
    for _ in range(ctx.n(40, 500)):
        check_frame(ctx, g)
    for _ in range(ctx.n(10, 100)):
        check_default_buffers(ctx, g)
    for _ in range(ctx.n(30, 300)):
        check_model_failed_fit(ctx, gen_model_failed_fit(g))
    for _ in range(ctx.n(4, 40)):
        check_default_buffers_failed(ctx, g)
    for _ in range(ctx.n(12, 120)):
        check_clone_session(ctx, g)
    for t in range(ctx.n(2, 8)):
        check_late_workers(ctx, t)


def replay(ctx, data):
    c = data["case"]
    common.quiet()
    if c.get("kind") == "history":
        check_history(ctx, c)
    elif c.get("kind") == "model_failed_fit":
        check_model_failed_fit(ctx, c)
    elif c.get("kind") == "default_buffers_failed":
        for _ in range(4):
            check_default_buffers_failed(ctx, ctx.gen)
    elif c.get("kind") == "late_workers":
        check_late_workers(ctx, c.get("trial", 0))
    elif c.get("kind") == "clone_session":
        for _ in range(12):
            check_clone_session(ctx, ctx.gen)
    elif c.get("kind") == "frame":
        for _ in range(40):
            check_frame(ctx, ctx.gen)
    else:
        for _ in range(10):
            check_default_buffers(ctx, ctx.gen)
