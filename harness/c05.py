"""C05 — feedback is delayed by exactly one step; forced feedback replaces it. Random models with
feedback connections (sender downstream, upstream or outside the graph), free and forced runs
(forced value keyed by the sender or by the receiver, shift_fb on/off, several sequences),
single calls with forced_feedback, resets — compared exactly with the generic dataflow model and
with a direct oracle that rebuilds every node from its descriptor and feeds each receiver, through
a stub sender, the feedback value the property prescribes."""
import numpy as np

from . import common, flow

LEVEL = "proof"
TRUSTED = [
    "model: lean/RpyModel/Dataflow.lean (readFb / forwardF / loadProxys / enterFeedback / stepM / shiftForced / runSeq / callModel)",
    "theorems: lean/RpyProofs/Props/C05.lean (proxies frozen during a step; feedback value fixed at step start wherever the sender stands; every free-running step starts synced, so it is the sender's state of step t-1; forced value read and consumed once; the shift: zero, then Y[t-1], or Y[t]; sender-side forcing sets the proxy, leaving the context restores every proxy whatever happened inside, and a receiver then reads the sender's current state again)",
    "sub-model senders and list senders are NOT in the model (findings K1, K10): exercised by witnesses only",
    "teacher-forced offline fit (targets as forced feedback, zero at the first step of each sequence) is exercised through C06's fit harness on the feedback topologies",
]

KINDS = ["identity", "relu", "plainlinear", "plainlinear", "reservoir", "delay"]


def gen_case(g):
    # a small graph with at least one reservoir
    for _ in range(50):
        descs, edges = flow.gen_graph(g, n_nodes=g.randint(2, 5), kinds=KINDS + ["reservoir"],
                                      entry_kinds=("reservoir", "plainlinear", "identity"), wide_kind="plainlinear")
        res = [i for i, d in enumerate(descs) if d["kind"] == "reservoir"]
        if res:
            break
    n = len(descs)
    fb_links, outside = {}, []
    receivers = g.sample(res, min(len(res), g.choice([1, 2, 2])))
    for r in receivers:
        where = g.choice(["down", "down", "up", "outside", "self_down"])
        cands_down = [j for j in range(n) if j > r and j not in receivers]
        cands_up = [j for j in range(n) if j < r and j not in receivers]
        if where == "down" and cands_down:
            s = g.choice(cands_down)
        elif where == "up" and cands_up:
            s = g.choice(cands_up)
        elif where == "outside" or not (cands_down or cands_up):
            od = flow.gen_node(g, "plainlinear", g.randint(1, 2))
            od["preset"] = g.dyvec(od["in_dim"], a=2, k=6)
            outside.append(od)
            s = n + len(outside) - 1
        else:
            s = g.choice(cands_down or cands_up)
        k = descs[s]["out_dim"] if s < n else outside[s - n]["out_dim"]
        flow.add_feedback(g, descs[r], k)
        fb_links[r] = s
    # one sender may be a real (unfitted) Ridge readout: the typical ESN layout
    ridge_sender = None
    for r, s in fb_links.items():
        if s < n and descs[s]["kind"] == "plainlinear" and g.chance(0.5) and ridge_sender is None:
            descs[s]["kind"] = "linear"
            ridge_sender = s
    ops = []
    nops = g.randint(1, 4)
    burst = g.chance(0.25)
    for _ in range(nops + (3 if burst else 0)):
        kind = "call" if burst else g.choice(["run", "run", "run_forced", "run_forced", "call", "call_forced", "reset"])
        op = {"op": kind, "seed": g.randint(0, 10 ** 9)}
        if kind.startswith("run"):
            nseq = 1 if g.chance(0.7) else 2
            op["lens"] = [g.randint(1, 6) for _ in range(nseq)]
        if kind.endswith("forced"):
            op["shift_fb"] = g.chance(0.7)
            op["key"] = g.choice(["sender", "receiver"])
            # with several feedback loops, one of them may be left free while the others are forced: the free one goes on
            # delivering its sender's previous state
            if len(fb_links) >= 2 and g.chance(0.6):
                op["leave_free"] = g.randint(0, len(fb_links) - 1)
        ops.append(op)
    return {"kind": "c05", "descs": descs, "edges": edges, "fb": {str(k): v for k, v in fb_links.items()},
            "outside": outside, "ops": ops, "ridge_sender": ridge_sender}


def forced_targets(b, case, op):
    """which node index carries the forced value for each receiver: {key_idx: dim}; must include the
    unfitted Ridge sender if there is one (the library demands a value for every trainable node)"""
    keys = {}
    n = len(case["descs"])
    for li, (r_s, s) in enumerate(sorted(case["fb"].items(), key=lambda kv: int(kv[0]))):
        r = int(r_s)
        if op.get("leave_free") == li and case["ridge_sender"] != s:
            continue
        ri = b.idx[b.nodes[r]]
        si = b.idx[b.nodes[s]] if s < n else b.idx[b.outside[s - n][1]]
        dim = b.all_descs[si]["out_dim"]
        if op["key"] == "receiver" and not (case["ridge_sender"] == s):
            keys[ri] = dim
        else:
            keys[si] = dim
    return keys


def op_data(b, case, op):
    g = common.Gen(op["seed"])
    d = {"X": {}, "F": None}
    lens = op.get("lens", [1])
    for e in b.entries:
        d["X"][e] = [flow.seq_rows(g, L, b.all_descs[e]["in_dim"]) for L in lens]
    if op["op"].endswith("forced"):
        keys = forced_targets(b, case, op)
        d["F"] = {k: [flow.seq_rows(g, L, dim) for L in lens] for k, dim in keys.items()}
    return d, lens


def pack(seqs, single):
    arrs = [np.array(s, dtype=float).reshape(len(s), -1) for s in seqs]
    return arrs[0] if single else arrs


_BUFS = {}


def stream_buf(b, e, row):
    """the caller's reusable input buffer (a streaming loop overwrites it in place between calls)"""
    key = (id(b), e)
    arr = np.asarray(row, dtype=float).reshape(1, -1)
    if key not in _BUFS:
        _BUFS[key] = arr.copy()
    else:
        _BUFS[key][:] = arr
    return _BUFS[key]


def run_impl(b, op, d, lens):
    m = b.model
    single = len(lens) == 1
    X = {b.name_of[e]: pack(d["X"][e], single) for e in b.entries}
    if len(b.entries) == 1 and op["seed"] % 2 == 0:
        X = list(X.values())[0]
    kind = op["op"]
    if kind == "reset":
        m.reset()
        out = None
    elif kind == "run":
        out = m.run(X, return_states="all")
    elif kind == "run_forced":
        F = {b.name_of[k]: pack(v, single) for k, v in d["F"].items()}
        out = m.run(X, forced_feedbacks=F, shift_fb=op["shift_fb"], return_states="all")
    elif kind == "call":
        x = ({b.name_of[e]: stream_buf(b, e, d["X"][e][0][0]) for e in b.entries} if isinstance(X, dict)
             else stream_buf(b, b.entries[0], d["X"][b.entries[0]][0][0]))
        out = m.call(x, return_states="all")
    else:
        x = ({b.name_of[e]: stream_buf(b, e, d["X"][e][0][0]) for e in b.entries} if isinstance(X, dict)
             else stream_buf(b, b.entries[0], d["X"][b.entries[0]][0][0]))
        F = {b.name_of[k]: np.array(v[0][:1], dtype=float) for k, v in d["F"].items()}
        out = m.call(x, forced_feedback=F, return_states="all")
    states = {i: np.asarray(nd.state(), dtype=float) for nd, i in b.idx.items()}
    return out, states


def driver_op(b, op, d, lens):
    kind = op["op"]
    if kind == "reset":
        return {"op": "reset"}
    if kind.startswith("call"):
        o = {"op": "call", "x": {str(e): flow.qvec(d["X"][e][0][0]) for e in d["X"]}}
        if kind == "call_forced":
            o["forced"] = {str(k): flow.qvec(v[0][0]) for k, v in d["F"].items()}
        return o
    seqs = []
    for si in range(len(lens)):
        s = {"X": {str(e): flow.qmat(d["X"][e][si]) for e in d["X"]}}
        if kind == "run_forced":
            s["forced"] = {str(k): flow.qmat(v[si]) for k, v in d["F"].items()}
        seqs.append(s)
    o = {"op": "run", "seqs": seqs}
    if kind == "run_forced":
        o["shift_fb"] = op["shift_fb"]
    return o


class Oracle:
    """fresh nodes rebuilt from the descriptors; each receiver gets its feedback from a stub"""

    def __init__(self, b, case):
        from reservoirpy.nodes import Input
        self.b = b
        self.nodes, self.stubs = {}, {}
        for i, d in enumerate(b.all_descs):
            if d["kind"] == "concat":
                from reservoirpy.nodes import Concat
                self.nodes[i] = Concat()
            else:
                self.nodes[i] = flow.make_node(d, flow.fresh("q"))
                if b.fb[i] is not None:
                    stub = Input(input_dim=d["k"], name=flow.fresh("stub"))
                    self.nodes[i] <<= stub
                    self.stubs[i] = stub
        self.state = {i: np.zeros((1, d["out_dim"])) for i, d in enumerate(b.all_descs)}

    def preset(self, i, x):
        self.state[i] = np.asarray(self.nodes[i].call(np.asarray(x, dtype=float).reshape(1, -1)), dtype=float).reshape(1, -1)

    def step(self, ext, fbvals):
        """fbvals: {receiver idx: row} — the feedback value the property prescribes"""
        b = self.b
        for i in b.order:
            ins = [self.state[p] for p in b.parents[i]]
            if i in ext:
                ins.append(np.asarray(ext[i], dtype=float).reshape(1, -1))
            nd = self.nodes[i]
            if i in self.stubs:
                self.stubs[i].call(np.asarray(fbvals[i], dtype=float).reshape(1, -1))
            if b.all_descs[i]["kind"] == "concat":
                x = ins if len(ins) > 1 else ins[0]
            else:
                x = np.concatenate(ins, axis=1) if len(ins) > 1 else ins[0]
            if i in self.stubs and not nd.is_initialized:
                nd.initialize(x)
                nd.initialize_feedback()
            nd.reset(to_state=self.state[i]) if nd.is_initialized else None
            self.state[i] = np.asarray(nd.call(x), dtype=float).reshape(1, -1)

    def reset(self):
        for i in self.b.order:
            self.state[i] = np.zeros_like(self.state[i])


def check_special(ctx, case):
    """senders that the executable model does not cover (a sub-model, a list of nodes): direct
    oracle only, with a decoding reservoir (identity activation, W = Win = 0, Wfb = ones) whose
    state IS the feedback it read"""
    common.quiet()
    from reservoirpy.node import Node
    from reservoirpy.nodes import Reservoir, Ridge
    open_k = common.open_findings("C05")
    ob = "feedback_special_senders"
    ctx.count(case, obligation=ob)

    def dim_init(node, x=None, **kw):
        node.set_input_dim(x.shape[1])
        node.set_output_dim(x.shape[1])
    if case["kind"] == "k1_submodel_sender":
        def run_case(submodel):
            src = Node(forward=lambda n, x: x * 1.0, initializer=dim_init)
            res = Reservoir(W=np.zeros((2, 2)), Win=np.zeros((2, 1)), Wfb=np.array([[1.], [0.]]), bias=np.zeros((2, 1)), activation="identity")
            if submodel:
                res <<= (src >> Node(forward=lambda n, x: x * 10.0, initializer=dim_init))
            else:
                res <<= src
            m = src >> res
            X = np.arange(1, 9.).reshape(-1, 1)
            o1 = m.run(X[:3])
            o2 = m.run(X[3:6], forced_feedbacks={res.name: np.array([[100.], [200.], [300.]])})
            o3 = m.run(X[6:])
            return np.vstack([o1, o2, o3])[:, 0]
        r = common.exc_class(lambda: (run_case(False), run_case(True)))
        if r[0] != "ok":
            ctx.violation(f"feedback from a sub-model raised {r[1]}", case, obligation=ob)
            return
        plain, sub = r[1]
        want_plain = np.array([0., 1., 2., 0., 100., 200., 6., 7.])
        if not np.array_equal(plain, want_plain):
            ctx.violation(f"node sender: the receiver read {plain.tolist()}, expected {want_plain.tolist()} (previous step's output; forced values shifted)",
                          case, obligation=ob)
            return
        want_sub = np.array([0., 10., 20., 0., 100., 200., 60., 70.])
        if not np.array_equal(sub, want_sub):
            msg = (f"sub-model feedback sender: after 3 forced-feedback steps the receiver read {sub.tolist()} instead of {want_sub.tolist()} "
                   "(a value several steps old on the first free step)")
            if "K1" in open_k and sub[6] != 60.:
                ctx.known("K1", msg)
            else:
                ctx.violation(msg, case, obligation=ob)
    elif case["kind"] == "call_options":
        # a single-step call with reset=True or from_state: the receiver must read the sender's state AS
        # INSTALLED by the option (zero after a reset, the given state with from_state), for a sender
        # downstream or upstream of the receiver
        def run_case(position, v0):
            if position == "upstream":
                echo = Node(forward=lambda n, x: x * 1.0, initializer=dim_init)
            else:
                # a counter: emits its own previous output + 1, whatever it receives (one output)
                def cnt_init(node, x=None, **kw):
                    node.set_input_dim(x.shape[1])
                    node.set_output_dim(1)
                echo = Node(forward=lambda n, x: np.asarray(n.state()) + 1.0, initializer=cnt_init)
            res = Reservoir(W=np.zeros((2, 2)), Win=np.zeros((2, 1)), Wfb=np.array([[1.], [0.]]), bias=np.zeros((2, 1)), activation="identity")
            res <<= echo
            # a last node that raises on demand: a call that fails INSIDE a node (after the feedback snapshots were
            # taken) must leave nothing behind for the next call
            arm = [False]

            def bomb_fwd(n, x):
                if arm[0]:
                    raise RuntimeError("injected failure")
                return x * 1.0
            bomb = Node(forward=bomb_fwd, initializer=dim_init)
            m = (echo >> res >> bomb) if position == "upstream" else (res >> echo >> bomb)
            x = lambda v: np.array([[float(v)]])
            m.call(x(case["a"]))
            m.call(x(case["b"]))
            arm[0] = True
            try:
                m.call(x(case["b"] + 3))
            except RuntimeError:
                pass
            arm[0] = False
            seen_reset = np.asarray(m.call(x(case["c"]), reset=True, return_states=[res.name])[res.name])[0, 0]
            m.call(x(case["a"]))
            seen_from = np.asarray(m.call(x(case["c"]), from_state={echo.name: x(v0)}, return_states=[res.name])[res.name])[0, 0]
            m.call(x(case["b"]))
            before = np.asarray(echo.state()).copy()
            seen_stateless = np.asarray(m.call(x(case["c"]), from_state={echo.name: x(v0)}, stateful=False,
                                               return_states=[res.name])[res.name])[0, 0]
            restored = np.array_equal(np.asarray(echo.state()), before)
            return float(seen_reset), float(seen_from), float(seen_stateless), restored
        for position in ("upstream", "downstream"):
            r = common.exc_class(run_case, position, case["v0"])
            if r[0] != "ok":
                ctx.violation(f"call with reset / from_state on a model with a {position} feedback sender raised {r[1]}", case, obligation=ob)
                return
            sr, sf, ss, restored = r[1]
            if sr != 0.0:
                ctx.violation(f"call(reset=True), {position} sender: the receiver read {sr} as feedback, expected 0 (the sender's state after the reset)", case, obligation=ob)
                return
            if sf != float(case["v0"]) or ss != float(case["v0"]):
                ctx.violation(f"call(from_state={{sender: {case['v0']}}}), {position} sender: the receiver read {sf} (stateful) / {ss} (stateless) as feedback, "
                              f"expected {case['v0']} (the state installed for the sender)", case, obligation=ob)
                return
            if not restored:
                ctx.violation(f"call(from_state, stateful=False), {position} sender: the sender's state was not restored", case, obligation=ob)
                return
    elif case["kind"] == "train_learn_every":
        # online training with learn_every > 1: at EVERY step (learning or not) the receiver reads the
        # sender's output of the previous step
        from reservoirpy.nodes import LMS, RLS

        def run_case():
            echo = Node(forward=lambda n, x: x * 1.0, initializer=dim_init)
            res = Reservoir(W=np.zeros((2, 2)), Win=np.zeros((2, 1)), Wfb=np.array([[1.], [0.]]), bias=np.zeros((2, 1)), activation="identity")
            res <<= echo
            ro = (LMS if case["rule"] == "lms" else RLS)(1)
            m = (echo >> res >> ro) if case["position"] == "upstream" else (res >> ro >> echo if case["position"] == "downstream" else (res >> ro) & (echo >> res))
            T = case["T"]
            X = np.arange(1, T + 1, dtype=float).reshape(-1, 1) * case["scale"]
            Y = np.zeros((T, 1))
            out = m.train(X, Y, learn_every=case["learn_every"], force_teachers=case["force_teachers"], return_states=[res.name, echo.name])
            return np.asarray(out[res.name])[:, 0], np.asarray(out[echo.name])[:, 0]
        r = common.exc_class(run_case)
        if r[0] != "ok":
            ctx.violation(f"Model.train(learn_every={case['learn_every']}) on a model with feedback raised {r[1]}", case, obligation=ob)
            return
        seen, sent = r[1]
        want = np.concatenate([[0.0], sent[:-1]])
        if not np.array_equal(seen, want):
            t = int(np.argmax(seen != want))
            ctx.violation(f"Model.train(learn_every={case['learn_every']}, force_teachers={case['force_teachers']}), sender {case['position']}: at step {t} the receiver read "
                          f"{seen[t]} as feedback, expected the sender's output of step {t - 1} = {want[t]} (read {seen.tolist()}, sender emitted {sent.tolist()})",
                          case, obligation=ob)
    elif case["kind"] == "submodel_sender_upstream":
        # the sender is a SUB-MODEL (S1 >> T) whose entry S1 sits upstream of the receiver in the forward graph
        # (src >> S1 >> R, T outside): R reads T(S1's output of step t-1); when feedback is forced on S1, T(forced value
        # of step t-1), zero first. (Sub-model senders are outside the executable model; the stale value AFTER forced
        # steps is finding K1 and is not exercised here.)
        ks, kt = float(case["ks"]), float(case["kt"])

        def run_case():
            seen = []

            def scale(k):
                return Node(forward=lambda node, x: x * k, initializer=dim_init)

            def recv(node, x):
                seen.append(float(np.asarray(node.feedback()).ravel()[0]))
                return x + 0.0
            src, S1, T = scale(1.0), scale(ks), scale(kt)
            R = Node(forward=recv, initializer=dim_init)
            R <<= S1 >> T
            m = src >> S1 >> R
            X = np.arange(1.0, 1.0 + case["T"]).reshape(-1, 1)
            m.run(X)
            free = list(seen)
            seen.clear()
            F = X * 100.0
            m.run(X, forced_feedbacks={S1.name: F})
            return free, list(seen), X[:, 0].tolist(), F[:, 0].tolist()
        r = common.exc_class(run_case)
        if r[0] != "ok":
            ctx.violation(f"a model whose feedback sender is a sub-model with an upstream entry raised {r[1]}", case, obligation=ob)
            return
        free, forced, X, F = r[1]
        want_free = [0.0] + [kt * ks * v for v in X[:-1]]
        want_forced = [0.0] + [kt * v for v in F[:-1]]
        if not np.allclose(free, want_free):
            ctx.violation(f"sub-model sender (entry upstream of the receiver), free run: the receiver read {free}, expected {want_free}", case, obligation=ob)
        elif not np.allclose(forced, want_forced):
            ctx.violation(f"sub-model sender (entry upstream of the receiver), feedback forced on its entry node: the receiver read {forced}, expected the "
                          f"sub-model applied to the forced value of the previous step {want_forced}", case, obligation=ob)
    elif case["kind"] == "k19_submodel_fully_upstream":
        # finding K19: when ALL nodes of a sub-model sender are upstream of the receiver in the forward graph, the receiver
        # reads the sub-model's output of the SAME step
        def run_case():
            seen = []

            def scale(k):
                return Node(forward=lambda node, x: x * k, initializer=dim_init)

            def recv(node, x):
                seen.append(float(np.asarray(node.feedback()).ravel()[0]))
                return x + 0.0
            src, S1, T = scale(1.0), scale(2.0), scale(10.0)
            R = Node(forward=recv, initializer=dim_init)
            R <<= S1 >> T
            m = src >> S1 >> T >> R
            X = np.arange(1.0, 6.0).reshape(-1, 1)
            m.run(X)
            return seen, X[:, 0].tolist()
        r = common.exc_class(run_case)
        if r[0] != "ok":
            ctx.violation(f"a model whose feedback sender is an upstream sub-model raised {r[1]}", case, obligation=ob)
            return
        seen, X = r[1]
        want = [0.0] + [20.0 * v for v in X[:-1]]
        if not np.allclose(seen, want):
            msg = (f"sub-model feedback sender whose nodes are all upstream of the receiver: the receiver read {seen}, expected the one-step-delayed "
                   f"{want}" + (" (it reads the value of the SAME step)" if np.allclose(seen, [20.0 * v for v in X]) else ""))
            if "K19" in open_k and np.allclose(seen, [20.0 * v for v in X]):
                ctx.known("K19", msg)
            else:
                ctx.violation(msg, case, obligation=ob)
    elif case["kind"] == "fit_run_fit_reset":
        # fit, run (the readout now emits something), fit again, then a run from reset states (or from given states): at
        # its first step the receiver must read the sender's state as installed - nothing left over from the fits
        def run_case():
            res = Reservoir(W=np.zeros((2, 2)), Win=np.zeros((2, 1)), Wfb=np.array([[1.], [0.]]), bias=np.zeros((2, 1)), activation="identity")
            ro = Ridge(1, ridge=1e-6)
            res <<= ro
            m = res >> ro
            T = case["T"]
            X = np.ones((T, 1))
            Y = np.full((T, 1), float(case["level"]))
            m.fit(X, Y)
            m.run(X[:3])
            m.fit(X, Y + 1.0)
            how = case["how"]
            if how == "run_reset":
                out = m.run(X[:2], reset=True, return_states=[res.name])
                want = 0.0
            elif how == "model_reset":
                m.reset()
                out = m.run(X[:2], return_states=[res.name])
                want = 0.0
            else:
                out = m.run(X[:2], from_state={ro.name: np.array([[float(case["v0"])]])}, return_states=[res.name])
                want = float(case["v0"])
            return float(np.asarray(out[res.name])[0, 0]), want
        r = common.exc_class(run_case)
        if r[0] != "ok":
            ctx.violation(f"fit / run / fit / run({case['how']}) on a model with feedback raised {r[1]}", case, obligation=ob)
            return
        seen, want = r[1]
        if seen != want:
            ctx.violation(f"after fit, run, fit: a run started with {case['how']} makes the receiver read {seen} as feedback at its first step, expected {want} "
                          "(the sender's state as installed; something of the earlier operations was left in the feedback path)", case, obligation=ob)
    elif case["kind"] == "k10_list_senders":
        def run_case():
            r = Reservoir(W=np.zeros((4, 4)), Win=np.zeros((4, 2)), bias=np.zeros((4, 1)), activation="identity", Wfb=lambda *s, **k: np.ones(s))
            o1 = Ridge(1, Wout=np.zeros((4, 1)), bias=np.array([[1.]]))
            o2 = Ridge(2, Wout=np.zeros((4, 2)), bias=np.array([[10., 20.]]))
            r <<= [o1, o2]
            m = r >> [o1, o2]
            out = m.run(np.ones((4, 2)), return_states=[r.name])
            return r.feedback_dim, out[r.name][:, 0]
        r = common.exc_class(run_case)
        if r[0] != "ok":
            ctx.violation(f"feedback from a list of senders raised {r[1]}", case, obligation=ob)
            return
        fdim, seen = r[1]
        # senders emit 1 and (10, 20) at every step: from step 1 on the receiver must read 1 + 10 + 20
        if fdim != 3 or not np.array_equal(seen, np.array([0., 31., 31., 31.])):
            msg = (f"feedback from a list of senders [a (1 output), b (2 outputs)]: feedback_dim = {fdim} and the receiver read {seen.tolist()}; "
                   "expected dimension 3 and the sum 31 of all three outputs from the second step on (only one sender is delivered)")
            if "K10" in open_k and fdim < 3:
                ctx.known("K10", msg)
            else:
                ctx.violation(msg, case, obligation=ob)


def check_case(ctx, case):
    if case.get("kind") in ("k1_submodel_sender", "k10_list_senders", "call_options", "train_learn_every", "fit_run_fit_reset", "submodel_sender_upstream", "k19_submodel_fully_upstream"):
        return check_special(ctx, case)
    common.quiet()
    _BUFS.clear()
    ob = "feedback_dataflow"
    n = len(case["descs"])
    fb_links = {int(k): v for k, v in case["fb"].items()}
    try:
        b = flow.Built(case["descs"], [tuple(e) for e in case["edges"]], fb_links=fb_links, outside=case["outside"])
    except Exception as e:  # noqa
        ctx.violation(f"building a model with feedback raised {type(e).__name__}: {e}", case, obligation=ob)
        return
    orc = Oracle(b, case)
    init_states = {}
    # initialise the model up front (a reset or a stateless call may come first)
    g0 = common.Gen(12345)
    x0 = {b.name_of[e]: np.array([g0.dyvec(b.all_descs[e]["in_dim"])], dtype=float) for e in b.entries}
    # outside senders get a pre-existing output
    for k, (od, on, _) in enumerate(b.outside):
        on.call(np.array(od["preset"], dtype=float).reshape(1, -1))
        oi = b.idx[on]
        orc.preset(oi, od["preset"])
        init_states[oi] = orc.state[oi].reshape(-1).tolist()
    try:
        b.model.initialize(x0 if len(b.entries) > 1 else list(x0.values())[0])
    except Exception as e:  # noqa
        ctx.violation(f"Model.initialize raised {type(e).__name__}: {e}", case, obligation=ob)
        return
    where = []
    for r, s in fb_links.items():
        where.append("outside" if s >= n else ("down" if s > r else "up"))
    for w in where:
        ctx.stat("sender=" + w)
    dops, impl_obs, oracle_obs, metas = [], [], [], []
    fb_steps = 0
    for op in case["ops"]:
        d, lens = op_data(b, case, op)
        dops.append(driver_op(b, op, d, lens))
        r = common.exc_class(run_impl, b, op, d, lens)
        impl_obs.append(r)
        metas.append((d, lens))
        kind = op["op"]
        steps = []
        if kind == "reset":
            orc.reset()
        else:
            nl = [1] if kind.startswith("call") else lens
            for si, L in enumerate(nl):
                srows = []
                for t in range(L):
                    ext = {e: d["X"][e][si][t] for e in d["X"]}
                    fbvals = {}
                    for ri in [i for i in range(len(b.all_descs)) if b.fb[i] is not None]:
                        si_ = b.fb[ri]
                        forced = None
                        if d["F"] is not None:
                            src = d["F"].get(ri) if ri in d["F"] else d["F"].get(si_)
                            if src is not None:
                                if kind == "call_forced":
                                    forced = src[0][0]
                                elif op["shift_fb"]:
                                    forced = [0.0] * len(src[si][0]) if t == 0 else src[si][t - 1]
                                else:
                                    forced = src[si][t]
                        fbvals[ri] = forced if forced is not None else prev_state(orc, si_)
                        fb_steps += 1
                    snapshot_prev(orc)
                    orc.step(ext, fbvals)
                    srows.append({i: orc.state[i].copy() for i in orc.state})
                steps.append(srows)
        oracle_obs.append(steps)
        if r[0] != "ok":
            break
    mo = ctx.model.one(b.scenario(dops, init_states=init_states))
    if mo[0] != "ok":
        raise common.FrameworkError("model rejected a C05 scenario: " + mo[1])
    for oi, (op, r, osteps, mres) in enumerate(zip(case["ops"], impl_obs, oracle_obs, mo[1])):
        ctx.stat("op=" + op["op"] + ("/" + op["key"] + ("/shift" if op["shift_fb"] else "/noshift") if op["op"].endswith("forced") else ""))
        if r[0] != "ok":
            ctx.violation(f"op {oi} ({op['op']}) raised {r[1]} on well-formed input", case, obligation=ob)
            return
        out, states = r[1]
        kind = op["op"]
        if kind != "reset":
            lens = [1] if kind.startswith("call") else op["lens"]
            msteps = [[mres["steps"]]] if kind.startswith("call") else mres["steps"]
            for nd in b.mnodes:
                i = b.idx[nd]
                val = out[nd.name]
                seqs = ([np.asarray(val, dtype=float).reshape(1, -1)] if kind.startswith("call")
                        else [np.asarray(val, dtype=float)] if len(lens) == 1 else [np.asarray(v, dtype=float) for v in val])
                for si, (arr, L) in enumerate(zip(seqs, lens)):
                    for t in range(L):
                        exp = osteps[si][t][i].reshape(-1)
                        if not np.allclose(arr[t], exp, rtol=0, atol=1e-12):
                            what = ("the receiver did not see the feedback value the property prescribes "
                                    "(sender's output of step t-1 / forced value of step t-1, zero first / value of step t without shift)")
                            ctx.violation(f"op {oi} ({kind}): node {nd.name} at step {t} of sequence {si}: {what}", case,
                                          expected=exp.tolist(), observed=arr[t].tolist(), obligation=ob)
                            return
                        md = flow.row_diff(msteps[si][t][i], arr[t])
                        if md is not None:
                            ctx.violation(f"op {oi} ({kind}): node {nd.name} step {t}: implementation disagrees with RpyModel.Dataflow ({md}); "
                                          "the feedback oracle agrees with the implementation", case, found_input=False, obligation=ob)
                            return
        for i, st in states.items():
            md = flow.row_diff(mres["store"][i]["st"], st)
            if md is not None:
                ctx.violation(f"op {oi} ({kind}): state of {b.name_of[i]} after the operation disagrees with RpyModel.Dataflow ({md})",
                              case, found_input=False, obligation=ob)
                return
    ctx.count(case, nontrivial=fb_steps >= 2, obligation=ob)
    ctx.sample({"kinds": [d["kind"] for d in case["descs"]], "edges": case["edges"], "fb": case["fb"],
                "outside": len(case["outside"]), "ops": [{k: v for k, v in op.items() if k != "seed"} for op in case["ops"]]})


_prev = {}


def snapshot_prev(orc):
    _prev.clear()
    _prev.update({i: v.copy() for i, v in orc.state.items()})


def prev_state(orc, i):
    # the sender's output of the previous step = its state at the start of this step
    return orc.state[i].reshape(-1)


def run(ctx):
    ctx.notes["rule"] = ("random models of 2-5 real nodes with 1-2 feedback receivers (reservoirs with piecewise-linear activations and a feedback matrix); "
                         "sender downstream / upstream / outside the graph, plain node or unfitted Ridge readout; histories of 1-4 operations among free run, "
                         "forced run (keyed by sender or receiver, shift on/off, 1-2 sequences), call, call with forced_feedback, reset. "
                         "non-trivial = at least 2 feedback reads")
    g = ctx.gen
    for c in common.load_corpus("C05"):
        check_case(ctx, c)
    for _ in range(ctx.n(150, 2000)):
        check_case(ctx, gen_case(g))
    for _ in range(ctx.n(12, 120)):
        check_case(ctx, {"kind": "call_options", "a": g.randint(1, 9), "b": g.randint(10, 19), "c": g.randint(20, 29), "v0": g.choice([42, -7, 0.5, 3])})
        check_case(ctx, {"kind": "submodel_sender_upstream", "ks": g.choice([2, 3, 0.5]), "kt": g.choice([10, -4, 7]), "T": g.randint(4, 7)})
        check_case(ctx, {"kind": "fit_run_fit_reset", "T": g.randint(5, 9), "level": g.choice([7, -3, 2.5]), "how": g.choice(["run_reset", "model_reset", "from_state"]),
                         "v0": g.choice([42, -5, 0.5])})
        check_case(ctx, {"kind": "train_learn_every", "rule": g.choice(["lms", "rls"]), "position": g.choice(["upstream", "downstream", "side"]),
                         "T": g.randint(4, 9), "scale": g.choice([1.0, 0.5, 2.0]), "learn_every": g.choice([1, 2, 3, 4]),
                         "force_teachers": g.chance(0.5)})
    # forced by target values during offline fitting (second sentence of the property): the
    # teacher-forced fit cases of C06's harness (feedback from a readout of the same or of a later stage)
    from . import c06
    k = 0
    while k < ctx.n(30, 400):
        c = c06.gen_fit_case(g)
        if c["fb"]:
            c06.check_fit(ctx, c)
            k += 1


def replay(ctx, data):
    if data["case"].get("kind") == "fit":
        from . import c06
        common.quiet()
        c06.check_fit(ctx, data["case"])
    else:
        check_case(ctx, data["case"])
