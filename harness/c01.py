"""C01 — reservoir recurrence. Correspondence of `Reservoir` with RpyModel.Reservoir (regimes E
and F) plus the direct oracle (numpy recomputation of every step from the node's own
parameters). See DESIGN.md §6 C01."""
import numpy as np
from fractions import Fraction

from . import common
from .common import q, qvec, qmat, fbits, fvec, fmat, unfbits

LEVEL = "proof"
TRUSTED = [
    "model: lean/RpyModel/Reservoir.lean (hand-written mirror of nodes/reservoirs/base.py)",
    "theorems: lean/RpyProofs/Props/C01.lean over an arbitrary field; the feedback value of a hand-forced step and of the free steps after it is the one of C05_sender_forced_read / C05_forced_read / C05_after_context_reads_state (lean/RpyProofs/Props/C05.lean), which the `force` stream ties to Node.with_feedback",
    "float64 rounding, np.tanh and BLAS are outside the model (regime F tolerance 1e-9; regime E is exact)",
]

ACT_E = ["identity", "relu", "hardclip"]
ACT_F = ["tanh", "sigmoid", "identity", "relu", "softplus", "softmax"]
MODEL_ACTS = {"identity", "relu", "hardclip", "tanh", "sigmoid"}     # softplus / softmax units: numpy oracle of the law only


def hardclip(x):
    return np.clip(x, -1.0, 1.0)


def gen_case(g, regime):
    n = g.randint(1, 7)
    init = "user" if regime == "E" else g.choice(["user", "initializer"])
    if init == "initializer":
        n = max(n, 3)   # scipy's ARPACK cannot take a 1x1 / 2x2 sparse matrix (environment, see DESIGN §10)
    m = g.randint(1, 4)
    k = g.randint(1, 3)
    T = g.randint(1, 12 if regime == "E" else 30)
    c = {
        "kind": "reservoir_run", "regime": regime, "n": n, "m": m, "k": k,
        "eq": g.choice(["internal", "external"]),
        "fmt": g.choice(["dense", "csr", "csc"]),
        "hasFb": g.chance(0.5),
        "act": g.choice(ACT_E if regime == "E" else ACT_F),
        "fbact": g.choice(["identity", "relu"] if regime == "E" else ["identity", "tanh"]),
        "bias_on": g.chance(0.75),
        "lr_vec": g.chance(0.4),
        "mode": g.choice(["run", "calls", "run2"]),
        "init": init,
        "seed": g.randint(0, 10 ** 6),
    }
    lrs = [1.0, 0.5, 0.25, 0.75, 0.125]
    if c["lr_vec"]:
        c["lr_f"] = [g.choice(lrs) for _ in range(n)]
    else:
        c["lr_f"] = g.choice(lrs)
    c["W_f"] = g.dymat(n, n, density=0.6)
    c["Win_f"] = g.dymat(n, m)
    c["bias_f"] = g.dyvec(n) if c["bias_on"] else [0.0] * n
    c["Wfb_f"] = g.dymat(n, k)
    c["x0_f"] = g.dyvec(n) if g.chance(0.8) else [0.0] * n
    c["U_f"] = [g.dyvec(m) for _ in range(T)]
    c["FB_f"] = [g.dyvec(k) for _ in range(T)]
    if c["mode"] == "run":        # constant feedback (sender state does not change during run)
        c["FB_f"] = [c["FB_f"][0]] * T
    if c["mode"] == "run2":
        c["cut"] = g.randint(0, T)
        c["FB_f"] = [c["FB_f"][0]] * T
    if regime == "F":
        # non-dyadic scale
        s = 0.1 + g.random()
        if g.chance(0.2):
            s *= g.choice([100.0, 1000.0])      # large-amplitude drive: pre-activations in the hundreds and thousands
        if c["act"] in ("softplus", "softmax", "sigmoid") and g.chance(0.6):
            # exponential-based activations: pre-activations beyond +-710, where a naive exp() overflows
            # (the law gives finite states there: softplus(z) ~ z, sigmoid(z) ~ 1, softmax a one-hot)
            s = g.choice([3e3, 1e4, 1e5])
        c["U_f"] = [[v * s for v in row] for row in c["U_f"]]
    # the type of the input arrays: the law is about their values, not their dtype
    c["udtype"] = g.choice(["float64", "float64", "float64", "int64", "int8", "float32"])
    if c["udtype"] == "int8" and max(abs(v) for row in c["U_f"] for v in row) > 120:
        c["udtype"] = "int64"      # (int8 cannot hold the large-amplitude drive: the cast would wrap around)
    if c["udtype"].startswith("int"):
        c["U_f"] = [[float(round(v)) for v in row] for row in c["U_f"]]
    elif c["udtype"] == "float32":
        c["U_f"] = [[float(np.float32(v)) for v in row] for row in c["U_f"]]
    # hand-stepped feedback loop where some steps receive a forced feedback value, through the sender's or the
    # receiver's with_feedback context; the steps after the context use the sender's state again
    if c["mode"] == "calls" and c["hasFb"] and g.chance(0.5):
        c["force"] = [g.choice([None, None, "sender", "receiver"]) for _ in range(T)]
    return c


def build_node(c):
    """Build the real Reservoir of a case; returns (reservoir, sender or None)."""
    from reservoirpy.nodes import Reservoir, Input
    from scipy import sparse
    n, m, k = c["n"], c["m"], c["k"]
    act = hardclip if c["act"] == "hardclip" else c["act"]
    lr = np.array(c["lr_f"]) if c["lr_vec"] else c["lr_f"]
    kw = dict(lr=lr, activation=act, fb_activation=c["fbact"], equation=c["eq"],
              input_bias=c["bias_on"])
    if c["init"] == "user":
        W = np.array(c["W_f"], dtype=float).reshape(n, n)
        Wm = W if c["fmt"] == "dense" else (sparse.csr_matrix(W) if c["fmt"] == "csr" else sparse.csc_matrix(W))
        kw.update(W=Wm, Win=np.array(c["Win_f"], dtype=float).reshape(n, m))
        if c["bias_on"]:
            kw.update(bias=np.array(c["bias_f"], dtype=float).reshape(n, 1))
        if c["hasFb"]:
            kw.update(Wfb=np.array(c["Wfb_f"], dtype=float).reshape(n, k))
    else:
        kw.update(units=n, sr=0.9, rc_connectivity=0.5, input_connectivity=0.7, fb_connectivity=0.8,
                  seed=c["seed"])
    res = Reservoir(**kw)
    sender = None
    if c["hasFb"]:
        sender = Input(input_dim=k)
        res <<= sender
    return res, sender


def run_impl(c):
    """Run the real library. Returns dict(rows=[[float]], x=[..], s=[..], params=...)"""
    res, sender = build_node(c)
    U = np.array(c["U_f"], dtype=float).reshape(len(c["U_f"]), c["m"]).astype(np.dtype(c.get("udtype", "float64")))
    FB = np.array(c["FB_f"], dtype=float).reshape(len(c["FB_f"]), c["k"])
    x0 = np.array(c["x0_f"], dtype=float).reshape(1, -1)
    force = c.get("force") or [None] * len(U)
    if sender is not None:
        sender.call(FB[:1])
    res.initialize(U[:1])
    if c["hasFb"]:
        res.initialize_feedback()
    if c["mode"] == "run":
        rows = res.run(U, from_state=x0)
    elif c["mode"] == "run2":
        cut = c["cut"]
        parts = []
        res.reset(to_state=x0)
        if cut > 0:
            parts.append(res.run(U[:cut]))
        if cut < len(U):
            parts.append(res.run(U[cut:]))
        rows = np.vstack(parts)
    else:
        res.reset(to_state=x0)
        rows = []
        for t in range(len(U)):
            if force[t] == "sender":
                with sender.with_feedback(FB[t:t + 1].copy()):
                    rows.append(res.call(U[t:t + 1])[0])
            elif force[t] == "receiver":
                with res.with_feedback(FB[t:t + 1].copy()):
                    rows.append(res.call(U[t:t + 1])[0])
            else:
                if sender is not None:
                    sender.call(FB[t:t + 1])
                rows.append(res.call(U[t:t + 1])[0])
        rows = np.array(rows)
    W = res.W.toarray() if hasattr(res.W, "toarray") else np.asarray(res.W)
    params = dict(W=W, Win=np.asarray(res.Win.toarray() if hasattr(res.Win, "toarray") else res.Win),
                  bias=np.asarray(res.bias.toarray() if hasattr(res.bias, "toarray") else res.bias).reshape(-1),
                  Wfb=None if not c["hasFb"] else np.asarray(res.Wfb.toarray() if hasattr(res.Wfb, "toarray") else res.Wfb))
    return dict(rows=np.asarray(rows, dtype=float), x=np.asarray(res.state(), dtype=float).reshape(-1),
                s=np.asarray(res.internal_state, dtype=float).reshape(-1), params=params,
                rows_shape=list(np.asarray(rows).shape), state_shape=list(res.state().shape))


def model_case(c, params):
    """Driver case from the generator case and the node's actual parameters."""
    E = c["regime"] == "E"
    enc_v = qvec if E else fvec
    enc_m = qmat if E else fmat
    enc = q if E else fbits
    n = c["n"]
    W = params["W"]
    d = {"kind": "reservoir_run", "regime": c["regime"], "n": n, "m": c["m"], "k": c["k"],
         "eq": c["eq"], "hasFb": c["hasFb"], "act": c["act"], "fbact": c["fbact"],
         "Win": enc_m(params["Win"].tolist()), "bias": enc_v(params["bias"].tolist()),
         "lr": enc_v(c["lr_f"] if c["lr_vec"] else [c["lr_f"]] * n),
         "x0": enc_v(c["x0_f"]), "s0": enc_v([0.0] * n),
         "U": enc_m(c["U_f"])}
    if c["fmt"] == "dense":
        d["W"] = enc_m(W.tolist())
    else:
        d["W"] = {"coo": [[i, j, enc(W[i, j])] for i in range(n) for j in range(n) if W[i, j] != 0.0]}
    if c["hasFb"]:
        d["Wfb"] = enc_m(params["Wfb"].tolist())
        d["FB"] = enc_m(c["FB_f"])
    return d


def np_act(name):
    def softmax(v):
        e = np.exp(v - np.max(v))
        return e / np.sum(e)

    def sigmoid(v):
        with np.errstate(over="ignore"):
            return np.where(v >= 0, 1.0 / (1.0 + np.exp(-np.abs(v))), np.exp(-np.abs(v)) / (1.0 + np.exp(-np.abs(v))))
    return {"identity": lambda v: v, "relu": lambda v: np.maximum(v, 0.0), "hardclip": hardclip,
            "tanh": np.tanh, "sigmoid": sigmoid, "softplus": lambda v: np.logaddexp(0.0, v), "softmax": softmax}[name]


def oracle(c, obs, tol):
    """Direct property check on the real code: recompute every step from the previous row with
    the node's own parameters. Returns None or a description of the first failing step."""
    P = obs["params"]
    f = np_act(c["act"])
    g = np_act(c["fbact"])
    n = c["n"]
    lr = np.array(c["lr_f"] if c["lr_vec"] else [c["lr_f"]] * n, dtype=float)
    x = np.array(c["x0_f"], dtype=float)
    s = np.zeros(n)
    for t, row in enumerate(obs["rows"]):
        u = np.array(c["U_f"][t], dtype=float)
        pre = P["W"] @ x + P["Win"] @ u + P["bias"]
        if c["hasFb"]:
            pre = pre + P["Wfb"] @ g(np.array(c["FB_f"][t], dtype=float))
        if c["eq"] == "internal":
            exp = (1 - lr) * x + lr * f(pre)
        else:
            s = (1 - lr) * s + lr * pre
            exp = f(s)
        if not np.allclose(row, exp, rtol=tol, atol=tol):
            return {"step": t, "expected": exp.tolist(), "observed": row.tolist(),
                    "previous": x.tolist()}
        # continue from the *observed* row: the law is step-by-step
        x = np.array(row, dtype=float)
        if c["eq"] == "external":
            # the leaky memory is not observable per step; continue with the recomputed one
            pass
    if c["eq"] == "external" and not np.allclose(obs["s"], s, rtol=tol, atol=tol):
        # ... but it is observable at the end (the `internal_state` parameter)
        return {"step": len(obs["rows"]), "expected": s.tolist(), "observed": np.asarray(obs["s"]).tolist(),
                "previous": x.tolist(), "what": "internal_state after the run is not the leaky integration of the pre-activations"}
    return None


def compare(c, obs, out):
    """Compare implementation rows with the model's. Returns None or mismatch description."""
    rows = obs["rows"]
    if len(out["X"]) != len(rows):
        return {"what": "row count", "model": len(out["X"]), "impl": len(rows)}
    E = c["regime"] == "E"
    for t, (mr, ir) in enumerate(zip(out["X"], rows)):
        for i, (mv, iv) in enumerate(zip(mr, ir)):
            if E:
                ex = Fraction(mv)
                if common.bits_needed(ex) <= 40:
                    ok = Fraction(float(iv)) == ex
                else:
                    ok = common.close(iv, ex, 1e-12)
                mvf = float(ex)
            else:
                mvf = unfbits(mv)
                ok = abs(mvf - iv) <= 1e-9 * max(1.0, abs(mvf))
            if not ok:
                return {"what": "state value", "step": t, "unit": i, "model": mvf, "impl": float(iv)}
    # final memory
    fin = [Fraction(v) if E else unfbits(v) for v in out["x"]]
    for i, (mv, iv) in enumerate(zip(fin, obs["x"])):
        if abs(float(mv) - iv) > 1e-9 * max(1.0, abs(float(mv))):
            return {"what": "final state()", "unit": i, "model": float(mv), "impl": float(iv)}
    fin_s = [Fraction(v) if E else unfbits(v) for v in out["s"]]
    if c["eq"] == "external":
        for i, (mv, iv) in enumerate(zip(fin_s, obs["s"])):
            if abs(float(mv) - iv) > 1e-9 * max(1.0, abs(float(mv))):
                return {"what": "final internal_state", "unit": i, "model": float(mv), "impl": float(iv)}
    if obs["rows_shape"] != [len(c["U_f"]), c["n"]]:
        return {"what": "rows shape", "impl": obs["rows_shape"]}
    return None


def nontrivial(c):
    W = np.array(c["W_f"])
    return len(c["U_f"]) >= 2 and np.count_nonzero(W) > 0


def shrink_T(c, T):
    d = dict(c)
    d["U_f"] = c["U_f"][:T]
    d["FB_f"] = c["FB_f"][:T]
    if "cut" in d:
        d["cut"] = min(d["cut"], T)
    return d


def check_cases(ctx, cases):
    common.quiet()
    obs_list = []
    mcases = []
    for c in cases:
        r = common.exc_class(run_impl, c)
        obs_list.append(r)
        if r[0] == "ok" and c["act"] in MODEL_ACTS:
            mcases.append(model_case(c, r[1]["params"]))
        else:
            mcases.append(None)
    outs = ctx.model.batch([m for m in mcases if m is not None])
    it = iter(outs)
    for c, r, mc in zip(cases, obs_list, mcases):
        ob = f"reservoir_run/{c['regime']}"
        ctx.count({k: v for k, v in c.items()}, nontrivial=nontrivial(c), obligation=ob)
        ctx.stat(f"regime={c['regime']}")
        ctx.stat(f"eq={c['eq']}")
        ctx.stat(f"fmt={c['fmt']}")
        ctx.stat(f"mode={c['mode']}")
        ctx.stat(f"act={c['act']}")
        ctx.stat(f"fb={c['hasFb']}")
        ctx.stat(f"init={c['init']}")
        ctx.stat(f"lr_vec={c['lr_vec']}")
        ctx.stat(f"T={len(c['U_f'])}")
        ctx.stat(f"input dtype={c.get('udtype', 'float64')}")
        ctx.stat("forced feedback steps: " + ("none" if not c.get("force") else "+".join(sorted({str(f) for f in c["force"]}))))
        tol = 1e-12 if c["regime"] == "E" else 1e-9
        if r[0] != "ok":
            ctx.violation("well-formed reservoir run raised " + r[1], c, found_input=True, obligation=ob)
            continue
        mo = next(it) if mc is not None else None
        obs = r[1]
        ctx.sample({"n": c["n"], "m": c["m"], "eq": c["eq"], "fmt": c["fmt"], "act": c["act"],
                    "hasFb": c["hasFb"], "lr": c["lr_f"], "U": c["U_f"][:2],
                    "first_rows": obs["rows"][:2].tolist()})
        orc = oracle(c, obs, tol)
        if mo is not None and mo[0] != "ok":
            raise common.FrameworkError(f"model rejected a well-formed C01 case: {mo[1]}")
        diff = compare(c, obs, mo[1]) if mo is not None else None
        if mo is None:
            ctx.stat("units outside the model's activation set: numpy oracle only")
        if orc is not None:
            # shrink: shortest prefix that still fails
            small = c
            for T in range(1, len(c["U_f"]) + 1):
                cc = shrink_T(c, T)
                rr = common.exc_class(run_impl, cc)
                if rr[0] == "ok" and oracle(cc, rr[1], tol) is not None:
                    small, orc = cc, oracle(cc, rr[1], tol)
                    break
            ctx.violation("a step of Reservoir.run does not satisfy the documented update law",
                          small, expected=orc["expected"], observed=orc["observed"],
                          found_input=True, obligation=ob, extra={"oracle": orc, "model_diff": diff})
        elif diff is not None:
            ctx.violation("Reservoir disagrees with the model RpyModel.Reservoir (theorems C01_* no "
                          "longer apply to the code); the step law recomputed from the node's own "
                          "parameters still holds on this case",
                          c, expected=diff.get("model"), observed=diff.get("impl"),
                          found_input=False, obligation=ob, extra={"model_diff": diff})


def run(ctx):
    ctx.notes["rule"] = ("random reservoirs (units 1-7, input 1-4, feedback 1-3, dense/csr/csc, both equations, "
                         "scalar/vector lr, bias on/off, feedback on/off, run / successive calls / two runs; float64, float32 and integer input arrays; "
                         "hand-stepped loops with some steps under the sender's or the receiver's with_feedback context); "
                         "non-trivial = at least 2 steps and a non-zero recurrent matrix; distinct by full case")
    g = ctx.gen
    cases = [gen_case(g, "E") for _ in range(ctx.n(150, 2500))]
    cases += [gen_case(g, "F") for _ in range(ctx.n(60, 800))]
    check_cases(ctx, cases)


def replay(ctx, data):
    check_cases(ctx, [data["case"]])
