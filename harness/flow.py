"""Shared scenario machinery for the dataflow properties (C02, C05, C07, C08): random graphs of
real reservoirpy nodes, histories of public operations, the corresponding driver scenario
(kind "scenario", an instance of the generic functions of RpyModel.Dataflow) and comparison of
everything the public API exposes. Regime E: dyadic data and piecewise-linear activations, so
float arithmetic is exact and the comparison is equality of rationals (1e-12 once a value needs
more than 40 bits)."""
from fractions import Fraction

import numpy as np

from . import common
from .common import q, qvec, qmat

_uid = [0]


def hardclip(x):
    return np.clip(x, -1.0, 1.0)


def fresh(prefix):
    _uid[0] += 1
    return f"{prefix}{_uid[0]:06d}"


# ----------------------------------------------------------------------------- node descriptors

def gen_node(g, kind, in_dim, allow_fb=False):
    """descriptor of a node of `kind` receiving `in_dim` features"""
    d = {"kind": kind, "in_dim": in_dim}
    if kind in ("input", "output", "identity", "relu", "delay"):
        d["out_dim"] = in_dim
        if kind == "delay":
            d["delay"] = g.randint(0, 3)
    elif kind in ("linear", "plainlinear"):
        o = g.randint(1, 3)
        d["out_dim"] = o
        d["Wout"] = g.dymat(in_dim, o, a=2, k=4)
        d["bias"] = g.dyvec(o, a=2, k=4)
    elif kind == "reservoir":
        n = g.randint(1, 4)
        d["out_dim"] = n
        d["eq"] = g.choice(["internal", "external"])
        d["act"] = g.choice(["hardclip", "relu", "identity"]) if n > 1 else g.choice(["hardclip", "identity"])
        d["lr"] = g.choice([1.0, 0.5, 0.25, 0.75])
        d["W"] = g.dymat(n, n, density=0.7, a=2, k=3)
        d["Win"] = g.dymat(n, in_dim, a=2, k=4)
        d["bias"] = g.dyvec(n, a=2, k=4)
        d["fmt"] = g.choice(["dense", "csr"])
    elif kind == "nvar":
        d["delay"] = g.randint(1, 2)
        d["order"] = g.randint(1, 2)
        d["strides"] = g.randint(1, 2)
        lin = d["delay"] * in_dim
        from math import comb
        d["out_dim"] = lin + comb(lin + d["order"] - 1, d["order"])
    else:
        raise ValueError(kind)
    return d


def add_feedback(g, d, fb_dim):
    """turn a reservoir descriptor into a feedback receiver"""
    d["hasFb"] = True
    d["k"] = fb_dim
    d["Wfb"] = g.dymat(d["out_dim"], fb_dim, a=2, k=4)
    d["fbact"] = g.choice(["identity", "relu"])


def make_node(d, name):
    from reservoirpy import nodes as N
    from scipy import sparse
    k = d["kind"]
    if k == "input":
        return N.Input(name=name)
    if k == "output":
        return N.Output(name=name)
    if k == "identity":
        return N.Identity(name=name)
    if k == "relu":
        return N.ReLU(name=name)
    if k == "delay":
        return N.Delay(delay=d["delay"], name=name)
    if k == "nvar":
        return N.NVAR(delay=d["delay"], order=d["order"], strides=d["strides"], name=name)
    if k == "ridge":
        return N.Ridge(ridge=d["ridge"], input_bias=d["bias"], name=name)
    if k == "plainlinear":
        from reservoirpy.node import Node
        W = np.array(d["Wout"], dtype=float).reshape(d["in_dim"], d["out_dim"])
        bvec = np.array(d["bias"], dtype=float).reshape(1, d["out_dim"])

        def lin_forward(node, x):
            return x @ node.Wout + node.bias

        def lin_init(node, x=None, **kw):
            if x is not None:
                node.set_input_dim(x.shape[1])
                node.set_output_dim(node.Wout.shape[1])
        return Node(forward=lin_forward, initializer=lin_init, params={"Wout": W, "bias": bvec},
                    output_dim=d["out_dim"], name=name)
    if k == "linear":
        return N.Ridge(output_dim=d["out_dim"], Wout=np.array(d["Wout"], dtype=float).reshape(d["in_dim"], d["out_dim"]),
                       bias=np.array(d["bias"], dtype=float).reshape(1, d["out_dim"]), name=name)
    if k == "reservoir":
        n, m = d["out_dim"], d["in_dim"]
        W = np.array(d["W"], dtype=float).reshape(n, n)
        kw = dict(W=sparse.csr_matrix(W) if d["fmt"] == "csr" else W,
                  Win=np.array(d["Win"], dtype=float).reshape(n, m),
                  bias=np.array(d["bias"], dtype=float).reshape(n, 1), lr=d["lr"],
                  activation=hardclip if d["act"] == "hardclip" else d["act"], equation=d["eq"], name=name)
        if d.get("hasFb"):
            kw["Wfb"] = np.array(d["Wfb"], dtype=float).reshape(n, d["k"])
            kw["fb_activation"] = d["fbact"]
        if d.get("dtype"):
            kw["dtype"] = np.dtype(d["dtype"]).type
        return N.Reservoir(**kw)
    raise ValueError(k)


def driver_node(d):
    """driver descriptor (exact rationals)"""
    k = d["kind"]
    base = {"in_dim": d["in_dim"], "out_dim": d["out_dim"]}
    if k in ("input", "output", "identity"):
        return {**base, "kind": "identity"}
    if k == "concat":
        return {**base, "kind": "concat"}
    if k == "relu":
        return {**base, "kind": "act", "act": "relu"}
    if k == "delay":
        return {**base, "kind": "delay"}
    if k == "nvar":
        return {**base, "kind": "nvar", "order": d["order"], "strides": d["strides"]}
    if k in ("linear", "plainlinear"):
        return {**base, "kind": "linear", "Wout": qmat(d["Wout"]), "bias": qvec(d["bias"])}
    if k == "reservoir":
        n = d["out_dim"]
        r = {**base, "kind": "reservoir", "k": d.get("k", 0), "eq": d["eq"], "W": qmat(d["W"]), "Win": qmat(d["Win"]),
             "bias": qvec(d["bias"]), "hasFb": bool(d.get("hasFb")), "lr": qvec([d["lr"]] * n), "act": d["act"],
             "fbact": d.get("fbact", "identity")}
        if d.get("hasFb"):
            r["Wfb"] = qmat(d["Wfb"])
        return r
    raise ValueError(k)


def init_mem(d):
    k = d["kind"]
    if k == "reservoir":
        return [[0.0] * d["out_dim"]]
    if k == "delay":
        return [[0.0] * d["in_dim"] for _ in range(d["delay"])]
    if k == "nvar":
        return [[0.0] * d["in_dim"] for _ in range(d["delay"] * d["strides"])]
    return []


# ----------------------------------------------------------------------------- graphs

KINDS_MID = ["identity", "relu", "linear", "linear", "reservoir", "reservoir", "delay", "nvar", "output"]


def gen_graph(g, n_nodes=None, kinds=None, max_width=12, entry_kinds=("reservoir", "linear", "identity"), wide_kind="linear"):
    """random DAG: returns (descs, edges, entry_dims) with descs in a topological order;
    entries are `input` nodes (or any kind when `kinds` says so)."""
    n = n_nodes or g.randint(2, 7)
    n_entries = 1 if n < 4 else g.choice([1, 1, 2])
    descs, edges = [], []
    used_dims = set()
    for i in range(n):
        if i < n_entries:
            dim = g.choice([d for d in (1, 2, 3, 4) if d not in used_dims] or [2])
            used_dims.add(dim)
            kind = "input" if g.chance(0.7) else g.choice(list(entry_kinds))
            descs.append(gen_node(g, kind, dim))
            descs[-1]["ext_dim"] = dim
            continue
        # choose parents among earlier nodes
        cands = list(range(i))
        k = 1 if g.chance(0.6) else min(len(cands), g.randint(2, 3))
        ps = sorted(g.sample(cands, k))
        # make sure earlier nodes get used: prefer the most recent node
        if i - 1 not in ps and g.chance(0.5):
            ps[-1] = i - 1
            ps = sorted(set(ps))
        in_dim = sum(descs[p]["out_dim"] for p in ps)
        kind = g.choice(kinds or KINDS_MID)
        if kind == "nvar" and in_dim > 3:
            kind = wide_kind
        if in_dim > max_width and kind in ("identity", "relu", "delay", "output", "nvar"):
            kind = wide_kind
        descs.append(gen_node(g, kind, in_dim))
        for p in ps:
            edges.append((p, i))
    # an `output` node with children is legal but pointless; keep as generated
    return descs, edges


class Built:
    """a real model plus the bookkeeping needed to talk to the driver"""

    def __init__(self, descs, edges, fb_links=None, outside=None, via="ctor", gen=None):
        from reservoirpy.model import Model
        self.descs = [dict(d) for d in descs]
        self.user_edges = list(edges)
        # names of one case are prefix-related in groups of three ("…a", "…a0", "…a00", "…b", …): the order in
        # which a node receives its predecessors is defined through their names, and name-keyed tables must not
        # confuse a name with its extensions
        base = fresh("n")
        self.names = [base + "abcdefghijklmnop"[i // 3] + "0" * (i % 3) for i in range(len(descs))]
        self.nodes = [make_node(d, nm) for d, nm in zip(self.descs, self.names)]
        self.outside = []          # (desc, node) of feedback senders outside the graph
        self.fb_links = dict(fb_links or {})     # receiver index -> sender index (>= len(descs): outside)
        for od in (outside or []):
            nm = fresh("o")
            self.outside.append((dict(od), make_node(od, nm), nm))
        for r, s in self.fb_links.items():
            snd = self.nodes[s] if s < len(self.nodes) else self.outside[s - len(self.nodes)][1]
            self.nodes[r] <<= snd
        if via == "ctor":
            self.model = Model(nodes=self.nodes, edges=[(self.nodes[a], self.nodes[b]) for a, b in edges])
        elif via == "ops":
            m = None
            linked = set()
            for a, b in edges:
                piece = self.nodes[a] >> self.nodes[b]
                linked |= {a, b}
                m = piece if m is None else (m & piece)
            for i, nd in enumerate(self.nodes):
                if i not in linked:
                    m = nd if m is None else (m & nd)
            self.model = m
        else:   # "iand"
            # the model grows in place, edge by edge: m &= (a >> b) - exits that become inner nodes must stop being outputs
            from reservoirpy.model import Model
            m = None
            linked = set()
            for a, b in edges:
                piece = self.nodes[a] >> self.nodes[b]
                linked |= {a, b}
                if m is None:
                    m = piece
                else:
                    m &= piece
            for i, nd in enumerate(self.nodes):
                if i not in linked:
                    if m is None:
                        m = Model(nodes=[nd])
                    else:
                        m &= nd
            self.model = m
        self._index()

    def _index(self):
        m = self.model
        self.mnodes = list(m.nodes)                      # execution order, with Concat nodes
        self.idx = {}
        self.all_descs = []
        for nd in self.mnodes:
            if nd in self.nodes:
                self.idx[nd] = len(self.all_descs)
                self.all_descs.append(self.descs[self.nodes.index(nd)])
            else:
                self.idx[nd] = len(self.all_descs)
                self.all_descs.append({"kind": "concat", "in_dim": None, "out_dim": None, "name": nd.name})
        self.order = [self.idx[nd] for nd in self.mnodes]
        for (od, on, _) in self.outside:
            self.idx[on] = len(self.all_descs)
            self.all_descs.append(od)
        N = len(self.all_descs)
        # parents in DataDispatcher order: edges sorted by parent.name + child.name
        es = sorted(list(m.edges), key=lambda e: e[0].name + e[1].name)
        self.parents = [[] for _ in range(N)]
        for a, b in es:
            self.parents[self.idx[b]].append(self.idx[a])
        # dims of concat nodes
        for i, d in enumerate(self.all_descs):
            if d["kind"] == "concat":
                w = sum(self.all_descs[p]["out_dim"] for p in self.parents[i])
                d["in_dim"] = d["out_dim"] = w
        self.fb = [None] * N
        for r, s in self.fb_links.items():
            rn = self.nodes[r]
            sn = self.nodes[s] if s < len(self.nodes) else self.outside[s - len(self.nodes)][1]
            self.fb[self.idx[rn]] = self.idx[sn]
        self.entries = [self.idx[nd] for nd in m.input_nodes]
        self.exits = [self.idx[nd] for nd in m.output_nodes]
        self.name_of = {self.idx[nd]: nd.name for nd in self.idx}
        self.node_of = {self.idx[nd]: nd for nd in self.idx}

    def scenario(self, ops, init_states=None):
        N = len(self.all_descs)
        init = []
        for i, d in enumerate(self.all_descs):
            st = init_states[i] if init_states and init_states.get(i) is not None else [0.0] * d["out_dim"]
            init.append({"st": qvec(st), "mem": qmat(init_mem(d))})
        return {"kind": "scenario", "regime": "E", "nodes": [driver_node(d) for d in self.all_descs],
                "order": self.order, "parents": self.parents, "fb": self.fb, "init": init, "ops": ops}


# ----------------------------------------------------------------------------- values

def same(exact, fl, tol=1e-12):
    ex = Fraction(exact) if not isinstance(exact, Fraction) else exact
    if not np.isfinite(fl):
        return False
    if Fraction(float(fl)) == ex:
        return True
    # a short exact value does not mean that the floats were exact on the way: a leaky memory gains two bits per step
    # and is rounded once it passes 53, and a later cancellation can bring the exact result back to a few bits while
    # the float keeps an error of an ulp or two (seen at C08 seed 3: -0.7656250000000002 for -49/64)
    return common.close(float(fl), ex, tol)


def row_diff(model_row, impl_row):
    impl_row = np.asarray(impl_row, dtype=float).reshape(-1)
    if len(model_row) != len(impl_row):
        return f"width {len(impl_row)} vs model {len(model_row)}"
    for i, (e, v) in enumerate(zip(model_row, impl_row)):
        if not same(e, v):
            return f"column {i}: observed {float(v)!r}, model {float(Fraction(e))!r}"
    return None


def seq_rows(g, T, dim, a=2, k=6):
    return [g.dyvec(dim, a=a, k=k) for _ in range(T)]
