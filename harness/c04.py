"""C04 — ridge readout = regularised least-squares optimum. Regime T: the model computes the exact
rational optimum (certified against the normal equations) from the same dyadic data; the
implementation's Wout/bias are compared with it, and their exact normal-equation residual is
evaluated by the model (that residual is the hypothesis of theorem C04_optimal)."""
from fractions import Fraction

import numpy as np

from . import common
from .common import q, qmat

LEVEL = "proof"
TRUSTED = [
    "model: lean/RpyModel/Readout.lean (accumulate / normal equations / bias split / forward; the offline life of the node: partial_fit, assignment of ridge, fit(), fit(X, Y) as ridgeStep; mirror of nodes/readouts/ridge.py, readouts/base.py, node.py partial_fit+fit)",
    "theorems: lean/RpyProofs/Props/C04.lean over any linearly ordered field (gap identity, optimality, uniqueness, accumulators = sums over retained steps, warm-up irrelevance, certificate soundness, prediction; life cycle: after any interleaving of partial fits and assignments of ridge, fit() installs the unique optimum for the data handed over and the value ridge has at the solve, a completed earlier session leaves no trace)",
    "scipy.linalg.solve is not trusted: its answer is compared with the certified exact solution and its exact residual is computed",
    "tolerance 1e-9 relative (well-conditioned stream), normal-equation residual <= 1e-9 * scale (ill-conditioned stream)",
]

DTYPES = ["float64", "float64", "float64", "float32", "int64", "int8", "uint8"]


def gen_case(g, stream):
    d = g.randint(1, 5)
    o = g.randint(1, 3)
    nseq = g.randint(1, 4)
    layout = g.choice(["2d", "3d", "list"]) if nseq > 1 else g.choice(["2d", "3d", "list"])
    if layout == "2d":
        nseq = 1
    lens = [g.randint(2, 12) for _ in range(nseq)]
    if layout == "3d":
        lens = [lens[0]] * nseq
    warm = g.randint(0, min(lens) - 1)
    bias = g.chance(0.6)
    dtype = g.choice(DTYPES) if stream == "well" else "float64"
    c = {"kind": "ridge", "stream": stream, "d": d, "o": o, "layout": layout, "lens": lens, "warmup": warm,
         "bias": bias, "dtype": dtype}
    if dtype == "float32" and g.chance(0.6):
        c["wide32"] = True
    if stream == "well":
        c["ridge"] = g.choice([0.25, 0.5, 1.0, 3.0, 2.0 ** -6])
    else:
        c["ridge"] = g.choice([2.0 ** -30, 2.0 ** -24, 1e-9])
    seqs = []
    for L in lens:
        if dtype in ("int8", "uint8", "int64"):
            lo, hi = (0, 200) if dtype == "uint8" else (-100, 100)
            X = [[float(g.randint(lo, hi)) for _ in range(d)] for _ in range(L)]
            Y = [[float(g.randint(-5, 5)) for _ in range(o)] for _ in range(L)]
        elif dtype == "float32" and c.get("wide32"):
            # float32 values whose products are NOT representable in float32 (18 significant bits, a common
            # offset): exact in float64, rounded if anything is multiplied or summed in single precision
            X = [[float(np.float32(40 + g.randint(-2048, 2048) / 4096.0)) for _ in range(d)] for _ in range(L)]
            Y = [g.dyvec(o, a=2, k=12) for _ in range(L)]
        else:
            X = [g.dyvec(d, a=3, k=16) for _ in range(L)]
            Y = [g.dyvec(o, a=2, k=12) for _ in range(L)]
            if stream == "ill" and d >= 2:
                # two nearly collinear features: x1 = x0 + tiny
                for row in X:
                    row[1] = row[0] + g.randint(-2, 2) * 2.0 ** -17
        seqs.append({"X": X, "Y": Y})
    # make the warm-up rows wild: they must not matter
    for s in seqs:
        for t in range(warm):
            s["X"][t] = [v * 64 + 7 for v in s["X"][t]] if dtype.startswith("float") else s["X"][t]
    c["seqs"] = seqs
    c["probe"] = [g.dyvec(d) for _ in range(3)]
    # the probe sequence may be integer- or single-precision-typed (counts, one-hot codes, float32 states): the prediction
    # is Wout^T x + bias of its VALUES
    c["probe_dtype"] = g.choice(["float64", "float64", "int64", "int8", "float32"])
    if c["probe_dtype"].startswith("int"):
        c["probe"] = [[float(g.randint(-5, 5)) for _ in range(d)] for _ in range(3)]
    # a bias initialiser handed to the constructor: overwritten by the fit when the readout has a bias, and WITHOUT a
    # bias the offset stays null whatever was handed over
    c["bias_init"] = g.choice([None, None, "array", "callable"])
    # how the data reaches the solver: one fit() call; partial_fit per sequence then fit(); the same with the
    # regularisation set to its final value only before fit(); or a second fit of a node fitted before on other
    # data with another lambda (accumulators and lambda must be those of the last fit)
    c["mode"] = g.choice(["fit", "fit", "partial", "partial_ridge", "refit", "refit_failed"])
    if c["mode"] in ("refit", "refit_failed"):
        c["prior"] = {"X": [g.dyvec(d, a=3, k=8) for _ in range(5)], "Y": [g.dyvec(o, a=2, k=8) for _ in range(5)],
                      "ridge": g.choice([0.125, 7.0])}
    if c["mode"] == "partial_ridge":
        c["ridge0"] = g.choice([2.0 ** -20, 5.0, 0.0])
    if c["mode"] == "refit_failed":
        # the earlier fit fails in its final solve, with an error of one kind or another (a regularisation that is not a
        # number; a warning of the solver turned into an error by the caller's warning filter): nothing of it may stay
        c["fail_how"] = g.choice(["ridge_none", "ridge_str", "warning_as_error"])
    if bias and nseq >= 2 and g.chance(0.25) and dtype.startswith("float"):
        # a silent sequence: all retained inputs are exactly zero (the warm-up rows need not be). With a bias it still
        # contributes its length and its targets to the sums
        z = g.randint(0, nseq - 1)
        for t in range(warm, lens[z]):
            seqs[z]["X"][t] = [0.0] * d
        c["silent_seq"] = z
    return c


def gen_long_case(g):
    """One long sequence (more steps than any blocking or chunking threshold a solver might use), small integer
    data so that the exact optimum stays cheap."""
    d, o = g.randint(1, 2), 1
    L = g.choice([8192 + g.randint(1, 4000), 16384 + g.randint(1, 3000), 5000 + g.randint(0, 3000)])
    warm = g.choice([0, 3])
    X = [[float(g.randint(-3, 3)) for _ in range(d)] for _ in range(L)]
    Y = [[float(g.randint(-2, 2))] for _ in range(L)]
    # the tail carries a different trend than the head: dropping either changes the optimum
    for t in range(L - 1500, L):
        Y[t] = [float(2 * X[t][0] + 1)]
    return {"kind": "ridge", "stream": "well", "d": d, "o": o, "layout": "2d", "lens": [L], "warmup": warm,
            "bias": g.chance(0.5), "dtype": "float64", "ridge": g.choice([0.5, 3.0]), "seqs": [{"X": X, "Y": Y}],
            "probe": [g.dyvec(d)], "mode": g.choice(["fit", "partial"]), "long": True}


def run_impl(c):
    from reservoirpy.nodes import Ridge
    dt = np.dtype(c["dtype"])
    Xs = [np.array(s["X"], dtype=float).astype(dt) for s in c["seqs"]]
    Ys = [np.array(s["Y"], dtype=float).astype(dt if dt.kind == "f" else np.int64 if dt.kind in "iu" else dt)
          for s in c["seqs"]]
    mode = c.get("mode", "fit")
    kw_b = {}
    if c.get("bias_init") == "array":
        kw_b["bias"] = np.full((c["o"],), 0.75)
    elif c.get("bias_init") == "callable":
        from reservoirpy.mat_gen import ones
        kw_b["bias"] = ones
    node = Ridge(ridge=c["ridge0"] if mode == "partial_ridge" else c["prior"]["ridge"] if mode in ("refit", "refit_failed") else c["ridge"],
                 input_bias=c["bias"], **kw_b)
    if mode == "refit":
        node.fit(np.array(c["prior"]["X"], dtype=float), np.array(c["prior"]["Y"], dtype=float))
        node.ridge = c["ridge"]
    if mode == "refit_failed":
        import warnings
        PX, PY = np.array(c["prior"]["X"], dtype=float), np.array(c["prior"]["Y"], dtype=float)
        failed = False
        try:
            if c["fail_how"] == "warning_as_error":
                # two identical columns and a tiny lambda: scipy warns about the conditioning
                PX = np.hstack([PX[:, :1]] * PX.shape[1]) * 1e6
                node.ridge = 1e-30
                with warnings.catch_warnings():
                    warnings.simplefilter("error")
                    node.fit(PX, PY)
            else:
                node.ridge = None if c["fail_how"] == "ridge_none" else "0.1"
                node.fit(PX, PY)
        except BaseException as e:  # noqa
            if isinstance(e, (KeyboardInterrupt, SystemExit)):
                raise
            failed = True
        c["_prior_failed"] = failed
        if not failed:
            # (the solver did not complain: the earlier fit completed, which is the plain refit case)
            pass
        node.ridge = c["ridge"]
    if mode in ("partial", "partial_ridge"):
        for X, Y in zip(Xs, Ys):
            node.partial_fit(X, Y, warmup=c["warmup"])
        if mode == "partial_ridge":
            node.ridge = c["ridge"]
        node.fit()
    elif c["layout"] == "2d":
        node.fit(Xs[0], Ys[0], warmup=c["warmup"])
    elif c["layout"] == "3d":
        node.fit(np.stack(Xs), np.stack(Ys), warmup=c["warmup"])
    else:
        node.fit(Xs, Ys, warmup=c["warmup"])
    if float(node.ridge) != float(c["ridge"]):
        raise AssertionError(f"node.ridge is {node.ridge!r}, expected {c['ridge']!r}")
    Wout = np.asarray(node.Wout, dtype=float)
    b = np.asarray(node.bias, dtype=float).reshape(1, -1)
    probe = np.array(c["probe"], dtype=float).astype(np.dtype(c.get("probe_dtype", "float64")))
    pred = node.run(probe) if len(probe) else np.zeros((0, c["o"]))
    if not c["bias"] and np.any(b != 0):
        raise AssertionError(f"a readout built with input_bias=False holds the offset {b.tolist()} after the fit")
    raw = np.vstack([b, Wout]) if c["bias"] else Wout
    return {"Wout": Wout, "bias": b, "raw": raw, "pred": np.asarray(pred, dtype=float)}


def model_case(c, obs):
    def enc_seq(s):
        dt = np.dtype(c["dtype"])
        X = np.array(s["X"], dtype=float).astype(dt).astype(float)     # what the node receives
        Y = np.array(s["Y"], dtype=float)
        return {"X": qmat(X.tolist()), "Y": qmat(Y.tolist())}
    m = {"kind": "ridge_fit", "regime": "E", "d": c["d"], "o": c["o"], "bias": c["bias"],
         "ridge": q(c["ridge"]), "warmup": c["warmup"], "seqs": [enc_seq(s) for s in c["seqs"]]}
    if obs is not None:
        m["impl_W"] = qmat(obs["raw"].tolist())
    return m


def model_ops_case(c):
    """the same hand-over as run_impl, as a sequence of life-cycle operations for RpyModel.ridgeStep"""
    mode = c.get("mode", "fit")
    if mode == "fit":
        return None
    base = model_case(c, None)
    seqs, w = base["seqs"], c["warmup"]
    m = {"kind": "ridge_ops", "regime": "E", "d": c["d"], "o": c["o"], "bias": c["bias"]}
    if mode == "partial":
        m["ridge0"] = q(c["ridge"])
        m["ops"] = [{"op": "partial", "warmup": w, "seqs": [sq]} for sq in seqs] + [{"op": "fit"}]
    elif mode == "partial_ridge":
        m["ridge0"] = q(c["ridge0"])
        m["ops"] = [{"op": "partial", "warmup": w, "seqs": [sq]} for sq in seqs] + [{"op": "ridge", "lam": q(c["ridge"])}, {"op": "fit"}]
    elif mode == "refit_failed":
        # (a fit that failed leaves a node without buffers: C11_fit_cleans; the life-cycle model starts there)
        m["ridge0"] = q(c["prior"]["ridge"])
        m["ops"] = [{"op": "ridge", "lam": q(c["ridge"])}, {"op": "fit_data", "warmup": w, "seqs": seqs}]
    else:
        m["ridge0"] = q(c["prior"]["ridge"])
        m["ops"] = [{"op": "fit_data", "warmup": 0, "seqs": [{"X": qmat(c["prior"]["X"]), "Y": qmat(c["prior"]["Y"])}]},
                    {"op": "ridge", "lam": q(c["ridge"])}, {"op": "fit_data", "warmup": w, "seqs": seqs}]
    return m


def float_cost(c, raw):
    """J(W) in floats (for the perturbation oracle)."""
    tot = 0.0
    for s in c["seqs"]:
        X = np.array(s["X"], dtype=float).astype(np.dtype(c["dtype"])).astype(float)[c["warmup"]:]
        Y = np.array(s["Y"], dtype=float)[c["warmup"]:]
        if c["bias"]:
            X = np.hstack([np.ones((len(X), 1)), X])
        tot += float(np.sum((X @ raw - Y) ** 2))
    return tot + c["ridge"] * float(np.sum(raw ** 2))


def check_cases(ctx, cases):
    common.quiet()
    obs = [common.exc_class(run_impl, c) for c in cases]
    mcases = [model_case(c, o[1] if o[0] == "ok" else None) for c, o in zip(cases, obs)]
    outs = ctx.model.batch(mcases)
    ocases = [model_ops_case(c) for c in cases]
    oouts = iter(ctx.model.batch([m for m in ocases if m is not None]))
    for c, o, mo, oc in zip(cases, obs, outs, ocases):
        ob = f"ridge_fit/{c['stream']}"
        if oc is not None:
            # the life-cycle model (ridgeStep: theorems C04_lifecycle*, C04_lambda_at_solve_only, C04_refit_forgets) must
            # install exactly the certified optimum the implementation is compared with below
            lo = next(oouts)
            if lo[0] != "ok":
                raise common.FrameworkError("model rejected a C04 life-cycle case: " + lo[1])
            if mo[0] == "ok" and (lo[1]["W"] != mo[1].get("W") or lo[1]["has_buffers"] or Fraction(lo[1]["ridge"]) != Fraction(c["ridge"])):
                raise common.FrameworkError("model: the life-cycle run (ridgeStep) does not install the certified optimum of its own data and final lambda")
            ctx.stat("life-cycle model runs compared")
        nontriv = sum(c["lens"]) - c["warmup"] * len(c["lens"]) >= 2
        ctx.count(c, nontrivial=nontriv, obligation=ob)
        for k in ("stream", "layout", "bias", "dtype", "warmup", "d", "o"):
            ctx.stat(f"{k}={c[k]}")
        ctx.stat(f"mode={c.get('mode', 'fit')}" + (f"/{c['fail_how']}" + ("" if c.get("_prior_failed") else " (did not fail)") if c.get("mode") == "refit_failed" else ""))
        ctx.stat("silent sequence (zero retained inputs, bias on)" if c.get("silent_seq") is not None else "no silent sequence")
        ctx.stat("long sequence (> 5000 steps)" if c.get("long") else "short sequence")
        ctx.stat(f"nseq={len(c['lens'])}")
        if mo[0] != "ok":
            raise common.FrameworkError("model rejected a C04 case: " + mo[1])
        m = mo[1]
        if not m.get("certified"):
            raise common.FrameworkError("model could not certify a ridge solution (lambda>0 must be solvable)")
        if o[0] != "ok":
            ctx.violation(f"Ridge.fit raised {o[1]} on a valid dataset", c, obligation=ob)
            continue
        ob_ = o[1]
        exact = [[Fraction(v) for v in row] for row in m["W"]]
        raw = ob_["raw"]
        ctx.sample({"d": c["d"], "o": c["o"], "layout": c["layout"], "lens": c["lens"], "warmup": c["warmup"],
                    "ridge": c["ridge"], "bias": c["bias"], "dtype": c["dtype"],
                    "exact_W_row0": [str(v) for v in exact[0]], "impl_W_row0": raw[0].tolist()})
        # 1. normal-equation residual of the implementation's solution, exactly
        res = Fraction(m["impl_residual"])
        scale = max(Fraction(m["rhs_scale"]), Fraction(1))
        res_ok = res <= Fraction(1, 10 ** 9) * scale
        # 2. distance to the exact optimum (well-conditioned stream)
        wmax = max(1, max(abs(v) for row in exact for v in row))
        dist = max(abs(Fraction(float(raw[i][j])) - exact[i][j]) for i in range(len(exact)) for j in range(len(exact[0])))
        dist_ok = dist <= Fraction(1, 10 ** 9) * wmax if c["stream"] == "well" else True
        # float32 inputs are promoted, values are exactly representable -> same tolerance
        ctx.notes["min_margin_seen"] = min(ctx.notes.get("min_margin_seen", 1.0),
                                           float(Fraction(1, 10 ** 9) * scale - res) if res_ok else 0.0)
        # 3. prediction = Wout^T x + bias
        pred_bad = None
        for x, prow in zip(c["probe"], ob_["pred"]):
            xa = ([1.0] if c["bias"] else []) + list(x)
            want = [sum(Fraction(float(raw[i][j])) * Fraction(xa[i]) for i in range(len(xa))) for j in range(c["o"])]
            for j in range(c["o"]):
                if not common.close(prow[j], want[j], 1e-9):
                    pred_bad = {"x": x, "expected": float(want[j]), "observed": float(prow[j])}
        if not res_ok or not dist_ok:
            # failing-input search: is J really lower elsewhere? compare with the exact optimum
            Wex = np.array([[float(v) for v in row] for row in exact])
            j_impl, j_opt = float_cost(c, raw), float_cost(c, Wex)
            ctx.violation("Ridge.fit does not return the regularised least-squares optimum: normal-equation "
                          f"residual {float(res):.3g} (scale {float(scale):.3g}), distance to exact optimum {float(dist):.3g}, "
                          f"cost {j_impl:.6g} vs optimal {j_opt:.6g}", c,
                          expected=[[str(v) for v in row] for row in exact], observed=raw.tolist(), obligation=ob)
        elif pred_bad is not None:
            ctx.violation("prediction is not Wout^T x + bias", c, expected=pred_bad["expected"],
                          observed=pred_bad["observed"], obligation=ob, extra=pred_bad)


def run(ctx):
    ctx.notes["rule"] = ("random datasets (2-D / 3-D / ragged list, 1-4 sequences of 2-12 steps, 1-5 features, 1-3 targets, "
                         "warm-up 0..min_len-1 with wild warm-up rows, bias on/off, float64/float32/int dtypes, "
                         "lambda in {1/4,1/2,1,3,2^-6}; data handed over by fit(), by partial_fit per sequence + fit(), the same with lambda set just before fit(), "
                         "or by a second fit of a node fitted before on other data with another lambda) + a few sequences of 5000-20000 steps + an ill-conditioned stream (nearly collinear features, lambda ~1e-9). "
                         "non-trivial = at least 2 retained timesteps")
    g = ctx.gen
    cases = common.load_corpus("C04")
    cases += [gen_case(g, "well") for _ in range(ctx.n(120, 1500))]
    cases += [gen_case(g, "ill") for _ in range(ctx.n(30, 300))]
    cases += [gen_long_case(g) for _ in range(ctx.n(3, 12))]
    check_cases(ctx, cases)


def replay(ctx, data):
    check_cases(ctx, [data["case"]])
