"""C20 — dataset helpers (to_forecasting, one_hot_encode) and map generators (logistic, Henon, NARMA).
Index maps and encodings are compared exactly with RpyModel.Datasets; the maps are checked by the
exact step residual of the implementation's own series (DESIGN §6 C20)."""
import contextlib
import io
from fractions import Fraction

import numpy as np

from . import common
from .common import q

LEVEL = "proof"
TRUSTED = [
    "model: lean/RpyModel/Datasets.lean (mirror of datasets/__init__.py to_forecasting, datasets/_utils.py one_hot_encode, datasets/_chaos.py maps)",
    "theorems: lean/RpyProofs/Props/C20.lean",
    "np.moveaxis is used by the harness itself to bring the time axis to the front (trusted primitive)",
    "map generators: float rounding of each step (residual tolerance 1e-13 relative to the largest term)",
]

K8 = "K8"


# ----------------------------------------------------------------------------- to_forecasting

def gen_forecast(g):
    nd = g.choice([1, 2, 2, 3])
    shape = [g.randint(2, 12) for _ in range(nd)]
    axis = g.randint(0, nd - 1)
    if g.chance(0.3):
        axis = axis - nd      # negative axis
    n = shape[axis]
    f = g.randint(1, min(5, n - 1)) if n > 1 else 1
    mode = g.choice(["none", "int", "int", "ratio", "ratio"])
    c = {"kind": "forecast", "shape": shape, "axis": axis, "forecast": f, "mode": mode}
    if mode == "int":
        c["test_size"] = g.randint(0, max(0, n - f))
    elif mode == "ratio":
        c["test_size"] = g.choice([0.0, 0.1, 0.2, 0.25, 0.3, 0.5, 0.75, g.randint(1, 99) / 100])
    return c


def check_forecast(ctx, c, mo):
    from reservoirpy.datasets import to_forecasting
    shape, axis, f = c["shape"], c["axis"], c["forecast"]
    n = shape[axis]
    series = np.arange(int(np.prod(shape)), dtype=float).reshape(shape) + 1.0
    kw = {}
    if c["mode"] != "none":
        kw["test_size"] = c["test_size"]
    r = common.exc_class(to_forecasting, series, forecast=f, axis=axis, **kw)
    if r[0] != "ok":
        return ("oracle", f"to_forecasting raised {r[1]} on a valid request", None)
    res = r[1]
    rows = np.moveaxis(series, axis, 0)

    def front(a):
        return np.moveaxis(np.asarray(a), axis, 0)
    # expected test length (freedom: a ratio at a rounding tie may go either way)
    if c["mode"] == "ratio":
        exact = Fraction(n) * Fraction(c["test_size"])
        tie = abs((exact - int(exact)) - Fraction(1, 2)) < Fraction(1, 10 ** 9)
    else:
        tie = False
    m = mo
    if len(res) == 2:
        X, y = front(res[0]), front(res[1])
        Xt = yt = None
        impl_test = 0
    else:
        X, Xt, y, yt = [front(a) for a in res]
        impl_test = Xt.shape[0]
    # ---- direct oracle (the property itself)
    whole_X = X if Xt is None else np.concatenate([X, Xt], axis=0)
    whole_y = y if yt is None else np.concatenate([y, yt], axis=0)
    if whole_X.shape[0] != n - f or whole_y.shape[0] != n - f:
        return ("oracle", f"lengths: X+Xt={whole_X.shape[0]}, y+yt={whole_y.shape[0]}, expected {n - f}", None)
    if not np.array_equal(whole_X, rows[:n - f]):
        return ("oracle", "inputs are not rows 0..n-f-1 of the series in order", None)
    if not np.array_equal(whole_y, rows[f:]):
        return ("oracle", "target row i is not row i+forecast of the series", None)
    if Xt is not None and yt.shape[0] != Xt.shape[0]:
        return ("oracle", "test inputs and test targets have different lengths", None)
    want = m["test_len"]
    if c["mode"] == "int":
        want = c["test_size"]
    if impl_test != min(want, n - f) and not (tie and abs(impl_test - want) <= 1):
        return ("oracle", f"test part has {impl_test} rows, requested {want}", None)
    for a, name in ((res[0], "X"),):
        if np.asarray(a).shape[:0] != ():
            pass
    # shapes on the non-time axes must be preserved
    for a in res:
        sh = list(np.asarray(a).shape)
        sh2 = list(shape)
        ax = axis % len(shape)
        sh.pop(ax), sh2.pop(ax)
        if sh != sh2:
            return ("oracle", f"non-time dimensions changed: {np.asarray(a).shape} vs {shape}", None)
    # ---- model index maps
    if tie and impl_test != m["test_len"]:
        return None

    def idx_rows(a):
        return [int(v) for v in ((np.asarray(a).reshape(a.shape[0], -1)[:, 0] - 1)
                                 // max(1, int(np.prod(rows.shape[1:]))))] if a.shape[0] else []
    # row id = index along time axis of the first cell of each row
    first_cell = rows.reshape(n, -1)[:, 0]
    lookup = {float(v): i for i, v in enumerate(first_cell)}

    def ids(a):
        if a is None or a.shape[0] == 0:
            return []
        return [lookup.get(float(v), -1) for v in a.reshape(a.shape[0], -1)[:, 0]]
    got = {"X": ids(X), "Xt": ids(Xt), "y": ids(y), "yt": ids(yt)}
    exp = {k: m[k] for k in ("X", "Xt", "y", "yt")}
    if got != exp:
        return ("model", "index maps differ from RpyModel.toForecasting", {"model": exp, "impl": got})
    return None


# ----------------------------------------------------------------------------- one-hot

def gen_onehot(g):
    pool_kind = g.choice(["int", "str", "bool", "negint"])
    pools = {"int": [0, 1, 2, 3, 7, 10, 42], "str": ["a", "b", "c", "dd", "B", "z"],
             "bool": [False, True], "negint": [-5, -1, 0, 3, 9]}
    pool = pools[pool_kind]
    ncls = g.randint(1, len(pool))
    classes = g.sample(pool, ncls)
    layout = g.choice(["1d", "col", "list", "multi", "multi", "2d"])
    c = {"kind": "one_hot", "pool": pool_kind, "layout": layout}
    if layout == "multi":
        k = g.randint(1, 4)
        col = g.chance(0.5)
        c["col"] = col
        # some sequences deliberately see only part of the classes
        c["seqs"] = []
        for _ in range(k):
            sub = g.sample(classes, g.randint(1, len(classes)))
            c["seqs"].append([g.choice(sub) for _ in range(g.randint(1, 6))])
    elif layout == "2d":
        n, m = g.randint(1, 4), g.randint(2, 4)
        c["labels"] = [[g.choice(classes) for _ in range(m)] for _ in range(n)]
        c["trail1"] = g.chance(0.5)
    else:
        c["labels"] = [g.choice(classes) for _ in range(g.randint(1, 10))]
    return c


def rank_map(values):
    """order-preserving label -> int map using Python's own ordering"""
    distinct = sorted(set(values))
    return {v: i for i, v in enumerate(distinct)}, distinct


def check_onehot(ctx, c, mo_getter):
    from reservoirpy.datasets import one_hot_encode
    if c["layout"] == "multi":
        flat = [v for s in c["seqs"] for v in s]
    elif c["layout"] == "2d":
        flat = [v for r in c["labels"] for v in r]
    else:
        flat = list(c["labels"])
    rk, distinct = rank_map(flat)
    if c["layout"] == "multi":
        arg = [np.array(s).reshape(-1, 1) if c["col"] else np.array(s) for s in c["seqs"]]
        mcase = {"kind": "one_hot", "seqs": [[rk[v] for v in s] for s in c["seqs"]]}
    elif c["layout"] == "2d":
        a = np.array(c["labels"])
        arg = a.reshape(a.shape + (1,)) if c["trail1"] else a
        mcase = {"kind": "one_hot", "labels": [rk[v] for v in flat]}
    else:
        arg = {"1d": np.array(c["labels"]), "col": np.array(c["labels"]).reshape(-1, 1),
               "list": list(c["labels"])}[c["layout"]]
        mcase = {"kind": "one_hot", "labels": [rk[v] for v in flat]}
    with contextlib.redirect_stdout(io.StringIO()):
        r = common.exc_class(one_hot_encode, arg)
    mo = mo_getter(mcase)
    if r[0] != "ok":
        return ("oracle", f"one_hot_encode raised {r[1]} on valid labels", None)
    enc, classes = r[1]
    classes = [v.item() if hasattr(v, "item") else v for v in classes]
    # ---- direct oracle
    if sorted(set(classes)) != distinct or len(classes) != len(distinct):
        return ("oracle", f"class list {classes} is not the distinct labels {distinct}", None)

    def rows_of(e):
        return np.asarray(e, dtype=float).reshape(-1, len(classes)) if len(classes) else np.zeros((0, 0))
    if c["layout"] == "multi":
        if len(enc) != len(c["seqs"]):
            return ("oracle", "number of encoded sequences differs", None)
        for e, s in zip(enc, c["seqs"]):
            e = np.asarray(e)
            if e.shape != (len(s), len(classes)):
                return ("oracle", f"encoded sequence shape {e.shape}, expected {(len(s), len(classes))}", None)
        allrows = np.concatenate([np.asarray(e, dtype=float) for e in enc], axis=0)
    else:
        e = np.asarray(enc)
        want_shape = ((len(c["labels"]), len(c["labels"][0]), len(classes)) if c["layout"] == "2d"
                      else (len(flat), len(classes)))
        if e.shape != want_shape:
            return ("oracle", f"encoded shape {e.shape}, expected {want_shape}", None)
        allrows = rows_of(e)
    for i, lab in enumerate(flat):
        unit = [1.0 if cl == lab else 0.0 for cl in classes]
        if list(allrows[i]) != unit:
            return ("oracle", f"row {i} (label {lab!r}) is {list(allrows[i])}, expected unit vector {unit}", None)
    # ---- model
    if mo[0] != "ok":
        raise common.FrameworkError("model rejected one_hot case: " + mo[1])
    m = mo[1]
    m_classes = m["classes"]
    if [rk[v] for v in classes] != m_classes:
        return ("model", "class order differs from RpyModel.classesOf", {"model": m_classes, "impl": [rk[v] for v in classes]})
    m_rows = [r for s in m["enc"] for r in s] if c["layout"] == "multi" else m["enc"]
    if [list(map(int, r)) for r in allrows] != m_rows:
        return ("model", "encoding differs from RpyModel.oneHot", None)
    if c["layout"] == "multi" and [len(s) for s in m["enc"]] != [len(np.asarray(e)) for e in enc]:
        return ("model", "split boundaries differ from RpyModel.splitLens", None)
    return None


# ----------------------------------------------------------------------------- maps

def gen_map(g):
    fn = g.choice(["logistic", "henon", "narma", "narma"])
    c = {"kind": "map", "fn": fn, "n": g.randint(1, 40)}
    if fn == "logistic":
        c["r"] = g.choice([3.9, 2.5, 3.2, 1.0, 0.5 + 3.5 * g.random()])
        c["x0"] = g.choice([0.5, 0.25, 0.01 + 0.98 * g.random()])
        if g.chance(0.2):
            # a legal parameter beyond 4: the orbit leaves [0, 1] (and runs away, hence the few steps); it is still the map
            c["r"] = g.choice([4.2, 4.5, 5.0])
            c["n"] = g.randint(2, 5)
    elif fn == "henon":
        c["a"] = g.choice([1.4, 1.0, 0.2 + g.random()])
        c["b"] = g.choice([0.3, 0.1, -0.2, 0.3 * g.random()])
        c["x0_kind"] = g.choice(["float", "float", "int", "intarray", "floatarray"])
        if c["x0_kind"] in ("int", "intarray"):
            c["x0"] = g.choice([[0, 0], [1, 0], [0, 1], [1, -1]])
        else:
            c["x0"] = [round(g.random() - 0.5, 3), round(g.random() - 0.5, 3)]
    else:
        order = g.randint(1, 10)
        c["order"] = order
        c["a1"] = g.choice([0.2, 0.3, 0.1 + 0.2 * g.random()])
        c["a2"] = g.choice([0.04, 0.05, 0.1 * g.random()])
        c["b"] = g.choice([1.5, 1.0, 0.5 + g.random()])
        c["c"] = g.choice([0.001, 0.1, 0.0])
        # an initial condition may also cover the first returned sample (entry number `order` of the buffer):
        # the series then starts at x0[order] and the recurrence goes on from there
        k0 = g.randint(1, order + 1)
        c["x0"] = [round(0.3 * g.random(), 3) for _ in range(k0)]
        c["u"] = [0.5 * g.random() for _ in range(c["n"] + order)]
    return c


def run_map(c):
    from reservoirpy.datasets import logistic_map, henon_map, narma
    if c["fn"] == "logistic":
        return np.asarray(logistic_map(c["n"], r=c["r"], x0=c["x0"]), dtype=float)
    if c["fn"] == "henon":
        x0 = c["x0"]
        if c["x0_kind"] == "intarray":
            x0 = np.array(x0, dtype=int)
        elif c["x0_kind"] == "floatarray":
            x0 = np.array(x0, dtype=float)
        return np.asarray(henon_map(c["n"], a=c["a"], b=c["b"], x0=x0), dtype=float)
    u = np.array(c["u"], dtype=float).reshape(-1, 1)
    return np.asarray(narma(c["n"], order=c["order"], a1=c["a1"], a2=c["a2"], b=c["b"], c=c["c"],
                            x0=c["x0"], u=u), dtype=float)


def map_model_case(c, series):
    if c["fn"] == "logistic":
        return {"kind": "map_steps", "regime": "E", "fn": "logistic", "r": q(c["r"]),
                "series": [q(v) for v in series.reshape(-1)]}
    if c["fn"] == "henon":
        return {"kind": "map_steps", "regime": "E", "fn": "henon", "a": q(c["a"]), "b": q(c["b"]),
                "series": [[q(v) for v in row] for row in series]}
    order = c["order"]
    head = (list(c["x0"]) + [0.0] * (order - len(c["x0"])))[:order]
    full = head + [float(v) for v in series.reshape(-1)]
    return {"kind": "map_steps", "regime": "E", "fn": "narma", "order": order, "a1": q(c["a1"]),
            "a2": q(c["a2"]), "b": q(c["b"]), "c": q(c["c"]), "y": [q(v) for v in full],
            "u": [q(v) for v in c["u"]]}, full


def resid_ok(obs, exact, scale):
    return abs(Fraction(float(obs)) - exact) <= Fraction(1, 10 ** 13) * max(Fraction(1), abs(exact), Fraction(scale))


def check_map(ctx, c, series, mo, full=None):
    n = c["n"]
    fn = c["fn"]
    want_shape = (n, 2) if fn == "henon" else (n, 1)
    if series.shape != want_shape:
        return ("oracle", f"shape {series.shape}, expected {want_shape}", None)
    if not np.all(np.isfinite(series)) or np.max(np.abs(series)) > 1e6:
        return "skip"
    if mo[0] != "ok":
        raise common.FrameworkError("model rejected map case: " + mo[1])
    m = mo[1]
    scale = float(np.max(np.abs(series))) ** 2 * 4 + 4
    if fn == "logistic":
        if float(series[0, 0]) != float(c["x0"]):
            return ("oracle", "series does not start at x0", None)
        for i in range(n - 1):
            if not resid_ok(series[i + 1, 0], Fraction(m[i]), scale):
                return ("oracle", f"x[{i + 1}]={series[i + 1, 0]!r} is not r*x[{i}]*(1-x[{i}])={float(Fraction(m[i]))!r}", None)
    elif fn == "henon":
        if [float(v) for v in series[0]] != [float(v) for v in c["x0"]]:
            return ("oracle", "series does not start at x0", None)
        for i in range(n - 1):
            ex = [Fraction(v) for v in m[i]]
            if not (resid_ok(series[i + 1, 0], ex[0], scale) and resid_ok(series[i + 1, 1], ex[1], scale)):
                return ("oracle", f"state {i + 1} = {series[i + 1].tolist()} is not the Henon image "
                                  f"{[float(v) for v in ex]} of state {i}", None)
    else:
        first = float(c["x0"][c["order"]]) if len(c["x0"]) > c["order"] else 0.0
        if float(series[0, 0]) != first:
            return ("oracle", f"narma(order={c['order']}, x0 of {len(c['x0'])} values): the series starts at "
                              f"{float(series[0, 0])!r}, the initial condition says {first!r}", None)
        ts, impl, doc = m["t"], m["impl"], m["doc"]
        bad_impl = None
        bad_doc = None
        for t, vi, vd in zip(ts, impl, doc):
            if bad_impl is None and not resid_ok(full[t + 1], Fraction(vi), scale):
                bad_impl = t
            if bad_doc is None and not resid_ok(full[t + 1], Fraction(vd), scale):
                bad_doc = t
        if bad_doc is not None and bad_impl is None:
            return ("known", K8, f"narma(order={c['order']}) follows the recurrence with both windows shifted "
                                 f"one step back, not the documented one (first at t={bad_doc})")
        if bad_impl is not None and bad_doc is not None:
            return ("oracle", f"y[{bad_impl + 1}] satisfies neither the documented NARMA recurrence nor the "
                              "shifted one recorded as finding K8", None)
        if bad_impl is not None:
            return ("model", "narma no longer matches RpyModel.narmaNextImpl (it now matches the documented one)", None)
    return None


# ----------------------------------------------------------------------------- driver

def check_cases(ctx, cases):
    common.quiet()
    open_k = common.open_findings("C20")
    # phase 1: run implementation where the model case depends on it
    prepared = []
    mcases = []
    for c in cases:
        if c["kind"] == "forecast":
            n = c["shape"][c["axis"]]
            mc = {"kind": "forecast", "n": n, "forecast": c["forecast"]}
            if c["mode"] == "int":
                mc["test_len"] = c["test_size"]
            elif c["mode"] == "ratio":
                mc["ratio"] = q(c["test_size"])
            prepared.append((c, None, None))
            mcases.append(mc)
        elif c["kind"] == "one_hot":
            prepared.append((c, None, None))
            mcases.append(None)
        else:
            r = common.exc_class(run_map, c)
            if r[0] != "ok":
                prepared.append((c, r, None))
                mcases.append(None)
            elif not np.all(np.isfinite(r[1])) or (r[1].size and np.max(np.abs(r[1])) > 1e6):
                prepared.append((c, ("divergent", None), None))
                mcases.append(None)
            else:
                mc = map_model_case(c, r[1])
                full = None
                if isinstance(mc, tuple):
                    mc, full = mc
                prepared.append((c, r, full))
                mcases.append(mc)
    outs = iter(ctx.model.batch([m for m in mcases if m is not None]))
    for (c, r, full), mc in zip(prepared, mcases):
        kind = c["kind"] if c["kind"] != "map" else c["fn"]
        ctx.stat(f"kind={kind}")
        res = None
        nontriv = True
        if c["kind"] == "forecast":
            ctx.stat(f"forecast mode={c['mode']} ndim={len(c['shape'])}")
            mo = next(outs)
            if mo[0] != "ok":
                raise common.FrameworkError("model rejected forecast case: " + mo[1])
            res = check_forecast(ctx, c, mo[1])
            nontriv = c["shape"][c["axis"]] - c["forecast"] >= 2
        elif c["kind"] == "one_hot":
            ctx.stat(f"one_hot layout={c['layout']} pool={c['pool']}")
            res = check_onehot(ctx, c, lambda m: ctx.model.one(m))
        else:
            if r[0] == "divergent":
                res = "skip"
            elif r[0] != "ok":
                res = ("oracle", f"{c['fn']} raised {r[1]} on valid parameters", None)
            else:
                mo = next(outs)
                res = check_map(ctx, c, r[1], mo, full)
                nontriv = c["n"] >= 3
                if c["fn"] == "henon":
                    ctx.stat(f"henon x0={c['x0_kind']}")
        if res == "skip":
            ctx.stat("skipped_divergent")
            continue
        ctx.count(c, nontrivial=nontriv, obligation=kind)
        ctx.sample({k: v for k, v in c.items() if k not in ("u",)})
        if res is None:
            continue
        if res[0] == "known":
            if res[1] in open_k:
                ctx.known(res[1], res[2])
            else:
                ctx.violation(res[2], c, obligation=kind)
        elif res[0] == "oracle":
            ctx.violation(f"{kind}: {res[1]}", c, obligation=kind, extra={"detail": res[2]})
        else:
            ctx.violation(f"{kind}: {res[1]} — theorems C20_* no longer tied to the code; the documented "
                          "behaviour still holds on this case", c, found_input=False, obligation=kind,
                          extra={"detail": res[2]})


def run(ctx):
    ctx.notes["rule"] = ("to_forecasting: random 1-3-D shapes, every axis (incl. negative), forecast 1-5, test size none/int/ratio, "
                         "cells carry unique ids; one_hot: int/str/bool labels as 1-D, column, list, 2-D, multi-sequence lists "
                         "(sequences that miss some classes); maps: random parameters, int and float initial conditions, "
                         "exact step residual of every consecutive pair. non-trivial: >=2 aligned rows / >=3 steps")
    g = ctx.gen
    cases = common.load_corpus("C20")
    cases += [gen_forecast(g) for _ in range(ctx.n(150, 2000))]
    cases += [gen_onehot(g) for _ in range(ctx.n(100, 1000))]
    cases += [gen_map(g) for _ in range(ctx.n(80, 800))]
    check_cases(ctx, cases)


def replay(ctx, data):
    check_cases(ctx, [data["case"]])
