"""C10 — RLS / LMS / FORCE / intrinsic plasticity follow their recurrences. Regime T for RLS and LMS
(the model runs the recursion in exact rationals and also the closed-form ridge solution on the
gated samples), regime F for intrinsic plasticity."""
from fractions import Fraction

import json

import numpy as np

from . import common
from .common import q, qmat, qvec, fbits, fvec, fmat, unfbits

LEVEL = "proof"
TRUSTED = [
    "model: lean/RpyModel/Online.lean (rlsStep, lmsStep, trainLoop, ipTanhStep/ipSigStep/ipFit; mirror of readouts/rls.py, lms.py, force.py, _base.train, intrinsic_plasticity.py)",
    "theorems: lean/RpyProofs/Props/C10.lean (Sherman-Morrison invariant by induction over all sample lists; RLS = ridge(alpha) and P = inverse covariance for every prefix; LMS step and schedule; learn_every gating; output-before-update; IP steps and count)",
    "float rounding of the recursions (tolerance 1e-9 relative on well-conditioned dyadic data, <= 40 updates); Float tanh/exp from libm in regime F",
]


def gen_online(g):
    rule = g.choice(["rls", "rls", "lms", "force_rls", "force_lms"])
    d = g.randint(1, 4)
    o = g.randint(1, 3)
    T = g.randint(1, 24)
    c = {"kind": "online", "rule": rule, "d": d, "o": o, "bias": g.chance(0.6),
         "learn_every": g.choice([1, 1, 2, 3, 4])}
    # chunks (successive train calls)
    chunks = []
    left = T
    while left > 0:
        n = g.randint(1, left)
        if g.chance(0.2):
            n = 1
        chunks.append(n)
        left -= n
    c["chunks"] = chunks
    # failing train calls between the chunks (no target, a target of the wrong size, a non-numeric input): rejected, and
    # they count for nothing - neither an update nor a step of the learning-rate schedule
    c["bad_calls"] = {str(i): g.choice(["noy", "wrongy", "strx"]) for i in range(1, len(chunks)) if g.chance(0.3)}
    c["X"] = [g.dyvec(d, a=2, k=6) for _ in range(T)]
    c["Y"] = [g.dyvec(o, a=2, k=6) for _ in range(T)]
    if g.chance(0.3):       # targets that start with exact zeros: zero error from zero weights
        z = g.randint(1, max(1, T // 2))
        for t in range(z):
            c["Y"][t] = [0.0] * o
    if "rls" in rule:
        c["alpha"] = g.choice([0.25, 0.5, 1.0, 2.0])
    else:
        if g.chance(0.5):
            c["alpha"] = g.choice([2.0 ** -4, 2.0 ** -5, 2.0 ** -3])
            c["schedule"] = None
        else:
            c["schedule"] = [g.choice([2.0 ** -3, 2.0 ** -4, 2.0 ** -5, 2.0 ** -6]) for _ in range(T + 2)]
    return c


def make_node(c):
    from reservoirpy.nodes import RLS, LMS, FORCE
    rule = c["rule"]
    if rule == "rls":
        return RLS(alpha=c["alpha"], input_bias=c["bias"])
    if rule == "force_rls":
        return FORCE(alpha=c["alpha"], rule="rls", input_bias=c["bias"])
    alpha = c["alpha"] if c["schedule"] is None else (a for a in list(c["schedule"]))
    if rule == "lms":
        return LMS(alpha=alpha, input_bias=c["bias"])
    return FORCE(alpha=alpha, rule="lms", input_bias=c["bias"])


def run_online(c):
    node = make_node(c)
    X = np.array(c["X"], dtype=float)
    Y = np.array(c["Y"], dtype=float)
    outs, snaps = [], []
    pos = 0
    for ci, n in enumerate(c["chunks"]):
        bad = (c.get("bad_calls") or {}).get(str(ci))
        if bad:
            try:
                if bad == "noy":
                    node.train(X[pos:pos + 1])
                elif bad == "wrongy":
                    node.train(X[pos:pos + 1], np.ones((1, c["o"] + 1)))
                else:
                    node.train(np.array([["a"] * c["d"]]), Y[pos:pos + 1])
            except Exception:  # noqa
                pass
            else:
                raise AssertionError(f"a train call with {bad} was accepted")
        s = node.train(X[pos:pos + n], Y[pos:pos + n], learn_every=c["learn_every"])
        outs.append(np.asarray(s, dtype=float).reshape(n, -1))
        pos += n
        raw = np.vstack([np.asarray(node.bias, dtype=float).reshape(1, -1), np.asarray(node.Wout, dtype=float)]) \
            if c["bias"] else np.asarray(node.Wout, dtype=float)
        snap = {"w": raw.copy()}
        if "rls" in c["rule"]:
            snap["P"] = np.asarray(node.P, dtype=float).copy()
        snaps.append(snap)
    return {"outs": np.vstack(outs), "snaps": snaps}


def model_online(c):
    m = {"kind": "online_train", "regime": "E", "rule": "rls" if "rls" in c["rule"] else "lms",
         "d": c["d"], "o": c["o"], "bias": c["bias"], "learn_every": c["learn_every"],
         "chunks": c["chunks"], "X": qmat(c["X"]), "Y": qmat(c["Y"])}
    if "rls" in c["rule"]:
        m["alpha"] = q(c["alpha"])
    else:
        m["alphas"] = qvec(c["schedule"]) if c["schedule"] is not None else [q(c["alpha"])]
    return m


def matdiff(exact, impl, tol=1e-9):
    ex = [[Fraction(v) for v in row] for row in exact]
    scale = max([1] + [abs(v) for row in ex for v in row])
    impl = np.asarray(impl, dtype=float).reshape(len(ex), -1)
    for i, row in enumerate(ex):
        for j, v in enumerate(row):
            if abs(Fraction(float(impl[i][j])) - v) > Fraction(tol) * scale:
                return {"i": i, "j": j, "expected": float(v), "observed": float(impl[i][j])}
    return None


def check_online(ctx, c, o, mo):
    ob = "online/" + c["rule"]
    if mo[0] != "ok":
        raise common.FrameworkError("model rejected C10 case: " + mo[1])
    if o[0] != "ok":
        ctx.violation(f"{c['rule']}.train raised {o[1]} on valid data", c, obligation=ob)
        return
    m, r = mo[1], o[1]
    d = matdiff(m["outs"], r["outs"]) if len(m["outs"]) else None
    if d is not None:
        ctx.violation(f"{c['rule']}: output of step {d['i']} is not the prediction made before that step's update "
                      "(with updates exactly at i % learn_every == 0)", c, expected=d["expected"],
                      observed=d["observed"], obligation=ob, extra={"diff": d})
        return
    for ci, (ms, rs) in enumerate(zip(m["snaps"], r["snaps"])):
        d = matdiff(ms["w"], rs["w"])
        if d is not None:
            ctx.violation(f"{c['rule']}: weights after train call {ci} differ from the recurrence", c,
                          expected=d["expected"], observed=d["observed"], obligation=ob,
                          extra={"diff": d, "call": ci})
            return
        if "P" in rs:
            d = matdiff(ms["P"], rs["P"])
            if d is not None:
                ctx.violation(f"{c['rule']}: P after train call {ci} is not the inverse regularised covariance", c,
                              expected=d["expected"], observed=d["observed"], obligation=ob,
                              extra={"diff": d, "call": ci})
                return
            # cross-check of the model itself: recursion == closed form (theorem C10_rls_is_ridge)
            if ms["closed"] is None or matdiff(ms["closed"], [[float(Fraction(v)) for v in row] for row in ms["w"]], 1e-12):
                raise common.FrameworkError("model: RLS recursion differs from its closed form")


# ----------------------------------------------------------------------------- intrinsic plasticity

def gen_ip(g):
    n = g.randint(1, 5)
    m = g.randint(1, 3)
    act = g.choice(["tanh", "sigmoid"])
    nseq = g.randint(1, 3)
    c = {"kind": "ip", "n": n, "m": m, "act": act, "epochs": g.choice([1, 1, 2, 3]),
         "lr": g.choice([1.0, 0.5, 0.25]), "eta": g.choice([0.01, 0.05, 5e-4]),
         "mu": g.choice([0.0, 0.1, 0.2]) if act == "tanh" else g.choice([0.1, 0.2, 0.5]),
         "sigma": g.choice([0.1, 0.5, 1.0]),
         "W": g.dymat(n, n, density=0.7), "Win": g.dymat(n, m), "bias": g.dyvec(n),
         "seqs": [[[0.25 * (g.random() - 0.5) for _ in range(m)] for _ in range(g.randint(1, 8))] for _ in range(nseq)]}
    return c


def run_ip(c):
    from reservoirpy.nodes import IPReservoir
    n, m = c["n"], c["m"]
    node = IPReservoir(W=np.array(c["W"]).reshape(n, n), Win=np.array(c["Win"]).reshape(n, m),
                       bias=np.array(c["bias"]).reshape(n, 1), lr=c["lr"], mu=c["mu"], sigma=c["sigma"],
                       learning_rate=c["eta"], epochs=c["epochs"], activation=c["act"])
    seqs = [np.array(s, dtype=float).reshape(-1, m) for s in c["seqs"]]
    node.fit(seqs if len(seqs) > 1 else seqs[0])
    return {"a": np.asarray(node.a, dtype=float).reshape(-1), "b": np.asarray(node.b, dtype=float).reshape(-1),
            "x": np.asarray(node.state(), dtype=float).reshape(-1)}


def model_ip(c):
    n = c["n"]
    return {"kind": "ip_fit", "regime": "F", "n": n, "m": c["m"], "W": fmat(c["W"]), "Win": fmat(c["Win"]),
            "bias": fvec(c["bias"]), "lr": fvec([c["lr"]] * n), "act": c["act"], "eta": fbits(c["eta"]),
            "mu": fbits(c["mu"]), "sigma": fbits(c["sigma"]), "epochs": c["epochs"],
            "seqs": [fmat(s) for s in c["seqs"]]}


def check_ip(ctx, c, o, mo):
    ob = "ip/" + c["act"]
    if mo[0] != "ok":
        raise common.FrameworkError("model rejected C10 ip case: " + mo[1])
    if o[0] != "ok":
        ctx.violation(f"IPReservoir.fit raised {o[1]} on valid data", c, obligation=ob)
        return
    # conditioning: the gradient steps divide by sigma^2 and 1/a, so a few steps can amplify rounding by
    # many orders of magnitude (a 1e-13 relative change of the inputs moved `a` by 4e-6 on one generated
    # case). The slack is what a 1e-13 relative perturbation of the inputs does to the implementation.
    slack = {k: 0.0 for k in ("a", "b", "x")}
    prng = np.random.default_rng(12345)
    for _ in range(3):
        c2 = json.loads(json.dumps(c))
        c2["seqs"] = [[[v * (1 + 1e-13 * prng.standard_normal()) for v in row] for row in sq] for sq in c["seqs"]]
        o2 = common.exc_class(run_ip, c2)
        if o2[0] == "ok":
            for k in slack:
                slack[k] = max(slack[k], 10 * float(np.max(np.abs(o[1][k] - o2[1][k]))))
    if max(slack.values()) > 1e-6:
        # rounding is amplified by more than seven orders of magnitude over this fit: the two float computations cannot
        # be expected to agree to any useful tolerance; the case says nothing either way
        ctx.stat("ip cases skipped: chaotic amplification of rounding")
        return
    ctx.notes["ip_max_conditioning_slack"] = max(ctx.notes.get("ip_max_conditioning_slack", 0.0), max(slack.values()))
    for key in ("a", "b", "x"):
        mv = [unfbits(v) for v in mo[1][key]]
        for i, (e, v) in enumerate(zip(mv, o[1][key])):
            if not (abs(e - v) <= 1e-9 * max(1.0, abs(e)) + slack[key]):
                ctx.violation(f"intrinsic plasticity ({c['act']}): parameter {key}[{i}] after fit differs from the "
                              f"documented gradient steps applied once per timestep and epoch", c,
                              expected=e, observed=float(v), obligation=ob)
                return


def check_cases(ctx, cases):
    common.quiet()
    obs, mcases = [], []
    for c in cases:
        if c["kind"] == "online":
            obs.append(common.exc_class(run_online, c))
            mcases.append(model_online(c))
        else:
            obs.append(common.exc_class(run_ip, c))
            mcases.append(model_ip(c))
    outs = ctx.model.batch(mcases)
    for c, o, mo in zip(cases, obs, outs):
        if c["kind"] == "online":
            T = len(c["X"])
            ctx.count(c, nontrivial=T >= 3, obligation="online/" + c["rule"])
            for k in ("rule", "bias", "learn_every"):
                ctx.stat(f"{k}={c[k]}")
            ctx.stat(f"calls={len(c['chunks'])}")
            ctx.stat(f"failing train calls in between={len(c.get('bad_calls') or {})}")
            ctx.stat("has_len1_call" if 1 in c["chunks"] else "no_len1_call")
            ctx.sample({k: c[k] for k in ("rule", "d", "o", "bias", "learn_every", "chunks")} | {"X0": c["X"][0], "Y0": c["Y"][0]})
            check_online(ctx, c, o, mo)
        else:
            steps = sum(len(s) for s in c["seqs"]) * c["epochs"]
            ctx.count(c, nontrivial=steps >= 3, obligation="ip/" + c["act"])
            ctx.stat(f"ip act={c['act']} epochs={c['epochs']} nseq={len(c['seqs'])}")
            ctx.sample({k: c[k] for k in ("n", "m", "act", "epochs", "lr", "eta", "mu", "sigma")})
            check_ip(ctx, c, o, mo)


def run(ctx):
    ctx.notes["rule"] = ("RLS / LMS / FORCE(rls|lms): random dyadic sequences (<=24 steps, 1-4 features, 1-3 targets), bias on/off, "
                         "learn_every 1-4, random splits into successive train calls incl. length-1 calls, constant and scheduled "
                         "learning rates, targets with leading exact zeros; IPReservoir: tanh and sigmoid rules, 1-3 sequences, 1-3 epochs. "
                         "non-trivial = at least 3 steps")
    g = ctx.gen
    cases = common.load_corpus("C10")
    cases += [gen_online(g) for _ in range(ctx.n(140, 1800))]
    cases += [gen_ip(g) for _ in range(ctx.n(50, 500))]
    check_cases(ctx, cases)


def replay(ctx, data):
    check_cases(ctx, [data["case"]])
