"""C09 — offline training is invariant to batching, order and parallel schedule.

P1  one dataset, many presentations to a Ridge node (list in order / permuted, successive partial
    fits in random groupings, one concatenated array, 3-D array, re-cut sequences): all solutions
    must agree with each other and with the exact optimum computed by the Lean model in rationals.
P2  the ESN node with workers in {1, 2, 3, -1, -2, -3} x backends {default, sequential, threading,
    loky, multiprocessing}: same solution as the sequential fit, outputs of a parallel run in input
    order, and — through the RESERVOIRPY_VERIF hook — a trace of the accumulation critical sections
    that must be mutually exclusive, hold one section per sequence, and replay in RpyModel.Sched.
P3  the legacy trainers (compat.ESN.train, compat RidgeRegression.fit on lists).
P4  `_sort_and_unpack` against the model on random completion orders."""
import os
import tempfile

os.environ["RESERVOIRPY_VERIF"] = "1"          # before reservoirpy is imported (hook guard)
os.environ.setdefault("RESERVOIRPY_VERIF_DWELL_US", "1500")

from fractions import Fraction

import numpy as np

from . import common
from .common import q, qmat

LEVEL = "proof"
TRUSTED = [
    "models: lean/RpyModel/Readout.lean (`accumulate`, as C04), lean/RpyModel/Sched.lean (lock discipline of the accumulation step; the unlocked variant; `_sort_and_unpack`)",
    "theorems: lean/RpyProofs/Props/C09.lean (under the lock every schedule of any number of tasks keeps acc = start + contributions of the finished tasks and every complete schedule ends in the full sum; an unlocked interleaving loses an update; buffers depend only on the multiset of retained timesteps: order, grouping, cutting; sorted results come back in input order)",
    "the tie between the real workers and `stepL` is the observed trace: the hook (RESERVOIRPY_VERIF=1) logs enter / exit of the accumulation section with a seeded dwell; mutual exclusion is checked on the observed intervals (CLOCK_MONOTONIC is system-wide on Linux) — schedules that were not observed are covered by the theorem only if the lock really excludes, which is the OS / multiprocessing.Manager contract (trusted)",
    "float addition is not associative: solutions are compared to 1e-9 (exact model) / 1e-8 (between schedules) relative to the largest weight",
]

K18 = "K18"


# ----------------------------------------------------------------------------- P1 presentations

def gen_present(g):
    d, o = g.randint(1, 4), g.randint(1, 2)
    warmup = g.choice([0, 0, 0, 1, 2])
    K = g.randint(2, 6)
    lens = [g.randint(warmup + 1, warmup + 10) for _ in range(K)]
    if g.chance(0.25):
        lens = [lens[0]] * K
    dtype = g.choice(["float64", "float64", "float64", "uint8", "int8", "float32"])
    if dtype in ("uint8", "int8"):
        # counts: every product and partial sum overflows a narrow integer type unless the data is promoted first
        lo, hi = (0, 200) if dtype == "uint8" else (-100, 100)
        seqs = [{"X": [[float(g.randint(lo, hi)) for _ in range(d)] for _ in range(L)], "Y": g.dymat(L, o, a=2, k=8)} for L in lens]
    else:
        seqs = [{"X": g.dymat(L, d, a=3, k=16), "Y": g.dymat(L, o, a=2, k=8)} for L in lens]
    # make sure the regressors are not all zero
    seqs[0]["X"][-1] = [1.0 + (0.125 * i if dtype.startswith("float") else i) for i in range(d)]
    return {"kind": "present", "d": d, "o": o, "bias": g.chance(0.6), "ridge": g.choice([1.0, 0.5, 0.125, 0.0078125]), "dtype": dtype,
            "warmup": warmup, "seqs": seqs, "pseed": g.randint(0, 10 ** 6)}


def fit_variants(c):
    """returns {presentation name: raw solution (bias row first)}"""
    import random
    from reservoirpy.nodes import Ridge
    r = random.Random(c["pseed"])
    Xs = [np.array(s["X"], dtype=float).reshape(len(s["X"]), c["d"]).astype(c.get("dtype", "float64")) for s in c["seqs"]]
    Ys = [np.array(s["Y"], dtype=float).reshape(len(s["Y"]), c["o"]) for s in c["seqs"]]
    w = c["warmup"]

    def node():
        return Ridge(c["o"], ridge=c["ridge"], input_bias=c["bias"])

    def raw(n):
        return np.vstack([np.asarray(n.bias).reshape(1, -1), np.asarray(n.Wout)]) if c["bias"] else np.asarray(n.Wout)
    out = {}
    out["list"] = raw(node().fit(Xs, Ys, warmup=w))
    perm = list(range(len(Xs)))
    r.shuffle(perm)
    out["permuted"] = raw(node().fit([Xs[i] for i in perm], [Ys[i] for i in perm], warmup=w))
    # successive partial fits in a random grouping of a random order
    r.shuffle(perm)
    n = node()
    i = 0
    while i < len(perm):
        k = r.randint(1, len(perm) - i)
        grp = perm[i:i + k]
        if len(grp) == 1 and r.random() < 0.5:
            n.partial_fit(Xs[grp[0]], Ys[grp[0]], warmup=w)
        else:
            n.partial_fit([Xs[j] for j in grp], [Ys[j] for j in grp], warmup=w)
        i += k
    out["partial_groups"] = raw(n.fit())
    n = node()
    for j in reversed(range(len(Xs))):
        n.partial_fit(Xs[j], Ys[j], warmup=w)
    out["partial_each_reversed"] = raw(n.fit())
    # some sequences by partial fits, the rest handed to the closing fit(X, Y) - on a fresh node and on a node that has
    # completed a training on other data before (its finished session must not matter, its open one must count)
    if len(Xs) >= 2:
        k = r.randint(1, len(Xs) - 1)
        for label, pre in (("partial_then_fit_with_data", False), ("refit_partial_then_fit_with_data", True)):
            n = node()
            if pre:
                n.fit([x[::-1] * 0.5 + 0.25 for x in Xs[:1]], [y[::-1] * 2.0 for y in Ys[:1]], warmup=min(w, len(Xs[0]) - 1))
            for j in range(k):
                n.partial_fit(Xs[j], Ys[j], warmup=w)
            out[label] = raw(n.fit(Xs[k:] if len(Xs) - k > 1 else Xs[k], Ys[k:] if len(Xs) - k > 1 else Ys[k], warmup=w))
    # a fit that fails on a malformed later sequence, then the same node is refitted: nothing of the
    # failed attempt may be counted
    if len(Xs) >= 2:
        n = node()
        bad = r.randint(1, len(Xs) - 1)
        Xbad = [x if i != bad else np.hstack([x, x[:, :1]]) for i, x in enumerate(Xs)]
        Xbad = [np.asarray(x) for x in Xbad]
        try:
            n.fit(Xbad, Ys, warmup=w)
            out["after_failed_fit"] = None       # a malformed sequence must be rejected
        except Exception:  # noqa
            out["after_failed_fit"] = raw(n.fit(Xs, Ys, warmup=w))
        n = node()
        Ybad = [y if i != bad else np.hstack([y, y[:, :1]]) for i, y in enumerate(Ys)]
        try:
            n.fit(Xs, Ybad, warmup=w)
            out["after_failed_fit_targets"] = None
        except Exception:  # noqa
            out["after_failed_fit_targets"] = raw(n.fit(Xs, Ys, warmup=w))
    if len({len(x) for x in Xs}) == 1:
        out["array3d"] = raw(node().fit(np.stack(Xs), np.stack(Ys), warmup=w))
    if w == 0:
        X, Y = np.vstack(Xs), np.vstack(Ys)
        out["one_array"] = raw(node().fit(X, Y))
        T = len(X)
        cuts = sorted(r.sample(range(1, T), min(T - 1, r.randint(1, 4)))) if T > 1 else []
        pieces = list(zip([0] + cuts, cuts + [T]))
        r.shuffle(pieces)
        out["recut"] = raw(node().fit([X[a:b] for a, b in pieces], [Y[a:b] for a, b in pieces]))
    return out


def check_present(ctx, c):
    ob = "presentations"
    r = common.exc_class(fit_variants, c)
    ctx.stat(f"present nseq={len(c['seqs'])} warmup={c['warmup']} bias={c['bias']} dtype={c.get('dtype', 'float64')}")
    if r[0] != "ok":
        return ob, [("oracle", f"a presentation of the dataset raised {r[1]}")]
    sols = r[1]
    for k in sols:
        ctx.stat("presentation " + k)
    ref = sols["list"]
    scale = max(1.0, float(np.max(np.abs(ref))))
    res = []
    for k, v in sols.items():
        if v is None:
            res.append(("oracle", f"'{k}': a dataset with a malformed sequence (one extra column) was accepted by fit"))
            return ob, res
        if v.shape != ref.shape or not np.allclose(v, ref, rtol=0, atol=1e-8 * scale):
            dd = float(np.max(np.abs(v - ref))) if v.shape == ref.shape else "shape"
            res.append(("oracle", f"presenting the same retained timesteps as '{k}' gives a different solution than as a list of sequences "
                                  f"(max difference {dd}, largest weight {scale:.3g})"))
            return ob, res
    mc = {"kind": "ridge_fit", "regime": "E", "d": c["d"], "o": c["o"], "bias": c["bias"], "ridge": q(c["ridge"]), "warmup": c["warmup"],
          "seqs": [{"X": qmat(s["X"]), "Y": qmat(s["Y"])} for s in c["seqs"]]}
    mo = ctx.model.one(mc)
    if mo[0] != "ok" or not mo[1].get("certified"):
        raise common.FrameworkError("model could not solve a C09 dataset: " + str(mo[1])[:200])
    exact = np.array([[float(Fraction(v)) for v in row] for row in mo[1]["W"]])
    if exact.shape != ref.shape or not np.allclose(ref, exact, rtol=0, atol=1e-8 * max(1.0, float(np.max(np.abs(exact))))):
        res.append(("model", f"all presentations agree with each other but not with the exact optimum of RpyModel.accumulate + certified solve "
                             f"(max difference {float(np.max(np.abs(ref - exact))) if exact.shape == ref.shape else 'shape'})"))
    return ob, res


# ----------------------------------------------------------------------------- traces

def read_trace(path):
    if not os.path.exists(path):
        return []
    ev = []
    for line in open(path):
        p = line.split()
        if len(p) == 5:
            ev.append((p[0], p[1], p[2], p[3], int(p[4])))
    return ev


def analyse_trace(ctx, ev, expected_sections, what):
    """returns list of problems; replays the trace in the model"""
    ev = sorted(ev, key=lambda e: e[4])
    open_, tasks, events = {}, {}, []
    intervals = []
    for name, kind, pid, tid, ts in ev:
        k = (pid, tid)
        if kind == "enter":
            if k in open_:
                return [("oracle", f"{what}: a worker entered the accumulation section twice without leaving it")]
            t = len(tasks)
            tasks[t] = k
            open_[k] = (t, ts)
            events.append({"task": t, "ev": "enter"})
        else:
            if k not in open_:
                return [("oracle", f"{what}: exit without enter in the trace")]
            t, t0 = open_.pop(k)
            intervals.append((t0, ts, t))
            events.append({"task": t, "ev": "exit"})
    res = []
    if open_:
        res.append(("oracle", f"{what}: {len(open_)} accumulation sections never finished"))
    if len(intervals) != expected_sections:
        res.append(("oracle", f"{what}: {len(intervals)} accumulation sections for {expected_sections} sequences (a contribution was lost or counted twice)"))
    intervals.sort()
    over = [(a, b) for a, b in zip(intervals, intervals[1:]) if b[0] < a[1]]
    ctx.stat("trace sections", len(intervals))
    ctx.stat("trace distinct workers", len(set(tasks.values())))
    if over:
        a, b = over[0]
        res.append(("oracle", f"{what}: two workers were inside the accumulator update at the same time "
                              f"(sections {a[2]} and {b[2]} overlap by {(a[1] - b[0]) / 1e3:.0f} us; {len(over)} overlapping pairs): no mutual exclusion"))
    if res:
        return res
    n = len(tasks)
    if n and n <= 60:
        mo = ctx.model.one({"kind": "sched_replay", "n": n, "mode": "locked", "events": events})
        if mo[0] != "ok":
            raise common.FrameworkError("model rejected sched_replay: " + mo[1])
        o = mo[1]
        if o["inadmissible_at"] is not None or not o["all_done"] or o["acc"] != o["full"]:
            res.append(("model", f"{what}: the observed trace is not a complete schedule of RpyModel.Sched.stepL ({o})"))
    return res


# one trace file for the whole run, named before any worker process exists: loky keeps its workers
# (and their environment) alive from one case to the next
TRACE_PATH = tempfile.mktemp(prefix=f"c09_trace_{os.getpid()}_")
os.environ["RESERVOIRPY_VERIF_TRACE"] = TRACE_PATH
import atexit


def _cleanup():
    try:
        os.remove(TRACE_PATH)
    except OSError:
        pass


atexit.register(_cleanup)


class Trace:
    def __enter__(self):
        open(TRACE_PATH, "w").close()
        return self

    def events(self):
        return read_trace(TRACE_PATH)

    def __exit__(self, *a):
        try:
            os.remove(TRACE_PATH)
        except OSError:
            pass


# ----------------------------------------------------------------------------- P2 ESN node

def gen_esn(g, heavy):
    K = g.randint(3, 7)
    backends = [None, "sequential", "threading", "threading", "multiprocessing"] + (["loky"] if heavy else [])
    return {"kind": "esn", "units": g.randint(5, 9), "K": K, "lens": [g.randint(8, 20) for _ in range(K)],
            "workers": g.choice([2, 3, -1, -2, -3, 1]), "backend": g.choice(backends), "feedback": g.chance(0.3),
            "noise": g.choice([0.0, 0.0, 0.05]),
            "warmup": g.choice([0, 2, 3]), "seed": g.randint(0, 10 ** 6), "dseed": g.randint(0, 10 ** 6),
            "failed_first": g.chance(0.3)}


def esn_data(c):
    rng = np.random.default_rng(c["dseed"])
    Xs = [rng.uniform(-1, 1, (L, 2)) for L in c["lens"]]
    Ys = [np.tanh(x.sum(axis=1, keepdims=True)) + 0.05 * rng.uniform(-1, 1, (len(x), 1)) for x in Xs]
    return Xs, Ys


def guarded_tanh(x):
    """(module level: the multiprocessing back end pickles the node)"""
    # (far beyond anything a legitimate pre-activation reaches, also with the blown-up recurrent matrices of finding K6)
    if np.any(np.abs(x) > 1e12):
        raise FloatingPointError("input out of range")
    return np.tanh(x)


def run_esn(c):
    from reservoirpy.nodes import ESN
    Xs, Ys = esn_data(c)

    akw = {"activation": guarded_tanh} if c.get("failed_first") else {}

    def mk(workers, backend):
        # (with noise: every sequence is run on its own copy of the seeded ESN, so the draws of a sequence do not depend
        # on which sequences were run before it, by which worker)
        return ESN(units=c["units"], sr=0.9, lr=0.5, ridge=1e-3, seed=c["seed"], feedback=c["feedback"], workers=workers, backend=backend,
                   noise_rc=c.get("noise", 0.0), noise_in=c.get("noise", 0.0), **akw)
    ref = mk(1, "sequential")
    ref.fit(Xs, Ys, warmup=c["warmup"])
    Wref = np.vstack([ref.readout.bias, ref.readout.Wout])
    out_ref = ref.run(Xs)
    e = mk(c["workers"], c["backend"])
    if True:
        if c.get("failed_first"):
            # an earlier fit of this object that failed part-way (a node raised while a later sequence ran): the sums of the
            # sequences accumulated before the failure must not be counted by the training that follows
            Xf = [x.copy() for x in Xs[:3]]
            Xf[-1][min(c["warmup"] + 1, len(Xf[-1]) - 1), :] = 1e15
            try:
                e.fit(Xf, [y * 0.5 for y in Ys[:3]], warmup=c["warmup"])
            except BaseException as ex:  # noqa
                if isinstance(ex, (KeyboardInterrupt, SystemExit)):
                    raise
    with Trace() as tr:
        e.fit(Xs, Ys, warmup=c["warmup"])
        ev = tr.events()
    W = np.vstack([e.readout.bias, e.readout.Wout])
    outs = e.run(Xs)
    # independent reference (no feedback): every sequence run from the zero state through a copy of the
    # reservoir, then a plain Ridge fitted on those states with the same warm-up
    Wind = None
    if not c["feedback"] and not c.get("noise"):
        import copy as _copy
        from reservoirpy.nodes import Ridge
        states = []
        for x in Xs:
            rr = _copy.deepcopy(ref.reservoir)
            rr.reset()
            states.append(rr.run(x))
        ro = Ridge(1, ridge=1e-3).fit(states, Ys, warmup=c["warmup"])
        Wind = np.vstack([ro.bias, ro.Wout])
    # the same dataset in another order, sequentially
    perm = list(np.random.default_rng(c["dseed"] + 1).permutation(len(Xs)))
    p = mk(1, "sequential")
    p.fit([Xs[i] for i in perm], [Ys[i] for i in perm], warmup=c["warmup"])
    Wp = np.vstack([p.readout.bias, p.readout.Wout])
    return {"Wref": Wref, "W": W, "Wp": Wp, "Wind": Wind, "out_ref": out_ref, "outs": outs, "events": ev}


def check_esn(ctx, c):
    ob = f"esn/{c['backend']}"
    ctx.stat(f"esn workers={c['workers']} backend={c['backend']} noise={c.get('noise', 0.0)}")
    r = common.exc_class(run_esn, c)
    if r[0] != "ok":
        return ob, [("oracle", f"ESN.fit / run with workers={c['workers']} backend={c['backend']} raised {r[1]}")]
    o = r[1]
    scale = max(1.0, float(np.max(np.abs(o["Wref"]))))
    res = []
    if not np.allclose(o["W"], o["Wref"], rtol=0, atol=1e-8 * scale):
        res.append(("oracle", f"ESN.fit with workers={c['workers']} backend={c['backend']} gives a different solution than the sequential fit "
                              f"(max difference {float(np.max(np.abs(o['W'] - o['Wref']))):.3g}, largest weight {scale:.3g})"))
    if o["Wind"] is not None and not np.allclose(o["Wref"], o["Wind"], rtol=0, atol=1e-7 * scale):
        res.append(("oracle", f"ESN.fit (sequential, warmup={c['warmup']}) is not the ridge solution on the retained timesteps of the per-sequence reservoir states "
                              f"(plain Ridge on the same states with the same warm-up differs by {float(np.max(np.abs(o['Wref'] - o['Wind']))):.3g})"))
    if not np.allclose(o["Wp"], o["Wref"], rtol=0, atol=1e-8 * scale):
        res.append(("oracle", f"ESN.fit on the same sequences in another order gives a different solution (max difference {float(np.max(np.abs(o['Wp'] - o['Wref']))):.3g})"))
    a, b = o["out_ref"], o["outs"]
    if not (isinstance(a, list) and isinstance(b, list) and len(a) == len(b) == c["K"]):
        res.append(("oracle", "ESN.run on a list of sequences did not return one output per sequence"))
    else:
        for i, (x, y) in enumerate(zip(a, b)):
            if x.shape != y.shape or not np.allclose(x, y, rtol=0, atol=1e-8 * max(1.0, float(np.max(np.abs(x))))):
                res.append(("oracle", f"ESN.run with workers={c['workers']} backend={c['backend']}: output {i} is not the output of input sequence {i} "
                                      "(results not returned in input order, or different values)"))
                break
    if res:
        return ob, res
    return ob, analyse_trace(ctx, o["events"], c["K"], f"ESN.fit workers={c['workers']} backend={c['backend']}")


# ----------------------------------------------------------------------------- P3 legacy trainers

def gen_legacy(g, heavy):
    K = g.randint(3, 6)
    return {"kind": "legacy", "which": g.choice(["esn", "esn", "ridge"]), "N": g.randint(4, 7), "K": K, "lens": [g.randint(8, 16) for _ in range(K)],
            "workers": g.choice([2, 3, -1, 4]), "backend": g.choice(["threading", "threading", "multiprocessing"] + (["loky"] if heavy else [])),
            "wash": g.choice([0, 0, 2]), "dseed": g.randint(0, 10 ** 6),
            # the same object has already completed a training on OTHER data: none of it may be counted again
            "prior": g.chance(0.4)}


def run_legacy(c):
    from reservoirpy.compat import ESN
    from reservoirpy.compat.regression_models import RidgeRegression
    from reservoirpy.utils import parallel as par
    rng = np.random.default_rng(c["dseed"])
    N = c["N"]
    W = rng.normal(size=(N, N))
    W *= 0.8 / max(abs(np.linalg.eigvals(W)))
    Win = rng.uniform(-1, 1, (N, 3))
    Xs = [rng.uniform(-1, 1, (L, 2)) for L in c["lens"]]
    Ys = [np.tanh(x.sum(axis=1, keepdims=True)) for x in Xs]
    old = par._BACKEND
    try:
        prng = np.random.default_rng(c["dseed"] + 1)
        PX = [prng.uniform(-1, 1, (9, 2)) for _ in range(2)]
        PY = [np.cos(x.sum(axis=1, keepdims=True)) + 2.0 for x in PX]
        if c["which"] == "esn":
            def make(workers, prior):
                e = ESN(lr=0.5, W=W, Win=Win, input_bias=True, ridge=1e-3)
                if prior:
                    e.train(PX, PY, wash_nr_time_step=c["wash"], workers=workers)
                return e

            def fit(e, workers):
                e.train(Xs, Ys, wash_nr_time_step=c["wash"], workers=workers)
                return np.asarray(e.Wout)
        else:
            S = [rng.uniform(-1, 1, (L, N)) for L in c["lens"]]
            PS = [prng.uniform(-1, 1, (9, N)) for _ in range(2)]

            def make(workers, prior):
                m = RidgeRegression(1e-3, workers=workers)
                m.initialize(N, 1)
                if prior:
                    for s_, y_ in zip(PS, PY):
                        m.partial_fit(s_, y_)
                    m.fit()
                return m

            def fit(m, workers):
                return np.asarray(m.fit(S, Ys))
        par.set_joblib_backend("sequential")
        Wref = fit(make(1, False), 1)
        par.set_joblib_backend(c["backend"])
        obj = make(c["workers"], c.get("prior", False))
        with Trace() as tr:
            Wp = fit(obj, c["workers"])
            ev = tr.events()
    finally:
        par.set_joblib_backend(old)
    return {"Wref": Wref, "W": Wp, "events": ev}


def check_legacy(ctx, c):
    ob = f"legacy/{c['which']}"
    ctx.stat(f"legacy {c['which']} workers={c['workers']} backend={c['backend']}")
    ctx.stat("legacy: object already trained on other data" if c.get("prior") else "legacy: fresh object")
    r = common.exc_class(run_legacy, c)
    if r[0] != "ok":
        if c["backend"] == "multiprocessing" and c["which"] == "esn" and "AttributeError" in str(r[1]):
            return ob, [("known", K18, "compat.ESN.train with the 'multiprocessing' joblib backend raises AttributeError (the worker function is a local "
                                       "closure that the standard pickler cannot send)")]
        return ob, [("oracle", f"legacy {c['which']} training with workers={c['workers']} backend={c['backend']} raised {r[1]}")]
    o = r[1]
    scale = max(1.0, float(np.max(np.abs(o["Wref"]))))
    if o["W"].shape != o["Wref"].shape or not np.allclose(o["W"], o["Wref"], rtol=0, atol=1e-8 * scale):
        return ob, [("oracle", f"legacy {c['which']} training with workers={c['workers']} backend={c['backend']} {'on an object that had completed a training on other data before ' if c.get('prior') else ''}gives a different solution than the "
                               f"sequential one on a fresh object (max difference {float(np.max(np.abs(o['W'] - o['Wref']))):.3g})")]
    return ob, analyse_trace(ctx, o["events"], c["K"], f"legacy {c['which']} workers={c['workers']} backend={c['backend']}")


# ----------------------------------------------------------------------------- P4 sort and unpack

def gen_sort(g):
    n = g.randint(1, 9)
    perm = list(range(n))
    g.shuffle(perm)
    return {"kind": "sort", "perm": perm, "vals": [g.randint(0, 1000) for _ in range(n)], "all": g.chance(0.3)}


def check_sort(ctx, c):
    from reservoirpy.nodes.esn import _sort_and_unpack
    ob = "sort_and_unpack"
    vals, perm = c["vals"], c["perm"]
    states = [(i, {"readout": np.array([[float(vals[i])]])}) for i in perm]
    if c["all"]:
        states = [(i, {"reservoir": np.array([[float(vals[i]) + 0.5]]), "readout": np.array([[float(vals[i])]])}) for i in perm]
    r = common.exc_class(lambda: _sort_and_unpack(states, return_states="all" if c["all"] else None))
    if r[0] != "ok":
        return ob, [("oracle", f"_sort_and_unpack raised {r[1]}")]
    got = r[1]
    if c["all"]:
        got = got["readout"]
    got = [got] if not isinstance(got, list) else got
    got = [int(v[0, 0]) for v in got]
    res = []
    if got != vals:
        res.append(("oracle", f"results completed in the order {perm} were returned as {got}, not in input order {vals}"))
        return ob, res
    mo = ctx.model.one({"kind": "sort_unpack", "results": [[i, vals[i]] for i in perm]})
    if mo[0] != "ok":
        raise common.FrameworkError("model rejected sort_unpack: " + mo[1])
    if mo[1] != vals:
        res.append(("model", "_sort_and_unpack differs from RpyModel.Sched.sortAndUnpack"))
    return ob, res


# ----------------------------------------------------------------------------- driver


# ----------------------------------------------------------------------------- P5 same-named readouts trained side by side

def gen_twins(g):
    return {"kind": "twins", "d": g.randint(1, 3), "o": g.randint(1, 2), "ridge": g.choice([1.0, 0.5, 0.125]),
            "via": g.choice(["deepcopy", "pickle", "deepcopy_of_deepcopy"]), "n": g.randint(2, 3), "rounds": g.randint(2, 3),
            "seed": g.randint(0, 10 ** 9)}


def check_twins(ctx, c):
    """several clones of ONE readout (deep copies and unpickled nodes all carry the name `<name>-(copy)`), each trained by
    successive partial fits on its own dataset, the partial fits of the clones interleaved: every clone ends with the
    optimum of exactly its own time steps - nothing lost, nothing of a neighbour counted in"""
    import copy
    import pickle
    from reservoirpy.nodes import Ridge
    ob = "same_named_clones"
    g = common.Gen(c["seed"])
    base = Ridge(ridge=c["ridge"])
    clones = []
    for i in range(c["n"]):
        if c["via"] == "pickle":
            clones.append(pickle.loads(pickle.dumps(base)))
        elif c["via"] == "deepcopy":
            clones.append(copy.deepcopy(base))
        else:
            clones.append(copy.deepcopy(copy.deepcopy(base)) if i else copy.deepcopy(base))
    data = [[(np.array(flow_rows(g, L, c["d"])), np.array(flow_rows(g, L, c["o"]))) for L in [g.randint(4, 8) for _ in range(c["rounds"])]]
            for _ in clones]
    res = []
    try:
        for r_ in range(c["rounds"]):
            for cl, ds in zip(clones, data):
                cl.partial_fit(*ds[r_])
        for cl in clones:
            cl.fit()
    except Exception as ex:  # noqa
        return ob, [("oracle", f"interleaved partial fits of {c['n']} clones ({c['via']}) of one readout raised {type(ex).__name__}: {ex}")]
    for i, (cl, ds) in enumerate(zip(clones, data)):
        f = Ridge(ridge=c["ridge"])
        f.fit([x for x, _ in ds], [y for _, y in ds])
        got = np.vstack([np.asarray(cl.bias).reshape(1, -1), np.asarray(cl.Wout)])
        exp = np.vstack([np.asarray(f.bias).reshape(1, -1), np.asarray(f.Wout)])
        if got.shape != exp.shape or not np.allclose(got, exp, rtol=1e-9, atol=1e-9):
            res.append(("oracle", f"{c['n']} clones ({c['via']}) of one readout trained side by side by interleaved partial fits: clone {i} "
                                  f"(name {cl.name!r}) does not end with the optimum of its own time steps (max difference "
                                  f"{float(np.max(np.abs(got - exp))) if got.shape == exp.shape else 'shape'}): contributions were lost or a neighbour's were counted in"))
            break
    return ob, res


def flow_rows(g, L, d):
    return [[float(g.dy(a=2, k=6)) for _ in range(d)] for _ in range(L)]


def check_cases(ctx, cases):
    common.quiet()
    import reservoirpy.utils._verif as hook
    if not hook.ENABLED:
        raise common.FrameworkError("the RESERVOIRPY_VERIF hook is not active (reservoirpy was imported before the guard was set?)")
    open_k = common.open_findings("C09")
    for c in cases:
        k = c["kind"]
        if k == "present":
            ob, res = check_present(ctx, c)
        elif k == "esn":
            ob, res = check_esn(ctx, c)
        elif k == "legacy":
            ob, res = check_legacy(ctx, c)
        elif k == "sort":
            ob, res = check_sort(ctx, c)
        elif k == "twins":
            ob, res = check_twins(ctx, c)
        else:
            raise common.FrameworkError("unknown case kind " + k)
        ctx.count(c, nontrivial=True, obligation=ob)
        ctx.sample({kk: v for kk, v in c.items() if kk != "seqs"}, limit=6)
        for r in res:
            if r[0] == "known":
                if r[1] in open_k:
                    ctx.known(r[1], r[2])
                else:
                    ctx.violation(r[2], c, obligation=ob)
            elif r[0] == "oracle":
                ctx.violation(r[1], c, obligation=ob)
            else:
                ctx.violation(r[1] + " — theorems C09_* no longer tied to the code; the property's own checks pass on this case",
                              c, found_input=False, obligation=ob)


def run(ctx):
    ctx.notes["rule"] = ("P1: datasets of 2-6 sequences (1-4 inputs, 1-2 outputs, warm-up 0-2, dyadic values) presented as list / permuted list / random groupings of "
                         "partial fits / reversed single partial fits / 3-D array / one concatenated array / re-cut pieces; P2: ESN node 5-9 units, 3-7 sequences, "
                         "workers in {1,2,3,-1,-2,-3} x backend in {default, sequential, threading, multiprocessing(, loky in the thorough tier)}, with and without "
                         "feedback and warm-up, hook trace of every fit; P3: compat.ESN.train and compat RidgeRegression.fit(lists) with workers in {2,3,4,-1}; "
                         "P4: random completion orders of 1-9 results")
    g = ctx.gen
    heavy = ctx.tier == "thorough"
    cases = common.load_corpus("C09")
    cases += [gen_present(g) for _ in range(ctx.n(120, 1500))]
    cases += [gen_esn(g, heavy) for _ in range(ctx.n(24, 160))]
    cases += [gen_legacy(g, heavy) for _ in range(ctx.n(10, 60))]
    cases += [gen_sort(g) for _ in range(ctx.n(40, 400))]
    cases += [gen_twins(g) for _ in range(ctx.n(12, 120))]
    if not heavy:
        cases.append({"kind": "esn", "units": 6, "K": 4, "lens": [10, 12, 9, 11], "workers": 2, "backend": "loky", "feedback": False, "warmup": 0,
                      "seed": 3, "dseed": 4})
    check_cases(ctx, cases)


def replay(ctx, data):
    check_cases(ctx, [data["case"]])
