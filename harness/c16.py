"""C16 — copies and saved models.

A. nodes: every node class x {deepcopy, pickle round-trip, Node.copy(), Node.copy(copy_feedback=True),
   copy.copy} after a random run / training history; then the same random operations are applied to
   the original and to the copy (separately) and every output compared bit for bit; operations on
   one side must leave every array of the other side untouched; an identity walk over both object
   graphs must find no shared mutable object.
B. models (chain, feedback loop, concat, input node, deep, online readouts, ESN node), copied by
   deepcopy / pickle, driven through every name-keyed entry point with each side's CURRENT names.
C. legacy ESNs (compat): save -> load, save -> load_compat, compared with the model that was saved
   and with RpyModel.Compat.
D. histories of creations / copies / model constructions / releases against RpyModel.Names."""
import collections
import copy
import functools
import gc
import hashlib
import json
import os
import pickle
import shutil
import tempfile
import types

import numpy as np

from . import common
from .common import fbits, fmat, fvec, unfbits

LEVEL = "proof"
TRUSTED = [
    "models: lean/RpyModel/Names.lean (names, registry, name tables of a model under deep copy / pickle / Node.copy / release), lean/RpyModel/Compat.lean (legacy update, save / load field map, load_compat)",
    "theorems: lean/RpyProofs/Props/C16.lean (registry invariant over every history; look-up by current name succeeds in a consistent model; load_compat = legacy model step by step and over every closed-loop run, for tanh; save/load restores every field but the activation)",
    "Python object identity and aliasing are outside a value model: 'a copy answers like the original and shares nothing' is decided by the lock-step differential run and the identity walk only (partial on that clause)",
    "dill / pickle / numpy .npy serialisation are trusted to round-trip values",
]

K16, K17 = "K16", "K17"
NODE_KINDS = ["Reservoir", "ReservoirExt", "ReservoirFb", "IPReservoir", "NVAR", "Delay", "Ridge", "RLS", "LMS", "FORCE", "Input",
              "SkRidge"]
HOWS = ["deepcopy", "pickle", "node_copy", "node_copy_fb", "shallow"]
MODEL_KINDS = ["chain", "fb", "concat", "input", "deep", "online_rls", "online_lms", "esn", "esn_fb"]


# ----------------------------------------------------------------------------- helpers

def data(seed, T, d):
    return np.random.default_rng(seed).uniform(-1, 1, size=(T, d))


def arr_digest(a):
    from scipy import sparse
    if sparse.issparse(a):
        a = a.toarray()
    a = np.ascontiguousarray(np.asarray(a))
    return hashlib.sha1(a.tobytes() + str(a.shape).encode() + str(a.dtype).encode()).hexdigest()


def node_digest(node):
    """digest of every array a node holds: params, state, buffers, array-valued hypers"""
    from scipy import sparse
    out = {}
    for k, v in sorted(node.params.items()):
        if isinstance(v, np.ndarray) or sparse.issparse(v):
            out["p:" + k] = arr_digest(v)
        elif isinstance(v, (list, tuple)) and v and all(hasattr(x, "__dict__") for x in v):
            for i, x in enumerate(v):        # scikit-learn instances
                for kk, vv in sorted(vars(x).items()):
                    if isinstance(vv, np.ndarray):
                        out[f"p:{k}{i}.{kk}"] = arr_digest(vv)
    for k, v in sorted(node.hypers.items()):
        if isinstance(v, np.ndarray):
            out["h:" + k] = arr_digest(v)
    st = getattr(node, "_state", None)
    if isinstance(st, np.ndarray):
        out["state"] = arr_digest(st)
    for k, v in sorted(getattr(node, "_buffers", {}).items()):
        if isinstance(v, np.ndarray):
            out["b:" + k] = arr_digest(v)
    for nm in ("_X", "_Y"):
        v = getattr(node, nm, None)
        if isinstance(v, list):
            out[nm] = hashlib.sha1(b"".join(arr_digest(np.asarray(x)).encode() for x in v)).hexdigest()
    return out


def model_digest(m):
    d = {}
    for n in m.nodes:
        for k, v in node_digest(n).items():
            d[f"{type(n).__name__}#{m.nodes.index(n)}.{k}"] = v
    return d


def walk_ids(root, stop_at=()):
    """ids of every mutable container / array reachable from root (through __dict__, dict, list, tuple,
    set, deque, functools.partial); `stop_at`: objects not to enter (documented shared references)"""
    from scipy import sparse
    seen = {}
    stack = [(root, "")]
    stop = {id(o) for o in stop_at}
    while stack:
        o, path = stack.pop()
        if id(o) in stop or o is None:
            continue
        if isinstance(o, (str, bytes, int, float, complex, bool, type, types.ModuleType, types.FunctionType,
                          types.BuiltinFunctionType, types.MethodType, np.generic, np.dtype, np.ufunc)):
            continue
        if id(o) in seen:
            continue
        if isinstance(o, np.ndarray):
            seen[id(o)] = path
            if o.base is not None and isinstance(o.base, np.ndarray):
                stack.append((o.base, path + ".base"))
            continue
        if sparse.issparse(o):
            seen[id(o)] = path
            for nm in ("data", "indices", "indptr", "row", "col"):
                if hasattr(o, nm):
                    stack.append((getattr(o, nm), path + "." + nm))
            continue
        if isinstance(o, dict):
            seen[id(o)] = path
            for k, v in o.items():
                stack.append((v, f"{path}[{k!r}]"))
            continue
        if isinstance(o, (list, set, collections.deque)):
            seen[id(o)] = path
            for i, v in enumerate(o):
                stack.append((v, f"{path}[{i}]"))
            continue
        if isinstance(o, (tuple, frozenset)):
            for i, v in enumerate(o):
                stack.append((v, f"{path}[{i}]"))
            continue
        if isinstance(o, functools.partial):
            stack.append((o.args, path + ".args"))
            stack.append((o.keywords, path + ".keywords"))
            stack.append((o.func, path + ".func"))
            continue
        if isinstance(o, np.random.Generator):
            seen[id(o)] = path
            continue
        mod = type(o).__module__ or ""
        if hasattr(o, "__dict__") and (mod.startswith("reservoirpy") or mod.startswith("sklearn") or mod.startswith("harness")):
            seen[id(o)] = path
            for k, v in vars(o).items():
                stack.append((v, f"{path}.{k}"))
    return seen


def do_copy(obj, how):
    if how == "deepcopy":
        return copy.deepcopy(obj)
    if how == "pickle":
        return pickle.loads(pickle.dumps(obj))
    if how == "node_copy":
        return obj.copy()
    if how == "node_copy_fb":
        return obj.copy(copy_feedback=True)
    if how == "shallow":
        return copy.copy(obj)
    raise common.FrameworkError(how)


def same_out(a, b):
    if isinstance(a, dict) or isinstance(b, dict):
        if not (isinstance(a, dict) and isinstance(b, dict)) or len(a) != len(b):
            return False
        return all(same_out(x, y) for x, y in zip(a.values(), b.values()))
    if isinstance(a, (list, tuple)) or isinstance(b, (list, tuple)):
        if not (isinstance(a, (list, tuple)) and isinstance(b, (list, tuple))) or len(a) != len(b):
            return False
        return all(same_out(x, y) for x, y in zip(a, b))
    if isinstance(a, str) or isinstance(b, str):
        return True
    a, b = np.asarray(a), np.asarray(b)
    if a.dtype.kind in "USO" or b.dtype.kind in "USO":
        return a.shape == b.shape and bool(np.all(a == b))
    return a.shape == b.shape and np.array_equal(a, b, equal_nan=True)


# ----------------------------------------------------------------------------- A. nodes

def make_node(kind, seed):
    from reservoirpy.nodes import Reservoir, IPReservoir, NVAR, Delay, Ridge, RLS, LMS, FORCE, Input, ScikitLearnNode
    d_in = 2
    sender = None
    if kind == "Reservoir":
        n = Reservoir(8, lr=0.5, sr=0.9, seed=seed, noise_rc=0.01)
    elif kind == "ReservoirExt":
        n = Reservoir(8, lr=0.5, sr=0.9, seed=seed, equation="external")
    elif kind == "ReservoirFb":
        n = Reservoir(8, lr=0.5, sr=0.9, seed=seed)
        sender = Ridge(1, ridge=1e-3)
        n <<= sender
    elif kind == "IPReservoir":
        n = IPReservoir(8, seed=seed, epochs=1)
    elif kind == "NVAR":
        n = NVAR(2, 2)
    elif kind == "Delay":
        n = Delay(delay=2)
    elif kind == "Ridge":
        n = Ridge(1, ridge=1e-3)
    elif kind == "RLS":
        n = RLS(1)
    elif kind == "LMS":
        n = LMS(1, alpha=0.01)
    elif kind == "FORCE":
        n = FORCE(1)
    elif kind == "Input":
        n = Input()
    elif kind == "SkRidge":
        from sklearn.linear_model import Ridge as SkR
        n = ScikitLearnNode(SkR, model_hypers={"alpha": 1e-3})
    else:
        raise common.FrameworkError(kind)
    return n, sender, d_in


def node_train(node, kind, X, Y, more=False):
    if kind in ("Ridge", "SkRidge"):
        node.fit(X, Y)
    elif kind in ("RLS", "LMS", "FORCE"):
        node.train(X, Y)
    elif kind == "IPReservoir":
        node.fit(X)


def prep_node(c):
    kind = c["node"]
    node, sender, d = make_node(kind, c["seed"])
    X, Y = data(c["seed"] + 1, 12, d), data(c["seed"] + 2, 12, 1)
    if sender is not None:
        sender.fit(data(c["seed"] + 3, 12, 8), Y)
        node.initialize(X[:1])
        node.initialize_feedback()      # a model does this for its nodes
    for h in c["pre"]:
        if h == "train":
            node_train(node, kind, X, Y)
        elif h == "run":
            if kind in ("Ridge", "SkRidge") and not node.fitted:
                node.fit(X, Y)
            node.run(X[:5])
        elif h == "partial":
            if kind == "Ridge":
                node.partial_fit(X, Y)
    if not node.is_initialized and kind not in ("Ridge", "SkRidge", "RLS", "LMS", "FORCE"):
        node.run(X[:1])
    return node, sender


def node_op(node, kind, op, seed):
    d = 2
    X, Y = data(seed, 7, d), data(seed + 1, 7, 1)
    trainable_off = kind in ("Ridge", "SkRidge")
    if (trainable_off and not node.fitted and op not in ("fit", "partial_fit_then_fit")) or \
            (kind in ("RLS", "LMS", "FORCE") and not node.is_initialized and op != "train"):
        op = "fit" if trainable_off else "train"
    if op == "run":
        return node.run(X)
    if op == "run_stateless":
        return node.run(X, stateful=False)
    if op == "call":
        return node(X[:1])
    if op == "call_stateless":
        return node.call(X[:1], stateful=False)
    if op == "reset_run":
        node.reset()
        return node.run(X)
    if op == "from_state":
        return node.run(X, from_state=np.full((1, node.output_dim), 0.25))
    if op == "state":
        return node.state()
    if op == "fit":
        if trainable_off:
            node.fit(X, Y)
            return [node.run(X)] + [np.asarray(v) for v in node_digest(node).values()]
        if kind == "IPReservoir":
            node.fit(X)
            return node.run(X)
        return node.run(X)
    if op == "partial_fit_then_fit":
        if kind == "Ridge":
            node.partial_fit(X, Y)
            node.partial_fit(X[::-1].copy(), Y[::-1].copy())
            node.fit()
            return [node.run(X), np.asarray(node.Wout), np.asarray(node.bias)]
        return node.run(X) if (not trainable_off or node.fitted) else None
    if op == "train":
        if kind in ("RLS", "LMS", "FORCE"):
            return [node.train(X, Y), np.asarray(node.Wout)]
        return node.run(X) if (not trainable_off or node.fitted) else None
    raise common.FrameworkError(op)


NODE_OPS = ["run", "run_stateless", "call", "call_stateless", "reset_run", "from_state", "state", "fit", "partial_fit_then_fit", "train"]


def gen_node_case(g):
    kind = g.choice(NODE_KINDS)
    how = g.choice(HOWS)
    if how == "node_copy_fb" and kind != "ReservoirFb":
        how = "node_copy"
    pre = [g.choice(["train", "run", "run", "partial"]) for _ in range(g.randint(0, 3))]
    ops = [[g.choice(NODE_OPS), g.randint(0, 10 ** 6)] for _ in range(g.randint(2, 6))]
    return {"kind": "node", "node": kind, "how": how, "seed": g.randint(0, 10 ** 6), "pre": pre, "ops": ops,
            "mutate": g.choice(["copy", "orig"]),
            # what is copied is the live original, or itself a clone (a deep copy or an unpickled node: an object whose
            # name the class registry has never seen)
            "source": g.choice(["original", "original", "deepcopy", "pickle"])}


def check_node(ctx, c):
    kind, how = c["node"], c["how"]
    ob = f"node/{how}"
    res = []
    ctx.stat(f"node copy source={c.get('source', 'original')}")
    r = common.exc_class(prep_node, c)
    if r[0] != "ok":
        return ob, [("skip", f"history not applicable to {kind}: {r[1]}")]
    node, sender = r[1]
    if c.get("source", "original") != "original":
        rs = common.exc_class(do_copy, node, c["source"])
        if rs[0] != "ok":
            return ob, [("oracle", f"{c['source']} of a {kind} (history {c['pre']}) raised {rs[1]}")]
        node = rs[1]
    name_before = node.name
    d_before = node_digest(node)
    rc = common.exc_class(do_copy, node, how)
    if rc[0] != "ok":
        return ob, [("oracle", f"{how} of a {kind} (history {c['pre']}) raised {rc[1]}")]
    cp = rc[1]
    if node.name != name_before:
        res.append(("oracle", f"{how} renamed the ORIGINAL node: {name_before!r} -> {node.name!r}"))
    if node_digest(node) != d_before:
        res.append(("oracle", f"{how} modified the original {kind}"))
    if cp is node or (how != "shallow" and vars(cp) is vars(node)):
        res.append(("oracle", f"{how} returned the original object / its __dict__"))
    if how == "shallow" and vars(cp) is vars(node):
        res.append(("oracle", "copy.copy returned an object that shares its whole __dict__ with the original"))
    if how in ("node_copy", "node_copy_fb") and cp.name == node.name:
        res.append(("oracle", "Node.copy() did not give the copy a name of its own"))
    if node_digest(cp) != d_before:
        res.append(("oracle", f"the {how} copy of a {kind} does not hold the same arrays as the original"))
    if res:
        return ob, res
    # identity walk (deep copies only)
    if how != "shallow":
        stop = []
        if how == "node_copy" and kind == "ReservoirFb":
            stop = [node._feedback]     # documented: the feedback sender is shared unless copy_feedback=True
        a, b = walk_ids(node, stop), walk_ids(cp, stop)
        shared = [a[i] for i in a if i in b]
        if shared:
            res.append(("oracle", f"the {how} copy of a {kind} shares mutable objects with the original: {shared[:4]}"))
            return ob, res
    if how == "shallow":
        # a shallow copy shares its parameter containers, generators and buffers with the original by
        # definition: only its identity, its name and the arrays it starts from are checked; one
        # stateless call must agree when nothing random is involved
        if kind in ("Input", "ReservoirFb") and node.is_initialized:   # (NVAR / Delay: hidden memory, finding K4 of C08)
            x = data(c["seed"] + 9, 1, 2)
            ra = common.exc_class(lambda: node.call(x, stateful=False))
            rb = common.exc_class(lambda: cp.call(x, stateful=False))
            if ra[0] != rb[0] or (ra[0] == "ok" and not same_out(ra[1], rb[1])):
                res.append(("oracle", f"a shallow copy of a {kind} answers a stateless call differently from the original"))
        if kind in ("Input", "ReservoirFb") and node.is_initialized:
            # the state and the name are the copy's own (attributes, not shared containers): moving or renaming the copy
            # leaves its source where it was
            st0, nm0 = np.array(node.state(), dtype=float).copy(), node.name
            rr = common.exc_class(lambda: cp.run(data(c["seed"] + 10, 3, 2)))
            if rr[0] == "ok" and not np.array_equal(np.asarray(node.state(), dtype=float), st0):
                res.append(("oracle", f"running a shallow copy of a {kind} ({'a ' + c.get('source', 'original') + ' clone' if c.get('source', 'original') != 'original' else 'the original'}) moved the state of its source"))
            if node.name != nm0:
                res.append(("oracle", f"running a shallow copy renamed its source: {nm0!r} -> {node.name!r}"))
        return ob, res
    # lock-step operations
    for i, (op, s) in enumerate(c["ops"]):
        ra = common.exc_class(node_op, node, kind, op, s)
        rb = common.exc_class(node_op, cp, kind, op, s)
        if ra[0] != rb[0] or (ra[0] == "ok" and not same_out(ra[1], rb[1])) or (ra[0] != "ok" and ra[1] != rb[1]):
            res.append(("oracle", f"after {how}, operation {i} ({op}) on the original and on the copy of a {kind} (history {c['pre']}) "
                                  f"gave different results: {ra[0]} {ra[1] if ra[0] != 'ok' else ''} vs {rb[0]} {rb[1] if rb[0] != 'ok' else ''}"))
            return ob, res
    # isolation: operations on one side leave the other untouched
    side, other = (cp, node) if c["mutate"] == "copy" else (node, cp)
    d_other = node_digest(other)
    for op, s in [("run", 5), ("fit", 6), ("train", 7), ("partial_fit_then_fit", 8)]:
        common.exc_class(node_op, side, kind, op, s)
    for k, v in list(side.params.items()):
        if isinstance(v, np.ndarray) and v.size and v.flags.writeable:
            v.flat[0] += 1.0
    if node_digest(other) != d_other:
        diff = [k for k, v in node_digest(other).items() if d_other.get(k) != v]
        res.append(("oracle", f"running / training / writing into the {'copy' if side is cp else 'original'} of a {kind} ({how}) changed the other side: {diff[:4]}"))
    return ob, res


# ----------------------------------------------------------------------------- B. models

def build_model(c):
    from reservoirpy.nodes import Reservoir, Ridge, RLS, LMS, Input, ESN
    k, s = c["model"], c["seed"]
    X, Y = data(s + 1, 14, 2), data(s + 2, 14, 1)
    if k in ("esn", "esn_fb"):
        m = ESN(units=8, sr=0.9, lr=0.5, ridge=1e-3, seed=s, feedback=(k == "esn_fb"), workers=1, fb_connectivity=1.0)
    else:
        r1 = Reservoir(8, lr=0.5, sr=0.9, seed=s, fb_connectivity=1.0)
        if k == "chain":
            m = r1 >> Ridge(1, ridge=1e-3)
        elif k == "fb":
            ro = Ridge(1, ridge=1e-3)
            r1 <<= ro
            m = r1 >> ro
        elif k == "concat":
            m = [r1, Reservoir(6, lr=0.3, sr=0.8, seed=s + 5)] >> Ridge(1, ridge=1e-3)
        elif k == "input":
            src = Input()
            ro = Ridge(1, ridge=1e-3)
            m = (src >> r1 >> ro) & (src >> ro)
        elif k == "deep":
            m = r1 >> Reservoir(6, lr=0.3, sr=0.8, seed=s + 5) >> Ridge(1, ridge=1e-3)
        elif k == "online_rls":
            m = r1 >> RLS(1)
        elif k == "online_lms":
            m = r1 >> LMS(1, alpha=0.01)
        else:
            raise common.FrameworkError(k)
    if c["trained"]:
        if k.startswith("online"):
            m.train(X, Y)
        else:
            m.fit(X, Y)
    elif c["initialized"] and not k.startswith("esn"):
        m.initialize(X[:1], Y[:1])
    return m


def trainable_name(m):
    for n in m.nodes:
        if n.is_trainable and type(n).__name__ not in ("Reservoir",):
            return n.name
    return m.nodes[-1].name


def model_op(m, c, op, seed):
    k = c["model"]
    X, Y = data(seed, 9, 2), data(seed + 1, 9, 1)
    esn = k.startswith("esn")
    online = k.startswith("online")
    first, last = m.nodes[0], m.nodes[-1]
    ready = m.is_initialized and all(n.fitted for n in m.nodes if n.is_trained_offline)
    if not ready and op not in ("fit", "fit_named", "train"):
        op = "train" if online else "fit"
    if op == "run":
        return m.run(X)
    if op == "run_stateless":
        return m.run(X, stateful=False)
    if op == "call":
        return m(X[:1]) if not esn else m.run(X[:1])
    if op == "return_all":
        return m.run(X, return_states="all")
    if op == "return_named":
        names = ["reservoir"] if esn else [first.name]
        return m.run(X, return_states=names)
    if op == "named_input":
        if esn:
            return m.run(X)
        return m.run({n.name: X for n in m.input_nodes})
    if op == "from_state":
        if esn:
            return m.run(X, from_state={n.name: np.full((1, n.output_dim), 0.25) for n in m.nodes})
        return m.run(X, from_state={first.name: np.full((1, first.output_dim), 0.25)})
    if op == "run_forced":
        # forced feedback (keyed by the sender's current name) must be honoured alike by the original and the copy - and
        # must make a difference
        if k not in ("esn_fb", "fb"):
            return m.run(X)
        F = np.full((len(X), 1), 3.0)
        free = m.run(X, stateful=False)
        forced = m.run(X, forced_feedbacks=F if esn else {last.name: F})
        return [forced, bool(np.allclose(np.asarray(free), np.asarray(forced)))]
    if op == "getitem":
        if esn:
            return m.reservoir.name
        n = m[last.name]
        return np.asarray(n.state()) if n.is_initialized else "uninit"
    if op == "node_names":
        return [len(m.node_names), sorted(m.node_names) == sorted(n.name for n in m.nodes),
                sorted(m.params) == sorted(m.node_names) if not esn else True]
    if op == "reset_run":
        m.reset()
        return m.run(X)
    if op == "fit":
        if online:
            return m.train(X, Y)
        m.fit(X, Y)
        return [m.run(X)] + [np.asarray(v) for v in model_digest(m).values()]
    if op == "fit_named":
        if online:
            return m.train(X, {trainable_name(m): Y})
        m.fit(X, {trainable_name(m): Y} if not esn else Y)
        return m.run(X)
    if op == "train":
        if online:
            return m.train(X, Y)
        m.fit(X, Y)
        return m.run(X)
    raise common.FrameworkError(op)


MODEL_OPS = ["run", "run_stateless", "run_forced", "run_forced", "call", "return_all", "return_named", "named_input", "from_state", "getitem", "node_names",
             "reset_run", "fit", "fit_named", "train"]



_fp_uid = [0]


def fresh_name(prefix):
    _fp_uid[0] += 1
    return f"{prefix}_{os.getpid()}_{_fp_uid[0]}"


FRESH_SCRIPT = r"""
import sys, pickle, json, warnings
warnings.filterwarnings("ignore")
import numpy as np
import reservoirpy as rpy
rpy.verbosity(0)
with open(sys.argv[1], "rb") as f:
    blob = pickle.load(f)
m = pickle.loads(blob["model"])
X, F = blob["X"], blob["F"]
out = {}
out["free"] = np.asarray(m.run(X)).tolist()
m2 = pickle.loads(blob["model"])
def by_type(m, t):
    return [n.name for n in m.nodes if type(n).__name__ == t][0]
out["forced"] = np.asarray(m2.run(X, forced_feedbacks=({by_type(m2, "Ridge"): F} if blob["plain_model"] else F))).tolist()
m3 = pickle.loads(blob["model"])
fs = ({by_type(m3, "Reservoir"): np.full((1, 6), 0.25)} if blob["plain_model"]
      else {"reservoir": np.full((1, 6), 0.25), "readout": np.full((1, 1), 0.25)})
out["from_state"] = np.asarray(m3.run(X, from_state=fs)).tolist()
print(json.dumps(out))
"""


def check_fresh_process(ctx, g):
    """a trained ESN node / feedback model saved with pickle and loaded in ANOTHER interpreter (where the original and its
    registered names do not exist): free run, run with forced feedback and run from given states give what the original
    gives here"""
    import pickle
    import subprocess
    import tempfile
    import reservoirpy.nodes as N
    ob = "fresh_process"
    kind = g.choice(["esn_fb", "esn_fb", "esn", "model_fb"])
    c = {"kind": "fresh_process", "model": kind, "seed": g.randint(0, 10 ** 6)}
    ctx.count(c, nontrivial=True, obligation=ob)
    ctx.stat(f"fresh_process {kind}")
    X, Y = data(c["seed"], 9, 2), data(c["seed"] + 1, 9, 1)
    F = np.full((len(X), 1), 3.0)
    res = N.Reservoir(6, seed=c["seed"] % 1000, name=fresh_name("fp_res"))
    ro = N.Ridge(ridge=0.1, name=fresh_name("fp_ro"))
    if kind.startswith("esn"):
        m = N.ESN(reservoir=res, readout=ro, feedback=(kind == "esn_fb"), workers=1, name=fresh_name("fp_esn"))
        m.fit(X, Y)
        forced_arg = None
        dims = {"reservoir": 6, "readout": 1}
    else:
        res <<= ro
        m = res >> ro
        m.fit(X, Y)
        forced_arg = None
        dims = {res.name: 6}
    blob = pickle.dumps(m)

    def by_type(mm, t):
        return [n_.name for n_ in mm.nodes if type(n_).__name__ == t][0]
    here = {"free": np.asarray(pickle.loads(blob).run(X))}
    m2, m3 = pickle.loads(blob), pickle.loads(blob)
    if kind == "model_fb":
        here["forced"] = np.asarray(m2.run(X, forced_feedbacks={by_type(m2, "Ridge"): F}))
        here["from_state"] = np.asarray(m3.run(X, from_state={by_type(m3, "Reservoir"): np.full((1, 6), 0.25)}))
    else:
        here["forced"] = np.asarray(m2.run(X, forced_feedbacks=F))
        here["from_state"] = np.asarray(m3.run(X, from_state={n_: np.full((1, d_), 0.25) for n_, d_ in dims.items()}))
    if kind in ("esn_fb", "model_fb") and np.allclose(here["free"], here["forced"]):
        ctx.violation(f"{kind}: forcing the feedback makes no difference in this process either", c, obligation=ob)
        return
    with tempfile.NamedTemporaryFile(suffix=".pkl", delete=False) as f:
        pickle.dump({"model": blob, "X": X, "F": F, "plain_model": kind == "model_fb"}, f)
        path = f.name
    try:
        env = dict(os.environ, PYTHONPATH=common.REPO, TQDM_DISABLE="1")
        r = subprocess.run(["/venv/bin/python", "-c", FRESH_SCRIPT, path], stdout=subprocess.PIPE, stderr=subprocess.PIPE, env=env, timeout=300)
    finally:
        os.remove(path)
    if r.returncode != 0:
        ctx.violation(f"{kind}: a pickled trained model cannot be loaded and run in another interpreter: {r.stderr.decode()[-300:]}", c, obligation=ob)
        return
    there = json.loads(r.stdout.decode().strip().splitlines()[-1])
    for key in ("free", "forced", "from_state"):
        a, b = here[key], np.asarray(there[key], dtype=float)
        if a.shape != b.shape or not np.allclose(a, b, rtol=1e-9, atol=1e-12):
            ctx.violation(f"{kind}: pickled here, loaded in another interpreter: the {key.replace('_', ' ')} run differs from the one of the "
                          f"same pickle loaded here (max difference {float(np.max(np.abs(a - b))) if a.shape == b.shape else 'shape'})"
                          + ("; it equals the free run there: the forced values were dropped" if key == "forced" and np.allclose(b, np.asarray(there["free"])) else ""),
                          c, obligation=ob)
            return


def gen_model_case(g):
    k = g.choice(MODEL_KINDS)
    trained = g.chance(0.7)
    return {"kind": "model", "model": k, "how": g.choice(["deepcopy", "pickle"]), "seed": g.randint(0, 10 ** 6), "trained": trained,
            "initialized": trained or g.chance(0.5), "ops": [[g.choice(MODEL_OPS), g.randint(0, 10 ** 6)] for _ in range(g.randint(2, 6))],
            "mutate": g.choice(["copy", "orig"]), "orig_alive": g.chance(0.85)}


def check_model(ctx, c):
    how, k = c["how"], c["model"]
    ob = f"model/{how}"
    res = []
    r = common.exc_class(build_model, c)
    if r[0] != "ok":
        return ob, [("oracle", f"building the {k} model raised {r[1]}")]
    m = r[1]
    d0 = model_digest(m)
    rc = common.exc_class(do_copy, m, how)
    if rc[0] != "ok":
        return ob, [("oracle", f"{how} of a {k} model (trained={c['trained']}) raised {rc[1]}")]
    cp = rc[1]
    if model_digest(m) != d0 or model_digest(cp) != d0:
        return ob, [("oracle", f"{how} of a {k} model: the copy does not hold the same arrays as the original (or the original changed)")]
    names_ok = sorted(cp.node_names) == sorted(n.name for n in cp.nodes)
    if not names_ok:
        res.append(("oracle", f"{how} of a {k} model: the copy's name table {sorted(cp.node_names)} does not list the current names of its nodes "
                              f"{sorted(n.name for n in cp.nodes)}"))
        return ob, res
    a, b = walk_ids(m), walk_ids(cp)
    shared = [a[i] for i in a if i in b]
    if shared:
        return ob, [("oracle", f"the {how} copy of a {k} model shares mutable objects with the original: {shared[:4]}")]
    for i, (op, s) in enumerate(c["ops"]):
        ra = common.exc_class(model_op, m, c, op, s)
        rb = common.exc_class(model_op, cp, c, op, s)
        if ra[0] != rb[0] or (ra[0] == "ok" and not same_out(ra[1], rb[1])) or (ra[0] != "ok" and ra[1] != rb[1]):
            res.append(("oracle", f"after {how} of a {k} model (trained={c['trained']}), operation {i} ({op}) gave different results on the original and "
                                  f"on the copy: {ra[0]} {ra[1] if ra[0] != 'ok' else ''} vs {rb[0]} {rb[1] if rb[0] != 'ok' else ''}"))
            return ob, res
    side, other = (cp, m) if c["mutate"] == "copy" else (m, cp)
    d_other = model_digest(other)
    for op, s in [("run", 5), ("fit", 6)]:
        common.exc_class(model_op, side, c, op, s)
    for n in side.nodes:
        for kk, v in list(n.params.items()):
            if isinstance(v, np.ndarray) and v.size and v.flags.writeable:
                v.flat[0] += 1.0
    if model_digest(other) != d_other:
        diff = [kk for kk, v in model_digest(other).items() if d_other.get(kk) != v]
        res.append(("oracle", f"running / training / writing into the {'copy' if side is cp else 'original'} of a {k} model ({how}) changed the other side: {diff[:4]}"))
    return ob, res


# ----------------------------------------------------------------------------- C. legacy models

ACTS = {"tanh": np.tanh, "identity": None, "sigmoid": None, "relu": None}


def act_fn(name):
    from reservoirpy import activationsfunc as A
    return {"tanh": np.tanh, "identity": A.identity, "sigmoid": A.sigmoid, "relu": A.relu}[name]


def gen_legacy_case(g):
    n = g.choice([3, 4, 5, 6, 8, 10, 12])
    m = g.randint(1, 3)
    fb = g.chance(0.5)
    trained = True if fb else g.chance(0.7)
    rng = np.random.default_rng(g.randint(0, 2 ** 31))
    W = rng.normal(size=(n, n)) * (rng.random((n, n)) < 0.7)
    if not W.any():
        W[0, 1] = 0.5
    W *= 0.8 / max(1e-3, max(abs(np.linalg.eigvals(W))))
    bias = g.chance(0.6)
    return {"kind": "legacy", "n": n, "m": m, "k": g.randint(1, 2), "sparse": g.chance(0.4), "bias": bias, "fb": fb, "trained": trained,
            "act": g.choice(["tanh", "tanh", "tanh", "tanh", "sigmoid"]), "fbact": g.choice(["identity", "tanh", "sigmoid"]) if fb else "identity",
            "lr": g.choice([1.0, 0.5, 0.25]), "W": W.tolist(), "Win": rng.uniform(-1, 1, (n, m + (1 if bias else 0))).tolist(),
            "Wfb": rng.uniform(-1, 1, (n, 2)).tolist(), "T": g.randint(5, 15), "dseed": g.randint(0, 10 ** 6)}


def run_legacy(c):
    from scipy import sparse
    from reservoirpy.compat import ESN, load, load_compat
    n, m, k = c["n"], c["m"], c["k"]
    W = np.array(c["W"]).reshape(n, n)
    Win = np.array(c["Win"]).reshape(n, -1)
    Wfb = np.array(c["Wfb"]).reshape(n, 2)[:, :k] if c["fb"] else None
    kw = {}
    if c["fb"]:
        kw["fbfunc"] = act_fn(c["fbact"])
    e = ESN(lr=c["lr"], W=sparse.csr_matrix(W) if c["sparse"] else W, Win=Win, input_bias=c["bias"], ridge=1e-3, Wfb=Wfb,
            activation=act_fn(c["act"]), **kw)
    Xtr, Ytr = data(c["dseed"], 25, m), np.tanh(data(c["dseed"] + 1, 25, k))
    X = data(c["dseed"] + 2, c["T"], m)
    if c["trained"]:
        e.train([Xtr], [Ytr], workers=1)

    def outs(esn):
        if esn.Wout is not None:
            o, s = esn.run([X], return_states=True, workers=1)
            return np.asarray(o[0]), np.asarray(s[0])
        return None, np.asarray(esn.compute_all_states([X], workers=1)[0])
    d = tempfile.mkdtemp(prefix="c16_")
    attrs = None
    try:
        # the scalar attributes, on a twin with arbitrary (distinct) noise gains and seed - not run
        tw = ESN(lr=c["lr"], W=W, Win=Win, input_bias=c["bias"], ridge=0.125, Wfb=Wfb, noise_in=0.03125, noise_rc=0.0625, noise_out=0.25,
                 seed=c["dseed"] % 1000, **kw)
        pt = os.path.join(d, "twin")
        tw.save(pt)
        lt, ct = load(pt), load_compat(pt)
        names = ("lr", "noise_in", "noise_rc", "noise_out", "seed", "input_bias", "ridge", "N")
        attrs = {"saved": {k: getattr(tw, k, None) for k in names}, "loaded": {k: getattr(lt, k, None) for k in names},
                 "converted": {"lr": float(np.ravel(ct.reservoir.lr)[0]), "noise_in": ct.reservoir.noise_in, "noise_rc": ct.reservoir.noise_rc,
                               "noise_out": ct.reservoir.noise_out, "N": ct.reservoir.output_dim, "ridge": ct.readout.ridge}}
        p = os.path.join(d, "model")
        e.save(p)
        o0, s0 = outs(e)
        o1, s1 = outs(load(p))
        conv = load_compat(p)
        if c["trained"]:
            st = conv.run(X, return_states="all")
            o2, s2 = np.asarray(st["readout"]), np.asarray(st["reservoir"])
        else:
            o2, s2 = None, np.asarray(conv.reservoir.run(X))
    finally:
        shutil.rmtree(d, ignore_errors=True)
    Wout = np.asarray(e.Wout) if e.Wout is not None else np.zeros((k, n + 1))
    return {"orig": (o0, s0), "loaded": (o1, s1), "conv": (o2, s2), "Wout": Wout, "attrs": attrs}


def check_legacy(ctx, c, open_k):
    ob = "legacy/" + ("trained" if c["trained"] else "untrained")
    r = common.exc_class(run_legacy, c)
    if r[0] != "ok":
        return ob, [("oracle", f"legacy ESN save / load / load_compat raised {r[1]}")]
    o = r[1]
    res = []
    (o0, s0), (o1, s1), (o2, s2) = o["orig"], o["loaded"], o["conv"]
    at = o["attrs"]
    bad = [k for k, v in at["saved"].items() if at["loaded"].get(k) != v]
    if bad:
        res.append(("oracle", f"a legacy ESN saved and loaded again has other attributes than the model that was saved: " +
                    ", ".join(f"{k}: {at['saved'][k]!r} -> {at['loaded'][k]!r}" for k in bad)))
        return ob, res
    bad = [k for k, v in at["converted"].items() if k != "noise_out" and at["saved"].get(k) != v]
    if c["fb"] and at["converted"]["noise_out"] != at["saved"]["noise_out"]:
        bad.append("noise_out")
    if bad:
        res.append(("oracle", f"load_compat gives the converted model other hyper-parameters than the saved one: " +
                    ", ".join(f"{k}: {at['saved'][k]!r} -> {at['converted'][k]!r}" for k in bad)))
        return ob, res

    def differs(a, b, tol):
        if a is None or b is None:
            return (a is None) != (b is None)
        return a.shape != b.shape or not np.allclose(a, b, rtol=tol, atol=tol)
    lost = c["act"] != "tanh"
    if differs(s0, s1, 0) or differs(o0, o1, 0):
        if lost:
            res.append(("known", K16, f"a legacy ESN with activation={c['act']} saved and loaded again does not reproduce the saved model's outputs "
                                      f"(max state difference {float(np.max(np.abs(s0 - s1))):.3g}): save() does not store the activation"))
        else:
            res.append(("oracle", f"a legacy ESN saved and loaded again does not reproduce the saved model's states / outputs bit for bit "
                                  f"(max state difference {float(np.max(np.abs(s0 - s1))):.3g})"))
    if differs(s0, s2, 1e-9) or differs(o0, o2, 1e-9):
        if lost:
            if not res:
                res.append(("known", K16, f"load_compat of a legacy ESN with activation={c['act']} does not reproduce the saved model"))
        else:
            dd = float(np.max(np.abs(s0 - s2))) if s0.shape == s2.shape else "shape"
            res.append(("oracle", f"load_compat does not reproduce the saved legacy model (sparse={c['sparse']} bias={c['bias']} fb={c['fb']} "
                                  f"fbfunc={c['fbact']} trained={c['trained']}): max state difference {dd}"))
    if res and res[0][0] == "oracle":
        return ob, res
    # tie to RpyModel.Compat
    n, m, k = c["n"], c["m"], c["k"]
    Win = np.array(c["Win"]).reshape(n, -1)
    biasCol = Win[:, 0] if c["bias"] else np.zeros(n)
    Wx = Win[:, 1:] if c["bias"] else Win
    X = data(c["dseed"] + 2, c["T"], m)
    mc = {"kind": "compat_run", "regime": "F", "n": n, "m": m, "k": k, "W": fmat(np.array(c["W"]).reshape(n, n).tolist()),
          "Win": fmat(Wx.tolist()), "biasCol": fvec(biasCol.tolist()), "hasFb": c["fb"], "lr": fbits(c["lr"]), "act": c["act"],
          "fbact": c["fbact"], "Wout": fmat(o["Wout"].tolist()), "U": fmat(X.tolist())}
    if c["fb"]:
        mc["Wfb"] = fmat(np.array(c["Wfb"]).reshape(n, 2)[:, :k].tolist())
    mo = ctx.model.one(mc)
    if mo[0] != "ok":
        raise common.FrameworkError("model rejected compat_run: " + mo[1])

    def dec(part, key, d):
        return np.array([[unfbits(v) for v in row] for row in mo[1][part][key]]).reshape(-1, d)
    if differs(dec("legacy", "X", n), s0, 1e-9) or (o0 is not None and differs(dec("legacy", "Y", k), o0, 1e-9)):
        res.append(("model", "the legacy ESN run differs from RpyModel.Compat.legacyRun"))
    elif not lost and (differs(dec("converted", "X", n), s2, 1e-9) or (o2 is not None and differs(dec("converted", "Y", k), o2, 1e-9))):
        res.append(("model", "the load_compat model's run differs from RpyModel.Compat.v3Run (loadCompat (save l))"))
    elif differs(dec("reloaded", "X", n), s1, 1e-9):
        res.append(("model", "the saved-and-loaded legacy run differs from RpyModel.Compat.legacyRun (load (save l))"))
    return ob, res


# ----------------------------------------------------------------------------- D. name histories

def gen_names_case(g):
    if g.chance(0.2):
        # planted: a model mixing a node whose name is NOT registered (itself a deep copy / unpickled) with a fresh,
        # registered one, then copied: only some of its nodes are renamed by the copy
        k = g.choice([0, 1])
        return {"kind": "names", "ops": [{"op": "new_node"}, {"op": "new_node"}, {"op": "deepcopy_node", "i": k},
                                          {"op": "mk_model", "ids": [2, 1 - k]}, {"op": "deepcopy_model", "j": 0},
                                          {"op": "deepcopy_model", "j": 1}]}
    ops = []
    pool = 0          # pool size
    pool_names = []   # symbolic: index of the "base" to avoid duplicate names in one model
    models = []       # list of node-id lists
    released = set()
    for _ in range(g.randint(3, 12)):
        k = g.choice(["new_node", "new_node", "mk_model", "deepcopy_node", "copy_node", "deepcopy_model", "release"])
        if k == "new_node" or pool == 0:
            ops.append({"op": "new_node"})
            pool_names.append(("base", pool))
            pool += 1
        elif k == "mk_model":
            cand = [i for i in range(pool) if i not in released]
            ids, seen = [], set()
            for i in g.sample(cand, min(len(cand), g.randint(1, 3))):
                if pool_names[i] not in seen:
                    seen.add(pool_names[i])
                    ids.append(i)
            ops.append({"op": "mk_model", "ids": ids})
            models.append(ids)
        elif k == "deepcopy_node":
            i = g.choice([i for i in range(pool) if i not in released] or [0])
            if i in released:
                continue
            ops.append({"op": "deepcopy_node", "i": i})
            pool_names.append(("copyof", pool_names[i]))
            pool += 1
        elif k == "copy_node":
            i = g.choice([i for i in range(pool) if i not in released] or [0])
            if i in released:
                continue
            ops.append({"op": "copy_node", "i": i})
            pool_names.append(("base", pool))
            pool += 1
        elif k == "deepcopy_model" and models:
            j = g.randint(0, len(models) - 1)
            ops.append({"op": "deepcopy_model", "j": j})
            new_ids = []
            for i in models[j]:
                pool_names.append(("copyof", pool_names[i]))
                new_ids.append(pool)
                pool += 1
            models.append(new_ids)
        elif k == "release":
            used = {i for ids in models for i in ids}
            cand = [i for i in range(pool) if i not in used and i not in released]
            if cand:
                i = g.choice(cand)
                ops.append({"op": "release", "i": i})
                released.add(i)
    return {"kind": "names", "ops": ops}


def run_names(c):
    from reservoirpy.nodes import Delay
    from reservoirpy import Model
    pool, models = [], []
    base_map = {}     # real base name -> model base name
    counter = 0
    for o in c["ops"]:
        k = o["op"]
        if k == "new_node":
            n = Delay(delay=1)
            base_map[n.name] = f"N-{counter}"
            counter += 1
            pool.append(n)
        elif k == "mk_model":
            nodes = [pool[i] for i in o["ids"]]
            edges = [(a, b) for a, b in zip(nodes, nodes[1:])]
            models.append(Model(nodes=nodes, edges=edges))
        elif k == "deepcopy_node":
            pool.append(copy.deepcopy(pool[o["i"]]) if len(pool) % 2 else pickle.loads(pickle.dumps(pool[o["i"]])))
        elif k == "copy_node":
            n = pool[o["i"]].copy()
            base_map[n.name] = f"N-{counter}"
            counter += 1
            pool.append(n)
        elif k == "deepcopy_model":
            m = models[o["j"]]
            cp = copy.deepcopy(m) if len(models) % 2 else pickle.loads(pickle.dumps(m))
            # the copy's nodes, in the order of the original's node list given at construction
            order = [m.nodes.index(n) for n in m.nodes]
            pool.extend(cp.nodes[i] for i in order)
            models.append(cp)
        elif k == "release":
            nm = pool[o["i"]].name
            pool[o["i"]] = None
            gc.collect()
            pool[o["i"]] = types.SimpleNamespace(name=nm)

    def tr(name):
        suffix = ""
        while name not in base_map and name.endswith("-(copy)"):
            name, suffix = name[:-7], suffix + "-(copy)"
        return base_map.get(name, "?" + name) + suffix
    return {"pool": [tr(n.name) for n in pool],
            "models": [{"nodes": [tr(n.name) for n in m.nodes], "keys": [tr(x) for x in m.node_names],
                        "params": sorted(tr(x) for x in m.params), "hypers": sorted(tr(x) for x in m.hypers)} for m in models]}


def check_names(ctx, c):
    ob = "names/history"
    r = common.exc_class(run_names, c)
    if r[0] != "ok":
        return ob, [("oracle", f"the copy history raised {r[1]}")]
    o = r[1]
    res = []
    for j, m in enumerate(o["models"]):
        dup = [x for x in set(m["nodes"]) if m["nodes"].count(x) > 1]
        if dup and all(x.endswith("-(copy)") for x in dup):
            return ob, [("known", K17, f"a model holds two nodes both named {dup[0]!r} (copies whose new name was never registered)")]
    for j, m in enumerate(o["models"]):
        if sorted(m["keys"]) != sorted(m["nodes"]) or m["params"] != sorted(m["nodes"]) or m["hypers"] != sorted(m["nodes"]):
            res.append(("oracle", f"model {j}: name tables {m['keys']} / params {m['params']} are not keyed by the current node names {m['nodes']}"))
            return ob, res
    mo = ctx.model.one({"kind": "names_history", "ops": c["ops"]})
    if mo[0] != "ok":
        raise common.FrameworkError("model rejected names_history: " + mo[1])
    if mo[1]["pool"] != o["pool"]:
        res.append(("model", f"node names after the history differ from RpyModel.Names: {o['pool']} vs {mo[1]['pool']}"))
    else:
        for j, (a, b) in enumerate(zip(o["models"], mo[1]["models"])):
            if sorted(a["nodes"]) != sorted(b["nodes"]) or sorted(a["keys"]) != sorted(b["keys"]):
                res.append(("model", f"model {j} names differ from RpyModel.Names: {a} vs {b}"))
                break
    return ob, res


def check_dup(ctx, c):
    """finding K17: two deep copies of one node carry the same name"""
    from reservoirpy.nodes import Reservoir, Ridge
    r = Reservoir(6, seed=1)
    a, b = copy.deepcopy(r), copy.deepcopy(r)
    X, Y = data(1, 10, 2), data(2, 10, 1)

    def use():
        m = a >> b >> Ridge(1, ridge=1e-3)
        m.fit(X, Y)
        return m.run(X)
    rr = common.exc_class(use)
    if a.name == b.name and rr[0] != "ok":
        return "names/duplicates", [("known", K17, f"two deep copies of one node are both named {a.name!r} (the new name is not registered); a model holding both fails ({rr[1]})")]
    return "names/duplicates", []


# ----------------------------------------------------------------------------- driver

def check_cases(ctx, cases):
    common.quiet()
    open_k = common.open_findings("C16")
    for c in cases:
        kind = c["kind"]
        if kind == "node":
            ob, res = check_node(ctx, c)
            ctx.stat(f"node {c['node']}")
            ctx.stat(f"how {c['how']}")
        elif kind == "model":
            ob, res = check_model(ctx, c)
            ctx.stat(f"model {c['model']} trained={c['trained']}")
            ctx.stat(f"how {c['how']}")
        elif kind == "legacy":
            ob, res = check_legacy(ctx, c, open_k)
            ctx.stat(f"legacy sparse={c['sparse']} bias={c['bias']} fb={c['fb']} trained={c['trained']} act={c['act']}")
        elif kind == "names":
            ob, res = check_names(ctx, c)
            for o in c["ops"]:
                ctx.stat("names op " + o["op"])
        elif kind == "dup_names":
            ob, res = check_dup(ctx, c)
        else:
            raise common.FrameworkError("unknown case kind " + kind)
        gc.collect()
        if any(r[0] == "skip" for r in res):
            ctx.stat("skipped: " + res[0][1][:60])
            continue
        ctx.count(c, nontrivial=True, obligation=ob)
        ctx.sample({k: v for k, v in c.items() if k not in ("W", "Win", "Wfb")}, limit=6)
        for r in res:
            if r[0] == "known":
                if r[1] in open_k:
                    ctx.known(r[1], r[2])
                else:
                    ctx.violation(r[2], c, obligation=ob)
            elif r[0] == "oracle":
                ctx.violation(r[1], c, obligation=ob)
            else:
                ctx.violation(r[1] + " — theorems C16_* no longer tied to the code; the property's own checks pass on this case",
                              c, found_input=False, obligation=ob)


def run(ctx):
    ctx.notes["rule"] = ("A: 12 node classes x {deepcopy, pickle, Node.copy, Node.copy(copy_feedback), copy.copy} x histories of 0-3 of {train, run, partial_fit} "
                         "x 2-6 lock-step operations from {run, stateless run, call, stateless call, reset, from_state, state, fit, partial_fit+fit, train}; "
                         "B: 9 model shapes (chain, feedback, concat, input, deep, online RLS/LMS, ESN node with/without feedback) x trained / initialised / fresh "
                         "x {deepcopy, pickle} x 2-6 operations from 13 name-keyed entry points; C: legacy ESNs 3-6 units (dense / sparse W, bias, feedback 1-2 outputs, "
                         "fbfunc identity / tanh / sigmoid, activation tanh / sigmoid, trained or not); D: histories of 3-12 creations / copies / model constructions / releases")
    g = ctx.gen
    cases = common.load_corpus("C16")
    cases += [gen_node_case(g) for _ in range(ctx.n(150, 2000))]
    cases += [gen_model_case(g) for _ in range(ctx.n(60, 800))]
    cases += [gen_legacy_case(g) for _ in range(ctx.n(40, 500))]
    cases += [gen_names_case(g) for _ in range(ctx.n(60, 800))]
    check_cases(ctx, cases)
    common.quiet()
    for _ in range(ctx.n(3, 20)):
        check_fresh_process(ctx, g)


def replay(ctx, data_):
    if data_["case"].get("kind") == "fresh_process":
        common.quiet()
        for _ in range(4):
            check_fresh_process(ctx, ctx.gen)
        return
    check_cases(ctx, [data_["case"]])
