"""C13 — weight initialisers.  Direct oracle on every returned matrix (type, shape, format, dtype,
exact non-zero count / exact degree, support of the distribution, purity, scalar-multiple and
spectral-radius relation under `sr`, element-wise relation under `input_scaling`), plus the tie of
the post-processing algebra, ring / line / degree structure and partial-application bookkeeping to
the Lean model (RpyModel/MatGen.lean)."""
import copy
from fractions import Fraction

import numpy as np

from . import common
from .common import fbits, fmat, fvec, unfbits

LEVEL = "proof"
TRUSTED = [
    "model: lean/RpyModel/MatGen.lean (stored-keyword algebra of Initializer, `scaleSR` with the epsilon floor, `scaleInputs*`, ring / line / fixed-degree entry lists, expected non-zero count); the random draw itself (numpy Generator, scipy.stats, scipy.sparse.random) is a parameter of the model, exercised only through the direct oracle",
    "theorems: lean/RpyProofs/Props/C13.lean (partial application is persistent and merges; sr rescaling is the positive multiple sr/rho and reaches rho = sr for every absolutely homogeneous rho >= eps; spectrum of c*A is c*spectrum A over the complex numbers; the epsilon floor multiplies a rho = 0 draw by sr/eps; input scaling entry-wise; ring / line / degree structure)",
    "the eigen-solver (ARPACK / LAPACK through scipy) is trusted to return the spectral radius of the matrix it is given; the oracle recomputes it with dense LAPACK on the result (rtol 1e-6)",
    "exact nilpotency oracle: acyclic support, or integer matrix power for +-v valued draws",
]

K6 = "K6"
INITS = ["uniform", "normal", "bernoulli", "random_sparse", "fast_spectral_initialization", "ring", "line",
         "orthogonal", "zeros", "ones"]
RANDOM_FAMILY = ("uniform", "normal", "bernoulli", "random_sparse", "fast_spectral_initialization")


# ----------------------------------------------------------------------------- generation

def gen_case(g):
    name = g.choice(INITS + ["uniform", "normal", "bernoulli"])
    square = name in ("ring", "line", "orthogonal", "fast_spectral_initialization")
    post = g.choice([None, None, "sr", "sr", "scalar", "cols"])
    m = g.choice([1, 2, 3, 4, 5, 5, 6, 8, 10, 13, 20, 30])
    if name == "orthogonal":
        m = max(m, 2)
    n = m if (square or post == "sr") else g.choice([1, 2, 3, 5, 7, 12])
    kw = {}
    dt = g.choice(["float64", "float64", "float32"])
    kw["dtype"] = dt
    if name in RANDOM_FAMILY:
        mode = g.choice(["full", "conn", "conn", "degree", "degree"])
        kw["sparsity_type"] = g.choice(["csr", "csc", "dense"])
        if mode == "conn":
            kw["connectivity"] = g.choice([0.1, 0.2, 0.25, 0.5, 0.3, 0.75, 0.05, 0.9])
        elif mode == "degree":
            kw["direction"] = g.choice(["in", "out"])
            lim = n if kw["direction"] == "in" else m
            kw["degree"] = g.randint(0 if g.chance(0.05) else 1, lim)
            if g.chance(0.3):
                kw["connectivity"] = g.choice([0.1, 0.5])   # overridden by degree
        if name == "uniform":
            lo = g.choice([-1.0, 0.0, -0.5, 2.0, -3.0])
            kw["low"], kw["high"] = lo, lo + g.choice([0.5, 1.0, 2.0, 4.0])
        elif name == "normal":
            kw["loc"], kw["scale"] = g.choice([0.0, 1.0, -2.0]), g.choice([1.0, 0.1, 3.0])
        elif name == "bernoulli":
            kw["p"] = g.choice([0.5, 0.2, 0.9, 1.0, 0.0])
        elif name == "random_sparse":
            kw["dist"] = g.choice(["uniform", "norm", "custom_bernoulli", "expon"])
            if kw["dist"] in ("uniform", "norm", "expon"):
                kw["loc"], kw["scale"] = g.choice([0.0, -1.0, 0.5]), g.choice([1.0, 2.0])
                if g.chance(0.5):
                    # location and scale from one pool, either one optional, keywords in either order: requests that
                    # carry the same VALUES under different NAMES must not be confused with one another
                    pool = [0.5, 2.0, 5.0]
                    which = g.choice(["loc", "scale", "both", "both_swapped"])
                    del kw["loc"], kw["scale"]
                    if which == "loc":
                        kw["loc"] = g.choice(pool)
                    elif which == "scale":
                        kw["scale"] = g.choice(pool)
                    elif which == "both":
                        kw["loc"], kw["scale"] = g.sample(pool, 2)
                    else:
                        a_, b_ = g.sample(pool, 2)
                        kw["scale"], kw["loc"] = b_, a_
            else:
                kw["p"] = g.choice([0.5, 0.3])
                if g.chance(0.5):
                    kw["value"] = g.choice([1.0, 0.5, 3.0])
        elif name == "fast_spectral_initialization":
            if g.chance(0.7):
                kw["sr"] = g.choice([0.5, 0.9, 1.25])
            post = None
    elif name in ("ring", "line"):
        kw["sparsity_type"] = g.choice(["csr", "csc", "dense", "coo"])
        if g.chance(0.5):
            k = m if name == "ring" else m - 1
            kw["weights"] = [g.dy(a=2, k=12, nonzero=True) for _ in range(k)]
    if name == "zeros" and post == "sr":
        post = "sr_rejected"
    c = {"kind": "init", "init": name, "shape": [m, n], "kw": kw, "seed": g.choice([0, 0, 1, g.randint(0, 2 ** 31), g.randint(0, 2 ** 31)]),
         "scalar_type": g.choice(["float", "float", "np.float64", "np.float32"]),
         "seed_kind": g.choice(["int", "int", "gen"]), "post": post,
         "via": g.choice(["direct", "direct", "partial"])}
    if post in ("sr", "sr_rejected"):
        c["sr"] = g.choice([0.9, 0.5, 1.0, 1.3, 0.1, 2.0])
    elif post == "scalar":
        c["input_scaling"] = g.choice([0.5, 2.0, -1.5, 0.1, 1.0])
    elif post == "cols":
        c["input_scaling"] = [g.choice([0.5, 2.0, -1.5, 0.1, 1.0, 3.0]) for _ in range(n)]
        c["scaling_container"] = g.choice(["list", "array"])
    return c


KW_POOL = [("connectivity", [0.1, 0.5]), ("dtype", ["float32", "float64"]), ("sparsity_type", ["csr", "dense", "csc"]),
           ("seed", [1, 2, 3]), ("degree", [1, 2]), ("direction", ["in", "out"]), ("sr", [0.5, 0.9]),
           ("input_scaling", [0.5, 2.0])]
SPECIFIC = {"uniform": [("low", [-2.0, -1.0]), ("high", [1.0, 3.0])], "normal": [("loc", [0.0, 1.0]), ("scale", [1.0, 2.0])],
            "bernoulli": [("p", [0.5, 0.25])], "random_sparse": [("dist", ["norm", "uniform"])]}


def gen_history(g):
    name = g.choice(["uniform", "normal", "bernoulli", "random_sparse", "ones", "ring", "line", "orthogonal", "zeros",
                     "fast_spectral_initialization"])
    pool = list(KW_POOL) + SPECIFIC.get(name, [])
    if name == "zeros":
        pool = [p for p in pool if p[0] != "sr"]
    if name == "fast_spectral_initialization":
        pool = [p for p in pool if p[0] != "input_scaling"]
    ops = []
    nh = 1
    for _ in range(g.randint(1, 7)):
        h = g.randint(0, nh - 1)
        if g.chance(0.25):
            ops.append({"h": h, "call": True})
            continue
        ks = g.sample(pool, g.randint(1, 3))
        ops.append({"h": h, "kw": [[k, g.choice(vs)] for k, vs in ks]})
        nh += 1
    return {"kind": "partial", "init": name, "ops": ops}


# ----------------------------------------------------------------------------- implementation side

def _kwargs(c, with_post=True):
    kw = dict(c["kw"])
    kw["dtype"] = np.dtype(kw["dtype"]).type
    if "weights" in kw:
        kw["weights"] = np.array(kw["weights"], dtype=kw["dtype"])
    if c["init"] not in ("zeros", "ones", "ring", "line"):
        kw["seed"] = c["seed"] if c["seed_kind"] == "int" else np.random.default_rng(c["seed"])
    # a scalar factor arrives as a Python float or as a numpy scalar (np.linspace sweeps, values read
    # from an array): the requested dtype must be honoured either way
    as_t = {"float": float, "np.float64": np.float64, "np.float32": np.float32}[c.get("scalar_type", "float")]
    if with_post:
        if c["post"] in ("sr", "sr_rejected"):
            kw["sr"] = as_t(c["sr"])
        elif c["post"] == "scalar":
            kw["input_scaling"] = as_t(c["input_scaling"])
        elif c["post"] == "cols":
            s = c["input_scaling"]
            kw["input_scaling"] = np.array(s) if c.get("scaling_container") == "array" else list(s)
    return kw


def call_init(c, with_post=True, via=None):
    from reservoirpy import mat_gen
    f = getattr(mat_gen, c["init"])
    kw = _kwargs(c, with_post)
    shape = c["shape"]
    if c["init"] == "fast_spectral_initialization":
        shape = shape[:1]
    if (via or c["via"]) == "partial" and kw:
        keys = sorted(kw)
        half = len(keys) // 2
        a = {k: kw[k] for k in keys[:half]}
        b = {k: kw[k] for k in keys[half:]}
        if a:
            f = f(**a)
        f = f(**b)
        out = f(*shape)
    else:
        out = f(*shape, **kw)
    # the arrays handed over as arguments (ring / line weights, per-column scalings) are the caller's: an initialiser
    # must not write into them, whatever post-processing it applies to its result
    for k_ in ("weights", "input_scaling"):
        if isinstance(kw.get(k_), np.ndarray):
            ref = np.array(c["kw"][k_] if k_ == "weights" else c["input_scaling"], dtype=kw[k_].dtype)
            if ref.shape == kw[k_].shape and not np.array_equal(kw[k_], ref):
                raise ArgumentOverwritten(f"{c['init']}(...): the array handed over as `{k_}` was overwritten by the call "
                                          f"(first entries {kw[k_].ravel()[:3].tolist()} instead of {ref.ravel()[:3].tolist()})")
    return out


class ArgumentOverwritten(Exception):
    pass


def to_dense(M):
    from scipy import sparse
    return M.toarray() if sparse.issparse(M) else np.asarray(M)


def fmt_of(M):
    from scipy import sparse
    if sparse.issparse(M):
        return M.format
    if type(M) is np.ndarray:
        return "dense"
    return type(M).__name__


def expected_format(c):
    name, kw = c["init"], c["kw"]
    if name in ("orthogonal", "zeros", "ones"):
        return "dense"
    if name in ("ring", "line"):
        return kw.get("sparsity_type", "csr")
    if kw.get("degree") is None and kw.get("connectivity", 1.0) >= 1.0:
        return "dense"      # documented: a full matrix is always a numpy array
    return kw.get("sparsity_type", "csr")


def is_nilpotent_exact(A):
    """True / False when decidable exactly, None otherwise."""
    n = A.shape[0]
    S = (A != 0)
    # acyclic support <=> some power of the support is empty: Kahn
    indeg = S.sum(axis=1).astype(int)    # row i receives from columns j
    alive = np.ones(n, bool)
    changed = True
    while changed:
        changed = False
        for i in range(n):
            if alive[i] and not (S[i] & alive).any():
                alive[i] = False
                changed = True
    if not alive.any():
        return True
    vals = np.unique(np.abs(A[A != 0]))
    if len(vals) == 1:
        B = np.rint(A / vals[0]).astype(int).astype(object)
        P = B
        for _ in range(n - 1):
            P = P.dot(B)
        return not np.any(P != 0)
    return None


def rho_dense(A):
    from scipy import linalg
    return float(max(abs(linalg.eig(A)[0]))) if A.size else 0.0


def check_support(c, raw):
    name, kw = c["init"], c["kw"]
    v = raw[raw != 0] if (kw.get("degree") is not None or kw.get("connectivity", 1.0) < 1.0 or name in ("ring", "line")) else raw.ravel()
    if not np.all(np.isfinite(raw)):
        return "non-finite values"
    f32 = kw["dtype"] == "float32"
    eps = 1e-6 if f32 else 0.0
    if name == "uniform":
        if v.size and (v.min() < kw["low"] - eps * abs(kw["low"]) - eps or v.max() > kw["high"] + eps * abs(kw["high"]) + eps):
            return f"values outside [{kw['low']}, {kw['high']}]: min {v.min()!r} max {v.max()!r}"
    elif name == "bernoulli":
        if not np.all(np.isin(v, [1.0, -1.0])):
            return f"values other than +1/-1: {np.unique(v)[:5].tolist()}"
        if kw["p"] == 1.0 and np.any(v == -1.0):
            return "p=1 drew a failure (-1)"
        if kw["p"] == 0.0 and np.any(v == 1.0):
            return "p=0 drew a success (+1)"
    elif name == "random_sparse":
        d = kw["dist"]
        loc, scale = kw.get("loc", 0.0), kw.get("scale", 1.0)
        if d == "uniform" and v.size and (v.min() < loc - 1e-6 or v.max() > loc + scale + 1e-6):
            return f"values outside loc + [0, scale] = [{loc}, {loc + scale}]: min {v.min()!r} max {v.max()!r}"
        if d == "expon" and v.size and v.min() < loc - 1e-6:
            return f"exponential values below loc={loc}: {v.min()!r}"
        if d == "norm" and v.size >= 30:
            # 30+ normal draws: the sample mean is within 6 sigma/sqrt(n) of loc and no value is 9 sigma away
            if abs(float(np.mean(v)) - loc) > 6 * scale / np.sqrt(v.size) + 1e-6 or np.max(np.abs(v - loc)) > 9 * scale:
                return f"values are not draws of N(loc={loc}, scale={scale}): mean {float(np.mean(v))!r}, max deviation {float(np.max(np.abs(v - loc)))!r} over {v.size} draws"
        if d == "custom_bernoulli":
            val = np.dtype(kw["dtype"]).type(kw.get("value", 1.0))
            if not np.all(np.isin(v, [val, -val])):
                return f"values other than +-{val}: {np.unique(v)[:5].tolist()}"
    elif name == "fast_spectral_initialization":
        sr, conn = kw.get("sr"), kw.get("connectivity", 1.0)
        a = 1.0 if sr is None else 6 * sr / (np.sqrt(12) * np.sqrt(conn * c["shape"][0]))
        if v.size and np.max(np.abs(v)) > a * (1 + 1e-6):
            return f"values outside [-a, a], a={a!r}: {np.max(np.abs(v))!r}"
    elif name == "ones":
        if not np.all(raw == 1.0):
            return "ones() holds values other than 1"
    elif name == "zeros":
        if np.any(raw != 0.0):
            return "zeros() holds non-zero values"
    elif name == "orthogonal":
        n = raw.shape[0]
        if not np.allclose(raw @ raw.T, np.eye(n), atol=1e-5 if f32 else 1e-10):
            return "orthogonal() result Q does not satisfy Q Q^T = I"
    return None


def check_structure(c, rawM, raw):
    """exact count / degree / ring / line. Returns (problem, model_case, compare_fn)."""
    from scipy import sparse
    name, kw = c["init"], c["kw"]
    m, n = c["shape"]
    nz = (raw != 0)
    if name in RANDOM_FAMILY:
        if kw.get("degree") is not None:
            d = kw["degree"]
            counts = nz.sum(axis=0) if kw["direction"] == "out" else nz.sum(axis=1)
            zero_free = not (name == "uniform" and kw["low"] <= 0 <= kw["high"])
            if np.any(counts > d) or (np.any(counts != d) and (zero_free or np.any(counts < d - 1))):
                ax = "column" if kw["direction"] == "out" else "row"
                return f"degree={d} direction={kw['direction']}: non-zeros per {ax} = {counts.tolist()}"
        elif kw.get("connectivity", 1.0) < 1.0:
            want = Fraction(kw["connectivity"]) * m * n
            k = int(nz.sum())
            if abs(k - want) > Fraction(1, 2) + Fraction(1, 10 ** 9):
                return f"connectivity={kw['connectivity']}: {k} non-zeros in a {m}x{n} matrix, expected {float(want):.2f} (to the nearest integer)"
        else:
            if name != "bernoulli" and not nz.all() and not (name in ("uniform", "random_sparse", "fast_spectral_initialization")):
                return "a full draw holds zeros"
    elif name == "ring":
        w = np.array(kw["weights"]) if "weights" in kw else np.ones(m)
        E = np.zeros((m, m))
        for j in range(m):
            E[(j + 1) % m, j] += w[j]
        if not np.array_equal(E.astype(raw.dtype), raw):
            return "ring(): not the cycle j -> j+1 (mod n) with the given weights"
    elif name == "line":
        w = np.array(kw["weights"]) if "weights" in kw else np.ones(m - 1)
        E = np.zeros((m, m))
        for j in range(m - 1):
            E[j + 1, j] = w[j]
        if not np.array_equal(E.astype(raw.dtype), raw):
            return "line(): not the chain j -> j+1 with the given weights"
    return None


def same_bytes(A, B):
    from scipy import sparse
    if type(A) is not type(B):
        return False
    if sparse.issparse(A):
        if A.shape != B.shape or A.dtype != B.dtype:
            return False
        if A.format == "coo":
            return all(np.array_equal(x, y) for x, y in ((A.data, B.data), (A.row, B.row), (A.col, B.col)))
        return all(np.array_equal(x, y) for x, y in ((A.data, B.data), (A.indices, B.indices), (A.indptr, B.indptr)))
    return A.shape == B.shape and A.dtype == B.dtype and A.tobytes() == B.tobytes()


def check_init(ctx, c, open_k):
    """returns list of result tuples: ('oracle', msg) | ('known', id, msg) | ('model', msg) | ('skip', why)"""
    from reservoirpy.observables import spectral_radius
    from reservoirpy import mat_gen
    m, n = c["shape"]
    name, kw, post = c["init"], c["kw"], c["post"]
    res = []
    r = common.exc_class_timed(20, call_init, c)
    if post == "sr_rejected":
        if r[0] == "ok" or "ValueError" not in str(r[1]):
            return [("oracle", f"zeros(sr=...) did not raise ValueError: {r[0]} {r[1] if r[0] != 'ok' else ''}")]
        return []
    rr = common.exc_class(call_init, c, False, "direct")
    if rr[0] != "ok":
        return [("oracle", f"{name}{tuple(c['shape'])} raised {rr[1]} on valid arguments {kw}")]
    rawM = rr[1]
    raw = to_dense(rawM)
    nil = None
    if post == "sr":
        nil = is_nilpotent_exact(raw.astype(float))
    if r[0] != "ok":
        if post == "sr" and nil:
            return [("known", K6, f"{name}{tuple(c['shape'])} with sr={c['sr']} on a draw whose spectral radius is exactly 0 raised {r[1]}")]
        return [("oracle", f"{name}{tuple(c['shape'])} raised {r[1]} on valid arguments {kw} post={post}")]
    M = r[1]
    D = to_dense(M)
    # --- type / shape / format / dtype
    want_shape = (m, n) if name != "fast_spectral_initialization" else (m, m)
    if tuple(M.shape) != want_shape:
        res.append(("oracle", f"shape {tuple(M.shape)} instead of {want_shape}"))
        return res
    ef = expected_format(c)
    if fmt_of(M) != ef:
        res.append(("oracle", f"storage format {fmt_of(M)!r} instead of the requested {ef!r} (post={post}, kwargs {kw})"))
    if M.dtype != np.dtype(kw["dtype"]):
        res.append(("oracle", f"dtype {M.dtype} instead of the requested {kw['dtype']} (post={post}, kwargs {kw})"))
    if fmt_of(rawM) != ef:
        res.append(("oracle", f"unscaled draw: storage format {fmt_of(rawM)!r} instead of {ef!r}"))
    if rawM.dtype != np.dtype(kw["dtype"]):
        res.append(("oracle", f"unscaled draw: dtype {rawM.dtype} instead of the requested {kw['dtype']}"))
    # --- structure and support on the unscaled draw
    p = check_structure(c, rawM, raw)
    if p:
        res.append(("oracle", p))
    p = check_support(c, raw)
    if p:
        res.append(("oracle", p))
    # --- purity: the same call again gives the same bytes; the other calling style too
    r2 = common.exc_class_timed(20, call_init, c, True, "partial" if c["via"] == "direct" else "direct")
    if r2[0] != "ok" or not same_bytes(M, r2[1]):
        res.append(("oracle", "the same arguments and seed, passed directly and through partial application, gave different matrices"))
    # --- post-processing
    f32 = kw["dtype"] == "float32"
    rt = 2e-6 if f32 else 1e-12
    as_t = {"float": float, "np.float64": np.float64, "np.float32": np.float32}[c.get("scalar_type", "float")]
    if post == "sr":
        sr = float(as_t(c["sr"]))
        scale = float(np.max(np.abs(raw))) if raw.size else 0.0
        if nil:
            blow = float(np.max(np.abs(D))) / scale if scale else 1.0
            if blow > 1e3 * max(1.0, sr):
                res.append(("known", K6, f"{name}{tuple(c['shape'])} sr={sr}: the draw is nilpotent (spectral radius exactly 0) and was multiplied by {blow:.3g}"))
            return res
        rd = rho_dense(raw.astype(float))
        if nil is None and rd < 1e-4 * scale:
            return res + [("skip", "numerically tiny spectral radius, nilpotency undecided")]
        # positive scalar multiple
        idx = np.unravel_index(np.argmax(np.abs(raw)), raw.shape)
        cfac = float(D[idx]) / float(raw[idx])
        if not (cfac > 0) or not np.allclose(D, cfac * raw, rtol=10 * rt, atol=0):
            res.append(("oracle", f"sr={sr}: the result is not a positive multiple of the same-seed unscaled draw (factor at the largest entry {cfac!r})"))
            return res
        rdr = rho_dense(D.astype(float))
        # conditioning-aware tolerance: a defective / ill-conditioned dominant eigenvalue moves by
        # eps^(1/k) under rounding-level perturbations of the matrix, whatever the solver
        prng = np.random.default_rng(c["seed"])
        e0 = 2e-7 if f32 else 1e-15
        dev = max(abs(rho_dense(raw.astype(float) + e0 * scale * prng.standard_normal(raw.shape)) - rd) for _ in range(4))
        if abs(rdr - sr) > 1e-6 * sr + (1e-5 if f32 else 0) + 50 * dev * sr / rd:
            res.append(("oracle", f"sr={sr}: spectral radius of the result is {rdr!r} (unscaled draw: {rd!r}, factor {cfac!r})"))
            return res
        # tie to the model: same rho as the implementation saw
        if not f32:
            rho = common.exc_class(lambda: float(spectral_radius(copy.deepcopy(rawM))))
            if rho[0] == "ok":
                mo = ctx.model.one({"kind": "matgen_scale", "regime": "F", "mode": "sr", "n": m, "m": n, "W": fmat(raw.tolist()),
                                    "rho": fbits(rho[1]), "sr": fbits(sr), "eps": fbits(mat_gen._epsilon)})
                if mo[0] != "ok":
                    raise common.FrameworkError("model rejected matgen_scale: " + mo[1])
                X = np.array([[unfbits(v) for v in row] for row in mo[1]]).reshape(m, n)
                if not np.allclose(X, D, rtol=1e-14, atol=0):
                    res.append(("model", "sr rescaling differs from RpyModel.scaleSR on the same draw and the same solver value"))
    elif post in ("scalar", "cols"):
        s = c["input_scaling"] if post == "cols" else float(as_t(c["input_scaling"]))
        svec = np.array(s if post == "cols" else [s] * n, dtype=float)
        want = raw.astype(float) * svec[None, :]
        if not np.allclose(D, want, rtol=rt, atol=0):
            res.append(("oracle", f"input_scaling={s}: the result is not the same-seed unscaled draw times the factor(s)"))
            return res
        if not f32:
            mc = {"kind": "matgen_scale", "regime": "F", "n": m, "m": n, "W": fmat(raw.tolist())}
            mc.update({"mode": "scalar", "s": fbits(s)} if post == "scalar" else {"mode": "cols", "s": fvec(s)})
            mo = ctx.model.one(mc)
            if mo[0] != "ok":
                raise common.FrameworkError("model rejected matgen_scale: " + mo[1])
            X = np.array([[unfbits(v) for v in row] for row in mo[1]]).reshape(m, n)
            if not np.array_equal(X, D):
                res.append(("model", "input scaling differs bitwise from RpyModel.scaleInputs* on the same draw"))
    # --- structure tie (ring / line / degree / count)
    if post is None and name in ("ring", "line") or (name in RANDOM_FAMILY and post is None and min(m, n) >= 1):
        from scipy import sparse
        choices = []
        out = kw.get("direction", "out") == "out"
        if name in RANDOM_FAMILY and kw.get("degree") and kw.get("sparsity_type") != "dense":
            # the coo layout of the fixed-degree generator: block k holds the targets of source k
            c2 = copy.deepcopy(c)
            c2["kw"]["sparsity_type"] = "coo"
            r3 = common.exc_class(call_init, c2, False, "direct")
            if r3[0] == "ok" and sparse.issparse(r3[1]) and r3[1].format == "coo":
                C = r3[1]
                d = kw["degree"]
                src, dst = (C.col, C.row) if out else (C.row, C.col)
                choices = [[int(v) for v in dst[k * d:(k + 1) * d]] for k in range(len(src) // d)]
                got = sorted(zip(C.row.tolist(), C.col.tolist()))
                if [len(set(ch)) for ch in choices] != [d] * len(choices):
                    res.append(("oracle", "fixed-degree generator drew a target twice for one source"))
        dens = kw.get("connectivity", 1.0) if name in RANDOM_FAMILY else 1.0
        mo = ctx.model.one({"kind": "matgen_struct", "n": m, "m": n, "density": common.q(Fraction(dens)), "out": out, "choices": choices})
        if mo[0] != "ok":
            raise common.FrameworkError("model rejected matgen_struct: " + mo[1])
        o = mo[1]
        if name in ("ring", "line"):
            ent = sorted(tuple(e) for e in o[name])
            got = sorted(zip(*[a.tolist() for a in np.nonzero(raw)]))
            if ent != got:
                res.append(("model", f"{name}() support differs from RpyModel.{name}Entries"))
        elif choices:
            if sorted(tuple(e) for e in o["degree"]) != got:
                res.append(("model", "fixed-degree layout differs from RpyModel.degreeEntries"))
        elif kw.get("degree") is None and dens < 1.0:
            want = Fraction(dens) * m * n
            k = int((raw != 0).sum())
            near_half = abs(abs(want - int(want)) - Fraction(1, 2)) < Fraction(1, 10 ** 6)
            if not near_half and o["nnz"] != k and not (name in ("uniform", "random_sparse", "fast_spectral_initialization") and k == o["nnz"] - 1):
                res.append(("model", f"non-zero count {k} differs from the model's round-half-even count {o['nnz']}"))
    return res


# ----------------------------------------------------------------------------- partial-application histories

def conv(k, v):
    if k == "dtype":
        return np.dtype(v).type
    return v


def run_history(c):
    from reservoirpy import mat_gen
    f0 = getattr(mat_gen, c["init"])
    before_kw = dict(f0._kwargs)
    probe_kw = {"seed": 7} if c["init"] not in ("zeros", "ones", "ring", "line") else {}
    if c["init"] == "random_sparse":
        probe_kw["dist"] = "uniform"
    shape = (4,) if c["init"] == "fast_spectral_initialization" else (4, 4)
    before = f0(*shape, **probe_kw)
    hs = [f0]
    snap = []   # kwargs of each handle right after creation
    for op in c["ops"]:
        h = hs[op["h"]]
        if op.get("call"):
            try:
                h(*shape)
            except Exception:
                pass
            continue
        nh = h(**{k: conv(k, v) for k, v in op["kw"]})
        hs.append(nh)
        snap.append(dict(nh._kwargs))
    after = f0(*shape, **probe_kw)
    return {"kwargs": [[(k, repr(v)) for k, v in h._kwargs.items()] for h in hs], "module_clean": f0._kwargs == before_kw == {},
            "same_draw": same_bytes(before, after),
            "snap_ok": all(dict(h._kwargs) == s for h, s in zip(hs[1:], snap)),
            "is_init": all(isinstance(h, mat_gen.Initializer) for h in hs)}


def check_history(ctx, c):
    r = common.exc_class(run_history, c)
    if r[0] != "ok":
        return [("oracle", f"partial application history raised {r[1]}")]
    o = r[1]
    res = []
    if not o["is_init"]:
        res.append(("oracle", "a keyword-only call did not return an initialiser"))
    if not o["module_clean"]:
        res.append(("oracle", f"partial application left keywords in the module-level initialiser {c['init']}: {o['kwargs'][0]}"))
    if not o["same_draw"]:
        res.append(("oracle", f"the module-level initialiser {c['init']} draws a different matrix for the same seed after the history"))
    if not o["snap_ok"]:
        res.append(("oracle", "a partially applied initialiser was altered by later partial applications / calls of it"))
    ops = [{"h": op["h"], "kw": [[k, repr(conv(k, v))] for k, v in op["kw"]]} for op in c["ops"] if not op.get("call")]
    mo = ctx.model.one({"kind": "matgen_partial", "ops": ops})
    if mo[0] != "ok":
        raise common.FrameworkError("model rejected matgen_partial: " + mo[1])
    got = [sorted(map(tuple, h)) for h in o["kwargs"]]
    want = [sorted(map(tuple, h)) for h in mo[1]]
    if got != want and not res:
        res.append(("model", f"stored keywords differ from RpyModel.Init.partial: {got} vs {want}"))
    return res


# ----------------------------------------------------------------------------- driver

def check_cases(ctx, cases):
    common.quiet()
    import warnings
    warnings.simplefilter("ignore")
    open_k = common.open_findings("C13")
    for c in cases:
        if c["kind"] == "partial":
            ob = "partial-application"
            res = check_history(ctx, c)
            ctx.count(c, nontrivial=sum(1 for o in c["ops"] if not o.get("call")) >= 2, obligation=ob)
            ctx.stat(f"history init={c['init']}")
        else:
            ob = "init/" + c["init"]
            res = check_init(ctx, c, open_k)
            ctx.count(c, nontrivial=min(c["shape"]) >= 2, obligation=ob)
            kw = c["kw"]
            mode = "degree" if kw.get("degree") is not None else ("conn" if kw.get("connectivity", 1.0) < 1 else "full")
            ctx.stat(f"init={c['init']}")
            ctx.stat(f"post={c['post']} mode={mode} fmt={kw.get('sparsity_type')} dtype={kw['dtype']}")
            ctx.stat(f"seed_kind={c['seed_kind']} via={c['via']} scalar={c.get('scalar_type', 'float')}")
        ctx.sample(c)
        for r in res:
            if r[0] == "skip":
                ctx.stat("skipped: " + r[1])
            elif r[0] == "known":
                if r[1] in open_k:
                    ctx.known(r[1], r[2])
                else:
                    ctx.violation(r[2], c, obligation=ob)
            elif r[0] == "oracle":
                ctx.violation(r[1], c, obligation=ob)
            else:
                ctx.violation(r[1] + " — theorems C13_* no longer tied to the code; the property's own checks pass on this case",
                              c, found_input=False, obligation=ob)


def run(ctx):
    ctx.notes["rule"] = ("every initialiser x shapes 1..30 (square where required) x {full, connectivity, degree in/out} x {csr, csc, dense(, coo)} x "
                         "{float64, float32} x int / Generator seeds x {no post-processing, sr, scalar input_scaling, per-column input_scaling (list / array)} "
                         "x {direct call, two-stage partial application}; plus random histories of partial applications and calls on every module-level "
                         "initialiser. non-trivial = both dimensions >= 2 / at least two partial applications")
    g = ctx.gen
    cases = common.load_corpus("C13")
    cases += [gen_case(g) for _ in range(ctx.n(500, 6000))]
    cases += [gen_history(g) for _ in range(ctx.n(150, 1500))]
    check_cases(ctx, cases)


def replay(ctx, data):
    check_cases(ctx, [data["case"]])
