"""C19 — metrics and spectral radius. Regime T: exact rational values from the model vs the
implementation's floats (rmse through its square); spectral radius on a family whose spectrum
is proved in Lean (rational triangular matrices conjugated by a permutation), stored as
csr / csc / dense."""
from fractions import Fraction

import numpy as np

from . import common
from .common import q, qmat

LEVEL = "proof"
TRUSTED = [
    "model: lean/RpyModel/Metrics.lean (mirror of observables.py)",
    "theorems: lean/RpyProofs/Props/C19.lean (formulas, affine laws, R2 identities, dimension-wise = per column, "
    "triangular spectrum = diagonal, similarity invariance, effective matrix, rotation blocks (complex pair of modulus |s|), symmetric blocks [[a,b],[b,a]] (eigenvalues a+b, a-b; radius |a|+|b| also when the dominant one is negative), block-diagonal charpoly)",
    "numpy.linalg.eig / scipy ARPACK eigs are NOT verified: their result is compared with the proved spectrum of the structured family (1e-6) and sparse vs dense agreement on random matrices (oracle only)",
    "q1q3 normalisation (np.quantile) is checked by the harness oracle only",
]

NORMS = ["minmax", "var", "mean", "q1q3"]


def gen_metric(g):
    nd = g.choice([1, 2, 2, 3])
    if nd == 1:
        shape = [g.randint(2, 12)]
    elif nd == 2:
        shape = [g.randint(2, 10), g.randint(1, 4)]
    else:
        shape = [g.randint(1, 4), g.randint(2, 6), g.randint(1, 3)]
    n = int(np.prod(shape))
    y = [g.dy(a=2, k=20) for _ in range(n)]
    mode = g.choice(["random", "random", "perfect", "meanpred", "affine"])
    c = {"kind": "metric", "shape": shape, "mode": mode, "y": y, "norm": g.choice(NORMS),
         "dimensionwise": g.chance(0.5), "container": g.choice(["ndarray", "ndarray", "list", "int"])}
    if mode == "perfect":
        c["yh"] = list(y)
    elif mode == "meanpred":
        c["yh"] = None          # filled at run time (mean along the metric axis)
    else:
        c["yh"] = [v + g.dy(a=2, k=6) for v in y]
    if mode == "affine":
        c["a"] = g.choice([-2.0, 0.5, 3.0, -1.0, 2.0 ** -40, -2.0 ** -22, 2.0 ** 25])
        # (a power-of-two change of unit with no offset is exact in floating point: small- and large-amplitude signals)
        c["c"] = g.dy(a=1, k=10) if 0.25 <= abs(c["a"]) <= 4 else 0.0
    if c["container"] == "int" and mode == "meanpred":
        c["container"] = "ndarray"      # the mean of integers is not an integer
    if c["container"] == "int":
        c["y"] = [float(round(v)) for v in c["y"]]
        if c["yh"] is not None:
            c["yh"] = [float(round(v)) for v in c["yh"]]
    return c


def rows_of(arr):
    a = np.asarray(arr, dtype=float)
    if a.ndim == 1:
        return a.reshape(-1, 1)
    return a.reshape(-1, a.shape[-1])


def build(c):
    shape = c["shape"]
    y = np.array(c["y"], dtype=float).reshape(shape)
    if c["mode"] == "meanpred":
        if c["dimensionwise"] and len(shape) >= 2:
            ax = (0, 1) if len(shape) == 3 else 0
            yh = np.broadcast_to(y.mean(axis=ax, keepdims=True), y.shape).copy()
        else:
            yh = np.full(y.shape, y.mean())
    else:
        yh = np.array(c["yh"], dtype=float).reshape(shape)
    return y, yh


def wrap(a, container):
    if container == "list":
        return a.tolist()
    if container == "int":
        return a.astype(np.int64)
    return a.copy()


def run_metric(c):
    from reservoirpy import observables as ob
    y, yh = build(c)
    dw = c["dimensionwise"]
    res = {}
    snapshots = []
    for name, fn in (("mse", lambda a, b: ob.mse(a, b, dimensionwise=dw)),
                     ("rmse", lambda a, b: ob.rmse(a, b, dimensionwise=dw)),
                     ("nrmse", lambda a, b: ob.nrmse(a, b, norm=c["norm"], dimensionwise=dw)),
                     ("rsquare", lambda a, b: ob.rsquare(a, b, dimensionwise=dw)),
                     ("mse_again", lambda a, b: ob.mse(a, b, dimensionwise=dw))):
        a, b = wrap(y, c["container"]), wrap(yh, c["container"])
        keep_a, keep_b = np.array(a, dtype=float, copy=True), np.array(b, dtype=float, copy=True)
        with np.errstate(all="ignore"):
            res[name] = np.asarray(fn(a, b), dtype=float)
        if not (np.array_equal(np.asarray(a, dtype=float), keep_a) and np.array_equal(np.asarray(b, dtype=float), keep_b)):
            res["mutated_by"] = name
    # a second pass on the SAME objects, in sequence (purity across calls)
    a, b = wrap(y, c["container"]), wrap(yh, c["container"])
    with np.errstate(all="ignore"):
        seq = [np.asarray(ob.rmse(a, b, dimensionwise=dw), dtype=float),
               np.asarray(ob.mse(a, b, dimensionwise=dw), dtype=float),
               np.asarray(ob.nrmse(a, b, norm=c["norm"], dimensionwise=dw), dtype=float),
               np.asarray(ob.rsquare(a, b, dimensionwise=dw), dtype=float)]
    res["seq"] = seq
    if c["mode"] == "affine":
        a_, c_ = c["a"], c["c"]
        with np.errstate(all="ignore"):
            res["aff_mse"] = np.asarray(ob.mse(a_ * y + c_, a_ * yh + c_, dimensionwise=dw), dtype=float)
            res["aff_rmse"] = np.asarray(ob.rmse(a_ * y + c_, a_ * yh + c_, dimensionwise=dw), dtype=float)
            res["aff_r2"] = np.asarray(ob.rsquare(a_ * y + c_, a_ * yh + c_, dimensionwise=dw), dtype=float)
    # shape mismatch must be rejected
    bad = np.zeros(tuple(s + 1 for s in c["shape"]))
    res["mismatch_rejected"] = all(common.exc_class(f, y, bad)[0] == "rej"
                                   for f in (ob.mse, ob.rmse, ob.nrmse, ob.rsquare))
    # ... also when the two arrays differ in their NUMBER of dimensions and numpy could broadcast them
    # ((N,) against (N, 1) or (N, N), (N, M) against (N, M, 1), a trailing or leading axis of length 1)
    pairs = []
    if y.ndim == 1:
        pairs = [(y, y.reshape(-1, 1)), (y.reshape(-1, 1), y), (np.outer(y, y), y), (y, y.reshape(1, -1))]
    elif y.ndim == 2:
        pairs = [(y, y[..., None]), (y[..., None], y), (y, y[None, ...]), (y[:, 0], y[:, :1])]
    res["ndim_mismatch_rejected"] = all(common.exc_class(f, a_, b_)[0] == "rej" for a_, b_ in pairs
                                        for f in (ob.mse, ob.rmse, ob.nrmse, ob.rsquare))
    return res


def model_metric(c):
    y, yh = build(c)
    return {"kind": "metrics", "regime": "E", "y": qmat(rows_of(y).tolist()), "yh": qmat(rows_of(yh).tolist())}


def fr(v):
    return None if v is None else Fraction(v)


def vec_close(impl, exact, tol=1e-9):
    impl = np.asarray(impl, dtype=float).reshape(-1)
    if len(impl) != len(exact):
        return f"length {len(impl)} vs {len(exact)}"
    for i, (a, e) in enumerate(zip(impl, exact)):
        if e is None:
            continue
        if not np.isfinite(a) or not common.close(a, e, tol):
            return f"entry {i}: observed {a!r}, expected {float(e)!r}"
    return None


def quantile_norm(y, dw, shape):
    a = np.array(y, dtype=float).reshape(shape)
    ax = ((0, 1) if len(shape) == 3 else 0) if dw else None
    return np.quantile(a, 0.75, axis=ax) - np.quantile(a, 0.25, axis=ax)


def check_metric(ctx, c, o, mo):
    ob = "metrics"
    if mo[0] != "ok":
        raise common.FrameworkError("model rejected a C19 metric case: " + mo[1])
    if o[0] != "ok":
        ctx.violation(f"metric raised {o[1]} on equal-shaped arrays", c, obligation=ob)
        return
    r, m = o[1], mo[1]
    dw = c["dimensionwise"] and len(c["shape"]) >= 1
    multi = len(c["shape"]) >= 2
    use_dim = c["dimensionwise"]
    if use_dim and not multi:
        # 1-D arrays: axis 0 reduces everything
        key = ""
    else:
        key = "Dim" if use_dim else ""
    mse_ex = [Fraction(v) for v in m["mse" + key]] if key else [Fraction(m["mse"])]
    rsq_den_zero = False
    problems = []
    if "mutated_by" in r:
        problems.append(f"{r['mutated_by']} modified its input arrays")
    e = vec_close(r["mse"], mse_ex)
    if e:
        problems.append("mse: " + e)
    e = vec_close(r["mse_again"], mse_ex)
    if e:
        problems.append("mse (second call): " + e)
    # rmse^2 = mse, rmse >= 0
    rm = np.asarray(r["rmse"], dtype=float).reshape(-1)
    if np.any(rm < 0):
        problems.append("rmse negative")
    e = vec_close(rm ** 2, mse_ex)
    if e:
        problems.append("rmse^2 != mse: " + e)
    # sequence on the same objects
    e = vec_close(np.asarray(r["seq"][0]).reshape(-1) ** 2, mse_ex) or vec_close(r["seq"][1], mse_ex)
    if e:
        problems.append("metrics evaluated one after the other on the same arrays disagree: " + e)
    # R^2
    y, yh = build(c)
    yr = rows_of(y)
    const_cols = [len(set(col)) == 1 for col in (yr.T if key else [yr.reshape(-1)])]
    rs_ex = [Fraction(v) for v in m["rsq" + key]] if key else [Fraction(m["rsq"])]
    rs_ex = [None if cc else v for v, cc in zip(rs_ex, const_cols)]
    e = vec_close(r["rsquare"], rs_ex)
    if e:
        problems.append("rsquare: " + e)
    e = vec_close(r["seq"][3], rs_ex)
    if e:
        problems.append("rsquare after other metrics on the same arrays: " + e)
    if c["mode"] == "perfect":
        for v, cc in zip(np.asarray(r["rsquare"]).reshape(-1), const_cols):
            if not cc and v != 1.0:
                problems.append(f"R^2 of a perfect prediction is {v!r}, not exactly 1")
    if c["mode"] == "meanpred":
        for v, cc in zip(np.asarray(r["rsquare"]).reshape(-1), const_cols):
            if not cc and abs(v) > 1e-12:
                problems.append(f"R^2 of the mean predictor is {v!r}, not 0")
    # nrmse = rmse / norm
    norm = c["norm"]
    if norm == "q1q3":
        nv = np.asarray(quantile_norm(np.asarray(y).reshape(-1), use_dim, c["shape"]), dtype=float).reshape(-1)
        nv_ex = [Fraction(float(v)) for v in nv]
    else:
        k2 = {"minmax": "minmax", "var": "var", "mean": "mean"}[norm] + key
        nv_ex = [fr(v) for v in m[k2]] if key else [fr(m[k2])]
    nr = np.asarray(r["nrmse"], dtype=float).reshape(-1)
    for i, (a, b, nvv) in enumerate(zip(nr, rm, nv_ex)):
        if nvv is None or nvv == 0:
            continue
        if not common.close(a * float(nvv), Fraction(float(b)), 1e-9):
            problems.append(f"nrmse[{i}]={a!r} is not rmse/{norm}(y) = {float(b) / float(nvv)!r}")
    e_seq = np.asarray(r["seq"][2], dtype=float).reshape(-1)
    for i, (a, b, nvv) in enumerate(zip(e_seq, rm, nv_ex)):
        if nvv is None or nvv == 0:
            continue
        if not common.close(a * float(nvv), Fraction(float(b)), 1e-9):
            problems.append(f"nrmse after other metrics on the same arrays: {a!r} vs {float(b) / float(nvv)!r}")
    if c["mode"] == "affine":
        a_ = Fraction(c["a"])
        e = vec_close(r["aff_mse"], [a_ * a_ * v for v in mse_ex])
        if e:
            problems.append("mse(a*y+c, a*yh+c) != a^2 mse: " + e)
        e = vec_close(np.asarray(r["aff_rmse"]).reshape(-1) ** 2, [a_ * a_ * v for v in mse_ex])
        if e:
            problems.append("rmse(a*y+c, a*yh+c) != |a| rmse: " + e)
        e = vec_close(r["aff_r2"], rs_ex)
        if e:
            problems.append("R^2 not invariant under y -> a*y+c: " + e)
    if not r["mismatch_rejected"]:
        problems.append("arrays of different shapes were accepted")
    if not r.get("ndim_mismatch_rejected", True):
        problems.append("arrays with a different number of dimensions (broadcastable: (N,) against (N, 1) or (N, N), "
                        "an extra axis of length 1) were accepted")
    # output shape of dimension-wise metrics
    want_len = (c["shape"][-1] if multi else 1) if use_dim else 1
    for name in ("mse", "rmse", "nrmse", "rsquare"):
        if np.asarray(r[name]).size != want_len:
            problems.append(f"{name} returned {np.asarray(r[name]).size} values, expected {want_len}")
    if problems:
        ctx.violation("metrics: " + "; ".join(problems[:3]), c, obligation=ob, extra={"problems": problems})


# ----------------------------------------------------------------------------- spectral radius

def gen_spec(g):
    n = g.randint(3, 8)
    diag = [g.dy(a=3, k=12) for _ in range(n)]
    # make the dominant eigenvalue unique in modulus and sometimes negative
    top = g.randint(0, n - 1)
    diag[top] = g.choice([-1, 1]) * (max(abs(d) for d in diag) + g.choice([0.25, 0.5, 1.0]))
    T = [[0.0] * n for _ in range(n)]
    for i in range(n):
        T[i][i] = diag[i]
        for j in range(i + 1, n):
            if g.chance(0.5):
                T[i][j] = g.dy(a=2, k=8)
    zero_rows = g.chance(0.25)
    if zero_rows:
        # every row sums to zero (the diagonal balances the row; dyadic values, so exactly): the all-ones vector
        # is in the kernel, which is where an iterative solver started from ones breaks down; the spectrum is
        # still the diagonal, and a permutation similarity keeps W.1 = 0
        for i in range(n):
            T[i][i] = -sum(T[i][j] for j in range(i + 1, n))
        if all(T[i][i] == 0 for i in range(n)):
            T[0][1], T[0][0] = 1.5, -1.5
    rot = []
    if g.chance(0.3):
        # scaled rotation blocks s*[[3/5, -4/5], [4/5, 3/5]] on the diagonal: complex eigenvalues s*(3 +- 4i)/5 of modulus
        # exactly |s| (C19_rotation_block_*, C19_block_diag_charpoly)
        rot = [g.choice([-1, 1]) * g.choice([0.5, 1.25, 2.0, 3.5]) for _ in range(g.randint(1, 2))]
        if g.chance(0.5):
            rot[0] = g.choice([-1, 1]) * (max(abs(d) for d in diag) + 1.5)      # the dominant pair is complex
    symb = []
    if not rot and not zero_rows and g.chance(0.3):
        # a symmetric matrix: diagonal part plus blocks [[a, b], [b, a]] (eigenvalues a + b and a - b), so the spectrum is
        # real and, half of the time, its dominant element is negative
        for i in range(n):
            for j in range(i + 1, n):
                T[i][j] = 0.0
        symb = [[g.dy(a=2, k=8), g.dy(a=2, k=8)] for _ in range(g.randint(0, 2))]
        if symb and g.chance(0.5):
            m = max(abs(d) for d in diag) + 2.0
            symb[0] = [-m / 2 - 0.25, -m / 2] if g.chance(0.6) else [m / 2, m / 2 + 0.25]
    perm = list(range(n + 2 * len(rot) + 2 * len(symb)))
    g.shuffle(perm)
    return {"kind": "spec", "n": n, "T": T, "perm": perm, "rot": rot, "symb": symb, "fmt": g.choice(["dense", "csr", "csc"]), "zero_rows": zero_rows,
            "lr": g.choice([1.0, 0.5, 0.25, 0.75, 0.125])}


def build_spec(c):
    from scipy import sparse
    n = c["n"]
    T = np.array(c["T"], dtype=float)
    rot = c.get("rot") or []
    symb = c.get("symb") or []
    N = n + 2 * len(rot) + 2 * len(symb)
    B = np.zeros((N, N))
    B[:n, :n] = T
    for k, sc in enumerate(rot):
        i = n + 2 * k
        B[i:i + 2, i:i + 2] = sc * np.array([[0.6, -0.8], [0.8, 0.6]])
    for k, (a, b) in enumerate(symb):
        i = n + 2 * len(rot) + 2 * k
        B[i:i + 2, i:i + 2] = np.array([[a, b], [b, a]])
    P = np.zeros((N, N))
    for i, p in enumerate(c["perm"]):
        P[i, p] = 1.0
    W = P @ B @ P.T
    if c["fmt"] == "csr":
        return sparse.csr_matrix(W), W
    if c["fmt"] == "csc":
        return sparse.csc_matrix(W), W
    return W, W


def run_spec(c):
    from reservoirpy.observables import spectral_radius, effective_spectral_radius
    Wf, W = build_spec(c)
    from scipy import sparse
    res = {"sr": float(spectral_radius(Wf)),
           "sr_dense": float(spectral_radius(W)),
           "sr_csr": float(spectral_radius(sparse.csr_matrix(W))),
           "eff": float(effective_spectral_radius(Wf, lr=c["lr"])),
           "eff_of_matrix": None}
    return res


def check_spec(ctx, c, o, mos):
    ob = "spectral_radius"
    if o[0] != "ok":
        ctx.violation(f"spectral_radius raised {o[1]}", c, obligation=ob)
        return
    rho_m, eff_m, effmat = mos
    for mo in mos:
        if mo[0] != "ok":
            raise common.FrameworkError("model rejected a C19 spectral case: " + mo[1])
    rho = Fraction(rho_m[1])
    eff = Fraction(eff_m[1])
    r = o[1]
    problems = []
    if c.get("rot"):
        # effective matrix lr*B + (1-lr)*I of a rotation block: eigenvalues lr*s*(3 +- 4i)/5 + 1 - lr, compared by squares
        lr = Fraction(c["lr"])
        sq = [eff * eff] + [(lr * Fraction(sc) * Fraction(3, 5) + 1 - lr) ** 2 + (lr * Fraction(sc) * Fraction(4, 5)) ** 2 for sc in c["rot"]]
        if not common.close(r["eff"] ** 2, max(sq), 1e-6):
            problems.append(f"effective_spectral_radius={r['eff']!r} but the largest eigenvalue modulus of lr*W+(1-lr)*I is {float(max(sq)) ** 0.5!r}")
        eff = None
    for k in ("sr", "sr_dense", "sr_csr"):
        if not common.close(r[k], rho, 1e-6):
            problems.append(f"{k}={r[k]!r} but the largest eigenvalue modulus is {float(rho)!r}")
    if eff is not None and not common.close(r["eff"], eff, 1e-6):
        problems.append(f"effective_spectral_radius={r['eff']!r} but rho(lr*W+(1-lr)*I)={float(eff)!r}")
    # the model's effective matrix must be the conjugated triangular one: check via numpy on the exact entries
    if problems:
        ctx.violation("spectral radius: " + "; ".join(problems[:2]), c, obligation=ob, extra={"problems": problems})


def check_cases(ctx, cases):
    common.quiet()
    obs, mcases, slots = [], [], []
    for c in cases:
        if c["kind"] == "metric":
            obs.append(common.exc_class(run_metric, c))
            slots.append((len(mcases), 1))
            mcases.append(model_metric(c))
        else:
            obs.append(common.exc_class(run_spec, c))
            diag = [c["T"][i][i] for i in range(c["n"])]
            for a, b in (c.get("symb") or []):
                diag += [a + b, a - b]
            lr = c["lr"]
            slots.append((len(mcases), 3))
            # (the moduli of the rotation blocks' eigenvalues are their scales)
            mcases.append({"kind": "rho_diag", "regime": "E", "d": [q(d) for d in diag] + [q(abs(sc)) for sc in (c.get("rot") or [])]})
            mcases.append({"kind": "rho_diag", "regime": "E",
                           "d": [q(Fraction(lr) * Fraction(d) + 1 - Fraction(lr)) for d in diag]})
            _, W = build_spec(c)
            mcases.append({"kind": "eff_matrix", "regime": "E", "n": W.shape[0], "W": qmat(W.tolist()), "lr": q(lr)})
    outs = ctx.model.batch(mcases)
    for c, o, (i0, k) in zip(cases, obs, slots):
        if c["kind"] == "metric":
            n = int(np.prod(c["shape"]))
            ctx.count(c, nontrivial=n >= 3, obligation="metrics")
            ctx.stat(f"metric ndim={len(c['shape'])} mode={c['mode']} norm={c['norm']} dw={c['dimensionwise']} {c['container']}")
            if c["mode"] == "affine":
                ctx.stat("affine: unit change by 2^-40 / 2^-22 / 2^25" if not 0.25 <= abs(c["a"]) <= 4 else "affine: |a| in [1/2, 3]")
            ctx.sample({k_: c[k_] for k_ in ("shape", "mode", "norm", "dimensionwise", "container")} | {"y": c["y"][:4]})
            check_metric(ctx, c, o, outs[i0])
        else:
            ctx.count(c, nontrivial=True, obligation="spectral_radius")
            ctx.stat(f"spec fmt={c['fmt']} n={c['n']} rot={len(c.get('rot') or [])}")
            _, Wd = build_spec(c)
            ctx.stat("spec: symmetric matrix" if np.array_equal(Wd, Wd.T) else "spec: non-symmetric matrix")
            ctx.sample({k_: c[k_] for k_ in ("n", "fmt", "lr", "perm")} | {"diag": [c["T"][i][i] for i in range(c["n"])]})
            # effective matrix produced by the model must have, after undoing the permutation, the predicted diagonal
            effm = outs[i0 + 2]
            if effm[0] == "ok" and not c.get("rot") and not c.get("symb"):
                M = np.array([[float(Fraction(v)) for v in row] for row in effm[1]])
                P = np.zeros((c["n"], c["n"]))
                for i, p in enumerate(c["perm"]):
                    P[i, p] = 1.0
                Tm = P.T @ M @ P
                if not np.allclose(np.tril(Tm, -1), 0):
                    raise common.FrameworkError("model: effective matrix of a conjugated triangular matrix is not triangular")
            check_spec(ctx, c, o, outs[i0:i0 + 3])


def run(ctx):
    ctx.notes["rule"] = ("metrics: random 1-3-D arrays (ndarray / nested list / int arrays), random / perfect / mean-predictor / affine pairs, "
                         "all four normalisations, dimension-wise on/off, each metric on fresh inputs and in sequence on the same objects, input purity, "
                         "shape-mismatch rejection; spectral radius: rational upper-triangular matrices (dominant eigenvalue unique in modulus, either sign, "
                         "non-zero diagonal; some with rows summing to zero, some with rotation blocks, some symmetric with a real spectrum whose dominant element may be negative) conjugated by a random permutation, as dense/csr/csc, effective radius for lr in {1,1/2,1/4,3/4,1/8}")
    g = ctx.gen
    cases = common.load_corpus("C19")
    cases += [gen_metric(g) for _ in range(ctx.n(200, 2500))]
    cases += [gen_spec(g) for _ in range(ctx.n(60, 600))]
    check_cases(ctx, cases)


def replay(ctx, data):
    check_cases(ctx, [data["case"]])
