"""C14 — seed determinism.  A scenario is a history of constructions, initialisations, runs with
noise, initialiser / dataset calls, generator creations and (global) re-seedings.  It is executed
on the real code, which yields one array per emission, and on the Lean provenance model
(RpyModel/Seeds.lean), which yields one provenance tag per emission.  The two must induce the same
equality pattern: same provenance <=> same bits.  The generator plants twins (the same seeded
component built at two points of the history), contrasts (same component, another seed), zero-gain
runs and whole scripts repeated after `set_seed`; a few scripts are also run in two fresh
processes."""
import hashlib
import json
import os
import subprocess
import sys

import numpy as np

from . import common

LEVEL = "proof"
TRUSTED = [
    "model: lean/RpyModel/Seeds.lean (which generator object every component draws from, in which order; rand_generator None/int/Generator; set_seed; dataset default seed; ScikitLearnNode random_state; zero gains make no request)",
    "theorems: lean/RpyProofs/Props/C14.lean (integer-seeded calls are world-independent; a node with an integer seed refines an isolated local machine under every interleaved history; generator objects in equal states give equal draws; set_seed + script is a function of the seed; zero gain is silent)",
    "assumption on numpy: the bits a Generator returns are a function of its seed and of the requests served so far (same provenance => same bits, checked on every pair); different provenance => different bits is checked on arrays with at least 8 distinct non-zero values only",
]

SEEDS = [0, 0, 1, 2, 42, 5555, 5555, 12345, 2 ** 32 - 1]
INITS = [("normal", {}), ("uniform", {}), ("bernoulli", {}), ("random_sparse", {"dist": "norm"}), ("orthogonal", {}),
         ("fast_spectral_initialization", {"sr": 0.9})]
RES_INITS = ["normal", "uniform", "bernoulli"]


_INT_FORMS = ["int", "int", "int", "np.int64", "np.int32", "np.uint32"]
_form_state = [0]


def spec_json(spec):
    """an integer seed is handed over as a Python int or as a numpy integer scalar (what a sweep
    over np.arange(...) or rng.integers(...) produces): the same seed either way"""
    if spec is None:
        return None
    d = {spec[0]: spec[1]}
    if spec[0] == "int":
        _form_state[0] = (_form_state[0] * 7 + spec[1] + 3) % len(_INT_FORMS)
        d["as"] = _INT_FORMS[_form_state[0]]
    return d


# ----------------------------------------------------------------------------- generation

class Builder:
    def __init__(self, g):
        self.g = g
        self.ops = []
        self.next_id = 1
        self.gens = []         # generator ids defined so far
        self.live = {}         # node id -> dict(fb, initialized, fb_initialized)
        self.sks = []

    def nid(self):
        self.next_id += 1
        return self.next_id

    def seedspec(self, allow_none=True):
        g = self.g
        r = g.random()
        if allow_none and r < 0.2:
            return None
        if self.gens and r < 0.45:
            return ("gen", g.choice(self.gens))
        return ("int", g.choice(SEEDS))

    def res_params(self):
        g = self.g
        return {"units": g.choice([20, 25, 30]), "lr": g.choice([1.0, 0.5]), "sr": g.choice([0.9, 0.5]),
                "noise_in": g.choice([0.0, 0.0, 0.1]), "noise_rc": g.choice([0.0, 0.01, 0.1]), "noise_fb": g.choice([0.0, 0.05]),
                "noise_type": g.choice(["normal", "normal", "uniform"]), "fb": g.chance(0.4),
                "W": g.choice(RES_INITS), "Win": g.choice(RES_INITS), "bias": g.choice(RES_INITS), "Wfb": g.choice(RES_INITS),
                "cls": g.choice(["Reservoir", "Reservoir", "IPReservoir"]),
                "rc_connectivity": g.choice([0.2, 0.5]), "input_connectivity": g.choice([0.5, 1.0])}

    def node_life(self, nid, spec, params, runs):
        """the operations of one node's life, as a list (to be interleaved)"""
        ops = [{"op": "mk_res", "id": nid, "spec": spec_json(spec), "params": params},
               {"op": "init_res", "id": nid}]
        if params["fb"]:
            ops.append({"op": "init_fb", "id": nid})
        for (inp, steps, zero) in runs:
            ops.append({"op": "run_res", "id": nid, "input": inp, "steps": steps, "zero_gains": zero})
        return ops

    def sparse_sr_call(self):
        """a very sparse square matrix (about one non-zero per row) rescaled to a spectral radius: the iterative
        eigenvalue solver needs restarts on such matrices, and whatever it draws for them must not depend on history"""
        g = self.g
        n = g.choice([30, 30, 60, 100])
        return {"init": g.choice(["bernoulli", "uniform", "normal"]), "shape": [n, n],
                "kw": {"connectivity": g.choice([0.9, 1.0, 1.2, 1.5]) / n, "sr": 0.9}}

    def random_runs(self):
        g = self.g
        return [(f"x{g.randint(0, 3)}", g.randint(1, 8), g.chance(0.15)) for _ in range(g.randint(1, 3))]

    def other_op(self):
        g = self.g
        k = g.choice(["init_call", "init_call", "dataset", "dataset", "legacy", "new_gen", "ds_set_seed", "node", "sk", "set_seed_rare"])
        if k == "init_call" and g.chance(0.35):
            return [{"op": "init_call", "spec": spec_json(self.seedspec()), "call": self.sparse_sr_call()}]
        if k == "init_call":
            name, kw = g.choice(INITS)
            shape = [g.choice([12, 20]), g.choice([12, 20])]
            if name in ("orthogonal", "fast_spectral_initialization"):
                shape = [shape[0], shape[0]]
            return [{"op": "init_call", "spec": spec_json(self.seedspec()), "call": {"init": name, "shape": shape, "kw": dict(kw, **({"connectivity": g.choice([0.5, 1.0])} if name not in ("orthogonal",) else {}))}}]
        if k == "dataset":
            fn = g.choice(["mackey_glass", "narma"])
            return [{"op": "dataset", "spec": spec_json(self.seedspec()), "call": {"fn": fn, "n": g.choice([30, 50])}}]
        if k == "legacy":
            return [{"op": "legacy", "call": {"n": g.choice([8, 16])}}]
        if k == "new_gen":
            i = self.nid()
            self.gens.append(i)
            return [{"op": "new_gen", "id": i, "s": g.choice(SEEDS)}]
        if k == "ds_set_seed":
            return [{"op": "ds_set_seed", "s": g.choice(SEEDS)}]
        if k == "set_seed_rare":
            if g.chance(0.3):
                return [{"op": "set_seed", "s": g.choice(SEEDS)}]
            return []
        if k == "sk":
            i = self.nid()
            return [{"op": "mk_sk", "id": i}, {"op": "fit_sk", "id": i, "data": f"d{g.randint(0, 1)}"}]
        return self.node_life(self.nid(), self.seedspec(), self.res_params(), self.random_runs())


def interleave(g, seqs):
    """random interleaving preserving the order inside each sequence"""
    seqs = [list(s) for s in seqs if s]
    out = []
    while seqs:
        i = g.randint(0, len(seqs) - 1)
        out.append(seqs[i].pop(0))
        if not seqs[i]:
            seqs.pop(i)
    return out


def hoist(seqs):
    """generator creations of the unrelated sequences happen before the interleaved part (a
    sequence generated later may use a generator created by an earlier one)"""
    out = []
    for sq in seqs:
        for o in list(sq):
            if o["op"] == "new_gen":
                sq.remove(o)
                out.append(o)
    return out


def gen_scenario(g):
    b = Builder(g)
    kind = g.choice(["twin_int", "twin_int", "twin_gen", "contrast", "script", "mixed"])
    pre = []
    for _ in range(g.randint(0, 3)):
        pre += b.other_op()
    seqs = []
    marks = {"kind": kind}
    if kind in ("twin_int", "contrast", "twin_gen"):
        params = b.res_params()
        runs = b.random_runs()
        s = g.choice(SEEDS)
        s2 = s if kind != "contrast" else g.choice([x for x in SEEDS if x != s])
        if kind == "twin_gen":
            g1, g2 = b.nid(), b.nid()
            pre += [{"op": "new_gen", "id": g1, "s": s}]
            mid_gen = [{"op": "new_gen", "id": g2, "s": s}]
            sp1, sp2 = ("gen", g1), ("gen", g2)
        else:
            mid_gen = []
            sp1, sp2 = ("int", s), ("int", s2)
        a, c = b.nid(), b.nid()
        marks.update({"a": a, "b": c})
        seqs.append(b.node_life(a, sp1, params, runs))
        seqs.append(mid_gen + b.node_life(c, sp2, params, runs))
        # also the stateless components, twice, around the history
        name, kw = g.choice(INITS[:4])
        call = {"init": name, "shape": [15, 15], "kw": dict(kw, connectivity=0.5)}
        if g.chance(0.5):
            call = b.sparse_sr_call()
            pre += b.other_op()         # the first of the two calls is not the first thing that happens
        ds = {"fn": g.choice(["mackey_glass", "narma"]), "n": 40}
        pre += [{"op": "init_call", "spec": {"int": s}, "call": call}, {"op": "dataset", "spec": {"int": s}, "call": ds}]
        seqs.append([{"op": "init_call", "spec": {"int": s2}, "call": call}, {"op": "dataset", "spec": {"int": s2}, "call": ds}])
        for _ in range(g.randint(1, 4)):
            seqs.append(b.other_op())
        ops = pre + hoist(seqs[2:]) + interleave(g, seqs)
    elif kind == "script":
        # set_seed(s); script  — twice, with unrelated history in between; no user generator from before
        s = g.choice(SEEDS)
        b2 = Builder(g)
        b2.next_id = 1000
        script = []
        for _ in range(g.randint(2, 5)):
            script += b2.other_op()
        script = [o for o in script if o["op"] not in ("set_seed",)]
        # second copy: fresh identifiers
        def shift(o):
            o = json.loads(json.dumps(o))
            if "id" in o:
                o["id"] += 1000
            if isinstance(o.get("spec"), dict) and "gen" in o["spec"]:
                o["spec"]["gen"] += 1000
            return o
        between = []
        for _ in range(g.randint(1, 3)):
            between += b.other_op()
        ops = pre + [{"op": "ds_set_seed", "s": 5555}, {"op": "set_seed", "s": s}] + script + between + \
            [{"op": "ds_set_seed", "s": 5555}, {"op": "set_seed", "s": s}] + [shift(o) for o in script]
        marks.update({"script_len": len(script)})
    else:
        for _ in range(g.randint(3, 7)):
            seqs.append(b.other_op())
        ops = pre + hoist(seqs) + interleave(g, seqs)
    return {"kind": "scenario", "marks": marks, "ops": ops}


# ----------------------------------------------------------------------------- implementation side

def _canon_req(tag):
    for qt in ('"', '\\"'):
        tag = tag.replace(f', {qt}dist{qt}: {qt}norm{qt}', "").replace(f'{qt}random_sparse{qt}', f'{qt}normal{qt}')
    return tag


def _seeds_of(tag):
    """the seed values a provenance tag is built from"""
    import re as _re
    return tuple(sorted(_re.findall(r"seed(\d+)", tag)))


def mspec(spec):
    if spec is None:
        return None
    return {k: v for k, v in spec.items() if k != "as"}


def named_input(name, steps, dim=2):
    h = int(hashlib.sha1(name.encode()).hexdigest()[:8], 16)
    return np.random.default_rng(h).uniform(-1, 1, size=(steps, dim))


def digest(a):
    from scipy import sparse
    if sparse.issparse(a):
        a = a.toarray()
    a = np.ascontiguousarray(np.asarray(a, dtype=float))
    v = a[a != 0]
    return hashlib.sha1(a.tobytes() + str(a.shape).encode()).hexdigest(), int(len(np.unique(v)))


class Impl:
    def __init__(self):
        import reservoirpy as rpy
        from reservoirpy import datasets
        import reservoirpy.utils.random as rnd
        self.rpy, self.datasets, self.rnd = rpy, datasets, rnd
        # a fresh world: OS-seeded global generators, default dataset seed
        vars(rnd)["__global_rg"] = np.random.default_rng()
        vars(rnd)["__SEED"] = None
        np.random.seed(None)
        datasets.set_seed(5555)
        self.gens, self.nodes, self.sks, self.params, self.ref = {}, {}, {}, {}, {}

    def seed_obj(self, spec):
        if spec is None:
            return None
        if "int" in spec:
            v = spec["int"]
            how = spec.get("as", "int")
            if how == "np.int64":
                return np.int64(v)
            if how == "np.uint32" and v < 2 ** 32:
                return np.uint32(v)
            if how == "np.int32" and v < 2 ** 31:
                return np.int32(v)
            return v
        return self.gens[spec["gen"]]

    def do(self, o):
        """returns (list of arrays emitted, model op, extra checks)"""
        from reservoirpy import mat_gen
        from reservoirpy.nodes import Reservoir, IPReservoir, Ridge
        k = o["op"]
        if k == "set_seed":
            self.rpy.set_seed(o["s"])
            return [], {"op": "set_seed", "s": o["s"]}, None
        if k == "ds_set_seed":
            self.datasets.set_seed(o["s"])
            return [], {"op": "ds_set_seed", "s": o["s"]}, None
        if k == "new_gen":
            self.gens[o["id"]] = np.random.default_rng(o["s"])
            return [], {"op": "new_gen", "id": o["id"], "s": o["s"]}, None
        if k == "init_call":
            c = o["call"]
            shape = c["shape"][:1] if c["init"] == "fast_spectral_initialization" else c["shape"]
            M = getattr(mat_gen, c["init"])(*shape, seed=self.seed_obj(o["spec"]), **c["kw"])
            return [M], {"op": "init_call", "spec": mspec(o["spec"]), "req": json.dumps(c, sort_keys=True)}, None
        if k == "dataset":
            c = o["call"]
            X = getattr(self.datasets, c["fn"])(c["n"], seed=self.seed_obj(o["spec"]))
            return [X], {"op": "dataset", "spec": mspec(o["spec"]), "req": json.dumps(c, sort_keys=True)}, None
        if k == "legacy":
            return [np.random.rand(o["call"]["n"])], {"op": "legacy", "req": f"rand({o['call']['n']})"}, None
        if k == "mk_res":
            p = o["params"]
            cls = Reservoir if p["cls"] == "Reservoir" else IPReservoir
            kw = dict(lr=p["lr"], sr=p["sr"], noise_in=p["noise_in"], noise_rc=p["noise_rc"], noise_fb=p["noise_fb"],
                      noise_type=p["noise_type"], W=getattr(mat_gen, p["W"]), Win=getattr(mat_gen, p["Win"]),
                      bias=getattr(mat_gen, p["bias"]), Wfb=getattr(mat_gen, p["Wfb"]), rc_connectivity=p["rc_connectivity"],
                      input_connectivity=p["input_connectivity"], seed=self.seed_obj(o["spec"]))
            node = cls(p["units"], **kw)
            if p["fb"]:
                ro = Ridge(2)
                node <<= ro
                ro.initialize(np.ones((1, p["units"])), np.ones((1, 2)))
            self.nodes[o["id"]] = node
            self.params[o["id"]] = p
            if o["spec"] is not None and "int" in o["spec"] and p["cls"] == "Reservoir":
                self.ref[o["id"]] = np.random.default_rng(o["spec"]["int"])
            return [], {"op": "mk_res", "id": o["id"], "spec": mspec(o["spec"])}, None
        if k == "init_res":
            node, p = self.nodes[o["id"]], self.params[o["id"]]
            node.initialize(named_input("init", 1))
            # the label of a request = exactly the arguments the initialiser receives
            rW = f"W:{p['W']}:{p['units']}x{p['units']}:sr={p['sr']}:c={p['rc_connectivity']}"
            rWin = f"Win:{p['Win']}:{p['units']}x2:c={p['input_connectivity']}"
            rB = f"bias:{p['bias']}:{p['units']}x1:c={p['input_connectivity']}"
            return [node.W, node.Win, node.bias], {"op": "init_res", "id": o["id"], "rW": rW, "rWin": rWin, "rBias": rB}, None
        if k == "init_fb":
            node, p = self.nodes[o["id"]], self.params[o["id"]]
            node.initialize_feedback()
            return [node.Wfb], {"op": "init_fb", "id": o["id"], "rWfb": f"Wfb:{p['Wfb']}:{p['units']}"}, None
        if k == "run_res":
            node, p = self.nodes[o["id"]], self.params[o["id"]]
            zero = o["zero_gains"]
            saved = None
            if zero:
                saved = (node.noise_in, node.noise_rc, node.noise_out)
                node.set_param("noise_in", 0.0)
                node.set_param("noise_rc", 0.0)
                node.set_param("noise_out", 0.0)
            gains = (node.noise_in, node.noise_rc, node.noise_out)
            rng = node.noise_generator.keywords["rng"]
            before = json.dumps(rng.bit_generator.state, default=str, sort_keys=True)
            X = named_input(o["input"], o["steps"])
            x_prev = np.array(node.state(), dtype=float).reshape(-1, 1) if node.is_initialized else None
            Y = node.run(X)
            after = json.dumps(rng.bit_generator.state, default=str, sort_keys=True)
            extra = None
            if all(v == 0 for v in gains):
                extra = ("silent", before == after)
            ref = self.ref.get(o["id"])
            if ref is not None and x_prev is not None:
                # the documented law with noise, the draws replayed from a twin generator in the order
                # input, feedback, state - a term with zero gain draws nothing
                from scipy import sparse as _sp
                dn = lambda a: a.toarray() if _sp.issparse(a) else np.asarray(a)
                W, Win, b = dn(node.W), dn(node.Win), dn(node.bias).reshape(-1, 1)
                draw = lambda shape: getattr(ref, p["noise_type"])(size=shape)
                x, rows = x_prev, []
                for t in range(len(X)):
                    u = X[t].reshape(-1, 1)
                    if gains[0] != 0:
                        u = u + gains[0] * draw(u.shape)
                    pre = W @ x + Win @ u + b
                    if p["fb"]:
                        y = np.zeros((2, 1))
                        if gains[2] != 0:
                            y = y + gains[2] * draw(y.shape)
                        pre = pre + dn(node.Wfb) @ y
                    x = (1 - p["lr"]) * x + p["lr"] * np.tanh(pre)
                    if gains[1] != 0:
                        x = x + gains[1] * draw(x.shape)
                    rows.append(x.T.copy())
                want = np.vstack(rows)
                law_ok = np.allclose(np.asarray(Y), want, rtol=1e-10, atol=1e-12)
                state_ok = json.dumps(ref.bit_generator.state, default=str, sort_keys=True) == after
                if not law_ok or not state_ok:
                    extra = ("noise_law", False, float(np.max(np.abs(np.asarray(Y) - want))), state_ok)
                elif extra is None:
                    extra = ("noise_law", True)
            if saved:
                node.set_param("noise_in", saved[0])
                node.set_param("noise_rc", saved[1])
                node.set_param("noise_out", saved[2])
            noise = [[f"noise:{p['noise_type']}:in", gains[0] != 0]]
            if p["fb"]:
                noise.append([f"noise:{p['noise_type']}:fb", gains[2] != 0])
            noise.append([f"noise:{p['noise_type']}:rc", gains[1] != 0])
            hyper = {kk: p[kk] for kk in ("units", "lr", "noise_type", "fb", "cls")}
            label = f"{o['input']}|{o['steps']}|{gains}|{json.dumps(hyper, sort_keys=True)}"
            return [Y], {"op": "run_res", "id": o["id"], "input": label, "steps": o["steps"], "noise": noise}, extra
        if k == "mk_sk":
            from reservoirpy.nodes import ScikitLearnNode
            from sklearn.linear_model import SGDRegressor
            self.sks[o["id"]] = ScikitLearnNode(SGDRegressor, model_hypers={"max_iter": 20, "tol": None})
            return [], {"op": "mk_sk", "id": o["id"]}, None
        if k == "fit_sk":
            node = self.sks[o["id"]]
            X = named_input(o["data"], 30, 3)
            Y = (X @ np.array([[1.0], [-2.0], [0.5]])) + 0.1 * named_input(o["data"] + "n", 30, 1)
            node.fit(X, Y)
            return [node.run(X)], {"op": "fit_sk", "id": o["id"], "data": o["data"]}, None
        raise common.FrameworkError("unknown op " + k)


def run_impl(c):
    im = Impl()
    emits, mops, extras = [], [], []
    try:
        for i, o in enumerate(c["ops"]):
            arrs, mop, extra = im.do(o)
            mops.append(mop)
            for j, a in enumerate(arrs):
                emits.append((i, j, o["op"], digest(a)))
            if extra:
                extras.append((i, extra))
    finally:
        im.datasets.set_seed(5555)
    return emits, mops, extras


# ----------------------------------------------------------------------------- comparison

def check_scenario(ctx, c):
    ob = "provenance/" + c["marks"]["kind"]
    r = common.exc_class(run_impl, c)
    ctx.count(c, nontrivial=len(c["ops"]) >= 4, obligation=ob)
    ctx.stat("scenario " + c["marks"]["kind"])
    for o in c["ops"]:
        ctx.stat("op " + o["op"])
    ctx.sample({"marks": c["marks"], "n_ops": len(c["ops"]), "first_ops": c["ops"][:3]}, limit=3)
    if r[0] != "ok":
        ctx.violation(f"the scenario raised {r[1]}", c, obligation=ob)
        return
    emits, mops, extras = r[1]
    for (i, ex) in extras:
        what, ok = ex[0], ex[1]
        if what == "silent":
            ctx.stat("zero-gain runs")
            if not ok:
                ctx.violation(f"op {i}: a run with all noise gains equal to zero advanced the node's noise generator (gain 0 must mean no noise drawn at all)",
                              c, obligation=ob)
                return
        else:
            ctx.stat("noise-law runs")
            if not ok:
                ctx.violation(f"op {i}: the trajectory of a seeded reservoir is not the documented law with the noise terms drawn, in the order input / feedback / state, "
                              f"from a generator with the node's seed, each term scaled by ITS OWN gain and a zero gain drawing nothing "
                              f"(max difference {ex[2]:.3g}; generator state after the run {'equal' if ex[3] else 'different'})", c, obligation=ob)
                return
    mo = ctx.model.one({"kind": "seeds", "ops": mops})
    if mo[0] != "ok":
        raise common.FrameworkError("model rejected a C14 scenario: " + mo[1])
    tags = []
    for i, ts in enumerate(mo[1]):
        for j, t in enumerate(ts):
            tags.append((i, j, t))
    if [(e[0], e[1]) for e in emits] != [(t[0], t[1]) for t in tags]:
        raise common.FrameworkError("model and implementation emitted different numbers of arrays")
    n = len(emits)
    ctx.stat("emitted arrays", n)
    for x in range(n):
        for y in range(x + 1, n):
            tx, ty = tags[x][2], tags[y][2]
            (hx, rx), (hy, ry) = emits[x][3], emits[y][3]
            seeded = "entropy" not in tx and "entropy" not in ty
            if tx == ty and hx != hy:
                ctx.stat("pairs same-provenance")
                what = (f"ops {emits[x][0]} ({emits[x][2]}, array {emits[x][1]}) and {emits[y][0]} ({emits[y][2]}, array {emits[y][1]}) have the same "
                        f"seed and the same own history but produced different bits")
                if seeded:
                    ctx.violation(what, c, expected="identical arrays", observed=[hx, hy], obligation=ob, extra={"provenance": tx[:2000]})
                else:
                    ctx.violation(what + " — according to RpyModel.Seeds only (unseeded provenance): theorems C14_* no longer tied to the code",
                                  c, found_input=False, obligation=ob, extra={"provenance": tx[:2000]})
                return
            if tx == ty:
                ctx.stat("pairs same-provenance")
            if tx != ty and _canon_req(tx) == _canon_req(ty):
                # random_sparse(dist="norm") and normal are two names of one initialiser: equal seeds may (and do) give
                # equal draws; the property only separates different SEEDS
                ctx.stat("pairs differing only by an initialiser alias")
                continue
            if tx != ty and hx == hy and _seeds_of(tx) and _seeds_of(tx) == _seeds_of(ty):
                # the same seed values behind different HISTORIES of draws (twin generators: W drawn as `bernoulli` by one node
                # and as `uniform` by the other consume the same number of variates, so the next request of the same kind sees
                # the same generator state): equal bits are legitimate, the property only separates different seeds
                ctx.stat("pairs with equal seeds, different draw histories, equal bits (neutral)")
                continue
            if tx != ty and hx == hy and min(rx, ry) >= 8:
                what = (f"ops {emits[x][0]} ({emits[x][2]}, array {emits[x][1]}) and {emits[y][0]} ({emits[y][2]}, array {emits[y][1]}) have different "
                        f"seeds / histories but produced identical bits")
                if seeded:
                    ctx.violation(what, c, expected="different arrays", observed=[hx, hy], obligation=ob,
                                  extra={"provenance": [tx[:1500], ty[:1500]]})
                else:
                    ctx.violation(what + " — according to RpyModel.Seeds only: theorems C14_* no longer tied to the code", c,
                                  found_input=False, obligation=ob, extra={"provenance": [tx[:1500], ty[:1500]]})
                return
            if tx != ty and min(rx, ry) >= 8:
                ctx.stat("pairs different-provenance (rich)")


# ----------------------------------------------------------------------------- fresh processes

SCRIPT = r'''
import sys, hashlib, json, warnings
warnings.filterwarnings("ignore")
import numpy as np
import reservoirpy as rpy
from reservoirpy.nodes import Reservoir, Ridge, ESN
from reservoirpy import mat_gen, datasets
rpy.verbosity(0)
p = json.loads(sys.argv[1])
for _ in range(p["pre"]):
    mat_gen.normal(5, 5)            # unrelated unseeded draws before the script
    np.random.rand(3)
rpy.set_seed(p["seed"])
out = []
X = datasets.mackey_glass(120).reshape(-1, 1)
out.append(X)
res = Reservoir(p["units"], lr=0.5, sr=0.9, noise_rc=p["noise"], noise_in=p["noise"])
ro = Ridge(1, ridge=1e-5)
if p["fb"]:
    res <<= ro
model = res >> ro
model.fit(X[:80], X[1:81], warmup=5)
out += [res.W.toarray() if hasattr(res.W, "toarray") else res.W, np.asarray(res.Win.toarray() if hasattr(res.Win, "toarray") else res.Win), ro.Wout]
out.append(model.run(X[80:119]))
out.append(mat_gen.uniform(6, 6))
out.append(np.random.rand(4))
print(json.dumps([hashlib.sha1(np.ascontiguousarray(np.asarray(a, dtype=float)).tobytes()).hexdigest() for a in out]))
'''


def run_script(p):
    env = dict(os.environ, PYTHONPATH=common.REPO, TQDM_DISABLE="1")
    r = subprocess.run(["/venv/bin/python", "-c", SCRIPT, json.dumps(p)], stdout=subprocess.PIPE, stderr=subprocess.PIPE,
                       env=env, timeout=300)
    if r.returncode != 0:
        return ("rej", r.stderr.decode()[-400:])
    return ("ok", json.loads(r.stdout.decode().strip().splitlines()[-1]))


def check_process(ctx, c):
    ob = "fresh-process script"
    ctx.count(c, obligation=ob)
    ctx.stat("scenario process")
    a = run_script(dict(c["p"], pre=0))
    b = run_script(dict(c["p"], pre=c["p"]["pre"]))
    d = run_script(dict(c["p"], pre=0, seed=c["p"]["seed"] + 1))
    if a[0] != "ok" or b[0] != "ok" or d[0] != "ok":
        ctx.violation(f"the construct-and-run script failed: {[x[1] for x in (a, b, d) if x[0] != 'ok'][:1]}", c, obligation=ob)
        return
    if a[1] != b[1]:
        bad = [i for i, (x, y) in enumerate(zip(a[1], b[1])) if x != y]
        ctx.violation(f"set_seed({c['p']['seed']}) followed by the same construct-and-run script gave different results in two processes "
                      f"(second process made {c['p']['pre']} unrelated draws before set_seed): outputs {bad} differ", c, obligation=ob)
        return
    same = [i for i, (x, y) in enumerate(zip(a[1], d[1])) if x == y and i != 0]   # output 0: dataset, default seed
    if same:
        ctx.violation(f"set_seed({c['p']['seed']}) and set_seed({c['p']['seed'] + 1}) gave identical outputs {same}", c, obligation=ob)


def gen_sr_batch(g, k):
    """k very sparse square matrices rescaled to a spectral radius, each requested twice with all the others in between
    (second round in another order). +-1 entries and about one non-zero per row give spectra with many eigenvalues of
    equal modulus: that is where the iterative solver restarts from random vectors."""
    calls = []
    for _ in range(k):
        n = g.choice([30, 30, 30, 60, 100])
        calls.append({"init": g.choice(["bernoulli", "bernoulli", "bernoulli", "uniform", "normal"]), "n": n,
                      "connectivity": g.choice([0.8, 0.9, 0.9, 1.0, 1.2]) / n, "sr": g.choice([0.9, 1.25]), "seed": g.randint(0, 10 ** 6)})
    order = list(range(k))
    g.shuffle(order)
    return {"kind": "sr_batch", "calls": calls, "order": order}


def check_sr_batch(ctx, c):
    from reservoirpy import mat_gen
    ob = "sr_history"

    def one(q_):
        M = getattr(mat_gen, q_["init"])(q_["n"], q_["n"], connectivity=q_["connectivity"], sr=q_["sr"], seed=q_["seed"])
        return digest(M)
    ctx.count(c, nontrivial=len(c["calls"]) >= 2, obligation=ob)
    ctx.stat("sr-history batches")
    try:
        with np.errstate(all="ignore"):
            first = [one(q_) for q_ in c["calls"]]
            second = {i: one(c["calls"][i]) for i in c["order"]}
    except Exception as e:  # noqa
        ctx.violation(f"an initialiser call with sr raised {type(e).__name__}: {e}", c, obligation=ob)
        return
    ctx.stat("sr-history calls compared", len(first))
    bad = [i for i in range(len(first)) if first[i] != second[i]]
    if bad:
        q_ = c["calls"][bad[0]]
        ctx.violation(f"{q_['init']}({q_['n']}, {q_['n']}, connectivity={q_['connectivity']:.4g}, sr={q_['sr']}, seed={q_['seed']}) returned different "
                      f"bits when requested again after {len(first)} other initialiser calls ({len(bad)} of {len(first)} calls differ)",
                      c, expected=first[bad[0]], observed=second[bad[0]], obligation=ob, extra={"differing_calls": bad[:20]})



def gen_configured(g):
    return {"kind": "configured", "init": g.choice(["uniform", "normal", "bernoulli", "random_sparse"]),
            "seed": g.choice([0, 1, 42, 12345]), "other_seed": g.choice([2, 7, 5555]), "n": g.choice([12, 20]),
            "other_kw": g.choice([{"connectivity": 0.2}, {"sr": 0.5}, {"connectivity": 0.5, "input_scaling": 3.0}, {"degree": 2}])}


def check_configured(ctx, c):
    """ONE partially configured initialiser object, called several times: a seeded call is a function of its own
    arguments - not of the keyword arguments (seed, connectivity, sr, ...) an earlier call of the same object received -
    and its unseeded calls follow the global seed"""
    import reservoirpy as rpy
    from reservoirpy import mat_gen
    ob = "configured_initialiser"
    ctx.count(c, nontrivial=True, obligation=ob)
    ctx.stat("configured initialiser")
    n = c["n"]
    conf = {"uniform": {"high": 0.5}, "normal": {"scale": 0.5}, "bernoulli": {"p": 0.3}, "random_sparse": {"dist": "uniform"}}[c["init"]]
    try:
        with np.errstate(all="ignore"):
            init = getattr(mat_gen, c["init"])(**conf)
            fresh = digest(getattr(mat_gen, c["init"])(**conf)(n, n, seed=c["seed"]))
            a = digest(init(n, n, seed=c["seed"]))
            init(n, n, seed=c["other_seed"], **c["other_kw"])
            b = digest(init(n, n, seed=c["seed"]))
            rpy.set_seed(1)
            u1 = digest(init(n, n))
            rpy.set_seed(2)
            u2 = digest(init(n, n))
            rpy.set_seed(1)
            u1b = digest(init(n, n))
    except Exception as e:  # noqa
        ctx.violation(f"calling a configured initialiser raised {type(e).__name__}: {e}", c, obligation=ob)
        return
    finally:
        rpy.set_seed(5555)
    what = None
    if a != fresh:
        what = "the first seeded call of a configured initialiser differs from the same call on a freshly configured one"
    elif b != a:
        what = (f"{c['init']}(**{conf})(n, n, seed={c['seed']}) returned other bits after an unrelated call of the same object with "
                f"seed={c['other_seed']} and {c['other_kw']}: keyword arguments of one call stick to the object")
    elif u1 == u2:
        what = "unseeded calls of a configured initialiser after set_seed(1) and set_seed(2) are identical (a seed of an earlier call stuck)"
    elif u1 != u1b:
        what = "unseeded calls of a configured initialiser after set_seed(1) differ between two repetitions"
    if what:
        ctx.violation(what, c, obligation=ob)



def check_sklearn_shared(ctx, c):
    """two scikit-learn readouts built from the SAME hyper-parameter dictionary (seed injected by the library from the global
    generator, or a RandomState object supplied by the user): what the second one learns is a function of its own seed and
    data, not of whether the first one was fitted before it"""
    import reservoirpy as rpy
    from reservoirpy.nodes import ScikitLearnNode
    from sklearn.linear_model import SGDRegressor
    ob = "sklearn_shared_hypers"
    ctx.count(c, nontrivial=True, obligation=ob)
    ctx.stat("sklearn readouts sharing their hyper-parameters")
    X1, X2 = named_input("d0", 30, 3), named_input("d1", 30, 3)
    Y1 = X1 @ np.array([[1.0], [-2.0], [0.5]]) + 0.1 * named_input("d0n", 30, 1)
    Y2 = X2 @ np.array([[0.5], [1.0], [-1.0]]) + 0.1 * named_input("d1n", 30, 1)

    def pair():
        rpy.set_seed(c["seed"])
        hyp = {"max_iter": 20, "tol": None}
        if c["explicit"]:
            hyp["random_state"] = np.random.RandomState(c["seed"] + 7)
        return ScikitLearnNode(SGDRegressor, model_hypers=hyp), ScikitLearnNode(SGDRegressor, model_hypers=hyp)
    try:
        n1, n2 = pair()
        n1.fit(X1, Y1)
        n2.fit(X2, Y2)
        pa = digest(n2.run(X2))
        n1, n2 = pair()
        n2.fit(X2, Y2)
        pb = digest(n2.run(X2))
    except Exception as e:  # noqa
        ctx.violation(f"scikit-learn readouts built from one hyper-parameter dictionary raised {type(e).__name__}: {e}", c, obligation=ob)
        return
    finally:
        rpy.set_seed(5555)
    if pa != pb:
        ctx.violation("two SGDRegressor readouts built from one hyper-parameter dictionary "
                      f"({'RandomState supplied by the user' if c['explicit'] else 'seed injected from the global generator'}): what the second "
                      "one learns depends on whether the first one was fitted before it (they share one random state)", c, obligation=ob)


def check_cases(ctx, cases):
    common.quiet()
    for c in cases:
        if c["kind"] == "process":
            check_process(ctx, c)
        elif c["kind"] == "sr_batch":
            check_sr_batch(ctx, c)
        elif c["kind"] == "configured":
            check_configured(ctx, c)
        elif c["kind"] == "sklearn_shared":
            check_sklearn_shared(ctx, c)
        else:
            check_scenario(ctx, c)


def run(ctx):
    ctx.notes["rule"] = ("random histories of 4-40 operations: Reservoir / IPReservoir lives (construction with seed None / int / Generator object, initialisation, "
                         "feedback initialisation, 1-3 runs of 1-8 steps with noise gains in/rc/fb possibly zero), initialiser and dataset calls, np.random draws, "
                         "generator creations, datasets.set_seed, reservoirpy.set_seed, ScikitLearnNode(SGDRegressor) fits; seeds from {0, 1, 2, 42, 5555, 12345, 2^32-1}; "
                         "planted twins (int and Generator seeds), contrasts, repeated set_seed scripts; every pair of emitted arrays is compared (same provenance <=> same bits). "
                         "plus batches of 150 very sparse initialiser calls with sr, each repeated after all the others (bit-identical). "
                         "non-trivial = at least 4 operations")
    g = ctx.gen
    cases = common.load_corpus("C14")
    cases += [gen_scenario(g) for _ in range(ctx.n(120, 1500))]
    for i in range(ctx.n(1, 6)):
        cases.append({"kind": "process", "p": {"seed": g.choice([0, 1, 7, 5555]), "units": g.choice([20, 30]), "noise": g.choice([0.0, 0.01]),
                                                "fb": g.chance(0.5), "pre": g.randint(1, 4)}})
    cases += [gen_sr_batch(g, 150) for _ in range(ctx.n(3, 15))]
    cases += [gen_configured(g) for _ in range(ctx.n(12, 100))]
    cases += [{"kind": "sklearn_shared", "seed": g.choice([0, 1, 42]), "explicit": bool(i % 2)} for i in range(ctx.n(4, 20))]
    check_cases(ctx, cases)


def replay(ctx, data):
    check_cases(ctx, [data["case"]])
