"""C18 — activation functions over the whole float range. Regime F: the implementation is compared
(4 ulp, or an absolute floor near underflow) with the model's stable forms evaluated at Float by
the Lean driver, and directly with the mathematical definitions evaluated in 60-digit decimal
arithmetic (the direct oracle), plus the softmax laws (non-negative, sums to one, shift-invariant,
ordered like beta*x) and shape preservation."""
import decimal
import math
from decimal import Decimal

import numpy as np

from . import common
from .common import fbits, unfbits

LEVEL = "proof"
TRUSTED = [
    "model: lean/RpyModel/Activations.lean (definitions and stable forms, generic in exp/log)",
    "theorems: lean/RpyProofs/Props/C18.lean over the reals (softmax non-negative / sums to one / shift-invariant / order-preserving; stable forms equal the definitions with all exponents <= 0 and denominators in [1, n]; two-branch sigmoid; stable softplus; relu)",
    "Lean's Float exp/log/tanh are libm and opaque to the kernel: the float-range clause (no overflow / NaN, a few ulp) is carried by the correspondence (4 ulp) and by the 60-digit decimal oracle, not by a theorem",
]

K9 = "K9"
decimal.getcontext().prec = 60
decimal.getcontext().Emax = 999999
decimal.getcontext().Emin = -999999

SPECIAL = [0.0, -0.0, 1.0, -1.0, 0.5, 709.78, -709.78, 709.0, 710.0, -710.0, 745.2, -745.2, 746.0, -746.0, 1000.0, -1000.0,
           36.0, -36.0, 37.5, -40.0, 1e308, -1e308, 1e-308, -1e-308, 5e-324, -5e-324, 2.2250738585072014e-308,
           1e-16, -1e-16, 1e16, -1e16, 20.0, -20.0, 88.7, -88.7, 1.7976931348623157e308]


def ulp(x):
    return math.ulp(x) if math.isfinite(x) else float("inf")


def ref(fn, x, beta=1.0, xs=None):
    """the definition in 60-digit decimal arithmetic"""
    D = Decimal
    if fn == "identity":
        return D(x)
    if fn == "relu":
        return D(x) if x > 0 else D(0)
    if fn == "sigmoid":
        if x > 1e5:
            return D(1)
        if x < -1e5:
            return D(0)
        return D(1) / (D(1) + (-D(x)).exp())
    if fn == "tanh":
        if abs(x) > 200:
            return D(1) if x > 0 else D(-1)
        if abs(x) < 1e-20:
            return D(x)
        e2 = (-D(2) * abs(D(x))).exp()
        t = (1 - e2) / (1 + e2)
        return t if x > 0 else -t
    if fn == "softplus":
        if x > 1e4:
            return D(x)
        if x < -1e5:
            return D(0)
        if x < -30:
            e = D(x).exp()          # log(1+e) by its series: 1+e would round to 1 even with 60 digits
            return e - e * e / 2 + e * e * e / 3
        return (D(1) + D(x).exp()).ln()
    raise ValueError(fn)


def ref_softmax(xs, beta):
    D = Decimal
    m = max(xs)
    es = [(D(beta) * (D(x) - D(m))).exp() for x in xs]
    s = sum(es)
    return [e / s for e in es]


def near(obs, exact, n_ulp=4, floor=1e-300):
    """|obs - exact| <= n_ulp ulps of the exact value, or below the absolute floor (underflow region)"""
    if not math.isfinite(obs):
        return False
    ex = float(exact)
    err = abs(Decimal(obs) - exact)
    return err <= Decimal(n_ulp * ulp(ex)) or err <= Decimal(floor)


def gen_values(g, n):
    out = []
    for _ in range(n):
        r = g.random()
        if r < 0.35:
            out.append(g.choice(SPECIAL))
        elif r < 0.5:
            out.append((g.random() - 0.5) * 20)
        elif r < 0.6:
            # the transition zones of the exponential-based functions: |x| between 15 and 45, where exp(-|x|) is
            # small but not yet below half an ulp (softplus(x) - x, 1 - sigmoid(x), 1 - tanh(x) still matter)
            out.append(g.choice([-1.0, 1.0]) * (15.0 + 30.0 * g.random()))
        elif r < 0.8:
            out.append((g.random() - 0.5) * 1600)
        else:
            out.append(math.ldexp(g.random() - 0.5, g.randint(-1070, 1020)))
    return out


def gen_case(g):
    fn = g.choice(["softmax", "softmax", "sigmoid", "tanh", "softplus", "relu", "identity"])
    shape = g.choice([(), (1,), (3,), (5,), (2, 3), (3, 1), (1, 4), (2, 2, 2), (4, 2)])
    n = int(np.prod(shape)) if shape else 1
    c = {"kind": "act", "fn": fn, "shape": list(shape), "x": gen_values(g, n), "via": g.choice(["function", "function", "get_function", "node"])}
    if fn == "softmax":
        c["beta"] = g.choice([1.0, 0.1, 7.0, 1.0, 0.5])
    return c


SHORT = {"softmax": "smax", "softplus": "sp", "sigmoid": "sig", "identity": "id", "relu": "re", "tanh": "tanh"}


def call_impl(c):
    from reservoirpy import activationsfunc as A
    from reservoirpy import nodes as N
    x = np.array(c["x"], dtype=float).reshape(c["shape"]) if c["shape"] else np.float64(c["x"][0])
    fn = c["fn"]
    if c["via"] == "node" and np.ndim(x) == 2 and np.shape(x)[0] == 1:
        cls = {"softmax": N.Softmax, "softplus": N.Softplus, "sigmoid": N.Sigmoid, "identity": N.Identity,
               "relu": N.ReLU, "tanh": N.Tanh}[fn]
        node = cls(beta=c["beta"]) if fn == "softmax" else cls()
        return np.asarray(node.call(x))
    f = A.get_function(fn if (c["via"] != "get_function" or len(c["x"]) % 2) else SHORT[fn]) if c["via"] != "function" else getattr(A, fn)
    with np.errstate(all="ignore"):
        return np.asarray(f(x, beta=c["beta"]) if fn == "softmax" else f(x))


def check_cases(ctx, cases):
    common.quiet()
    mc = [{"kind": "activation", "regime": "F", "fn": c["fn"], "x": [fbits(v) for v in c["x"]],
           **({"beta": fbits(c["beta"])} if c["fn"] == "softmax" else {})} for c in cases]
    outs = ctx.model.batch(mc)
    for c, mo in zip(cases, outs):
        fn = c["fn"]
        ob = "activation/" + fn
        ctx.count(c, nontrivial=any(abs(v) > 30 for v in c["x"]) or len(c["x"]) > 1, obligation=ob)
        ctx.stat(f"fn={fn} via={c['via']} ndim={len(c['shape'])}")
        if any(abs(v) >= 700 for v in c["x"]):
            ctx.stat("has_large_magnitude")
        ctx.sample({"fn": fn, "shape": c["shape"], "x": c["x"][:4], "beta": c.get("beta")})
        if mo[0] != "ok":
            raise common.FrameworkError("model rejected a C18 case: " + mo[1])
        model = [unfbits(v) for v in mo[1]]
        r = common.exc_class(call_impl, c)
        if r[0] != "ok":
            ctx.violation(f"{fn} raised {r[1]} on a finite float64 array of shape {tuple(c['shape'])}", c, obligation=ob)
            continue
        y = r[1]
        if tuple(np.shape(y)) != tuple(c["shape"]):
            ctx.violation(f"{fn}: output shape {np.shape(y)} for input shape {tuple(c['shape'])}", c, obligation=ob)
            continue
        ys = [float(v) for v in np.asarray(y, dtype=float).reshape(-1)]
        xs = c["x"]
        problems = []
        if fn == "softmax":
            beta = c["beta"]
            if True:
                exact = ref_softmax(xs, beta)
                if any((not math.isfinite(v)) or v < 0 for v in ys):
                    problems.append(f"non-finite or negative value in {ys[:4]}")
                elif abs(sum(Decimal(v) for v in ys) - 1) > Decimal(4 * len(ys)) * Decimal(2.0 ** -52):
                    problems.append(f"values sum to {float(sum(Decimal(v) for v in ys))!r}, not 1")
                else:
                    mx = max(xs)
                    for i, (o_, e) in enumerate(zip(ys, exact)):
                        # exp amplifies the rounding of its argument beta*(x - max): allow for that conditioning
                        cond = int(min(abs(beta * (xs[i] - mx)), 1e6)) + 1
                        if not near(o_, e, n_ulp=8 * (cond + len(ys)), floor=1e-300):
                            problems.append(f"entry {i} (x={xs[i]!r}): observed {o_!r}, definition {float(e)!r}")
                            break
                    for i in range(len(xs)):
                        for j in range(len(xs)):
                            if xs[i] < xs[j] and ys[i] > ys[j]:
                                problems.append(f"order not preserved between entries {i} and {j}")
                                break
        else:
            for i, (xv, o_) in enumerate(zip(xs, ys)):
                e = ref(fn, xv)
                if not near(o_, e, n_ulp=4, floor=5e-324 if fn in ("identity", "relu") else 1e-300):
                    problems.append(f"{fn}({xv!r}) = {o_!r}, definition {float(e)!r}")
                    break
        if problems:
            ctx.violation(f"{fn}: " + problems[0], c, obligation=ob, extra={"problems": problems})
            continue
        # correspondence with the model's stable forms at Float
        for i, (o_, m_) in enumerate(zip(ys, model)):
            cond = (int(min(abs(c["beta"] * (xs[i] - max(xs))), 1e6)) + 1 + len(ys)) * 8 if fn == "softmax" else 4
            tol = cond * ulp(m_) if math.isfinite(m_) else 0
            if not (abs(o_ - m_) <= tol or abs(o_ - m_) <= 1e-300):
                ctx.violation(f"{fn}: entry {i} observed {o_!r} differs from the model's stable form {m_!r} (the decimal oracle accepts "
                              "the implementation)", c, found_input=False, obligation=ob)
                break


def softmax_shift_check(ctx, g):
    from reservoirpy.activationsfunc import softmax
    xs = [(g.random() - 0.5) * 40 for _ in range(g.randint(2, 6))]
    cst = g.choice([1.0, -3.5, 100.0, 700.0, -700.0])
    beta = g.choice([1.0, 0.1, 7.0])
    c = {"kind": "softmax_shift", "x": xs, "c": cst, "beta": beta}
    ctx.count(c, nontrivial=True, obligation="softmax_shift")
    with np.errstate(all="ignore"):
        a = np.asarray(softmax(np.array(xs), beta=beta), dtype=float)
        b = np.asarray(softmax(np.array(xs) + cst, beta=beta), dtype=float)
    if not (np.all(np.isfinite(b)) and np.allclose(a, b, rtol=1e-9, atol=1e-300)):
        ctx.violation(f"softmax is not invariant under adding {cst} to all inputs", c, expected=a.tolist(), observed=b.tolist(),
                      obligation="softmax_shift")


def empty_array_witness(ctx):
    """finding K9"""
    from reservoirpy import activationsfunc as A
    c = {"kind": "empty_array"}
    ctx.count(c, nontrivial=True, obligation="empty_array")
    bad = []
    for name in ("relu", "sigmoid", "softplus", "identity", "tanh", "softmax"):
        r = common.exc_class(getattr(A, name), np.zeros((0,)))
        if r[0] != "ok" or np.shape(r[1]) != (0,):
            bad.append(name)
    if bad:
        if K9 in common.open_findings("C18"):
            ctx.known(K9, f"{', '.join(bad)} raise on size-0 arrays (np.vectorize without otypes) instead of returning an empty array")
        else:
            ctx.violation(f"{bad} fail on size-0 arrays", c, obligation="empty_array")


def run(ctx):
    ctx.notes["rule"] = ("values: special points (+-0, +-709.78, +-745.2, +-1000, 1e308, subnormals, ...), uniform in [-10,10] and [-800,800], random exponents over the "
                         "whole float64 range; shapes (), (n,), (n,m), (a,b,c); beta in {0.1, 0.5, 1, 7}; each function via the module function, get_function (long and "
                         "short names) and the activation nodes; softmax shift-invariance; size-0 witness. non-trivial = some |x| > 30 or more than one entry")
    g = ctx.gen
    cases = common.load_corpus("C18")
    cases += [gen_case(g) for _ in range(ctx.n(700, 8000))]
    check_cases(ctx, [c for c in cases if c.get("kind") == "act"])
    common.quiet()
    for _ in range(ctx.n(60, 600)):
        softmax_shift_check(ctx, g)
    empty_array_witness(ctx)


def replay(ctx, data):
    c = data["case"]
    common.quiet()
    if c.get("kind") == "act":
        check_cases(ctx, [c])
    elif c.get("kind") == "softmax_shift":
        softmax_shift_check(ctx, common.Gen(0))
    else:
        empty_array_witness(ctx)
