"""C17 — NVAR, Delay, Concat. Exact (regime E) correspondence with RpyModel.Windows and a direct
Python oracle of the documented window functions."""
import itertools
from fractions import Fraction

import numpy as np

from . import common
from .common import q, qmat

LEVEL = "proof"
TRUSTED = [
    "model: lean/RpyModel/Windows.lean (mirror of nodes/reservoirs/nvar.py, nodes/delay.py, nodes/concat.py)",
    "theorems: lean/RpyProofs/Props/C17.lean (store invariant, strided selection, combination count/order, delay law, concat layout)",
    "products of small dyadic rationals are exact in float64, so the comparison is equality of rationals",
]


def nvar_oracle(delay, order, strides, U):
    dim = len(U[0])
    rows = []
    for t in range(len(U)):
        lin = []
        for j in range(delay):
            tt = t - j * strides
            lin += [Fraction(v) for v in U[tt]] if tt >= 0 else [Fraction(0)] * dim
        mon = []
        for idx in itertools.combinations_with_replacement(range(len(lin)), order):
            p = Fraction(1)
            for i in idx:
                p *= lin[i]
            mon.append(p)
        rows.append(lin + mon)
    return rows


def delay_oracle(d, init, U):
    dim = len(U[0])
    rows = []
    for t in range(len(U)):
        if t < d:
            rows.append([Fraction(v) for v in init[d - 1 - t]] if init is not None else [Fraction(0)] * dim)
        else:
            rows.append([Fraction(v) for v in U[t - d]])
    return rows


def frows(a):
    return [[Fraction(float(v)) for v in row] for row in np.asarray(a, dtype=float).reshape(len(a), -1)]


def run_nvar(c):
    from reservoirpy.nodes import NVAR
    node = NVAR(delay=c["delay"], order=c["order"], strides=c["strides"])
    U = np.array(c["U_f"], dtype=float)
    if c["mode"] == "run":
        return frows(node.run(U))
    return frows(np.vstack([node.call(U[t:t + 1]) for t in range(len(U))]))


def run_delay(c):
    from reservoirpy.nodes import Delay
    kw = {}
    if c["init_f"] is not None:
        kw["initial_values"] = np.array(c["init_f"], dtype=float).reshape(c["delay"], c["dim"])
    node = Delay(delay=c["delay"], **kw)
    U = np.array(c["U_f"], dtype=float)
    if c["mode"] == "run":
        return frows(node.run(U))
    return frows(np.vstack([np.asarray(node.call(U[t:t + 1])).reshape(1, -1) for t in range(len(U))]))


def run_concat(c):
    from reservoirpy.nodes import Concat
    node = Concat()
    dts = c.get("dtypes") or ["float64"] * len(c["parts_f"])
    parts = [np.array(p, dtype=float).astype(dt).reshape(1, -1) for p, dt in zip(c["parts_f"], dts)]
    if len(parts) == 1:
        out = node.call(parts[0])
    else:
        out = node.call(parts)
    return [Fraction(float(v)) for v in np.asarray(out).reshape(-1)]


def model_case(c):
    if c["kind"] == "nvar_run":
        return {"kind": "nvar_run", "regime": "E", "delay": c["delay"], "order": c["order"],
                "strides": c["strides"], "dim": c["dim"], "U": qmat(c["U_f"])}
    if c["kind"] == "delay_run":
        return {"kind": "delay_run", "regime": "E", "delay": c["delay"], "dim": c["dim"],
                "init": None if c["init_f"] is None else qmat(c["init_f"]), "U": qmat(c["U_f"])}
    return {"kind": "concat", "regime": "E", "parts": qmat(c["parts_f"])}


def first_diff(a, b):
    if len(a) != len(b):
        return {"rows": [len(a), len(b)]}
    for t, (ra, rb) in enumerate(zip(a, b)):
        if len(ra) != len(rb):
            return {"step": t, "width": [len(ra), len(rb)]}
        for i, (x, y) in enumerate(zip(ra, rb)):
            if x != y:
                return {"step": t, "col": i, "expected": str(x), "observed": str(y)}
    return None


def check_cases(ctx, cases):
    common.quiet()
    outs = ctx.model.batch([model_case(c) for c in cases])
    for c, mo in zip(cases, outs):
        kind = c["kind"]
        ctx.stat(f"kind={kind}")
        if kind == "nvar_run":
            ctx.stat(f"nvar k={c['delay']} n={c['order']} s={c['strides']} d={c['dim']}")
            ctx.stat("nvar: more than 256 linear features" if c["delay"] * c["dim"] > 256 else "nvar: at most 256 linear features")
            nontriv = len(c["U_f"]) > c["strides"]
        elif kind == "delay_run":
            ctx.stat(f"delay d={c['delay']} init={c['init_f'] is not None}")
            nontriv = len(c["U_f"]) > c["delay"] >= 1
        else:
            ctx.stat(f"concat parts={len(c['parts_f'])}")
            ctx.stat("concat: equal widths > 1" if len({len(p) for p in c["parts_f"]}) == 1 and len(c["parts_f"][0]) > 1 and len(c["parts_f"]) > 1 else "concat: other widths")
            nontriv = len(c["parts_f"]) >= 2
        ctx.count(c, nontrivial=nontriv, obligation=kind)
        if mo[0] != "ok":
            raise common.FrameworkError(f"model rejected a well-formed C17 case: {mo[1]}")
        r = common.exc_class({"nvar_run": run_nvar, "delay_run": run_delay, "concat": run_concat}[kind], c)
        if r[0] != "ok":
            ctx.violation(f"{kind}: well-formed operation raised {r[1]}", c, obligation=kind)
            continue
        if kind == "concat":
            impl = [r[1]]
            model = [[Fraction(v) for v in mo[1]]]
            spec = [[Fraction(v) for p in c["parts_f"] for v in p]]
        else:
            impl = r[1]
            model = [[Fraction(v) for v in row] for row in mo[1]["rows"]]
            spec = (nvar_oracle(c["delay"], c["order"], c["strides"], c["U_f"]) if kind == "nvar_run"
                    else delay_oracle(c["delay"], c["init_f"], c["U_f"]))
        ctx.sample({"case": {k: v for k, v in c.items() if k != "U_f"}, "U": c.get("U_f", [])[:3],
                    "impl_first_row": [str(v) for v in impl[0][:8]]})
        d_or = first_diff(spec, impl)
        d_mo = first_diff(model, impl)
        if d_or is not None:
            ctx.violation(f"{kind}: output differs from the documented window function", c,
                          expected=d_or.get("expected"), observed=d_or.get("observed"),
                          obligation=kind, extra={"oracle_diff": d_or, "model_diff": d_mo})
        elif d_mo is not None:
            ctx.violation(f"{kind}: implementation disagrees with RpyModel.Windows (theorems C17_* no longer "
                          "tied to the code) although the documented function holds on this case", c,
                          found_input=False, obligation=kind, extra={"model_diff": d_mo})


def gen_cases(ctx):
    g = ctx.gen
    cases = []
    thorough = ctx.tier == "thorough"
    # NVAR: the full small grid
    for dim in (1, 2, 3):
        for delay in (1, 2, 3, 4):
            for strides in (1, 2, 3):
                for order in (1, 2, 3):
                    if not thorough and delay * dim > 8 and order == 3:
                        continue
                    reps = 2 if thorough else 1
                    for _ in range(reps):
                        T = g.randint(1, 12)
                        cases.append({"kind": "nvar_run", "delay": delay, "order": order, "strides": strides,
                                      "dim": dim, "mode": g.choice(["run", "calls"]),
                                      "U_f": [g.dyvec(dim, nonzero=True) for _ in range(T)]})
                        # the same with many all-zero rows: outputs (and whole windows) that are exactly zero
                        # must not be mistaken for "nothing happened yet"
                        T = g.randint(4, 16)
                        cases.append({"kind": "nvar_run", "delay": delay, "order": order, "strides": strides,
                                      "dim": dim, "mode": g.choice(["run", "calls"]), "zero_rows": True,
                                      "U_f": [([0.0] * dim if g.chance(0.6) else g.dyvec(dim, nonzero=True)) for _ in range(T)]})
    # wide windows: more linear features than fit in one byte / two bytes' worth of index arithmetic shortcuts
    for dim, delay in ([(20, 13), (130, 2)] if not thorough else [(20, 13), (130, 2), (3, 90), (65, 4), (257, 1)]):
        cases.append({"kind": "nvar_run", "delay": delay, "order": 2, "strides": g.randint(1, 2), "dim": dim,
                      "mode": g.choice(["run", "calls"]), "wide": True,
                      "U_f": [g.dyvec(dim, nonzero=True) for _ in range(g.randint(2, 3))]})
    for d in range(0, 6):
        for init in (False, True):
            if d == 0 and init:
                continue
            for _ in range(4 if thorough else 2):
                dim = g.randint(1, 3)
                T = g.randint(1, 12)
                cases.append({"kind": "delay_run", "delay": d, "dim": dim, "mode": g.choice(["run", "calls"]),
                              "init_f": [g.dyvec(dim, nonzero=True) for _ in range(d)] if init else None,
                              "U_f": [g.dyvec(dim, nonzero=True) for _ in range(T)]})
                # square initial values (delay == dim) and zero rows
                dim2 = d if (init and 2 <= d <= 3 and g.chance(0.7)) else dim
                cases.append({"kind": "delay_run", "delay": d, "dim": dim2, "mode": g.choice(["run", "calls"]),
                              "init_f": [g.dyvec(dim2, nonzero=True) for _ in range(d)] if init else None,
                              "U_f": [([0.0] * dim2 if g.chance(0.4) else g.dyvec(dim2, nonzero=True)) for _ in range(T)]})
    for _ in range(ctx.n(30, 200)):
        k = g.randint(1, 4)
        cases.append({"kind": "concat", "parts_f": [g.dyvec(g.randint(1, 4)) for _ in range(k)]})
    # parts of different numerical types (an integer-coded channel next to real-valued ones, float32 states next to
    # float64 data), the narrower type first or last: every value must come through unchanged
    for _ in range(ctx.n(24, 200)):
        k = g.randint(2, 4)
        dts = [g.choice(["int64", "int8", "float32", "float64", "float64"]) for _ in range(k)]
        parts = []
        for dt in dts:
            w = g.randint(1, 3)
            if dt.startswith("int"):
                parts.append([float(g.randint(-9, 9)) for _ in range(w)])
            elif dt == "float32":
                parts.append(g.dyvec(w))
            else:
                # not representable in single precision (and not integers)
                parts.append([float(Fraction(v) + Fraction(g.randint(1, 7), 2 ** 40) + Fraction(1, 4)) for v in g.dyvec(w)])
        cases.append({"kind": "concat", "dtypes": dts, "parts_f": parts})
    # parts of one common width (a pool of equally sized senders), distinct values everywhere
    for k in (2, 3, 4):
        for w in (2, 3, 5):
            cases.append({"kind": "concat", "equal_width": True,
                          "parts_f": [[float(100 * i + j + 1) for j in range(w)] for i in range(k)]})
    return cases


def run(ctx):
    ctx.notes["rule"] = ("NVAR: full grid dim<=3, delay<=4, strides<=3, order<=3 with random dyadic inputs, T<=12, "
                         "run or successive calls, plus windows of more than 256 linear features (order 2); Delay: d<=5 with/without initial values; Concat: 1-4 parts of random widths and 2-4 parts of one common width. "
                         "non-trivial = more steps than strides (NVAR) / than delay (Delay) / >=2 parts (Concat)")
    check_cases(ctx, gen_cases(ctx))


def replay(ctx, data):
    check_cases(ctx, [data["case"]])
