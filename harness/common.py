"""Shared machinery of the correspondence harness (see DESIGN.md §2, §4, §5).

Everything random derives from one ``random.Random(VERIF_SEED)``; cases are plain JSON so a
disagreement replays exactly with ``./check Cxx --replay file``.
"""
import hashlib
import json
import os
import random
import subprocess
import sys
import time
import warnings
from collections import Counter
from fractions import Fraction

sys.set_int_max_str_digits(0)      # exact rationals of deep models can have thousands of digits
ROOT = os.path.dirname(os.path.dirname(os.path.abspath(__file__)))
LEAN = os.path.join(ROOT, "lean")
# where evidence/ and replays/ are written: /verif itself, except for the seeded-change runner, which runs
# many patched scratch worktrees in parallel (tools/seeded.py prun) and must not overwrite the real evidence
OUT = os.environ.get("VERIF_OUT") or ROOT
# the tree under test: /repo (the editable install); the seeded runner points it at a scratch worktree
REPO = os.environ.get("VERIF_REPO") or "/repo"
DRIVER = os.path.join(LEAN, ".lake", "build", "bin", "rpydriver")

STD_AXIOMS = {"propext", "Classical.choice", "Quot.sound"}


class FrameworkError(Exception):
    """Something in the verification machinery itself broke (exit code 2, never 1)."""


# ----------------------------------------------------------------------------- numbers

def q(x):
    """Exact rational string of a float / int / Fraction."""
    if isinstance(x, Fraction):
        f = x
    elif isinstance(x, (int,)):
        f = Fraction(int(x))
    else:
        f = Fraction(float(x))
    return str(f.numerator) if f.denominator == 1 else f"{f.numerator}/{f.denominator}"


def unq(s):
    return Fraction(s)


def qvec(v):
    return [q(x) for x in v]


def qmat(m):
    return [[q(x) for x in row] for row in m]


def unqvec(v):
    return [Fraction(x) for x in v]


def unqmat(m):
    return [[Fraction(x) for x in row] for row in m]


def fbits(x):
    """float64 -> decimal string of its bit pattern (exact transfer, regime F)."""
    import struct
    return str(struct.unpack("<Q", struct.pack("<d", float(x)))[0])


def unfbits(s):
    import struct
    return struct.unpack("<d", struct.pack("<Q", int(s)))[0]


def fvec(v):
    return [fbits(x) for x in v]


def fmat(m):
    return [[fbits(x) for x in row] for row in m]


def bits_needed(fr):
    return max(abs(fr.numerator).bit_length(), fr.denominator.bit_length())


def close(a, b, tol=1e-9):
    """|a-b| <= tol*max(1,|b|) with b the exact value; evaluated in Fractions where possible."""
    import math
    if not isinstance(a, Fraction) and not math.isfinite(float(a)):
        return False
    if not isinstance(b, Fraction) and not math.isfinite(float(b)):
        return False
    fa = Fraction(float(a)) if not isinstance(a, Fraction) else a
    fb = Fraction(float(b)) if not isinstance(b, Fraction) else b
    return abs(fa - fb) <= Fraction(tol) * max(1, abs(fb))


class Gen:
    """Structured generators on one PRNG."""

    def __init__(self, seed):
        self.r = random.Random(seed)

    def dy(self, a=3, k=8, nonzero=False):
        """a dyadic rational k'/2^a with |k'| <= k, as a float (exactly representable)."""
        while True:
            v = self.r.randint(-k, k)
            if v != 0 or not nonzero:
                return v / 2 ** a

    def dyvec(self, n, **kw):
        return [self.dy(**kw) for _ in range(n)]

    def dymat(self, n, m, density=1.0, **kw):
        return [[self.dy(**kw) if self.r.random() < density else 0.0 for _ in range(m)]
                for _ in range(n)]

    def choice(self, xs):
        return self.r.choice(xs)

    def randint(self, a, b):
        return self.r.randint(a, b)

    def random(self):
        return self.r.random()

    def sample(self, xs, k):
        return self.r.sample(xs, k)

    def shuffle(self, xs):
        self.r.shuffle(xs)

    def chance(self, p):
        return self.r.random() < p


# ----------------------------------------------------------------------------- model client

class Model:
    """Line-protocol client of the Lean driver (compiled exe; `lean --run` as fallback)."""

    def __init__(self):
        self.calls = 0
        self.cases = 0
        if os.path.exists(DRIVER):
            self.cmd = [DRIVER]
        else:
            self.cmd = ["lake", "env", "lean", "--run", "Main.lean"]

    def batch(self, cases, timeout=600):
        """cases: list of dicts (each gets an id). Returns list of results: ('ok', out) | ('err', msg)."""
        if not cases:
            return []
        lines = []
        for i, c in enumerate(cases):
            d = dict(c)
            d["id"] = i
            lines.append(json.dumps(d, separators=(",", ":")))
        p = None
        for attempt in range(60):
            try:
                p = subprocess.run(self.cmd, input=("\n".join(lines) + "\n").encode(), cwd=LEAN,
                                   stdout=subprocess.PIPE, stderr=subprocess.PIPE, timeout=timeout)
                break
            except subprocess.TimeoutExpired:
                raise FrameworkError("model driver timed out")
            except (FileNotFoundError, PermissionError, OSError):
                # another check is rebuilding the driver right now (lake replaces the executable while it links): wait for it
                import time
                time.sleep(2)
        if p is None:
            raise FrameworkError("model driver executable missing for two minutes (a build that never finished?)")
        if p.returncode != 0:
            raise FrameworkError(f"model driver failed: rc={p.returncode} {p.stderr.decode()[-2000:]}")
        outs = [l for l in p.stdout.decode().split("\n") if l.strip()]
        if len(outs) != len(cases):
            raise FrameworkError(f"model driver answered {len(outs)} lines for {len(cases)} cases: "
                                 f"{p.stderr.decode()[-2000:]}")
        res = []
        for i, l in enumerate(outs):
            d = json.loads(l)
            if d.get("id") != i:
                raise FrameworkError(f"model driver answer out of order at {i}: {l[:200]}")
            if "out" in d:
                res.append(("ok", d["out"]))
            else:
                res.append(("err", d.get("err", "?")))
        self.calls += 1
        self.cases += len(cases)
        return res

    def one(self, case):
        return self.batch([case])[0]


# ----------------------------------------------------------------------------- run context

class Ctx:
    def __init__(self, prop, tier, seed):
        self.prop = prop
        self.tier = tier
        self.seed = seed
        self.gen = Gen(seed)
        self.model = Model()
        self.t0 = time.time()
        self.evaluations = 0
        self.nontrivial = set()
        self.samples = []
        self.stats = Counter()
        self.violations = []      # dicts: {replay, found_input, what}
        self.known_lines = []     # KNOWN-FINDING lines printed
        self._known_ids = set()
        self.corr_obligations = Counter()   # name -> number of cases checked
        self.corr_failed = Counter()
        self.assumptions = []
        self.notes = {}
        self.max_violations = 5

    # scale factor for case counts
    def n(self, quick, thorough=None):
        if self.tier == "thorough":
            return thorough if thorough is not None else quick * 12
        return quick

    def count(self, case_key, nontrivial=True, obligation=None):
        """Register one evaluated case; `case_key` any JSON-able identity of the case."""
        self.evaluations += 1
        if obligation:
            self.corr_obligations[obligation] += 1
        if nontrivial:
            h = hashlib.sha1(json.dumps(case_key, sort_keys=True, default=str).encode()).hexdigest()
            self.nontrivial.add(h)

    def sample(self, s, limit=4):
        if len(self.samples) < limit:
            self.samples.append(s)

    def stat(self, key, k=1):
        self.stats[key] += k

    def violation(self, what, case, expected=None, observed=None, found_input=True,
                  obligation=None, extra=None):
        """Record a violation and write its replay file. `found_input=False` means the
        correspondence broke but no input on which the property itself fails was found."""
        if obligation:
            self.corr_failed[obligation] += 1
        if len(self.violations) >= self.max_violations:
            self.stats["violations_suppressed"] += 1
            return
        os.makedirs(os.path.join(OUT, "replays"), exist_ok=True)
        idx = len(self.violations)
        path = os.path.join("replays", f"{self.prop}_{self.tier}_{self.seed}_{idx}.json")
        data = {"property": self.prop, "what": what, "found_failing_input": found_input,
                "obligation": obligation, "case": case, "expected": expected,
                "observed": observed, "seed": self.seed, "tier": self.tier}
        if extra:
            data.update(extra)
        with open(os.path.join(OUT, path), "w") as f:
            json.dump(data, f, indent=1, default=str)
        self.violations.append({"replay": path, "found_input": found_input, "what": what})

    def known(self, finding_id, what):
        """One KNOWN-FINDING line per listed finding (the first reproduction is quoted)."""
        self.stats[f"known_{finding_id}_reproductions"] += 1
        if finding_id in self._known_ids:
            return
        self._known_ids.add(finding_id)
        self.known_lines.append(f"KNOWN-FINDING: property={self.prop} {finding_id} {what}")


def load_known_findings(prop):
    path = os.path.join(ROOT, "known_findings.json")
    if not os.path.exists(path):
        return []
    with open(path) as f:
        return [e for e in json.load(f) if e["property"] == prop]


def open_findings(prop):
    return {e["id"]: e for e in load_known_findings(prop) if e.get("status") == "open"}


def load_corpus(prop):
    """Minimised past disagreements and finding witnesses; always run first."""
    d = os.path.join(ROOT, "harness", "corpus", prop)
    res = []
    if os.path.isdir(d):
        for f in sorted(os.listdir(d)):
            if f.endswith(".json"):
                with open(os.path.join(d, f)) as fh:
                    res.append(json.load(fh)["case"])
    return res


def quiet():
    warnings.filterwarnings("ignore")
    os.environ.setdefault("TQDM_DISABLE", "1")
    import reservoirpy as rpy
    rpy.verbosity(0)
    return rpy


class CallTimeout(Exception):
    pass


def exc_class_timed(secs, fn, *a, **kw):
    """exc_class with a wall-clock limit (main thread only): a call that does not return within
    `secs` seconds is reported as ('rej', 'Timeout')."""
    import signal

    def _h(*_):
        raise CallTimeout()
    old = signal.signal(signal.SIGALRM, _h)
    signal.setitimer(signal.ITIMER_REAL, secs)
    try:
        return ("ok", fn(*a, **kw))
    except CallTimeout:
        return ("rej", f"Timeout(no result within {secs}s)")
    except Exception as e:  # noqa
        return ("rej", type(e).__name__)
    finally:
        signal.setitimer(signal.ITIMER_REAL, 0)
        signal.signal(signal.SIGALRM, old)


def exc_class(fn, *a, **kw):
    """Run fn; return ('ok', value) or ('rej', ExceptionName). Rejections are compared as
    accepted / rejected only (DESIGN §4.1)."""
    try:
        return ("ok", fn(*a, **kw))
    except Exception as e:  # noqa
        return ("rej", type(e).__name__)
