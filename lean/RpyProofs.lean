import RpyProofs.Bridge
import RpyProofs.Props.C01
import RpyProofs.Props.C17
import RpyProofs.Props.C20
import RpyProofs.MatBridge
import RpyProofs.Props.C04
import RpyProofs.Props.C10
import RpyProofs.Props.C19
