import RpyProofs.Bridge
import RpyProofs.Props.C01
