import RpyModel.Scalar
import RpyModel.Codec
import RpyModel.Reservoir
import RpyModel.Drv.C01
