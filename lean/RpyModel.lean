import RpyModel.Scalar
import RpyModel.Codec
import RpyModel.Reservoir
import RpyModel.Drv.C01
import RpyModel.Windows
import RpyModel.Drv.C17
import RpyModel.Datasets
import RpyModel.Drv.C20
