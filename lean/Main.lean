/-
  rpydriver — line protocol: one JSON case per line on stdin, one JSON answer per line on
  stdout. `{"id":…,"kind":…,"regime":"E"|"F",…}` → `{"id":…,"out":…}` or `{"id":…,"err":…}`.
  The driver rejects what it cannot decode; it never substitutes defaults for data.
-/
import RpyModel.Drv.C01
import RpyModel.Drv.C17
import RpyModel.Drv.C20
import RpyModel.Drv.C04
import RpyModel.Drv.C10
import RpyModel.Drv.C19
import RpyModel.Drv.C03
import RpyModel.Drv.Flow
import RpyModel.Drv.C06
import RpyModel.Drv.C18
import RpyModel.Drv.C12
import RpyModel.Drv.C11
import RpyModel.Drv.C13
import RpyModel.Drv.C14
import RpyModel.Drv.C16
import RpyModel.Drv.C09
open Lean

def dispatch (R : Type) [Num R] [Inhabited R] [NatCast R] (kind : String) (j : Json) : Except String Json :=
  match kind with
  | "reservoir_run" => Drv.handleReservoirRun R j
  | "nvar_run" => Drv.handleNvarRun R j
  | "delay_run" => Drv.handleDelayRun R j
  | "concat" => Drv.handleConcat R j
  | "forecast" => Drv.handleForecast j
  | "ridge_fit" => Drv.handleRidgeFit R j
  | "ridge_ops" => Drv.handleRidgeOps R j
  | "online_train" => Drv.handleOnlineTrain R j
  | "ip_fit" => Drv.handleIpFit R j
  | "metrics" => Drv.handleMetrics R j
  | "graph_expr" => Drv.handleGraphExpr j
  | "scenario" => Drv.handleScenario R j
  | "explicit_fit" => Drv.handleExplicitFit R j
  | "stages" => Drv.handleStages j
  | "activation" => Drv.handleActivation j
  | "shapes" => Drv.handleShapes j
  | "training_history" => Drv.handleTraining R j
  | "graph_check" => Drv.handleGraphCheck j
  | "graph_prog" => Drv.handleGraphProg j
  | "eff_matrix" => Drv.handleEffMatrix R j
  | "rho_diag" => Drv.handleRhoDiag R j
  | "readout_forward" => Drv.handleReadoutForward R j
  | "one_hot" => Drv.handleOneHot j
  | "map_steps" => Drv.handleMapSteps R j
  | "matgen_scale" => Drv.handleMatgenScale R j
  | "matgen_struct" => Drv.handleMatgenStruct j
  | "matgen_partial" => Drv.handleMatgenPartial j
  | "seeds" => Drv.handleSeeds j
  | "compat_run" => Drv.handleCompatRun R j
  | "names_history" => Drv.handleNamesHistory j
  | "sched_replay" => Drv.handleSchedReplay j
  | "sort_unpack" => Drv.handleSortUnpack j
  | _ => throw s!"unknown kind {kind}"

def handle (line : String) : String :=
  match Json.parse line with
  | .error e => (Json.mkObj [("err", Json.str s!"parse: {e}")]).compress
  | .ok j =>
    let id := (j.getObjVal? "id").toOption.getD Json.null
    let res : Except String Json := do
      let kind ← Codec.strField j "kind"
      let regime := (Codec.strField j "regime").toOption.getD "E"
      if regime == "F" then dispatch Float kind j else dispatch Rat kind j
    match res with
    | .ok r => (Json.mkObj [("id", id), ("out", r)]).compress
    | .error e => (Json.mkObj [("id", id), ("err", Json.str e)]).compress

partial def loop (h : IO.FS.Stream) (out : IO.FS.Stream) : IO Unit := do
  let line ← h.getLine
  if line.isEmpty then return ()
  if line.trimAscii.toString.isEmpty then loop h out else
  out.putStrLn (handle line)
  out.flush
  loop h out

def main : IO Unit := do loop (← IO.getStdin) (← IO.getStdout)
