/-
  RpyModel.Stages — the staging of an offline `Model.fit` (`utils/graphflow.py:
  get_offline_subgraphs`): repeated passes over the not-yet-included nodes; a node is ready
  when it is an entry or all its parents are included; a ready offline node that is not trained
  yet is trained in this stage (and stops the propagation), any other ready node is included.
-/

structure SG where
  parents : Nat → List Nat
  isExit : Nat → Bool
  offline : Nat → Bool

structure PassSt where
  included : List Nat
  trained : List Nat
  sub : List Nat

def ready (g : SG) (inc : List Nat) (v : Nat) : Bool :=
  (g.parents v).isEmpty || (g.parents v).all (fun p => inc.contains p)

/-- body of `for node in _nodes:` -/
def passStep (g : SG) (s : PassSt) (v : Nat) : PassSt :=
  if ready g s.included v then
    if g.offline v && !s.trained.contains v then
      { s with trained := v :: s.trained, sub := s.sub ++ [v] }
    else
      { s with included := v :: s.included, sub := if g.isExit v then s.sub else s.sub ++ [v] }
  else s

def pass (g : SG) (todo : List Nat) (s : PassSt) : PassSt := todo.foldl (passStep g) s

/-- the `while trained != offlines` loop, with fuel; returns the list of stages (their `sub`
    lists) and the final bookkeeping -/
def stagesLoop (g : SG) (nodes offl : List Nat) : Nat → PassSt → List (List Nat) → List (List Nat) × PassSt
  | 0, s, acc => (acc, s)
  | fuel + 1, s, acc =>
    if offl.all (fun v => s.trained.contains v) then (acc, s)
    else
      let todo := nodes.filter (fun v => !s.included.contains v)
      let s' := pass g todo { s with sub := [] }
      stagesLoop g nodes offl fuel s' (acc ++ [s'.sub])

def offlineStages (g : SG) (nodes : List Nat) : List (List Nat) × PassSt :=
  stagesLoop g nodes (nodes.filter g.offline) (nodes.length + 2) ⟨[], [], []⟩ []

/-- decidable form of "`l` lists its nodes parents-first, the nodes of `inc` being already available"
    (the node list a `Model` holds is sorted this way; checked on every model of the correspondence) -/
def topoLB (g : SG) : List Nat → List Nat → Bool
  | _, [] => true
  | inc, u :: us => (g.parents u).all (fun p => inc.contains p) && topoLB g (u :: inc) us
