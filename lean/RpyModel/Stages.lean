/-
  RpyModel.Stages — the staging of an offline `Model.fit` (`utils/graphflow.py:
  get_offline_subgraphs`): repeated passes over the not-yet-included nodes; a node is ready
  when it is an entry or all its parents are included; a ready offline node that is not trained
  yet is trained in this stage (and stops the propagation), any other ready node is included.
-/

structure SG where
  parents : Nat → List Nat
  isExit : Nat → Bool
  offline : Nat → Bool

structure PassSt where
  included : List Nat
  trained : List Nat
  sub : List Nat

def ready (g : SG) (inc : List Nat) (v : Nat) : Bool :=
  (g.parents v).isEmpty || (g.parents v).all (fun p => inc.contains p)

/-- body of `for node in _nodes:` -/
def passStep (g : SG) (s : PassSt) (v : Nat) : PassSt :=
  if ready g s.included v then
    if g.offline v && !s.trained.contains v then
      { s with trained := v :: s.trained, sub := s.sub ++ [v] }
    else
      { s with included := v :: s.included, sub := if g.isExit v then s.sub else s.sub ++ [v] }
  else s

def pass (g : SG) (todo : List Nat) (s : PassSt) : PassSt := todo.foldl (passStep g) s

/-- the `while trained != offlines` loop, with fuel; returns the list of stages (their `sub`
    lists) and the final bookkeeping -/
def stagesLoop (g : SG) (nodes offl : List Nat) : Nat → PassSt → List (List Nat) → List (List Nat) × PassSt
  | 0, s, acc => (acc, s)
  | fuel + 1, s, acc =>
    if offl.all (fun v => s.trained.contains v) then (acc, s)
    else
      let todo := nodes.filter (fun v => !s.included.contains v)
      let s' := pass g todo { s with sub := [] }
      stagesLoop g nodes offl fuel s' (acc ++ [s'.sub])

def offlineStages (g : SG) (nodes : List Nat) : List (List Nat) × PassSt :=
  stagesLoop g nodes (nodes.filter g.offline) (nodes.length + 2) ⟨[], [], []⟩ []

/-- decidable form of "`l` lists its nodes parents-first, the nodes of `inc` being already available"
    (the node list a `Model` holds is sorted this way; checked on every model of the correspondence) -/
def topoLB (g : SG) : List Nat → List Nat → Bool
  | _, [] => true
  | inc, u :: us => (g.parents u).all (fun p => inc.contains p) && topoLB g (u :: inc) us

/-! ### how the staged fit routes data across the edges it cuts (`_get_required_nodes`,
`dist_states_to_next_subgraph`, `run_and_partial_fit`, `DataDispatcher.load`)

Every stage runs a sub-model made of its forward nodes and of the edges between them. What a forward node of the stage
needs from a node that is NOT run in this stage travels as external data, keyed by the consumer's name only: the
relations of the previous stage name, for each of its nodes that is not a node of this stage, its consumers among the
nodes of this stage; one array per consumer is kept, and the dispatcher appends it AFTER the consumer's internal
predecessors. `parents` lists the predecessors of a node in operand order (the order in which the full model
concatenates them). -/

/-- per stage: the nodes trained in it and the nodes run forward in it (an offline node is trained the first time it
    appears in a stage and run forward the second time) -/
def splitStages (g : SG) : List (List Nat) → List Nat → List (List Nat × List Nat)
  | [], _ => []
  | sub :: rest, seen =>
    let tr := sub.filter (fun v => g.offline v && !seen.contains v)
    let fw := sub.filter (fun v => !(g.offline v && !seen.contains v))
    (tr, fw) :: splitStages g rest (tr ++ seen)

/-- what a forward node `c` of a stage receives, as the list of the predecessors whose outputs arrive, in arrival order;
    `none`: several senders of the previous stage write to the one slot of `c` -/
def delivered (g : SG) (prevSub curSub fw : List Nat) (c : Nat) : Option (List Nat) :=
  let internal := (g.parents c).filter (fun p => fw.contains p)
  let ext := (g.parents c).filter (fun p => prevSub.contains p && !curSub.contains p)
  match ext with
  | [] => some internal
  | [p] => some (internal ++ [p])
  | _ => none

inductive RouteFault
  | order (c : Nat)        -- the operands of c arrive, but not in operand order
  | missing (c : Nat)      -- an operand of c was run two or more stages earlier: never forwarded
  | overwrite (c : Nat)    -- two or more operands of c come from the previous stage
  deriving Repr, DecidableEq

/-- the routing faults of one stage; `prevSub`, `curSub` are the node lists (`sub`) of the previous and of this stage.
    (Until fix D39 there was a fourth kind: a node trained in a stage that is not the last one and not a node of the next
    stage - an early exit readout - got no training data; `_get_required_nodes` now links the nodes a stage trains too.) -/
def stageFaults (g : SG) (prevSub curSub : List Nat) (fw : List Nat) : List RouteFault :=
  fw.filterMap fun c =>
      match delivered g prevSub curSub fw c with
      | none => some (.overwrite c)
      | some l =>
        if l = g.parents c then none
        else if l.length < (g.parents c).length then some (.missing c) else some (.order c)

def routeFaultsAux (g : SG) : List Nat → List (List Nat × List Nat) → List RouteFault
  | _, [] => []
  | prevSub, (tr, fw) :: rest =>
    let curSub := tr ++ fw
    stageFaults g prevSub curSub fw ++ routeFaultsAux g curSub rest

/-- all routing faults of the staged fit of a model -/
def routeFaults (g : SG) (nodes : List Nat) : List RouteFault :=
  routeFaultsAux g [] (splitStages g (offlineStages g nodes).1 [])

/-! ### the relations between consecutive stages (`_get_required_nodes`, `_get_links`): which node of a stage must
hand its states to which nodes of the next stage -/

def childrenOf (g : SG) (nodes : List Nat) (n : Nat) : List Nat :=
  nodes.filter (fun c => (g.parents c).contains n)

/-- `_get_links(previous, nexts, children)`: for every node of `previous` that is not in `nexts`, its children in
    `nexts` (entries without children are dropped) -/
def getLinks (g : SG) (nodes previous nexts : List Nat) : List (Nat × List Nat) :=
  previous.filterMap fun n =>
    if nexts.contains n then none
    else
      let cs := (childrenOf g nodes n).filter (fun c => nexts.contains c)
      if cs.isEmpty then none else some (n, cs)

/-- `_get_required_nodes`: one relation per stage; stage i < last is linked to stage i+1, the last stage links its
    forward nodes (non-offline, or offline and fitted in an earlier stage) to the offline nodes it trains -/
def requiredAux (g : SG) (nodes : List Nat) : List (List Nat) → List Nat → List (List (Nat × List Nat))
  | [], _ => []
  | [lastSub], fitted =>
    let nexts := lastSub.filter (fun n => g.offline n && !fitted.contains n)
    let currs := lastSub.filter (fun n => !g.offline n || fitted.contains n)
    [getLinks g nodes currs nexts]
  | cur :: nxt :: rest, fitted =>
    -- (the nodes this stage trains are consumers too, also when the next stage does not run them: fix D39)
    getLinks g nodes cur (nxt ++ cur.filter (fun n => g.offline n && !fitted.contains n))
      :: requiredAux g nodes (nxt :: rest) (cur.filter g.offline ++ fitted)

def required (g : SG) (nodes : List Nat) : List (List (Nat × List Nat)) :=
  requiredAux g nodes (offlineStages g nodes).1 []

/-- for the driver: what every forward node of every stage receives (`none`: overwritten slot) -/
def deliveredAllAux (g : SG) : List Nat → List (List Nat × List Nat) → List (Nat × Option (List Nat))
  | _, [] => []
  | prevSub, (tr, fw) :: rest =>
    let curSub := tr ++ fw
    (fw.map fun c => (c, delivered g prevSub curSub fw c)) ++ deliveredAllAux g curSub rest

def deliveredAll (g : SG) (nodes : List Nat) : List (Nat × Option (List Nat)) :=
  deliveredAllAux g [] (splitStages g (offlineStages g nodes).1 [])
