/-
  RpyModel.Seeds — provenance model of every source of randomness in reservoirpy
  (utils/random.py, mat_gen.py, nodes/reservoirs/*, nodes/readouts/sklearn_node.py,
  datasets/_seed.py, datasets/_chaos.py).

  A generator is abstracted by its *provenance*: how it was seeded and which requests it has
  served so far.  The bits a request returns are a function of exactly that (this is the
  assumption on numpy's PRNG; it is observed by the correspondence check).  The model tracks
  which generator object each component draws from (`rand_generator`: None -> the global
  generator, int -> a fresh generator, Generator -> that very object) and emits, for every
  array the real code produces, the provenance tag that determines it.
-/

namespace Seeds

abbrev Req := String

inductive Origin
  | seed (s : Nat)        -- default_rng(s)
  | entropy (k : Nat)     -- seeded from the OS: unique to the process
deriving Repr, DecidableEq

structure GenSt where
  origin : Origin
  served : List Req
deriving Repr, DecidableEq

/-- provenance of an array -/
inductive Tag
  | draw (origin : Origin) (before : List Req) (req : Req)   -- drawn from a generator
  | comp (label : String) (parts : List Tag)                 -- computed from the parts
deriving Repr

def Origin.render : Origin → String
  | .seed s => s!"seed{s}"
  | .entropy k => s!"entropy{k}"

mutual
def Tag.render : Tag → String
  | .draw o b r => "D(" ++ o.render ++ "|" ++ ";".intercalate b ++ "|" ++ r ++ ")"
  | .comp l ps => "C(" ++ l ++ "|" ++ Tag.renderList ps ++ ")"
def Tag.renderList : List Tag → String
  | [] => ""
  | t :: ts => t.render ++ "," ++ Tag.renderList ts
end

def GenSt.fresh (s : Nat) : GenSt := ⟨.seed s, []⟩

/-- serving a request advances the generator and returns the provenance of the result -/
def GenSt.serve (g : GenSt) (r : Req) : GenSt × Tag :=
  ({ g with served := g.served ++ [r] }, .draw g.origin g.served r)

inductive SeedSpec
  | none                -- seed=None: the global generator
  | int (s : Nat)       -- an integer seed: default_rng(s), fresh at every use
  | gen (h : Nat)       -- a numpy Generator object created by the user (handle h)
deriving Repr, DecidableEq

/-! ### association lists keyed by user-chosen identifiers -/
def alGet {α : Type} (l : List (Nat × α)) (k : Nat) : Option α :=
  match l with
  | [] => none
  | (k', v) :: rest => if k' = k then some v else alGet rest k

def alSet {α : Type} (l : List (Nat × α)) (k : Nat) (v : α) : List (Nat × α) := (k, v) :: l

structure NodeSt where
  spec : SeedSpec
  own : GenSt                   -- the node's noise generator when the seed is an integer
  weights : List Tag            -- W, Win, bias (after initialisation), then Wfb
  state : Tag                   -- provenance of the current state
deriving Repr

structure SkSt where
  rstate : Tag                  -- provenance of the RandomState handed to scikit-learn

structure World where
  glob : GenSt                  -- reservoirpy's global generator (utils/random.py)
  legacy : GenSt                -- numpy's legacy global RandomState (np.random.*)
  dsSeed : Nat                  -- datasets._seed._DEFAULT_SEED
  heap : List (Nat × GenSt)     -- user generator objects
  nodes : List (Nat × NodeSt)
  sks : List (Nat × SkSt)

inductive Op
  | setSeed (s : Nat)                                        -- reservoirpy.set_seed
  | dsSetSeed (s : Nat)                                      -- datasets.set_seed
  | newGen (id s : Nat)                                      -- g = np.random.default_rng(s)
  | initCall (spec : SeedSpec) (req : Req)                   -- a mat_gen initialiser call
  | dataset (spec : SeedSpec) (req : Req)                    -- mackey_glass / narma
  | legacyDraw (req : Req)                                   -- user code calling np.random.*
  | mkRes (id : Nat) (spec : SeedSpec)                       -- Reservoir(..., seed=spec)
  | initRes (id : Nat) (rW rWin rBias : Req)                 -- first call: W, Win, bias
  | initFb (id : Nat) (rWfb : Req)                           -- feedback initialisation: Wfb
  | runRes (id : Nat) (input : String) (steps : Nat) (noise : List (Req × Bool))
        -- `steps` timesteps; per step one request per noise term, served iff its gain ≠ 0
  | mkSk (id : Nat)                                          -- ScikitLearnNode(random model)
  | fitSk (id : Nat) (data : String)

/-- `rand_generator(spec)` followed by one request -/
def drawFrom (w : World) (spec : SeedSpec) (r : Req) : World × Tag :=
  match spec with
  | .none => let p := w.glob.serve r; ({ w with glob := p.1 }, p.2)
  | .int s => (w, ((GenSt.fresh s).serve r).2)
  | .gen h =>
    match alGet w.heap h with
    | some g => let p := g.serve r; ({ w with heap := alSet w.heap h p.1 }, p.2)
    | none => (w, .comp "undefined-generator" [])

/-- the requests of one timestep: only the noise terms with a non-zero gain touch the generator -/
def stepReqs (noise : List (Req × Bool)) : List Req := (noise.filter (·.2)).map (·.1)

def serveAll (g : GenSt) : List Req → GenSt × List Tag
  | [] => (g, [])
  | r :: rs => let p := g.serve r; let q := serveAll p.1 rs; (q.1, p.2 :: q.2)

def repeatReqs : Nat → List Req → List Req
  | 0, _ => []
  | n + 1, rs => rs ++ repeatReqs n rs

/-- the node-local part of a run: a node with an integer seed draws its noise from its own
    generator -/
def NodeSt.runOwn (nd : NodeSt) (input : String) (steps : Nat) (noise : List (Req × Bool)) : NodeSt × Tag :=
  let p := serveAll nd.own (repeatReqs steps (stepReqs noise))
  let t := Tag.comp ("run:" ++ input) (nd.state :: nd.weights ++ p.2)
  ({ nd with own := p.1, state := t }, t)

def NodeSt.initOwn (nd : NodeSt) (s : Nat) (rW rWin rBias : Req) : NodeSt × List Tag :=
  let ts := [((GenSt.fresh s).serve rW).2, ((GenSt.fresh s).serve rWin).2, ((GenSt.fresh s).serve rBias).2]
  ({ nd with weights := ts }, ts)

def NodeSt.initFbOwn (nd : NodeSt) (s : Nat) (rWfb : Req) : NodeSt × List Tag :=
  let t := ((GenSt.fresh s).serve rWfb).2
  ({ nd with weights := nd.weights ++ [t] }, [t])

def zeroState : Tag := .comp "zero-state" []

/-- noise drawn through a shared generator (seed None / Generator object) -/
def serveShared (w : World) (spec : SeedSpec) : List Req → World × List Tag
  | [] => (w, [])
  | r :: rs => let p := drawFrom w spec r; let q := serveShared p.1 spec rs; (q.1, p.2 :: q.2)

def step (w : World) : Op → World × List Tag
  | .setSeed s => ({ w with glob := GenSt.fresh s, legacy := GenSt.fresh s }, [])
  | .dsSetSeed s => ({ w with dsSeed := s }, [])
  | .newGen id s => ({ w with heap := alSet w.heap id (GenSt.fresh s) }, [])
  | .initCall spec r => let p := drawFrom w spec r; (p.1, [p.2])
  | .dataset spec r =>
    let spec' := match spec with | .none => SeedSpec.int w.dsSeed | s => s
    let p := drawFrom w spec' r; (p.1, [p.2])
  | .legacyDraw r => let p := w.legacy.serve r; ({ w with legacy := p.1 }, [p.2])
  | .mkRes id spec =>
    let own := match spec with | .int s => GenSt.fresh s | _ => GenSt.fresh 0
    ({ w with nodes := alSet w.nodes id ⟨spec, own, [], zeroState⟩ }, [])
  | .initRes id rW rWin rBias =>
    match alGet w.nodes id with
    | none => (w, [])
    | some nd =>
      match nd.spec with
      | .int s => let p := nd.initOwn s rW rWin rBias; ({ w with nodes := alSet w.nodes id p.1 }, p.2)
      | spec =>
        let p1 := drawFrom w spec rW
        let p2 := drawFrom p1.1 spec rWin
        let p3 := drawFrom p2.1 spec rBias
        let ts := [p1.2, p2.2, p3.2]
        ({ p3.1 with nodes := alSet p3.1.nodes id { nd with weights := ts } }, ts)
  | .initFb id rWfb =>
    match alGet w.nodes id with
    | none => (w, [])
    | some nd =>
      match nd.spec with
      | .int s => let p := nd.initFbOwn s rWfb; ({ w with nodes := alSet w.nodes id p.1 }, p.2)
      | spec =>
        let p := drawFrom w spec rWfb
        ({ p.1 with nodes := alSet p.1.nodes id { nd with weights := nd.weights ++ [p.2] } }, [p.2])
  | .runRes id input steps noise =>
    match alGet w.nodes id with
    | none => (w, [])
    | some nd =>
      match nd.spec with
      | .int _ => let p := nd.runOwn input steps noise; ({ w with nodes := alSet w.nodes id p.1 }, [p.2])
      | spec =>
        let p := serveShared w spec (repeatReqs steps (stepReqs noise))
        let t := Tag.comp ("run:" ++ input) (nd.state :: nd.weights ++ p.2)
        ({ p.1 with nodes := alSet p.1.nodes id { nd with state := t } }, [t])
  | .mkSk id =>
    let p := w.glob.serve "integers(1<<32)"
    ({ w with glob := p.1, sks := alSet w.sks id ⟨p.2⟩ }, [])
  | .fitSk id data =>
    match alGet w.sks id with
    | none => (w, [])
    | some sk => (w, [.comp ("skfit:" ++ data) [sk.rstate]])

def run (w : World) : List Op → World × List (List Tag)
  | [] => (w, [])
  | o :: os => let p := step w o; let q := run p.1 os; (q.1, p.2 :: q.2)

/-- a fresh process: generators seeded by the OS, default dataset seed, nothing created yet -/
def World.fresh (k : Nat) : World :=
  ⟨⟨.entropy k, []⟩, ⟨.entropy (k + 1), []⟩, 5555, [], [], []⟩

/-- the node an operation addresses -/
def Op.node : Op → Option Nat
  | .mkRes id _ => some id
  | .initRes id .. => some id
  | .initFb id _ => some id
  | .runRes id .. => some id
  | _ => none

end Seeds
