/-
  RpyModel.Graph — the graph algebra of `ops.py` (link, merge, concat_multi_inputs), `Model`
  construction / `update_graph` (model.py) and `utils/graphflow.py` (find_entries_and_exits,
  topological_sort).

  Nodes are natural numbers; ids `≥ concatBase` stand for automatically inserted `Concat`
  nodes (Python creates a fresh object each time: the model threads a counter).  Sets are
  duplicate-free lists; their order is irrelevant to every comparison.
-/

abbrev Node := Nat
abbrev Edge := Node × Node

def concatBase : Nat := 1000000
def isConcat (n : Node) : Bool := concatBase ≤ n

def children (es : List Edge) (n : Node) : List Node := (es.filter (fun e => e.1 == n)).map (·.2)
def parentsOf (es : List Edge) (m : Node) : List Node := (es.filter (fun e => e.2 == m)).map (·.1)
def hasParent (es : List Edge) (m : Node) : Bool := es.any (fun e => e.2 == m)
def hasChild (es : List Edge) (n : Node) : Bool := es.any (fun e => e.1 == n)

inductive KahnResult
  | ok (order : List Node)
  | cycle
  | outOfFuel
deriving DecidableEq, Repr

/-- `topological_sort`: `stack` is the deque used as a stack, `es` the remaining edges, `out`
    the reversed output.  Popping `n` removes its outgoing edges; a child becomes ready when
    it has no remaining parent. -/
def kahnLoop : Nat → List Node → List Edge → List Node → KahnResult
  | 0, _, _, _ => .outOfFuel
  | _+1, [], es, out => if es.isEmpty then .ok out.reverse else .cycle
  | fuel+1, n :: stack, es, out =>
      let es' := es.filter (fun e => e.1 != n)
      let ready := (children es n).filter (fun m => !hasParent es' m)
      kahnLoop fuel (ready ++ stack) es' (n :: out)

/-- `find_entries_and_exits` (on a graph whose edges join listed nodes). -/
def entries (nodes : List Node) (es : List Edge) : List Node := nodes.filter (fun n => !hasParent es n)
def exits (nodes : List Node) (es : List Edge) : List Node := nodes.filter (fun n => !hasChild es n)

def kahn (nodes : List Node) (es : List Edge) : KahnResult :=
  kahnLoop (nodes.length + 1) (entries nodes es) es []

/-! ### graph construction -/

structure Graph where
  nodes : List Node
  edges : List Edge
deriving Repr, DecidableEq

def dedup {α : Type} [DecidableEq α] : List α → List α
  | [] => []
  | x :: xs => if x ∈ xs then dedup xs else x :: dedup xs

def unionL {α : Type} [DecidableEq α] (a b : List α) : List α := dedup (a ++ b)

/-- `concat_multi_inputs`: every non-Concat node with more than one parent gets one fresh
    `Concat` whose parents are exactly the node's parents, and which becomes its only parent.
    `next` is the counter of fresh Concat ids. -/
def concatStep (es : List Edge) (acc : List Node × List Edge × Nat) (v : Node) : List Node × List Edge × Nat :=
  let ps := dedup (parentsOf es v)
  let (ns, new, next) := acc
  if ps.length > 1 ∧ !isConcat v then
    let c := concatBase + next
    (unionL ns [c, v], unionL new (ps.map (fun p => (p, c)) ++ [(c, v)]), next + 1)
  else
    (unionL ns [v], unionL new (ps.map (fun p => (p, v))), next)

def concatMultiInputs (nodes : List Node) (es : List Edge) (next : Nat) : Graph × Nat :=
  let r := (dedup nodes).foldl (concatStep es) ([], [], next)
  (⟨r.1, r.2.1⟩, r.2.2)

/-- `Model(nodes, edges)`: insert Concats, then sort; `none` = rejected (cycle). -/
def mkModel (nodes : List Node) (es : List Edge) (next : Nat) : Option (Graph × List Node) × Nat :=
  let (g, next') := concatMultiInputs nodes (dedup es) next
  match kahn g.nodes g.edges with
  | .ok order => (some (g, order), next')
  | _ => (none, next')

/-- operands of `>>` / `&`: a single node or an already built model -/
inductive Operand
  | node (n : Node)
  | model (g : Graph)
deriving Repr

def Operand.nodes : Operand → List Node
  | .node n => [n]
  | .model g => g.nodes
def Operand.edges : Operand → List Edge
  | .node _ => []
  | .model g => g.edges
def Operand.outputs : Operand → List Node
  | .node n => [n]
  | .model g => exits g.nodes g.edges
def Operand.inputs : Operand → List Node
  | .node n => [n]
  | .model g => entries g.nodes g.edges

def product {α β : Type} (a : List α) (b : List β) : List (α × β) := a.flatMap fun x => b.map fun y => (x, y)

/-- `_link_1to1`: all nodes and edges of both operands plus outputs(left) × inputs(right). -/
def link1to1 (a b : Operand) : List Node × List Edge :=
  (a.nodes ++ b.nodes, a.edges ++ b.edges ++ product a.outputs b.inputs)

/-- `link` on lists of operands: union over all pairs (many-to-many). -/
def linkRaw (as bs : List Operand) : List Node × List Edge :=
  let pairs := product as bs
  (pairs.flatMap (fun p => (link1to1 p.1 p.2).1), pairs.flatMap (fun p => (link1to1 p.1 p.2).2))

/-- `merge`: union of the operands' nodes and edges. -/
def mergeRaw (ops : List Operand) : List Node × List Edge :=
  (ops.flatMap Operand.nodes, ops.flatMap Operand.edges)

/-! ### canonical form: forget the inserted Concat nodes -/

/-- the non-Concat ancestors feeding `v` through chains of Concat nodes (fuel = number of nodes) -/
def effParents : Nat → List Edge → Node → List Node
  | 0, _, _ => []
  | fuel + 1, es, v =>
    (parentsOf es v).flatMap fun p => if isConcat p then effParents fuel es p else [p]

def sortNat (l : List Nat) : List Nat := l.mergeSort (· ≤ ·)
def lexLe (a b : Nat × Nat) : Bool := a.1 < b.1 || (a.1 == b.1 && a.2 ≤ b.2)

/-- canonical view of a model: user nodes, effective edges (each with its multiplicity, so a
    parent delivered twice shows up), entries, exits — all sorted. -/
structure Canon where
  nodes : List Node
  edges : List Edge
  entries : List Node
  exits : List Node
deriving DecidableEq, Repr

def canon (g : Graph) : Canon :=
  let users := g.nodes.filter (fun n => !isConcat n)
  { nodes := sortNat users,
    edges := (users.flatMap fun v => (effParents (g.nodes.length + 1) g.edges v).map fun p => (p, v)).mergeSort lexLe,
    entries := sortNat (entries g.nodes g.edges),
    exits := sortNat (exits g.nodes g.edges) }

/-- is `order` a valid execution order of `g`: each node exactly once, every edge forward -/
def validOrder (g : Graph) (order : List Node) : Bool :=
  sortNat order == sortNat g.nodes && order.length == (dedup order).length &&
  g.edges.all fun e => match order.idxOf? e.1, order.idxOf? e.2 with
    | some i, some j => i < j
    | _, _ => false
