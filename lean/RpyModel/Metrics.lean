/-
  RpyModel.Metrics — `observables.py`: mse, rmse (as a relation), nrmse normalisations, R², their
  dimension-wise variants, and the matrix handed to the eigen-solver by
  `effective_spectral_radius`.

  Data are lists of rows (time × features; a 3-D array of sequences is the concatenation of its
  sequences: axes (0,1) are reduced together).
-/
import RpyModel.Scalar

section
variable {R : Type} [Add R] [Mul R] [Sub R] [Zero R] [One R] [Div R] [NatCast R]

def sumL (l : List R) : R := l.foldl (· + ·) 0
def meanL (l : List R) : R := sumL l / (l.length : R)

/-- mean squared error over two equally long flat lists -/
def mseFlat (y yh : List R) : R := meanL (List.zipWith (fun a b => (a - b) * (a - b)) y yh)

/-- column `j` of a list of rows -/
def column (rows : List (List R)) (j : Nat) : List R := rows.filterMap (·[j]?)

def width (rows : List (List R)) : Nat := match rows with | [] => 0 | r :: _ => r.length

/-- global mse of two arrays given as rows -/
def mse (y yh : List (List R)) : R := mseFlat y.flatten yh.flatten

/-- dimension-wise mse: entry `j` is the mse of feature `j` -/
def mseDim (y yh : List (List R)) : List R :=
  (List.range (width y)).map fun j => mseFlat (column y j) (column yh j)

/-- variance (population, as `ndarray.var`) -/
def varL (l : List R) : R :=
  let m := meanL l
  meanL (l.map fun a => (a - m) * (a - m))

/-- R² = 1 − Σ(y−ŷ)² / Σ(y−mean y)² -/
def rsquareFlat (y yh : List R) : R :=
  let m := meanL y
  1 - sumL (List.zipWith (fun a b => (a - b) * (a - b)) y yh) / sumL (y.map fun a => (a - m) * (a - m))

def rsquare (y yh : List (List R)) : R := rsquareFlat y.flatten yh.flatten
def rsquareDim (y yh : List (List R)) : List R :=
  (List.range (width y)).map fun j => rsquareFlat (column y j) (column yh j)

/-- shapes must agree (`_check_arrays`) -/
def sameShape (y yh : List (List R)) : Bool :=
  y.length == yh.length && (List.zipWith (fun a b => a.length == b.length) y yh).all id

/-- the matrix whose spectral radius `effective_spectral_radius` returns: `lr·W + (1−lr)·I` -/
def effectiveMatrix {n : Nat} (W : Mat R n n) (lr : R) : Mat R n n :=
  madd (mscale lr W) (mscale (1 - lr) (identity n))

end

section
variable {R : Type} [Add R] [Mul R] [Sub R] [Zero R] [One R] [Div R] [NatCast R] [Neg R]

/-- min / max / peak-to-peak with a boolean order test -/
def maxBy (lt : R → R → Bool) : List R → Option R
  | [] => none
  | x :: xs => some (xs.foldl (fun m a => if lt m a then a else m) x)
def minBy (lt : R → R → Bool) : List R → Option R
  | [] => none
  | x :: xs => some (xs.foldl (fun m a => if lt a m then a else m) x)
def ptp (lt : R → R → Bool) (l : List R) : Option R :=
  match maxBy lt l, minBy lt l with
  | some a, some b => some (a - b)
  | _, _ => none

/-- spectral radius of a triangular matrix with diagonal `d`: the largest |dᵢ| -/
def rhoDiag (lt : R → R → Bool) (d : List R) : Option R :=
  maxBy lt (d.map fun x => if lt x 0 then -x else x)

end
