/-
  RpyModel.Datasets — `to_forecasting`, `one_hot_encode` (datasets/__init__.py, datasets/_utils.py)
  and the discrete-map generators `logistic_map`, `henon_map`, `narma` (datasets/_chaos.py).
  The time axis is modelled as a list of rows (the harness moves the time axis to the front).
-/

/-- `to_forecasting` without a test split: `series[:-f]`, `series[f:]` (f ≥ 1). -/
def forecastPairs {α : Type} (s : List α) (f : Nat) : List α × List α :=
  (s.take (s.length - f), s.drop f)

/-- Python's `a[-k:]` / `a[:-k]` for k > 0 (whole list / empty list when k ≥ len). -/
def lastK {α : Type} (l : List α) (k : Nat) : List α := l.drop (l.length - k)
def dropLastK {α : Type} (l : List α) (k : Nat) : List α := l.take (l.length - k)

structure Forecast (α : Type) where
  X : List α
  Xt : List α
  y : List α
  yt : List α

/-- `to_forecasting(series, forecast=f, test_size=testLen)` along the time axis;
    `testLen = 0` means no split (the implementation then returns only `X, y`). -/
def toForecasting {α : Type} (s : List α) (f testLen : Nat) : Forecast α :=
  let (X0, y0) := forecastPairs s f
  if testLen > 0 then
    { X := dropLastK X0 testLen, Xt := lastK X0 testLen, y := dropLastK y0 testLen, yt := lastK y0 testLen }
  else { X := X0, Xt := [], y := y0, yt := [] }

/-- Python's `round` (half to even) of a non-negative rational. -/
def roundHalfEven (x : Rat) : Int :=
  let f := x.floor
  let d := x - (f : Rat)
  if d < 1/2 then f else if 1/2 < d then f + 1 else if f % 2 = 0 then f else f + 1

/-! ### one-hot encoding -/

/-- Insert into a strictly increasing list, keeping it strictly increasing (no duplicates). -/
def insertUniq (x : Int) : List Int → List Int
  | [] => [x]
  | y :: ys => if x < y then x :: y :: ys else if x = y then y :: ys else y :: insertUniq x ys

/-- `np.unique(labels)`: the sorted list of distinct labels. -/
def classesOf (labels : List Int) : List Int := labels.foldr insertUniq []

/-- Row of `np.eye(n_classes)[index of label]`. -/
def oneHotRow (classes : List Int) (label : Int) : List Nat :=
  classes.map fun c => if c = label then 1 else 0

def oneHot (labels : List Int) : List (List Nat) × List Int :=
  let cls := classesOf labels
  (labels.map (oneHotRow cls), cls)

/-- `np.split(a, cumsum(lens)[:-1])`: cut a list at the original sequence boundaries; the last
    piece takes whatever remains (as `np.split` does). -/
def splitLens {α : Type} : List Nat → List α → List (List α)
  | [], _ => []
  | [_], l => [l]
  | n :: m :: ns, l => l.take n :: splitLens (m :: ns) (l.drop n)

/-- Multi-sequence one-hot: encode the concatenation, split at the original boundaries. -/
def oneHotMulti (seqs : List (List Int)) : List (List (List Nat)) × List Int :=
  let (enc, cls) := oneHot seqs.flatten
  (splitLens (seqs.map List.length) enc, cls)

/-! ### discrete maps -/
section
variable {R : Type} [Add R] [Mul R] [Sub R] [One R] [Zero R]

def logisticStep (r x : R) : R := r * x * (1 - x)

def henonStep (a b : R) (p : R × R) : R × R := (1 - a * (p.1 * p.1) + p.2, b * p.1)

/-- `n` values starting at `x0`, each the image of the previous one. -/
def iterSeries {S : Type} (step : S → S) : Nat → S → List S
  | 0, _ => []
  | n + 1, x => x :: iterSeries step n (step x)

def logisticMap (n : Nat) (r x0 : R) : List R := iterSeries (logisticStep r) n x0
def henonMap (n : Nat) (a b : R) (x0 : R × R) : List (R × R) := iterSeries (henonStep a b) n x0

def sumList (l : List R) : R := l.foldl (· + ·) 0

/-- The recurrence `narma` *implements* for index `t` (order ≤ t) on full arrays `y`, `u`
    (given as total functions of the index):
    `y[t+1] = a1·y[t] + a2·y[t]·Σ y[t-order .. t-1] + b·u[t-order]·u[t] + c`. -/
def narmaNextImpl (order : Nat) (a1 a2 b c : R) (y u : Nat → R) (t : Nat) : R :=
  a1 * y t + a2 * y t * sumList ((List.range order).map fun i => y (t - order + i))
    + b * u (t - order) * u t + c

/-- The *documented* recurrence:
    `y[t+1] = a1·y[t] + a2·y[t]·Σ_{i<order} y[t-i] + b·u[t-(order-1)]·u[t] + c`. -/
def narmaNextDoc (order : Nat) (a1 a2 b c : R) (y u : Nat → R) (t : Nat) : R :=
  a1 * y t + a2 * y t * sumList ((List.range order).map fun i => y (t - i))
    + b * u (t - (order - 1)) * u t + c

/-- The array the implementation fills: `y[0..|x0|) = x0`, zeros up to index `order`, then the
    implemented recurrence; `k` further values after index `order`. Returned newest first. -/
def narmaFill (order : Nat) (a1 a2 b c : R) (u : Nat → R) : Nat → List R → List R
  | 0, acc => acc
  | k + 1, acc =>
    let t := acc.length - 1
    let y := fun i => acc.reverse.getD i 0
    narmaFill order a1 a2 b c u k (narmaNextImpl order a1 a2 b c y u t :: acc)
end
