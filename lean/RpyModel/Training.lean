/-
  RpyModel.Training — the bookkeeping of offline training sessions (`node.py: initialize_buffers,
  clean_buffers, partial_fit, fit`; `ridge.py: _accumulate / backward`) and the freeze flag, with
  the learning rule abstract: `acc` adds one sequence to the buffer, `solve` turns a buffer into
  parameters.  A `partial_fit` may fail at a given sequence (its `_partial_backward` raises).
-/

structure Rule (D B P : Type) where
  empty : B
  acc : B → D → B
  solve : B → P

structure TNode (B P : Type) where
  params : P
  fixed : Nat            -- stands for every non-learned weight (reservoir matrices, …): never written
  buf : Option B         -- training buffers, `none` when there are none
  frozen : Bool
  fitted : Bool

inductive TOp (D : Type)
  | run                                        -- any inference call
  | partialFit (ds : List D) (failAt : Option Nat)
  | fit (ds : List D) (failAt : Option Nat)    -- fit(X, Y) on a dataset
  | fitNoData                                   -- fit() finishing earlier partial fits
  | freeze (b : Bool)

inductive TRes | ok | rejected | failed
deriving DecidableEq, Repr

variable {D B P : Type}

/-- accumulate the sequences in order until one fails: returns the buffer and whether it failed -/
def accumulateUntil (r : Rule D B P) : B → List D → Nat → Option Nat → B × Bool
  | b, [], _, _ => (b, false)
  | b, d :: ds, i, failAt =>
    if failAt = some i then (b, true) else accumulateUntil r (r.acc b d) ds (i + 1) failAt

def applyT (r : Rule D B P) (n : TNode B P) : TOp D → TNode B P × TRes
  | .run => (n, .ok)
  -- the `is_trainable` setter only acts on a node that is currently trainable: a frozen node
  -- cannot be unfrozen (mirrors the code; noted in DESIGN.md)
  | .freeze b => if n.frozen then (n, .ok) else ({ n with frozen := b }, .ok)
  | .partialFit ds failAt =>
    if n.frozen then (n, .rejected)
    else
      let b0 := n.buf.getD r.empty                      -- initialize_buffers: only when none exist
      let (b, failed) := accumulateUntil r b0 ds 0 failAt
      ({ n with buf := some b }, if failed then .failed else .ok)
  | .fit ds failAt =>
    if n.frozen then (n, .rejected)
    else
      let b0 := n.buf.getD r.empty
      let (b, failed) := accumulateUntil r b0 ds 0 failAt
      if failed then ({ n with buf := none, fitted := false }, .failed)   -- a failed fit cleans up
      else ({ n with params := r.solve b, buf := none, fitted := true }, .ok)
  | .fitNoData =>
    if n.frozen then (n, .rejected)
    else
      match n.buf with
      | none => (n, .rejected)
      | some b => ({ n with params := r.solve b, buf := none, fitted := true }, .ok)

def runT (r : Rule D B P) (n : TNode B P) (ops : List (TOp D)) : TNode B P :=
  ops.foldl (fun n op => (applyT r n op).1) n
