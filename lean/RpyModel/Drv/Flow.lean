/-
  Driver for model scenarios (C02, C05, C07, C08): decode node descriptors into an `FNet`
  instance of the *generic* dataflow functions of RpyModel.Dataflow, replay a history of public
  operations, and report after every operation what the public API exposes.
-/
import RpyModel.Codec
import RpyModel.Dataflow
import RpyModel.Reservoir
import RpyModel.Windows
import RpyModel.Readout
import RpyModel.Drv.C01
open Lean Codec

namespace Drv
variable (R : Type) [Num R] [Inhabited R]

abbrev Val := Array R
abbrev Mem := Array (Array R)

/-- cast with a dimension check done beforehand by `validate`; the fallback is unreachable on
    validated scenarios -/
def toVecD (n : Nat) (a : Array R) : Vec R n := if h : a.size = n then ⟨a, h⟩ else Vector.replicate n 0

structure NodeImpl where
  kind : String
  inDim : Nat
  outDim : Nat
  fwd : Mem R → Val R → List (Val R) → Option (Val R) → Mem R × Val R

def flat (ins : List (Val R)) : Val R := ins.foldl (· ++ ·) #[]

def parseNode (j : Json) : Except String (NodeImpl R) := do
  let kind ← strField j "kind"
  let inDim ← natField j "in_dim"
  let outDim ← natField j "out_dim"
  match kind with
  | "identity" | "concat" =>
      pure { kind, inDim, outDim, fwd := fun m _ ins _ => (m, flat R ins) }
  | "linear" => do
      let W ← mat (R := R) inDim outDim (← field j "Wout")
      let b ← vec (R := R) outDim (← field j "bias")
      pure { kind, inDim, outDim,
             fwd := fun m _ ins _ => (m, (readoutForward W b (toVecD R inDim (flat R ins))).toArray) }
  | "act" => do
      let f ← parseAct R (← strField j "act")
      pure { kind, inDim, outDim, fwd := fun m _ ins _ => (m, (flat R ins).map f) }
  | "reservoir" => do
      let k ← natField j "k"
      let eq ← parseEq (← strField j "eq")
      let p ← parseResParams R outDim inDim k j
      pure { kind, inDim, outDim,
             fwd := fun m x ins fb =>
               let s := toVecD R outDim (m.getD 0 #[])
               let fbv := toVecD R k (fb.getD #[])
               let st' := fwdRes eq p ⟨toVecD R outDim x, s⟩ (toVecD R inDim (flat R ins)) fbv (zeroDraw R outDim inDim k)
               (#[st'.s.toArray], st'.x.toArray) }
  | "delay" =>
      pure { kind, inDim, outDim,
             fwd := fun m _ ins _ =>
               let (buf, y) := delayStep m.toList (flat R ins)
               (buf.toArray, y) }
  | "nvar" => do
      let order ← natField j "order"
      let strides ← natField j "strides"
      pure { kind, inDim, outDim,
             fwd := fun m _ ins _ =>
               let (store, y) := nvarStep strides order (m.toList.map (·.toList)) (flat R ins).toList
               ((store.map (·.toArray)).toArray, y.toArray) }
  | _ => throw s!"Unsupported: node kind {kind}"

/-- `{id: value}` given as a JSON object with decimal keys, or null -/
def parseIdMap {α : Type} (f : Json → Except String α) (j : Json) : Except String (Nat → Option α) := do
  match j with
  | Json.null => pure fun _ => none
  | _ =>
    let obj ← j.getObj?
    let pairs ← obj.toList.mapM fun (k, v) => do
      match k.toNat? with
      | some i => pure (i, ← f v)
      | none => throw s!"bad node id {k}"
    pure fun i => (pairs.find? (·.1 == i)).map (·.2)

def rowOf (j : Json) : Except String (Val R) := numArr (R := R) j

/-- per-sequence data `{id: rows}` → list over timesteps of `{id: row}` -/
def parseSeqMap (j : Json) : Except String (Nat × (Nat → Nat → Option (Val R))) := do
  match j with
  | Json.null => pure (0, fun _ _ => none)
  | _ =>
    let obj ← j.getObj?
    let pairs ← obj.toList.mapM fun (k, v) => do
      match k.toNat? with
      | some i => pure (i, (← numMatRows (R := R) v).toArray)
      | none => throw s!"bad node id {k}"
    let len := match pairs with | [] => 0 | (_, rows) :: _ => rows.size
    for (_, rows) in pairs do
      if rows.size ≠ len then throw "DimMismatch: sequences of different lengths"
    pure (len, fun t i => (pairs.find? (·.1 == i)).bind fun p => p.2[t]?)

structure Scn where
  nodes : Array (NodeImpl R)
  net : FNet (Val R) (Mem R)
  order : List Nat

def storeJ (nodes : Array (NodeImpl R)) (σ : Store (Val R) (Mem R)) : Json :=
  Json.arr ((Array.range nodes.size).map fun i =>
    Json.mkObj [("st", arrJ (σ i).st), ("mem", Json.arr ((σ i).mem.map arrJ)),
                ("proxy", match (σ i).proxy with | some p => arrJ p | none => Json.null),
                ("clamp", match (σ i).clamp with | some p => arrJ p | none => Json.null)])

def statesJ (nodes : Array (NodeImpl R)) (σ : Store (Val R) (Mem R)) : Json :=
  Json.arr ((Array.range nodes.size).map fun i => arrJ (σ i).st)

/-- materialise a store into an array-backed function (keeps look-ups O(1) between operations) -/
def ofArray (a : Array (NState (Val R) (Mem R))) : Store (Val R) (Mem R) :=
  ⟨fun v => a.getD v { st := #[], mem := #[], proxy := none, clamp := none }⟩

def parseOpts (j : Json) : Except String (RunOpts (Val R)) := do
  let fs ← match fieldOpt j "from_state" with
    | some v => parseIdMap (rowOf R) v
    | none => pure fun _ => none
  let stateful := match fieldOpt j "stateful" with | some (Json.bool b) => b | _ => true
  let reset := match fieldOpt j "reset" with | some (Json.bool b) => b | _ => false
  pure { fromState := fs, stateful, reset }

def handleScenario (j : Json) : Except String Json := do
  let nodeJs ← arr (← field j "nodes")
  let nodes ← nodeJs.mapM (parseNode R)
  let N := nodes.size
  let order ← (← arr (← field j "order")).toList.mapM nat
  let parentsA ← (← arr (← field j "parents")).mapM fun p => do (← arr p).toList.mapM nat
  let fbA ← (← arr (← field j "fb")).mapM fun f => match f with
    | Json.null => pure none
    | v => do pure (some (← nat v))
  if parentsA.size ≠ N ∨ fbA.size ≠ N then throw "DimMismatch: parents/fb tables"
  for v in order do
    if v ≥ N then throw "bad node id in order"
  let net : FNet (Val R) (Mem R) :=
    { parents := fun v => parentsA.getD v [],
      fbSender := fun v => (fbA.getD v none),
      fwd := fun v m x ins fb => match nodes[v]? with
        | some nd => nd.fwd m x ins fb
        | none => (m, x),
      zero := fun v => match nodes[v]? with
        | some nd => Array.replicate nd.outDim 0
        | none => #[] }
  -- initial store
  let initJs ← arr (← field j "init")
  if initJs.size ≠ N then throw "DimMismatch: init"
  let inits ← initJs.mapM fun ij => do
    let st ← rowOf R (← field ij "st")
    let mem ← (← arr (← field ij "mem")).mapM (rowOf R)
    pure ({ st, mem, proxy := none, clamp := none } : NState (Val R) (Mem R))
  for i in [0:N] do
    match inits[i]?, nodes[i]? with
    | some ini, some nd => if ini.st.size ≠ nd.outDim then throw "DimMismatch: initial state"
    | _, _ => throw "DimMismatch: init"
  let mut σ : Store (Val R) (Mem R) := ofArray R inits
  let mut results : Array Json := #[]
  for opj in (← arr (← field j "ops")) do
    let op ← strField opj "op"
    match op with
    | "run" => do
        let o ← parseOpts R opj
        let shift := match fieldOpt opj "shift_fb" with | some (Json.bool b) => b | _ => true
        let mut seqs : List (List ((Nat → Option (Val R)) × Option (Nat → Option (Val R)))) := []
        for sj in (← arr (← field opj "seqs")) do
          let (len, xf) ← parseSeqMap R (← field sj "X")
          let xs : List (Nat → Option (Val R)) := (List.range len).map fun t => xf t
          match fieldOpt sj "forced" with
          | none => seqs := seqs ++ [freeInputs xs]
          | some fj => do
              let (flen, ff) ← parseSeqMap R fj
              if flen ≠ len then throw "DimMismatch: forced feedback length"
              let ys : List (Nat → Option (Val R)) := (List.range len).map fun t => ff t
              let zeroLike : (Nat → Option (Val R)) → (Nat → Option (Val R)) :=
                fun y i => (y i).map fun r => Array.replicate r.size 0
              let fbs := shiftForced zeroLike shift ys
              seqs := seqs ++ [(List.zip xs fbs).map fun (x, f) => (x, some f)]
        match fieldOpt opj "fail" with
        | some fj => do
            -- the (single) sequence raises at step k after the nodes `pre` were evaluated
            let k ← natField fj "step"
            let pre ← (← arr (← field fj "pre")).toList.mapM nat
            match seqs with
            | [sq] =>
              let σ' := runSeqFail net order o sq k pre σ
              let frozen := (Array.range N).map σ'
              σ := ofArray R frozen
              results := results.push (Json.mkObj [("failed", Json.bool true), ("store", storeJ R nodes σ)])
            | _ => throw "Unsupported: failing run with several sequences"
        | none => do
            let (obs, σ') := runModel net order o seqs σ
            let frozen := (Array.range N).map σ'
            σ := ofArray R frozen
            results := results.push (Json.mkObj [
              ("steps", Json.arr (obs.map (fun sq => Json.arr (sq.map (statesJ R nodes)).toArray)).toArray),
              ("store", storeJ R nodes σ)])
    | "call" => do
        let o ← parseOpts R opj
        let x ← parseIdMap (rowOf R) (← field opj "x")
        let forced ← match fieldOpt opj "forced" with
          | none => pure none
          | some fj => do pure (some (← parseIdMap (rowOf R) fj))
        match fieldOpt opj "fail" with
        | some fj => do
            let pre ← (← arr (← field fj "pre")).toList.mapM nat
            let σ' := callModelFail net order o x pre σ
            let frozen := (Array.range N).map σ'
            σ := ofArray R frozen
            results := results.push (Json.mkObj [("failed", Json.bool true), ("store", storeJ R nodes σ)])
        | none => do
            let (obs, σ') := callModel net order o x forced σ
            let frozen := (Array.range N).map σ'
            σ := ofArray R frozen
            results := results.push (Json.mkObj [("steps", statesJ R nodes obs), ("store", storeJ R nodes σ)])
    | "reset" => do
        let ts ← match fieldOpt opj "to_state" with
          | some v => parseIdMap (rowOf R) v
          | none => pure fun _ => none
        let all := match fieldOpt opj "to_state" with | some _ => false | none => true
        -- Model.reset(): every node to zero; Model.reset(to_state): only the named nodes
        let σ0 := σ
        let arr := (Array.range N).map fun v =>
          if v ∈ order then
            match ts v with
            | some s => { σ0 v with st := s }
            | none => if all then { σ0 v with st := net.zero v } else σ0 v
          else σ0 v
        σ := ofArray R arr
        results := results.push (Json.mkObj [("store", storeJ R nodes σ)])
    | _ => throw s!"Unsupported: op {op}"
  pure (Json.arr results)

end Drv
