import RpyModel.Codec
import RpyModel.Readout
open Lean Codec

namespace Drv
variable (R : Type) [Num R] [Inhabited R]

def absR (x : R) : R := if Num.lt x 0 then -x else x
def maxR (a b : R) : R := if Num.lt a b then b else a

def parseSeq (d o : Nat) (bias : Bool) (j : Json) :
    Except String (List (Vec R (d + (if bias then 1 else 0)) × Vec R o)) := do
  let X ← vecList (R := R) d (← field j "X")
  let Y ← vecList (R := R) o (← field j "Y")
  if X.length ≠ Y.length then throw "DimMismatch: X and Y lengths"
  let aug : Vec R d → Vec R (d + (if bias then 1 else 0)) := fun x =>
    if h : bias = true then (by rw [if_pos h]; exact withBias x) else (by rw [if_neg h]; exact x)
  pure ((List.zip X Y).map fun (x, y) => (aug x, y))

/-- exact ridge fit of a dataset; optionally the exact normal-equation residual of the
    implementation's solution -/
def handleRidgeFit (j : Json) : Except String Json := do
  let d ← natField j "d"
  let o ← natField j "o"
  let bias ← boolField j "bias"
  let lam : R ← numField j "ridge"
  let warmup ← natField j "warmup"
  let seqs ← (← arr (← field j "seqs")).toList.mapM (parseSeq R d o bias)
  for s in seqs do
    if s.length ≤ warmup then throw "Warmup: a sequence is not longer than the warm-up"
  let p := d + (if bias then 1 else 0)
  let g : Gram R p o := accumulate warmup (Gram.zero p o) seqs
  let mut fields : List (String × Json) := [("XXT", matJ g.XXT), ("YXT", matJ g.YXT)]
  match solveRidge g lam with
  | none => fields := fields ++ [("certified", Json.bool false)]
  | some W => fields := fields ++ [("certified", Json.bool true), ("W", matJ W)]
  match fieldOpt j "impl_W" with
  | none => pure ()
  | some w => do
      let Wi ← mat (R := R) p o w
      let lhs := matMul (ridgeMatrix g.XXT lam) Wi
      let rhs := transpose g.YXT
      let res : R := (List.finRange p).foldl (fun acc i =>
        (List.finRange o).foldl (fun acc j => maxR R acc (absR R (lhs[i][j] - rhs[i][j]))) acc) 0
      let scale : R := (List.finRange p).foldl (fun acc i =>
        (List.finRange o).foldl (fun acc j => maxR R acc (absR R rhs[i][j])) acc) 0
      fields := fields ++ [("impl_residual", numJ res), ("rhs_scale", numJ scale)]
  pure (Json.mkObj fields)

/-- the offline life of a Ridge node: partial fits, assignments of `ridge`, `fit()` and `fit(X, Y)`, run through
    `ridgeStep`; returns what the node holds at the end -/
def handleRidgeOps (j : Json) : Except String Json := do
  let d ← natField j "d"
  let o ← natField j "o"
  let bias ← boolField j "bias"
  let lam0 : R ← numField j "ridge0"
  let p := d + (if bias then 1 else 0)
  let mut node : RidgeNode R p o := { ridge := lam0, buf := none, W := none }
  for oj in (← arr (← field j "ops")).toList do
    let k ← strField oj "op"
    if k == "partial" || k == "fit_data" then
      let warmup ← natField oj "warmup"
      let seqs ← (← arr (← field oj "seqs")).toList.mapM (parseSeq R d o bias)
      for s in seqs do
        if s.length ≤ warmup then throw "Warmup: a sequence is not longer than the warm-up"
      node := ridgeStep node (if k == "partial" then .partialFit warmup seqs else .fitData warmup seqs)
    else if k == "ridge" then
      let lam : R ← numField oj "lam"
      node := ridgeStep node (.setRidge lam)
    else if k == "fit" then
      node := ridgeStep node .fit
    else throw s!"unknown ridge op {k}"
  pure (Json.mkObj [("ridge", numJ node.ridge), ("has_buffers", Json.bool node.buf.isSome),
    ("W", match node.W with | none => Json.null | some W => matJ W)])

/-- `readout_forward` on given weights -/
def handleReadoutForward (j : Json) : Except String Json := do
  let d ← natField j "d"
  let o ← natField j "o"
  let W ← mat (R := R) d o (← field j "Wout")
  let b ← vec (R := R) o (← field j "bias")
  let X ← vecList (R := R) d (← field j "X")
  pure (vecListJ (X.map (readoutForward W b)))

end Drv
