import RpyModel.Codec
import RpyModel.Sched
open Lean Codec Sched

namespace Drv

/-- `sched_replay`: replay an observed trace of enter / exit events of n tasks in the model.
    Task w contributes 2^w, so the final accumulator is a bit mask of the contributions it
    holds.  mode "locked": `stepL` (an enter while the lock is held is not enabled: reported);
    mode "unlocked": `stepU`. -/
def handleSchedReplay (j : Json) : Except String Json := do
  let n ← natField j "n"
  let mode ← strField j "mode"
  let evs ← arr (← field j "events")
  let c : Fin n → Nat := fun w => 2 ^ w.val
  let mut s : Sys Nat n := Sys.init 0
  let mut bad : Option Nat := none
  let mut idx := 0
  for e in evs do
    let w ← natField e "task"
    let kind ← strField e "ev"
    if h : w < n then
      let fw : Fin n := ⟨w, h⟩
      -- the event must match the task's program counter
      let okKind := match s.pc fw, kind with
        | .idle, "enter" => true
        | .holding _, "exit" => true
        | _, _ => false
      if !okKind && bad.isNone then bad := some idx
      if mode == "locked" then
        if !(enabledL s fw) && bad.isNone then bad := some idx
        s := stepL c s fw
      else
        s := stepU c s fw
    else throw "bad task id"
    idx := idx + 1
  let done := (List.finRange n).all fun w => (s.pc w).isDone
  pure (Json.mkObj [("acc", Json.num (JsonNumber.fromNat s.acc)), ("all_done", Json.bool done),
    ("full", Json.num (JsonNumber.fromNat (2 ^ n - 1))),
    ("inadmissible_at", match bad with | some i => Json.num (JsonNumber.fromNat i) | none => Json.null)])

/-- `sort_unpack`: completion-ordered (index, value) pairs -> values in input order -/
def handleSortUnpack (j : Json) : Except String Json := do
  let rs ← arr (← field j "results")
  let pairs ← rs.toList.mapM fun p => do
    let a ← arr p
    match a.toList with
    | [i, v] => pure ((← nat i), (← nat v))
    | _ => throw "bad pair"
  pure (natListJ (sortAndUnpack pairs))

end Drv
