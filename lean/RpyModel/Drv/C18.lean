import RpyModel.Codec
import RpyModel.Activations
open Lean Codec

namespace Drv

/-- log(1+u) evaluated accurately for tiny u (what `np.log1p` does): Lean's Float has no log1p,
    so use the classical correction log(1+u)·u/((1+u)−1) -/
def log1pF (u : Float) : Float :=
  let w := 1.0 + u
  if w == 1.0 then u else Float.log w * u / (w - 1.0)

def handleActivation (j : Json) : Except String Json := do
  let fn ← strField j "fn"
  let xs : Array Float ← numArr (R := Float) (← field j "x")
  let lt : Float → Float → Bool := fun a b => a < b
  match fn with
  | "softmax" => do
      let β : Float ← numField j "beta"
      match maxL lt xs.toList with
      | none => pure (arrJ (#[] : Array Float))
      | some m => pure (arrJ (softmaxStable Float.exp β m xs.toList).toArray)
  | "sigmoid" => pure (arrJ (xs.map (sigmoidBranch Float.exp lt)))
  | "softplus" => pure (arrJ (xs.map fun x =>
      (if 0.0 < x then x else 0.0) + log1pF (Float.exp (-(Float.abs x)))))
  | "relu" => pure (arrJ (xs.map (relu lt)))
  | "identity" => pure (arrJ xs)
  | "tanh" => pure (arrJ (xs.map Float.tanh))
  | _ => throw s!"Unsupported: activation {fn}"

end Drv
