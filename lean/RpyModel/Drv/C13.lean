import RpyModel.Codec
import RpyModel.MatGen
import RpyModel.Datasets
open Lean Codec

namespace Drv
variable (R : Type) [Num R] [NatCast R]

def pairListJ (l : List (Nat × Nat)) : Json :=
  Json.arr (l.toArray.map fun p => natListJ [p.1, p.2])

/-- `matgen_scale`: post-processing of a raw draw. `mode` = "sr" (needs rho, sr, eps),
    "scalar" (needs s) or "cols" (needs s as a vector) -/
def handleMatgenScale (j : Json) : Except String Json := do
  let n ← natField j "n"
  let m ← natField j "m"
  let mode ← strField j "mode"
  match mode with
  | "sr" =>
    if n != m then throw "ShapeError: sr needs a square matrix"
    let W ← mat (R := R) n n (← field j "W")
    let rho : R ← numField j "rho"
    let sr : R ← numField j "sr"
    let eps : R ← numField j "eps"
    pure (matJ (scaleSR (Num.lt (R := R)) eps W rho sr))
  | "scalar" =>
    let W ← mat (R := R) n m (← field j "W")
    let s : R ← numField j "s"
    pure (matJ (scaleInputsScalar W s))
  | "cols" =>
    let W ← mat (R := R) n m (← field j "W")
    let s ← vec (R := R) m (← field j "s")
    pure (matJ (scaleInputsCols W s))
  | _ => throw s!"unknown mode {mode}"

/-- `matgen_struct`: the deterministic structure: ring / line entries, the expected number of
    non-zeros for a density, the entries of a fixed-degree pattern -/
def handleMatgenStruct (j : Json) : Except String Json := do
  let n ← natField j "n"
  let m ← natField j "m"
  let dens ← strField j "density"
  let some d := parseRat dens | throw "bad density"
  let out ← boolField j "out"
  let ch ← arr (← field j "choices")
  let choices ← ch.toList.mapM fun c => do
    let a ← arr c
    a.toList.mapM nat
  pure (Json.mkObj [
    ("ring", pairListJ (ringEntries n)),
    ("line", pairListJ (lineEntries n)),
    ("nnz", Json.num (JsonNumber.fromInt (roundHalfEven (d * (n : Rat) * (m : Rat))))),
    ("degree", pairListJ (degreeEntries out choices))])

/-- `matgen_partial`: a history of partial applications. Handle 0 is the module-level
    initialiser (no stored keyword); op `{"h":k,"kw":[[key,val],…]}` creates a new handle from
    handle k.  Answer: the stored keywords of every handle, in creation order. -/
def handleMatgenPartial (j : Json) : Except String Json := do
  let ops ← arr (← field j "ops")
  let mut hs : List (Init String) := [⟨"f", []⟩]
  for o in ops do
    let h ← natField o "h"
    let kws ← arr (← field o "kw")
    let kw ← kws.toList.mapM fun p => do
      let a ← arr p
      match a.toList with
      | [k, v] => pure ((← str k), (← str v))
      | _ => throw "bad kw"
    if h ≥ hs.length then throw "bad handle"
    hs := heapStep hs (h, kw)
  pure (Json.arr (hs.toArray.map fun i => Json.arr (i.kwargs.toArray.map fun p => strListJ [p.1, p.2])))

end Drv
