import RpyModel.Codec
import RpyModel.Names
import RpyModel.Compat
import RpyModel.Readout
open Lean Codec

namespace Drv
variable (R : Type) [Num R]

def actName : Compat.Act → String
  | .tanh => "tanh" | .sigmoid => "sigmoid" | .identity => "identity" | .relu => "relu"

def parseCAct (s : String) : Except String Compat.Act :=
  match s with
  | "tanh" => pure .tanh | "sigmoid" => pure .sigmoid | "identity" => pure .identity | "relu" => pure .relu
  | _ => throw s!"Unsupported: activation {s}"

/-- `compat_run`: a legacy ESN (fields as saved + the activation), a readout matrix
    `Wout` (k × (n+1), bias first) and inputs.  Answers the legacy closed-loop run, the run of the
    saved-and-loaded legacy model and the run of the `load_compat` conversion. -/
def handleCompatRun (j : Json) : Except String Json := do
  let n ← natField j "n"
  let m ← natField j "m"
  let k ← natField j "k"
  let W ← mat (R := R) n n (← field j "W")
  let Win ← mat (R := R) n m (← field j "Win")
  let biasCol ← vec (R := R) n (← field j "biasCol")
  let hasFb ← boolField j "hasFb"
  let Wfb ← if hasFb then mat (R := R) n k (← field j "Wfb") else pure (mzero n k)
  let lr : R ← numField j "lr"
  let act ← parseCAct (← strField j "act")
  let fbact ← parseCAct (← strField j "fbact")
  let Wout ← mat (R := R) k (n + 1) (← field j "Wout")
  let U ← vecList (R := R) m (← field j "U")
  let mut evOk := true
  for a in [Compat.Act.tanh, .sigmoid, .identity, .relu] do
    if (Num.act (R := R) (actName a)).isNone then evOk := false
  if !evOk then throw "Unsupported: activation in this regime"
  let ev : Compat.Act → R → R := fun a => match Num.act (R := R) (actName a) with | some f => f | none => id
  let l : Compat.Legacy R n m k := ⟨W, Win, biasCol, hasFb, Wfb, lr, act, fbact⟩
  -- readout: y = Wout · [1; x]
  let ro : Vec R n → Vec R k := fun x =>
    Vector.ofFn fun i => Wout[i][0]'(by omega) + Fin.foldl n (fun acc c => acc + Wout[i][c.val + 1]'(by omega) * x[c]) 0
  let x0 : Vec R n := vzero n
  let y0 : Vec R k := vzero k
  let legacy := Compat.legacyRun ev l ro x0 y0 U
  let reloaded := Compat.legacyRun ev (Compat.load (Compat.save l)) ro x0 y0 U
  let conv := Compat.v3Run (Compat.loadCompat ev (Compat.save l)) ro ⟨vzero m, vzero k, vzero n⟩ ⟨x0, vzero n⟩ y0 U
  let enc (r : List (Vec R n × Vec R k)) : Json :=
    Json.mkObj [("X", vecListJ (r.map (·.1))), ("Y", vecListJ (r.map (·.2)))]
  pure (Json.mkObj [("legacy", enc legacy), ("reloaded", enc reloaded), ("converted", enc conv)])

/-- `names_history`: ops on a pool of nodes (one class) and models. -/
def handleNamesHistory (j : Json) : Except String Json := do
  let ops ← arr (← field j "ops")
  let mut s : Names.St := ⟨⟨[], 0⟩, [], []⟩
  for o in ops do
    let k ← strField o "op"
    let op : Names.Op ← match k with
      | "new_node" => pure Names.Op.newNode
      | "mk_model" => do
          let ids ← (← arr (← field o "ids")).toList.mapM nat
          if ids.any (· ≥ s.pool.length) then throw "bad node id"
          pure (Names.Op.mkModel ids)
      | "deepcopy_node" => do
          let i ← natField o "i"
          if i ≥ s.pool.length then throw "bad node id"
          pure (Names.Op.deepcopyNode i)
      | "copy_node" => do
          let i ← natField o "i"
          if i ≥ s.pool.length then throw "bad node id"
          pure (Names.Op.copyNode i)
      | "deepcopy_model" => do
          let i ← natField o "j"
          if i ≥ s.models.length then throw "bad model id"
          pure (Names.Op.deepcopyModel i)
      | "release" => do
          let i ← natField o "i"
          if i ≥ s.pool.length then throw "bad node id"
          pure (Names.Op.release i)
      | _ => throw s!"unknown op {k}"
    s := Names.stepOp s op
  pure (Json.mkObj [
    ("pool", strListJ (s.pool.map (·.name))),
    ("models", Json.arr (s.models.toArray.map fun m =>
      Json.mkObj [("nodes", strListJ (m.nodes.map (·.name))), ("keys", strListJ m.keys)]))])

end Drv
