import RpyModel.Codec
import RpyModel.Seeds
open Lean Codec Seeds

namespace Drv

def specOf (j : Json) : Except String SeedSpec := do
  match j with
  | Json.null => pure .none
  | _ =>
    match (j.getObjVal? "int").toOption with
    | some v => pure (.int (← nat v))
    | none => pure (.gen (← natField j "gen"))

def seedOp (j : Json) : Except String Op := do
  let k ← strField j "op"
  match k with
  | "set_seed" => pure (.setSeed (← natField j "s"))
  | "ds_set_seed" => pure (.dsSetSeed (← natField j "s"))
  | "new_gen" => pure (.newGen (← natField j "id") (← natField j "s"))
  | "init_call" => pure (.initCall (← specOf (← field j "spec")) (← strField j "req"))
  | "dataset" => pure (.dataset (← specOf (← field j "spec")) (← strField j "req"))
  | "legacy" => pure (.legacyDraw (← strField j "req"))
  | "mk_res" => pure (.mkRes (← natField j "id") (← specOf (← field j "spec")))
  | "init_res" => pure (.initRes (← natField j "id") (← strField j "rW") (← strField j "rWin") (← strField j "rBias"))
  | "init_fb" => pure (.initFb (← natField j "id") (← strField j "rWfb"))
  | "run_res" =>
    let ns ← arr (← field j "noise")
    let noise ← ns.toList.mapM fun p => do
      let a ← arr p
      match a.toList with
      | [r, b] => pure ((← str r), (← bool b))
      | _ => throw "bad noise"
    pure (.runRes (← natField j "id") (← strField j "input") (← natField j "steps") noise)
  | "mk_sk" => pure (.mkSk (← natField j "id"))
  | "fit_sk" => pure (.fitSk (← natField j "id") (← strField j "data"))
  | _ => throw s!"unknown op {k}"

/-- an operation that addresses something which does not exist is rejected, never defaulted -/
def opDefined (w : World) : Op → Bool
  | .initCall (.gen h) _ => (alGet w.heap h).isSome
  | .dataset (.gen h) _ => (alGet w.heap h).isSome
  | .mkRes _ (.gen h) => (alGet w.heap h).isSome
  | .initRes id .. => (alGet w.nodes id).isSome
  | .initFb id _ => (alGet w.nodes id).isSome
  | .runRes id .. => (alGet w.nodes id).isSome
  | .fitSk id _ => (alGet w.sks id).isSome
  | _ => true

def handleSeeds (j : Json) : Except String Json := do
  let ops ← (← arr (← field j "ops")).toList.mapM seedOp
  let mut w := World.fresh 0
  let mut outs : Array Json := #[]
  for o in ops do
    if !(opDefined w o) then throw "UndefinedReference"
    let p := step w o
    w := p.1
    outs := outs.push (strListJ (p.2.map Tag.render))
  pure (Json.arr outs)

end Drv
