import RpyModel.Codec
import RpyModel.Shapes
open Lean Codec

namespace Drv

def parseInp (j : Json) : Except String Inp := do
  let t ← strField j "t"
  match t with
  | "step" => pure (.step (← natField j "d"))
  | "seq" => pure (.seq (← natField j "T") (← natField j "d"))
  | "nseq" => pure (.nseq (← (← arr (← field j "lens")).toList.mapM nat) (← natField j "d"))
  | "nonNumeric" => pure .nonNumeric
  | "notArray" => pure .notArray
  | "badRank" => pure .badRank
  | _ => throw s!"bad input form {t}"

def optNatJ (o : Option Nat) : Json := match o with | some n => Json.num (JsonNumber.fromNat n) | none => Json.null

/-- replay a history of operations on the shape model of a node -/
def handleShapes (j : Json) : Except String Json := do
  let kj ← field j "kind_spec"
  let outMode ← strField kj "out"
  let units ← match fieldOpt kj "units" with | some v => nat v | none => pure 0
  let extra ← match fieldOpt kj "table" with
    | some v => (← arr v).toList.mapM fun e => do let a ← arr e; pure (← nat a[0]!, ← nat a[1]!)
    | none => pure []
  let k : Kind := {
    outOf := fun d => match outMode with
      | "units" => units
      | "same" => d
      | "table" => ((extra.find? (·.1 == d)).map (·.2)).getD 0
      | _ => d,
    outFromTarget := outMode == "target",
    offline := ← boolField kj "offline",
    online := ← boolField kj "online" }
  let mut s : NodeS := { inDim := match fieldOpt j "in_dim" with | some v => (nat v).toOption | none => none,
                         outDim := match fieldOpt j "out_dim" with | some v => (nat v).toOption | none => none,
                         init := false }
  let mut res : Array Json := #[]
  for oj in (← arr (← field j "ops")) do
    let o ← strField oj "op"
    let op ← match o with
      | "call" => do pure (Op.call (← parseInp (← field oj "x")))
      | "run" => do pure (Op.run (← parseInp (← field oj "x")))
      | "fit" => do pure (Op.fit (← parseInp (← field oj "x")) (← parseInp (← field oj "y")))
      | "train" => do pure (Op.train (← parseInp (← field oj "x")) (← parseInp (← field oj "y")))
      | _ => throw s!"bad op {o}"
    match applyOp k s op with
    | .ok (s', out) =>
        s := s'
        res := res.push (Json.mkObj [("accepted", Json.bool true),
          ("shape", match out with | some (r, c) => natListJ [r, c] | none => Json.null),
          ("in_dim", optNatJ s.inDim), ("out_dim", optNatJ s.outDim)])
    | .error e =>
        res := res.push (Json.mkObj [("accepted", Json.bool false), ("err", Json.str (toString (repr e))),
          ("in_dim", optNatJ s.inDim), ("out_dim", optNatJ s.outDim)])
  pure (Json.arr res)

end Drv
