import RpyModel.Codec
import RpyModel.Datasets
open Lean Codec

namespace Drv

def intListJ (l : List Int) : Json := Json.arr (l.toArray.map fun (n : Int) => Json.num (JsonNumber.fromInt n))

def intList (j : Json) : Except String (List Int) := do
  (← arr j).toList.mapM fun x => x.getInt?

/-- index maps of `to_forecasting` on a time axis of length n -/
def handleForecast (j : Json) : Except String Json := do
  let n ← natField j "n"
  let f ← natField j "forecast"
  if f = 0 then throw "Unsupported: forecast must be >= 1"
  let testLen ← match fieldOpt j "test_len" with
    | some v => nat v
    | none => match fieldOpt j "ratio" with
      | some r => do
          let q : Rat ← num r
          pure (roundHalfEven ((n : Rat) * q)).toNat
      | none => pure 0
  let r := toForecasting (List.range n) f testLen
  pure (Json.mkObj [("X", natListJ r.X), ("Xt", natListJ r.Xt), ("y", natListJ r.y), ("yt", natListJ r.yt),
                    ("test_len", Json.num (JsonNumber.fromNat testLen))])

def handleOneHot (j : Json) : Except String Json := do
  match fieldOpt j "seqs" with
  | some s => do
      let seqs ← (← arr s).toList.mapM intList
      let (enc, cls) := oneHotMulti seqs
      pure (Json.mkObj [("enc", Json.arr (enc.toArray.map fun sq => Json.arr (sq.toArray.map natListJ))),
                        ("classes", intListJ cls)])
  | none => do
      let labels ← intList (← field j "labels")
      let (enc, cls) := oneHot labels
      pure (Json.mkObj [("enc", Json.arr (enc.toArray.map natListJ)), ("classes", intListJ cls)])

variable (R : Type) [Num R]

/-- one exact step of a map from each observed value: the harness compares with the next
    observed value (step residual) -/
def handleMapSteps (j : Json) : Except String Json := do
  let fn ← strField j "fn"
  match fn with
  | "logistic" => do
      let r : R ← numField j "r"
      let s : Array R ← numArr (← field j "series")
      pure (arrJ (s.map (logisticStep r)))
  | "henon" => do
      let a : R ← numField j "a"
      let b : R ← numField j "b"
      let rows ← numMatRows (R := R) (← field j "series")
      let outs ← rows.mapM fun row =>
        if h : row.size = 2 then pure (henonStep a b (row[0], row[1])) else throw "DimMismatch: henon row"
      pure (Json.arr (outs.toArray.map fun p => Json.arr #[numJ p.1, numJ p.2]))
  | "narma" => do
      let order ← natField j "order"
      let a1 : R ← numField j "a1"
      let a2 : R ← numField j "a2"
      let b : R ← numField j "b"
      let c : R ← numField j "c"
      let y : Array R ← numArr (← field j "y")     -- the full array y[0 .. n+order)
      let u : Array R ← numArr (← field j "u")
      let yf := fun i => y.getD i 0
      let uf := fun i => u.getD i 0
      -- for every t in [order, len-1): the implemented and the documented next value
      let ts := (List.range y.size).filter fun t => order ≤ t ∧ t + 1 < y.size
      let impl := ts.map fun t => narmaNextImpl order a1 a2 b c yf uf t
      let doc := ts.map fun t => narmaNextDoc order a1 a2 b c yf uf t
      pure (Json.mkObj [("t", natListJ ts), ("impl", arrJ impl.toArray), ("doc", arrJ doc.toArray)])
  | _ => throw s!"unknown map {fn}"

end Drv
