/-
  Driver handler for reservoir runs (C01, C15): decode a reservoir descriptor and an input
  sequence, run `runRes`, return every emitted state and the final memory.
-/
import RpyModel.Codec
import RpyModel.Reservoir
open Lean Codec

namespace Drv
variable (R : Type) [Num R]

def parseWStore (n : Nat) (j : Json) : Except String (WStore R n) :=
  match fieldOpt j "coo" with
  | some c => do pure (.sparse (← coo (R := R) n n c))
  | none => do pure (.dense (← mat (R := R) n n j))

def parseEq (s : String) : Except String Equation :=
  match s with
  | "internal" => pure .internal
  | "external" => pure .external
  | _ => throw s!"bad equation {s}"

def parseAct (s : String) : Except String (R → R) :=
  match Num.act (R := R) s with
  | some f => pure f
  | none => throw s!"Unsupported: activation {s}"

def parseResParams (n m k : Nat) (j : Json) : Except String (ResParams R n m k) := do
  let W ← parseWStore R n (← field j "W")
  let Win ← mat (R := R) n m (← field j "Win")
  let bias ← vec (R := R) n (← field j "bias")
  let hasFb ← boolField j "hasFb"
  let Wfb ← if hasFb then mat (R := R) n k (← field j "Wfb") else pure (mzero n k)
  let lr ← vec (R := R) n (← field j "lr")
  let f ← parseAct R (← strField j "act")
  let g ← parseAct R (← strField j "fbact")
  let gIn : R ← match fieldOpt j "gIn" with | some v => num v | none => pure 0
  let gFb : R ← match fieldOpt j "gFb" with | some v => num v | none => pure 0
  let gRc : R ← match fieldOpt j "gRc" with | some v => num v | none => pure 0
  pure { W, Win, bias, hasFb, Wfb, lr, f, g, gIn, gFb, gRc }

def zeroDraw (n m k : Nat) : NoiseDraw R n m k := ⟨vzero m, vzero k, vzero n⟩

def handleReservoirRun (j : Json) : Except String Json := do
  let n ← natField j "n"
  let m ← natField j "m"
  let k ← natField j "k"
  let eq ← parseEq (← strField j "eq")
  let p ← parseResParams R n m k j
  let x0 ← vec (R := R) n (← field j "x0")
  let s0 ← vec (R := R) n (← field j "s0")
  let U ← vecList (R := R) m (← field j "U")
  let FB ← if p.hasFb then vecList (R := R) k (← field j "FB") else pure (U.map fun _ => vzero k)
  if FB.length ≠ U.length then throw "DimMismatch: FB length"
  -- optional explicit noise draws (used to check that zero gains ignore them)
  let XI : List (NoiseDraw R n m k) ← match fieldOpt j "XI" with
    | none => pure (U.map fun _ => zeroDraw R n m k)
    | some x => do
        (← arr x).toList.mapM fun e => do
          pure ⟨← vec (R := R) m (← field e "in"), ← vec (R := R) k (← field e "fb"),
                ← vec (R := R) n (← field e "rc")⟩
  if XI.length ≠ U.length then throw "DimMismatch: XI length"
  let steps : List (StepIn R n m k) :=
    (List.zip U (List.zip FB XI)).map fun (u, fb, xi) => ⟨u, fb, xi⟩
  let (outs, fin) := runRes eq p ⟨x0, s0⟩ steps
  pure (Json.mkObj [("X", vecListJ outs), ("x", vecJ fin.x), ("s", vecJ fin.s)])

end Drv
