/-
  Driver for C06: (a) the *explicit node-by-node procedure* for an offline fit, in exact
  arithmetic — every node is run alone over the whole dataset on its parents' recorded outputs,
  each Ridge readout is fitted (accumulate + certified solve) when reached and then predicts;
  (b) online training of a model, step by step, with the gated rules of RpyModel.Online.
-/
import RpyModel.Codec
import RpyModel.Dataflow
import RpyModel.Online
import RpyModel.Stages
import RpyModel.Drv.Flow
import RpyModel.Drv.C04
open Lean Codec

namespace Drv
variable (R : Type) [Num R] [Inhabited R]

structure RidgeSpec where
  lam : R
  bias : Bool

/-- fit one readout on per-sequence (inputs, targets), dropping `warmup` rows of each -/
def fitRidge (d o : Nat) (spec : RidgeSpec R) (warmup : Nat)
    (seqs : List (List (Val R) × List (Val R))) : Except String (Array (Array R)) := do
  let p := d + (if spec.bias then 1 else 0)
  let aug : Vec R d → Vec R p := fun x =>
    if h : spec.bias = true then (by simp only [p, if_pos h]; exact withBias x)
    else (by simp only [p, if_neg h]; exact x)
  let samples := seqs.map fun (xs, ys) =>
    (List.zip xs ys).map fun (x, y) => (aug (toVecD R d x), toVecD R o y)
  for s in samples do
    if s.length ≤ warmup then throw "Warmup: a sequence is not longer than the warm-up"
  let g : Gram R p o := accumulate warmup (Gram.zero p o) samples
  match solveRidge g spec.lam with
  | some W => pure (W.toArray.map (·.toArray))
  | none => throw "Other: ridge system not certified"

/-- prediction rows of a fitted readout: raw = bias row first when `bias` -/
def predictRidge (spec : RidgeSpec R) (raw : Array (Array R)) (x : Val R) : Val R :=
  let xa := if spec.bias then #[(1 : R)] ++ x else x
  let o := (raw.getD 0 #[]).size
  (Array.range o).map fun j =>
    (Array.range xa.size).foldl (fun acc i => acc + (raw.getD i #[]).getD j 0 * xa.getD i 0) 0

def parseRidge (j : Json) : Except String (Option (RidgeSpec R)) := do
  match (← strField j "kind") with
  | "ridge" => do
      let lam : R ← numField j "ridge"
      let bias ← boolField j "bias"
      pure (some { lam, bias })
  | _ => pure none

def handleExplicitFit (j : Json) : Except String Json := do
  let nodeJs ← arr (← field j "nodes")
  let N := nodeJs.size
  let specs ← nodeJs.mapM (parseRidge R)
  -- non-ridge nodes are decoded as in scenarios; ridge nodes get a placeholder
  let impls ← nodeJs.mapM fun nj => do
    match (← strField nj "kind") with
    | "ridge" => pure ({ kind := "ridge", inDim := ← natField nj "in_dim", outDim := ← natField nj "out_dim",
                         fwd := fun m x _ _ => (m, x) } : NodeImpl R)
    | _ => parseNode R nj
  let order ← (← arr (← field j "order")).toList.mapM nat
  let parentsA ← (← arr (← field j "parents")).mapM fun p => do (← arr p).toList.mapM nat
  let fbA ← (← arr (← field j "fb")).mapM fun f => match f with
    | Json.null => pure none
    | v => do pure (some (← nat v))
  let warmup ← natField j "warmup"
  let resetSeq := match fieldOpt j "reset_each_sequence" with | some (Json.bool b) => b | _ => false
  let forceTeachers := match fieldOpt j "force_teachers" with | some (Json.bool b) => b | _ => true
  let seqJs ← arr (← field j "seqs")
  let nseq := seqJs.size
  -- external inputs and targets per sequence
  let mut Xs : Array (Nat × (Nat → Nat → Option (Val R))) := #[]
  let mut Ys : Array (Nat × (Nat → Nat → Option (Val R))) := #[]
  for sj in seqJs do
    Xs := Xs.push (← parseSeqMap R (← field sj "X"))
    Ys := Ys.push (← parseSeqMap R (← field sj "Y"))
  -- outs[v][s] = rows of node v on sequence s
  let mut outs : Array (Array (List (Val R))) := Array.replicate N (Array.replicate nseq [])
  let mut fitted : Array (Option (Array (Array R))) := Array.replicate N none
  for v in order do
    let nd ← match impls[v]? with | some n => pure n | none => throw "bad node id"
    -- inputs of v on each sequence
    let mut insPerSeq : Array (List (List (Val R))) := #[]
    for s in [0:nseq] do
      let (len, xf) := Xs.getD s (0, fun _ _ => none)
      let rows := (List.range len).map fun t =>
        ((parentsA.getD v []).map fun p => ((outs.getD p #[]).getD s []).getD t #[]) ++ (xf t v).toList
      insPerSeq := insPerSeq.push rows
    match specs.getD v none with
    | some spec => do
        let data := (List.range nseq).map fun s =>
          let (len, yf) := Ys.getD s (0, fun _ _ => none)
          (((insPerSeq.getD s []).map (flat R)), (List.range len).map fun t => (yf t v).getD #[])
        let raw ← fitRidge R nd.inDim nd.outDim spec warmup data
        fitted := fitted.set! v (some raw)
        let o := (List.range nseq).map fun s => ((insPerSeq.getD s []).map fun ins => predictRidge R spec raw (flat R ins))
        outs := outs.set! v o.toArray
    | none => do
        -- run the node alone over the sequences, memory and state carried across them
        let mem0 : Mem R := (← arr (← field (nodeJs.getD v Json.null) "mem0")).mapM (rowOf R) |>.toOption.getD #[]
        let mut mem : Mem R := mem0
        let mut st : Val R := Array.replicate nd.outDim 0
        let mut vo : Array (List (Val R)) := #[]
        for s in [0:nseq] do
          if resetSeq then
            st := Array.replicate nd.outDim 0
            mem := mem0
          let (_, yf) := Ys.getD s (0, fun _ _ => none)
          let mut rows : List (Val R) := []
          let mut t := 0
          for ins in insPerSeq.getD s [] do
            -- teacher-forced feedback: the sender's target of step t-1, zero at the first step
            let fb : Option (Val R) := match fbA.getD v none with
              | none => none
              | some snd =>
                -- without teacher forcing the receiver reads the (never called, hence zero) state of the
                -- readout that is being fitted
                if t = 0 || !forceTeachers then (yf 0 snd).map fun r => Array.replicate r.size 0 else yf (t - 1) snd
            let (m', y) := nd.fwd mem st ins fb
            mem := m'
            st := y
            rows := rows ++ [y]
            t := t + 1
          vo := vo.push rows
        outs := outs.set! v vo
  let ws := (List.range N).filterMap fun v => (fitted.getD v none).map fun raw =>
    (toString v, Json.arr (raw.map (arrJ)))
  pure (Json.mkObj [("W", Json.mkObj ws)])


/-- the staging of `Model.fit` alone (`get_offline_subgraphs`): nodes in the model's order, parents, exits and
    offline flags in; the stages (their node lists, in visiting order), the final bookkeeping and the
    parents-first test of the order out -/
def handleStages (j : Json) : Except String Json := do
  let nodes ← (← arr (← field j "nodes")).toList.mapM nat
  let parentsA ← (← arr (← field j "parents")).mapM fun pj => do (← arr pj).toList.mapM nat
  let exits ← (← arr (← field j "exits")).toList.mapM nat
  let offl ← (← arr (← field j "offline")).toList.mapM nat
  let g : SG := { parents := fun v => parentsA.getD v [], isExit := fun v => exits.contains v,
                  offline := fun v => offl.contains v }
  let r := offlineStages g nodes
  let stages : List (List Nat) := r.1
  let s : PassSt := r.2
  pure (Json.mkObj [("stages", Json.arr (stages.toArray.map natListJ)),
                    ("trained", natListJ s.trained.reverse), ("included", natListJ s.included.reverse),
                    ("topo", Json.bool (topoLB g [] nodes)),
                    ("delivered", Json.arr ((deliveredAll g nodes).toArray.map fun (c, l) =>
                      Json.arr #[Json.num (JsonNumber.fromNat c), match l with | some l => natListJ l | none => Json.null])),
                    ("required", Json.arr ((required g nodes).toArray.map fun rel =>
                      Json.arr (rel.toArray.map fun (n, cs) => Json.arr #[Json.num (JsonNumber.fromNat n), natListJ cs]))),
                    ("route_faults", Json.arr ((routeFaults g nodes).toArray.map fun f =>
                      match f with
                      | .order c => Json.mkObj [("kind", Json.str "order"), ("node", Json.num (JsonNumber.fromNat c))]
                      | .missing c => Json.mkObj [("kind", Json.str "missing"), ("node", Json.num (JsonNumber.fromNat c))]
                      | .overwrite c => Json.mkObj [("kind", Json.str "overwrite"), ("node", Json.num (JsonNumber.fromNat c))])),
                    ("all_trained", Json.bool ((nodes.filter g.offline).all fun v => s.trained.contains v))])

end Drv
