import RpyModel.Codec
import RpyModel.Graph
open Lean Codec

namespace Drv

inductive GVal
  | op (o : Operand)
  | list (l : List Operand)

def edgeJ (e : Edge) : Json := Json.arr #[Json.num (JsonNumber.fromNat e.1), Json.num (JsonNumber.fromNat e.2)]
def edgesJ (l : List Edge) : Json := Json.arr (l.toArray.map edgeJ)

def parseEdges (j : Json) : Except String (List Edge) := do
  (← arr j).toList.mapM fun e => do
    let t ← arr e
    if t.size ≠ 2 then throw "bad edge"
    pure (← nat t[0]!, ← nat t[1]!)

def asOperands : GVal → List Operand
  | .op o => [o]
  | .list l => l

def build (ns : List Node) (es : List Edge) (next : Nat) : Except String (GVal × Nat) :=
  match mkModel ns es next with
  | (some (g, _), n') => pure (.op (.model g), n')
  | (none, _) => throw "Cycle"

/-- evaluate a graph expression; `next` = fresh Concat counter; `env` = previously bound values -/
partial def evalExprEnv (env : Array GVal) (j : Json) (next : Nat) : Except String (GVal × Nat) := do
  let evalExpr := evalExprEnv env
  let a ← arr j
  if a.size = 0 then throw "empty expr"
  let tag ← str a[0]!
  match tag with
  | "node" => pure (.op (.node (← nat a[1]!)), next)
  | "var" => do
      let k ← nat a[1]!
      match env[k]? with
      | some (.list []) => throw "TypeError: variable bound by a rejected statement"
      | some v => pure (v, next)
      | none => throw "unbound variable"
  | "list" => do
      let mut acc : List Operand := []
      let mut n := next
      for e in a.toList.drop 1 do
        let (v, n') ← evalExpr e n
        n := n'
        match v with
        | .op o => acc := acc ++ [o]
        | .list _ => throw "TypeError: nested list"
      pure (.list acc, n)
  | "model" => do
      let ns ← (← arr a[1]!).toList.mapM nat
      let es ← parseEdges a[2]!
      build ns es next
  | ">>" | "link" => do
      let (l, n1) ← evalExpr a[1]! next
      let (r, n2) ← evalExpr a[2]! n1
      if tag == ">>" then
        match l, r with
        | .list _, .list _ => throw "TypeError: list >> list"
        | _, _ => pure ()
      let (ns, es) := linkRaw (asOperands l) (asOperands r)
      build ns es n2
  | "&" | "&=" => do
      let (l, n1) ← evalExpr a[1]! next
      let (r, n2) ← evalExpr a[2]! n1
      match l with
      | .list _ => throw "TypeError: list & x"
      | .op lo =>
        if tag == "&=" then
          match lo with
          | .node _ => throw "ValueError: in-place merge needs a Model"
          | .model _ => pure ()
        -- `node & [a, b]` merges the node with every element
        let (ns, es) := mergeRaw (lo :: asOperands r)
        build ns es n2
  | "merge" => do
      -- `merge(first, *rest)`: the union of all operands (a list operand stands for its elements), ONE model built
      let mut n := next
      let mut vals : List GVal := []
      for e in a.toList.drop 1 do
        let (v, n') ← evalExpr e n
        n := n'
        vals := vals ++ [v]
      match vals with
      | [] => throw "TypeError: merge()"
      | .list _ :: _ => throw "TypeError: list & x"
      | .op lo :: rest =>
        let (ns, es) := mergeRaw (lo :: rest.flatMap asOperands)
        build ns es n
  | _ => throw s!"unknown expr tag {tag}"

def evalExpr (j : Json) (next : Nat) : Except String (GVal × Nat) := evalExprEnv #[] j next

def canonJ (g : Graph) : Json :=
  let c := canon g
  Json.mkObj [("nodes", natListJ c.nodes), ("edges", edgesJ c.edges), ("entries", natListJ c.entries),
              ("exits", natListJ c.exits), ("n_concat", Json.num (JsonNumber.fromNat (g.nodes.filter isConcat).length))]

def handleGraphExpr (j : Json) : Except String Json := do
  let (v, _) ← evalExpr (← field j "expr") 0
  match v with
  | .op (.model g) => pure (canonJ g)
  | .op (.node n) => pure (canonJ ⟨[n], []⟩)
  | .list _ => throw "TypeError: expression evaluates to a list"

def gvalJ : GVal → Json
  | .op (.model g) => canonJ g
  | .op (.node n) => Json.mkObj [("node", Json.num (JsonNumber.fromNat n))]
  | .list l => Json.mkObj [("list", Json.num (JsonNumber.fromNat l.length))]

/-- a straight-line program: `["set", k, expr]` binds variable k (k = number of earlier
    bindings), `["iand", k, expr]` is `var_k &= expr` (rebinds k).  A statement that is
    rejected leaves the environment unchanged and is reported; the final value of every
    variable is returned (so pollution of an earlier model by a later operation is visible). -/
def handleGraphProg (j : Json) : Except String Json := do
  let stmts ← arr (← field j "stmts")
  let mut env : Array GVal := #[]
  let mut next := 0
  let mut status : Array Json := #[]
  let mut stopped := false
  for st in stmts do
    if stopped then continue      -- a program stops at its first rejected statement
    let a ← arr st
    let tag ← str a[0]!
    let k ← nat a[1]!
    let e := if tag == "iand" then Json.arr #[Json.str "&=", Json.arr #[Json.str "var", a[1]!], a[2]!] else a[2]!
    match evalExprEnv env e next with
    | .ok (.op (.model g), n') =>
        next := n'
        let v := GVal.op (.model g)
        if k < env.size then env := env.set! k v else env := env.push v
        status := status.push (Json.str "ok")
    | .ok (_, _) =>
        if k ≥ env.size then env := env.push (.list [])
        status := status.push (Json.str "rej:TypeError: not a model")
        stopped := true
    | .error msg =>
        -- a failed `set` still has to occupy its slot: bind it to an empty model placeholder
        if k ≥ env.size then env := env.push (.list [])
        status := status.push (Json.str ("rej:" ++ msg))
        stopped := true
  pure (Json.mkObj [("status", Json.arr status), ("vars", Json.arr (env.map gvalJ))])

/-- canonical form and order validity of a graph given explicitly (the implementation's) -/
def handleGraphCheck (j : Json) : Except String Json := do
  let ns ← (← arr (← field j "nodes")).toList.mapM nat
  let es ← parseEdges (← field j "edges")
  let order ← (← arr (← field j "order")).toList.mapM nat
  let g : Graph := ⟨ns, es⟩
  pure (Json.mkObj [("canon", canonJ g), ("valid_order", Json.bool (validOrder g order)),
                    ("kahn_accepts", Json.bool (match kahn ns es with | .ok _ => true | _ => false))])

end Drv
