import RpyModel.Codec
import RpyModel.Training
import RpyModel.Readout
import RpyModel.Drv.C04
open Lean Codec

namespace Drv
variable (R : Type) [Num R] [Inhabited R]

/-- replay a training history on the abstract session model instantiated with the ridge rule
    (sequence = list of (x̃, y) samples; buffer = Gram matrices; solve = certified ridge solution) -/
def handleTraining (j : Json) : Except String Json := do
  let d ← natField j "d"
  let o ← natField j "o"
  let bias ← boolField j "bias"
  let lam : R ← numField j "ridge"
  let p := d + (if bias then 1 else 0)
  let rule : Rule (List (Vec R p × Vec R o)) (Gram R p o) (Option (Mat R p o)) :=
    { empty := Gram.zero p o,
      acc := fun g seq => g.add (seqGram seq),
      solve := fun g => solveRidge g lam }
  let mut n : TNode (Gram R p o) (Option (Mat R p o)) :=
    { params := none, fixed := 0, buf := none, frozen := false, fitted := false }
  let mut res : Array Json := #[]
  for oj in (← arr (← field j "ops")) do
    let op ← strField oj "op"
    let parseSeqs : Except String (List (List (Vec R p × Vec R o))) := do
      (← arr (← field oj "seqs")).toList.mapM (parseSeq R d o bias)
    let failAt : Option Nat := match fieldOpt oj "fail_at" with | some v => (nat v).toOption | none => none
    let top : TOp (List (Vec R p × Vec R o)) ← match op with
      | "run" => pure TOp.run
      | "partial_fit" => do pure (TOp.partialFit (← parseSeqs) failAt)
      | "fit" => do pure (TOp.fit (← parseSeqs) failAt)
      | "fit_nodata" => pure TOp.fitNoData
      | "freeze" => do pure (TOp.freeze (← boolField oj "value"))
      | _ => throw s!"bad op {op}"
    let (n', r) := applyT rule n top
    n := n'
    res := res.push (Json.mkObj [
      ("result", Json.str (match r with | .ok => "ok" | .rejected => "rejected" | .failed => "failed")),
      ("W", match n.params with | some W => matJ W | none => Json.null),
      ("has_buffers", Json.bool n.buf.isSome)])
  pure (Json.arr res)

end Drv
