import RpyModel.Codec
import RpyModel.Online
import RpyModel.Drv.C04
open Lean Codec

namespace Drv
variable (R : Type) [Num R] [Inhabited R]

/-- take chunks of the given sizes -/
def chunkBy {α : Type} : List Nat → List α → List (List α)
  | [], _ => []
  | n :: ns, l => l.take n :: chunkBy ns (l.drop n)

def handleOnlineTrain (j : Json) : Except String Json := do
  let rule ← strField j "rule"
  let d ← natField j "d"
  let o ← natField j "o"
  let bias ← boolField j "bias"
  let learnEvery ← natField j "learn_every"
  if learnEvery = 0 then throw "Unsupported: learn_every must be >= 1"
  let chunks ← (← arr (← field j "chunks")).toList.mapM nat
  let samples ← parseSeq R d o bias j
  if chunks.foldl (· + ·) 0 ≠ samples.length then throw "DimMismatch: chunks"
  let p := d + (if bias then 1 else 0)
  let pieces := chunkBy chunks samples
  match rule with
  | "rls" => do
      let alpha : R ← numField j "alpha"
      let mut st : RlsState R p o := rlsInit p o alpha
      let mut outs : List (Vec R o) := []
      let mut snaps : List Json := []
      let mut updated : List (Vec R p × Vec R o) := []
      for piece in pieces do
        let (st', os) := trainLoop (fun s x => predictRaw s.w x) rlsStep learnEvery st piece
        st := st'
        outs := outs ++ os
        -- the samples that were actually used for an update in this call
        let used := (List.zip (List.range piece.length) piece).filter
          (fun (i, _) => i % learnEvery = 0 ∨ piece.length = 1)
        updated := updated ++ used.map (·.2)
        -- closed form on the updated samples: ridge with lambda = alpha
        let g : Gram R p o := accumulate 0 (Gram.zero p o) [updated]
        let closed := match solveRidge g alpha with
          | some W => matJ W
          | none => Json.null
        snaps := snaps ++ [Json.mkObj [("w", matJ st.w), ("P", matJ st.P), ("closed", closed)]]
      pure (Json.mkObj [("outs", vecListJ outs), ("snaps", Json.arr snaps.toArray)])
  | "lms" => do
      let alphas : Array R ← numArr (← field j "alphas")
      if alphas.size = 0 then throw "DimMismatch: alphas"
      let af : Nat → R := fun i => alphas.getD i (alphas.getD (alphas.size - 1) 0)
      let mut st : LmsState R p o := { w := mzero p o, used := 0 }
      let mut outs : List (Vec R o) := []
      let mut snaps : List Json := []
      for piece in pieces do
        let (st', os) := trainLoop (fun s x => predictRaw s.w x) (lmsStep af) learnEvery st piece
        st := st'
        outs := outs ++ os
        snaps := snaps ++ [Json.mkObj [("w", matJ st.w), ("used", Json.num (JsonNumber.fromNat st.used))]]
      pure (Json.mkObj [("outs", vecListJ outs), ("snaps", Json.arr snaps.toArray)])
  | _ => throw s!"unknown rule {rule}"

def handleIpFit (j : Json) : Except String Json := do
  let n ← natField j "n"
  let m ← natField j "m"
  let W ← mat (R := R) n n (← field j "W")
  let Win ← mat (R := R) n m (← field j "Win")
  let bias ← vec (R := R) n (← field j "bias")
  let lr ← vec (R := R) n (← field j "lr")
  let actName ← strField j "act"
  let f ← match Num.act (R := R) actName with
    | some f => pure f
    | none => throw s!"Unsupported: activation {actName}"
  let eta : R ← numField j "eta"
  let mu : R ← numField j "mu"
  let sigma : R ← numField j "sigma"
  let epochs ← natField j "epochs"
  let seqs ← (← arr (← field j "seqs")).toList.mapM (vecList (R := R) m)
  let rule : R → R → R → R → R × R :=
    if actName == "tanh" then ipTanhStep eta mu sigma else ipSigStep eta mu
  let st0 : IpState R n := { x := vzero n, s := vzero n, a := Vector.replicate n 1, b := vzero n }
  let fin := ipFit W Win bias lr f rule epochs seqs st0
  pure (Json.mkObj [("a", vecJ fin.a), ("b", vecJ fin.b), ("x", vecJ fin.x), ("s", vecJ fin.s)])

end Drv
