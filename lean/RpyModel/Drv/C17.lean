import RpyModel.Codec
import RpyModel.Windows
open Lean Codec

namespace Drv
variable (R : Type) [Num R]

def rowsJ (rows : List (List R)) : Json := Json.arr (rows.toArray.map fun r => arrJ r.toArray)

def parseRows (dim : Nat) (j : Json) : Except String (List (List R)) := do
  let rows ← numMatRows (R := R) j
  for r in rows do
    if r.size ≠ dim then throw s!"DimMismatch: row of {r.size}, expected {dim}"
  pure (rows.map (·.toList))

def handleNvarRun (j : Json) : Except String Json := do
  let delay ← natField j "delay"
  let order ← natField j "order"
  let strides ← natField j "strides"
  let dim ← natField j "dim"
  if delay = 0 ∨ order = 0 ∨ strides = 0 then throw "Unsupported: delay/order/strides must be >= 1"
  let U ← parseRows R dim (← field j "U")
  let store0 : List (List R) ← match fieldOpt j "store" with
    | some s => parseRows R dim s
    | none => pure (nvarInit delay strides dim)
  if store0.length ≠ delay * strides then throw "DimMismatch: store"
  let (fin, outs) := nvarRun strides order store0 U
  pure (Json.mkObj [("rows", rowsJ R outs), ("store", rowsJ R fin)])

def handleDelayRun (j : Json) : Except String Json := do
  let d ← natField j "delay"
  let dim ← natField j "dim"
  let U ← parseRows R dim (← field j "U")
  let buf0 : List (List R) ← match fieldOpt j "init" with
    | some s => parseRows R dim s
    | none => pure (List.replicate d (List.replicate dim 0))
  if buf0.length ≠ d then throw "DimMismatch: initial_values"
  let (fin, outs) := delayRun buf0 U
  pure (Json.mkObj [("rows", rowsJ R outs), ("buffer", rowsJ R fin)])

def handleConcat (j : Json) : Except String Json := do
  let parts ← numMatRows (R := R) (← field j "parts")
  pure (arrJ (concatRows (parts.map (·.toList))).toArray)

end Drv
