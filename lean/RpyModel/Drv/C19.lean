import RpyModel.Codec
import RpyModel.Metrics
open Lean Codec

instance : NatCast Float := ⟨Float.ofNat⟩

namespace Drv
variable (R : Type) [Num R] [NatCast R]

def optJ (o : Option R) : Json := match o with | some v => numJ v | none => Json.null

def handleMetrics (j : Json) : Except String Json := do
  let y := (← numMatRows (R := R) (← field j "y")).map (·.toList)
  let yh := (← numMatRows (R := R) (← field j "yh")).map (·.toList)
  if !(sameShape y yh) then throw "DimMismatch: shapes differ"
  let lt := Num.lt (R := R)
  let cols := (List.range (width y)).map (column y)
  pure (Json.mkObj [
    ("mse", numJ (mse y yh)),
    ("mseDim", arrJ (mseDim y yh).toArray),
    ("rsq", numJ (rsquare y yh)),
    ("rsqDim", arrJ (rsquareDim y yh).toArray),
    ("minmax", optJ R (ptp lt y.flatten)),
    ("minmaxDim", Json.arr (cols.map (fun c => optJ R (ptp lt c))).toArray),
    ("var", numJ (varL y.flatten)),
    ("varDim", arrJ (cols.map varL).toArray),
    ("mean", numJ (meanL y.flatten)),
    ("meanDim", arrJ (cols.map meanL).toArray)])

def handleEffMatrix (j : Json) : Except String Json := do
  let n ← natField j "n"
  let W ← mat (R := R) n n (← field j "W")
  let lr : R ← numField j "lr"
  pure (matJ (effectiveMatrix W lr))

def handleRhoDiag (j : Json) : Except String Json := do
  let d : Array R ← numArr (← field j "d")
  pure (optJ R (rhoDiag (Num.lt (R := R)) d.toList))

end Drv
