/-
  RpyModel.Names — node names, the per-class registry and the name tables of a model
  (`_base.py` `_get_name` / `__setstate__`, `node.py` `Node.copy`, `model.py` `_node_registry`,
  `_params`, `_hypers`).  Names are values here; what a name table is keyed by is the point.
-/

namespace Names

structure NodeO where
  name : String
deriving Repr, DecidableEq

/-- a model: its nodes (in order) and the keys of its name-indexed tables -/
structure ModelO where
  nodes : List NodeO
  keys : List String
deriving Repr, DecidableEq

structure World where
  registry : List String          -- names taken (alive, registered)
  counter : Nat                   -- `_factory_id`
deriving Repr

/-- `_get_name(None)`: a fresh registered name -/
def freshName (w : World) : World × String :=
  let nm := s!"N-{w.counter}"
  ({ registry := nm :: w.registry, counter := w.counter + 1 }, nm)

/-- `__setstate__`: the copy takes `name-(copy)` when the name is taken; the new name is not
    registered -/
def setstateName (w : World) (nm : String) : String :=
  if nm ∈ w.registry then nm ++ "-(copy)" else nm

def newNode (w : World) : World × NodeO := let p := freshName w; (p.1, ⟨p.2⟩)

/-- `Model.__init__` / `update_graph`: tables keyed by the current names -/
def mkModel (nodes : List NodeO) : ModelO := ⟨nodes, nodes.map (·.name)⟩

/-- `copy.deepcopy(node)` / pickle round-trip -/
def deepcopyNode (w : World) (n : NodeO) : NodeO := ⟨setstateName w n.name⟩

/-- `Node.copy()`: deep copy, then a fresh registered name -/
def copyNode (w : World) (_n : NodeO) : World × NodeO := newNode w

/-- deep copy / unpickling of a model: every node goes through `__setstate__`, then
    `Model.__setstate__` re-keys the tables by the nodes' current names -/
def deepcopyModel (w : World) (m : ModelO) : ModelO :=
  let nodes := m.nodes.map (deepcopyNode w)
  ⟨nodes, nodes.map (·.name)⟩

/-- the same before the repair (defect D10): the tables keep the old keys -/
def deepcopyModelStale (w : World) (m : ModelO) : ModelO :=
  ⟨m.nodes.map (deepcopyNode w), m.keys⟩

/-- `__del__`: the name of a collected node is released -/
def release (w : World) (nm : String) : World := { w with registry := w.registry.erase nm }

/-- `get_node` -/
def ModelO.getNode (m : ModelO) (nm : String) : Option NodeO :=
  ((m.keys.zip m.nodes).find? (·.1 == nm)).map (·.2)

/-- the invariant every name-keyed operation relies on -/
def ModelO.Consistent (m : ModelO) : Prop := m.keys = m.nodes.map (·.name)

inductive Op
  | newNode                                -- creates a node (appended to the pool)
  | mkModel (ids : List Nat)               -- a model over pool nodes
  | deepcopyNode (i : Nat)
  | copyNode (i : Nat)
  | deepcopyModel (j : Nat)
  | release (i : Nat)                      -- the pool node i is garbage-collected

structure St where
  w : World
  pool : List NodeO
  models : List ModelO

def stepOp (s : St) : Op → St
  | .newNode => let p := newNode s.w; { s with w := p.1, pool := s.pool ++ [p.2] }
  | .mkModel ids => { s with models := s.models ++ [mkModel (ids.filterMap (s.pool[·]?))] }
  | .deepcopyNode i => match s.pool[i]? with
    | some n => { s with pool := s.pool ++ [deepcopyNode s.w n] }
    | none => s
  | .copyNode i => match s.pool[i]? with
    | some n => let p := copyNode s.w n; { s with w := p.1, pool := s.pool ++ [p.2] }
    | none => s
  | .deepcopyModel j => match s.models[j]? with
    | some m => let c := deepcopyModel s.w m; { s with pool := s.pool ++ c.nodes, models := s.models ++ [c] }
    | none => s
  | .release i => match s.pool[i]? with
    | some n => { s with w := release s.w n.name }
    | none => s

end Names
