/-
  RpyModel.Windows — NVAR (`nodes/reservoirs/nvar.py`), Delay (`nodes/delay.py`) and Concat
  (`nodes/concat.py`) as total functions on lists.  Rows are `List R`.
-/

/-- `np.roll(store, 1, axis=0); store[0] = x` on a store of fixed length (newest first). -/
def nvarPush {α : Type} (store : List α) (x : α) : List α := (x :: store).take store.length

/-- `a[::s]` : the elements at positions 0, s, 2s, … (`skip` = how many to pass over first). -/
def stridedAux {α : Type} (s : Nat) : Nat → List α → List α
  | _, [] => []
  | 0, x :: xs => x :: stridedAux s (s - 1) xs
  | c + 1, _ :: xs => stridedAux s c xs

def strided {α : Type} (s : Nat) (l : List α) : List α := stridedAux s 0 l

/-- helper of `combsWR`: for each suffix `x :: xs` of the pool, `x` in front of the smaller
    combinations of that suffix. -/
def combsAux {α : Type} (f : List α → List (List α)) : List α → List (List α)
  | [] => []
  | x :: xs => (f (x :: xs)).map (x :: ·) ++ combsAux f xs

/-- `itertools.combinations_with_replacement(pool, k)`, in itertools' (lexicographic) order. -/
def combsWRn {α : Type} : Nat → List α → List (List α)
  | 0, _ => [[]]
  | k + 1, l => combsAux (combsWRn k) l

def combsWR {α : Type} (l : List α) (k : Nat) : List (List α) := combsWRn k l

section
variable {R : Type} [Mul R] [One R] [Zero R]

def monomial (l : List R) : R := l.foldl (· * ·) 1

/-- The NVAR output for a (new) store: linear features, then all monomials of order `n`. -/
def nvarOut (strides order : Nat) (store : List (List R)) : List R :=
  let lin := (strided strides store).flatten
  lin ++ (combsWR lin order).map monomial

/-- One NVAR step: push the input, emit the features. -/
def nvarStep (strides order : Nat) (store : List (List R)) (x : List R) : List (List R) × List R :=
  let store' := nvarPush store x
  (store', nvarOut strides order store')

def nvarInit (delay strides dim : Nat) : List (List R) :=
  List.replicate (delay * strides) (List.replicate dim 0)

def nvarRun (strides order : Nat) : List (List R) → List (List R) → List (List R) × List (List R)
  | store, [] => (store, [])
  | store, x :: xs =>
    let (s', o) := nvarStep strides order store x
    let (fin, os) := nvarRun strides order s' xs
    (fin, o :: os)
end

/-- Delay: `buffer.appendleft(x); return buffer.pop()` on a deque written left to right. -/
def delayStep {α : Type} (buf : List α) (x : α) : List α × α :=
  match (x :: buf).getLast? with
  | some y => ((x :: buf).dropLast, y)
  | none => (buf, x)   -- unreachable: `x :: buf` is never empty

def delayRun {α : Type} : List α → List α → List α × List α
  | buf, [] => (buf, [])
  | buf, x :: xs =>
    let (b', y) := delayStep buf x
    let (fin, ys) := delayRun b' xs
    (fin, y :: ys)

/-- Concat along the feature axis: the inputs side by side, in the order given. -/
def concatRows {α : Type} (parts : List (List α)) : List α := parts.flatten
