/-
  RpyModel.Codec — scalar interface of the driver and the JSON codec of the line protocol.

  Exact regime: numbers are strings "p/q" (or "p"), decoded to core `Rat`.
  Float regime: numbers are the IEEE-754 bit patterns of float64 as decimal strings
  (`Float.ofBits` / `Float.toBits`), so the transfer is exact in both directions.
-/
import Lean.Data.Json
import RpyModel.Scalar
open Lean

class Num (R : Type) extends Add R, Mul R, Sub R, Zero R, One R, Neg R, Div R, ZeroTest R where
  parse : String → Option R
  render : R → String
  act : String → Option (R → R)
  lt : R → R → Bool
  ofNat : Nat → R

def parseRat (s : String) : Option Rat :=
  match s.splitOn "/" with
  | [p] => p.toInt?.map (fun i => (i : Rat))
  | [p, q] => do
      let a ← p.toInt?
      let b ← q.toNat?
      if b = 0 then none else some (mkRat a b)
  | _ => none

def ratStr (r : Rat) : String := if r.den = 1 then toString r.num else s!"{r.num}/{r.den}"

def ratRelu (x : Rat) : Rat := if x < 0 then 0 else x
def ratClip (x : Rat) : Rat := if x < -1 then -1 else if 1 < x then 1 else x
def ratAbs (x : Rat) : Rat := if x < 0 then -x else x

instance : Num Rat where
  parse := parseRat
  render := ratStr
  act := fun
    | "identity" | "id" => some id
    | "relu" | "re" => some ratRelu
    | "hardclip" => some ratClip
    | _ => none
  lt := fun a b => decide (a < b)
  ofNat := fun n => (n : Rat)

def fSigmoid (x : Float) : Float :=
  if x < 0.0 then let u := Float.exp x; u / (u + 1.0) else 1.0 / (1.0 + Float.exp (-x))
def fSoftplus (x : Float) : Float :=
  (if x > 0.0 then x else 0.0) + Float.log (1.0 + Float.exp (-(Float.abs x)))

instance : Num Float where
  parse := fun s => s.toNat?.map (fun n => Float.ofBits n.toUInt64)
  render := fun x => toString x.toBits.toNat
  act := fun
    | "identity" | "id" => some id
    | "relu" | "re" => some (fun x => if x < 0.0 then 0.0 else x)
    | "hardclip" => some (fun x => if x < -1.0 then -1.0 else if 1.0 < x then 1.0 else x)
    | "tanh" => some Float.tanh
    | "sigmoid" | "sig" => some fSigmoid
    | "softplus" | "sp" => some fSoftplus
    | _ => none
  lt := fun a b => a < b
  ofNat := fun n => Float.ofNat n

namespace Codec
variable {R : Type} [Num R]

def num (j : Json) : Except String R := do
  let s ← j.getStr?
  match Num.parse s with
  | some r => pure r
  | none => throw s!"bad number {s}"

def numJ (r : R) : Json := Json.str (Num.render r)

def field (j : Json) (k : String) : Except String Json := j.getObjVal? k

def fieldOpt (j : Json) (k : String) : Option Json :=
  match j.getObjVal? k with
  | .ok Json.null => none
  | .ok v => some v
  | .error _ => none

def nat (j : Json) : Except String Nat := j.getNat?
def str (j : Json) : Except String String := j.getStr?
def bool (j : Json) : Except String Bool := j.getBool?

def natField (j : Json) (k : String) : Except String Nat := do nat (← field j k)
def strField (j : Json) (k : String) : Except String String := do str (← field j k)
def boolField (j : Json) (k : String) : Except String Bool := do bool (← field j k)
def numField (j : Json) (k : String) : Except String R := do num (← field j k)

def arr (j : Json) : Except String (Array Json) := j.getArr?

def numArr (j : Json) : Except String (Array R) := do
  (← arr j).mapM num

def vec (n : Nat) (j : Json) : Except String (Vec R n) := do
  let a : Array R ← numArr j
  if h : a.size = n then pure ⟨a, h⟩ else throw s!"DimMismatch: vector of {a.size}, expected {n}"

def mat (n m : Nat) (j : Json) : Except String (Mat R n m) := do
  let rows ← (← arr j).mapM (vec (R := R) m)
  if h : rows.size = n then pure ⟨rows, h⟩ else throw s!"DimMismatch: {rows.size} rows, expected {n}"

def vecList (m : Nat) (j : Json) : Except String (List (Vec R m)) := do
  (← arr j).toList.mapM (vec (R := R) m)

def numMatRows (j : Json) : Except String (List (Array R)) := do
  (← arr j).toList.mapM numArr

def coo (n m : Nat) (j : Json) : Except String (COO R n m) := do
  (← arr j).toList.mapM fun e => do
    let t ← arr e
    if t.size ≠ 3 then throw "bad coo entry"
    let i ← nat t[0]!
    let jj ← nat t[1]!
    let v : R ← num t[2]!
    if hi : i < n then
      if hj : jj < m then pure (⟨i, hi⟩, ⟨jj, hj⟩, v)
      else throw "DimMismatch: coo col"
    else throw "DimMismatch: coo row"

def vecJ {n : Nat} (v : Vec R n) : Json := Json.arr (v.toArray.map numJ)
def arrJ (v : Array R) : Json := Json.arr (v.map numJ)
def matJ {n m : Nat} (M : Mat R n m) : Json := Json.arr (M.toArray.map vecJ)
def vecListJ {n : Nat} (l : List (Vec R n)) : Json := Json.arr (l.toArray.map vecJ)
def natListJ (l : List Nat) : Json := Json.arr (l.toArray.map fun (n : Nat) => Json.num (JsonNumber.fromNat n))
def strListJ (l : List String) : Json := Json.arr (l.toArray.map Json.str)

end Codec
