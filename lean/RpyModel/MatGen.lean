/-
  RpyModel.MatGen — `mat_gen.py`: partial application of an `Initializer` (persistent kwargs),
  post-processing of a raw draw (spectral-radius rescaling with its ε-floor, input scaling per
  column or by a scalar), and the deterministic structure of `ring`, `line` and fixed-degree
  matrices.  The raw random draw itself is a parameter.
-/
import RpyModel.Scalar

/-- an initializer = a function name and the keyword arguments stored so far -/
structure Init (V : Type) where
  func : String
  kwargs : List (String × V)

/-- `dict.update`: later writes win, other keys are kept -/
def updateKw {V : Type} (kw new : List (String × V)) : List (String × V) :=
  new.foldl (fun acc p => (acc.filter (fun q => q.1 != p.1)) ++ [p]) kw

/-- `Initializer.__call__(**kwargs)` without a shape: a *new* initializer (deep copy) with the
    keywords merged in; the original is not touched -/
def Init.partial {V : Type} (i : Init V) (new : List (String × V)) : Init V :=
  { i with kwargs := updateKw i.kwargs new }

/-- a history of partial applications on a heap of initialiser objects: op (h, kw) creates a new
    object from object h (`hs[h](**kw)`); an unknown handle is a no-op -/
def heapStep {V : Type} (hs : List (Init V)) (op : Nat × List (String × V)) : List (Init V) :=
  match hs[op.1]? with
  | some i => hs ++ [i.partial op.2]
  | none => hs

def lookupKw {V : Type} (kw : List (String × V)) (k : String) : Option V :=
  (kw.find? (·.1 == k)).map (·.2)

section
variable {R : Type} [Add R] [Mul R] [Sub R] [Zero R] [One R] [Div R] [Neg R]

/-- `_scale_spectral_radius`: `w *= sr / current_sr`, with `current_sr` floored at ε when it is
    (numerically) zero.  `rho` is what the eigen-solver returned for the raw draw. -/
def scaleSR {n : Nat} (lt : R → R → Bool) (eps : R) (w : Mat R n n) (rho sr : R) : Mat R n n :=
  let cur := if lt (-eps) rho && lt rho eps then eps else rho
  mscale (sr / cur) w

/-- `_scale_inputs` with a scalar factor -/
def scaleInputsScalar {n m : Nat} (w : Mat R n m) (s : R) : Mat R n m := mscale s w

/-- `_scale_inputs` with one factor per input (column) -/
def scaleInputsCols {n m : Nat} (w : Mat R n m) (s : Vec R m) : Mat R n m :=
  Vector.ofFn fun i => Vector.ofFn fun j => w[i][j] * s[j]

end

/-- `ring`: neuron j feeds neuron j+1 (mod n) with weight `ws[j]` -/
def ringEntries (n : Nat) : List (Nat × Nat) := (List.range n).map fun j => ((j + 1) % n, j)
/-- `line`: neuron j feeds neuron j+1 for j < n-1 -/
def lineEntries (n : Nat) : List (Nat × Nat) := (List.range (n - 1)).map fun j => (j + 1, j)

/-- fixed-degree sparsity pattern: for each of `k` sources the duplicate-free list of its
    `degree` targets (direction "out": source = column; "in": source = row) -/
def degreeEntries (out : Bool) (choices : List (List Nat)) : List (Nat × Nat) :=
  (List.zip (List.range choices.length) choices).flatMap fun (s, ts) =>
    ts.map fun t => if out then (t, s) else (s, t)
