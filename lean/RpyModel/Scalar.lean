/-
  RpyModel.Scalar — vectors, matrices and the generic scalar interface of the executable model.

  Core Lean only (no Mathlib): the same definitions run at `Rat` (exact regime E/T) and at
  `Float` (regime F) in the driver, and are the objects the theorems of `RpyProofs` quantify
  over (there `R` is an arbitrary field and the instance arguments resolve to Mathlib's).

  State is always `Vector` data, never a function `Fin n → R` (see DESIGN §2).
-/

abbrev Vec (R : Type) (n : Nat) := Vector R n
abbrev Mat (R : Type) (n m : Nat) := Vector (Vector R m) n

/-- A test for "this gain is zero", as `utils.random.noise` does with `abs(gain) > 0.0`. -/
class ZeroTest (R : Type) where
  isZero : R → Bool

instance : ZeroTest Rat := ⟨fun r => decide (r = 0)⟩
instance : ZeroTest Float := ⟨fun r => !(Float.abs r > 0.0)⟩

section
variable {R : Type} [Add R] [Mul R] [Sub R] [Zero R] [One R]

def dot {n : Nat} (a b : Vec R n) : R :=
  Fin.foldl n (fun acc j => acc + a[j] * b[j]) 0

def matVec {n m : Nat} (M : Mat R n m) (x : Vec R m) : Vec R n :=
  Vector.ofFn fun i => dot M[i] x

def vadd {n : Nat} (a b : Vec R n) : Vec R n := Vector.ofFn fun i => a[i] + b[i]
def vsub {n : Nat} (a b : Vec R n) : Vec R n := Vector.ofFn fun i => a[i] - b[i]
def vscale {n : Nat} (c : R) (a : Vec R n) : Vec R n := Vector.ofFn fun i => c * a[i]
def vmap {n : Nat} (f : R → R) (a : Vec R n) : Vec R n := Vector.ofFn fun i => f a[i]
def vzero (n : Nat) : Vec R n := Vector.replicate n 0

def mzero (n m : Nat) : Mat R n m := Vector.replicate n (vzero m)
def madd {n m : Nat} (A B : Mat R n m) : Mat R n m := Vector.ofFn fun i => vadd A[i] B[i]
def msub {n m : Nat} (A B : Mat R n m) : Mat R n m := Vector.ofFn fun i => vsub A[i] B[i]
def mscale {n m : Nat} (c : R) (A : Mat R n m) : Mat R n m := Vector.ofFn fun i => vscale c A[i]
def outer {n m : Nat} (a : Vec R n) (b : Vec R m) : Mat R n m :=
  Vector.ofFn fun i => Vector.ofFn fun j => a[i] * b[j]
def transpose {n m : Nat} (A : Mat R n m) : Mat R m n :=
  Vector.ofFn fun j => Vector.ofFn fun i => A[i][j]
def matMul {n m k : Nat} (A : Mat R n m) (B : Mat R m k) : Mat R n k :=
  Vector.ofFn fun i => Vector.ofFn fun j => Fin.foldl m (fun acc l => acc + A[i][l] * B[l][j]) 0
def identity (n : Nat) : Mat R n n :=
  Vector.ofFn fun i => Vector.ofFn fun j => if i.val = j.val then 1 else 0

/-- Sparse storage (stands for csr / csc): a list of `(row, col, value)`; duplicates add up. -/
abbrev COO (R : Type) (n m : Nat) := List (Fin n × Fin m × R)

def matVecCOO {n m : Nat} (c : COO R n m) (x : Vec R m) : Vec R n :=
  Vector.ofFn fun i => c.foldl (fun acc e => if e.1 = i then acc + e.2.2 * x[e.2.1] else acc) 0

def cooToDense {n m : Nat} (c : COO R n m) : Mat R n m :=
  Vector.ofFn fun i => Vector.ofFn fun j =>
    c.foldl (fun acc e => if e.1 = i ∧ e.2.1 = j then acc + e.2.2 else acc) 0

end
