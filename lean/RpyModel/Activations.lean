/-
  RpyModel.Activations — `activationsfunc.py`: softmax (global, with inverse temperature β),
  sigmoid (two-branch), softplus, relu, identity, tanh.  Generic in the scalar type and in the
  transcendental primitives (`exp`, `log`), so that the same definitions are evaluated at `Float`
  by the driver and reasoned about at ℝ (with `Real.exp`, `Real.log`) in the proofs.
-/

section
variable {R : Type} [Add R] [Mul R] [Sub R] [Neg R] [Div R] [Zero R] [One R]

def sumA (l : List R) : R := l.foldl (· + ·) 0

/-- the definition: `exp(β·xᵢ) / Σⱼ exp(β·xⱼ)` over *all* entries of the array -/
def softmaxDef (exp : R → R) (β : R) (xs : List R) : List R :=
  let s := sumA (xs.map fun y => exp (β * y))
  xs.map fun x => exp (β * x) / s

/-- the max-subtracted form (what a stable implementation evaluates): `m` is the largest entry -/
def softmaxStable (exp : R → R) (β : R) (m : R) (xs : List R) : List R :=
  let s := sumA (xs.map fun y => exp (β * (y - m)))
  xs.map fun x => exp (β * (x - m)) / s

def maxL (lt : R → R → Bool) : List R → Option R
  | [] => none
  | x :: xs => some (xs.foldl (fun m a => if lt m a then a else m) x)

/-- `sigmoid`: `eˣ/(eˣ+1)` for x < 0, `1/(1+e⁻ˣ)` otherwise -/
def sigmoidBranch (exp : R → R) (lt : R → R → Bool) (x : R) : R :=
  if lt x 0 then exp x / (exp x + 1) else 1 / (1 + exp (-x))

/-- stable softplus: `max(x,0) + log(1 + e^{-|x|})` -/
def softplusStable (exp log : R → R) (lt : R → R → Bool) (x : R) : R :=
  (if lt 0 x then x else 0) + log (1 + exp (-(if lt x 0 then -x else x)))

def relu (lt : R → R → Bool) (x : R) : R := if lt x 0 then 0 else x

end
