/-
  RpyModel.Shapes — the shape / dimension discipline of nodes (`_base.py: check_vector,
  check_one_sequence, check_n_sequences, check_xy`; `node.py: set_input_dim, set_output_dim,
  call, run, fit, partial_fit, train`): what is accepted, what is rejected, what dimensions a
  node ends up with and what shape it returns.  Numerics are abstracted away entirely.
-/

/-- the forms of data a caller can pass -/
inductive Inp
  | step (d : Nat)                      -- 1-D array of d features (one timestep)
  | seq (T d : Nat)                     -- 2-D array (T timesteps, d features)
  | nseq (lens : List Nat) (d : Nat)    -- list of 2-D arrays / 3-D array: several sequences
  | nonNumeric                          -- array of strings / objects / booleans
  | notArray                            -- not an array at all
  | badRank                             -- an array with too many axes
deriving DecidableEq, Repr

inductive Err | dimMismatch | typeError | unsupported | notInitialized
deriving DecidableEq, Repr

/-- what distinguishes node classes here -/
structure Kind where
  outOf : Nat → Nat          -- output dimension inferred from the input dimension
  outFromTarget : Bool       -- readouts: output dimension comes from the targets
  offline : Bool
  online : Bool

structure NodeS where
  inDim : Option Nat
  outDim : Option Nat
  init : Bool
deriving DecidableEq, Repr

inductive Op
  | call (x : Inp)
  | run (x : Inp)
  | fit (x y : Inp)
  | train (x y : Inp)
deriving DecidableEq, Repr

/-- the shape of an accepted result: rows × columns (per sequence for fits: none) -/
abbrev OutShape := Option (Nat × Nat)

def compat (declared : Option Nat) (d : Nat) : Bool :=
  match declared with | none => true | some e => e == d

/-- one sequence of input for `call` (a single step) -/
def asStep : Inp → Except Err Nat
  | .step d => .ok d
  | .seq 1 d => .ok d
  | .seq _ _ => .error .dimMismatch          -- several timesteps
  | .nseq _ _ => .error .typeError           -- "No lists, only arrays"
  | .nonNumeric => .error .typeError
  | .notArray => .error .typeError
  | .badRank => .error .dimMismatch

/-- one sequence of input for `run` / `train` -/
def asSeq : Inp → Except Err (Nat × Nat)
  | .step d => .ok (1, d)
  | .seq T d => .ok (T, d)
  | .nseq _ _ => .error .typeError
  | .nonNumeric => .error .typeError
  | .notArray => .error .typeError
  | .badRank => .error .dimMismatch

/-- a dataset for `fit`: one or several sequences -/
def asDataset : Inp → Except Err (List Nat × Nat)
  | .step d => .ok ([1], d)
  | .seq T d => .ok ([T], d)
  | .nseq lens d => .ok (lens, d)
  | .nonNumeric => .error .typeError
  | .notArray => .error .typeError
  | .badRank => .error .dimMismatch

/-- initialise (if needed) on input dimension `d` and, for readouts, target dimension `o` -/
def initOn (k : Kind) (s : NodeS) (d : Nat) (o : Option Nat) : Except Err NodeS :=
  if s.init then
    if s.inDim == some d && (match o with | none => true | some o' => s.outDim == some o')
    then .ok s else .error .dimMismatch
  else
    if !compat s.inDim d then .error .dimMismatch
    else
      let out : Option Nat :=
        if k.outFromTarget then (match s.outDim with | some e => some e | none => o)
        else some (k.outOf d)
      match out with
      | none => .error .notInitialized        -- a readout without declared or target dimension
      | some e =>
        if !compat s.outDim e then .error .dimMismatch
        else if (match o with | none => false | some o' => o' != e) then .error .dimMismatch
        else .ok { inDim := some d, outDim := some e, init := true }

def applyOp (k : Kind) (s : NodeS) : Op → Except Err (NodeS × OutShape)
  | .call x => do
      let d ← asStep x
      let s' ← initOn k s d none
      pure (s', s'.outDim.map fun o => (1, o))
  | .run x => do
      let (T, d) ← asSeq x
      -- an empty sequence cannot initialise a node (there is no first timestep to infer from)
      if T == 0 && !s.init then throw .notInitialized
      let s' ← initOn k s d none
      pure (s', s'.outDim.map fun o => (T, o))
  | .fit x y => do
      if !k.offline then throw .unsupported
      let (lx, d) ← asDataset x
      let (ly, o) ← asDataset y
      if lx != ly then throw .dimMismatch
      -- every sequence must be longer than the warm-up (0 here): no empty sequence
      if lx.any (· == 0) then throw .dimMismatch
      let s' ← initOn k s d (some o)
      pure (s', none)
  | .train x y => do
      if !k.online then throw .unsupported
      let (T, d) ← asSeq x
      let (Ty, o) ← asSeq y
      if T != Ty then throw .dimMismatch
      if T == 0 && !s.init then throw .notInitialized
      let s' ← initOn k s d (some o)
      pure (s', s'.outDim.map fun o' => (T, o'))

/-- a rejected operation leaves the node as it was -/
def stepKeep (k : Kind) (s : NodeS) (op : Op) : NodeS :=
  match applyOp k s op with
  | .ok (s', _) => s'
  | .error _ => s
