/-
  RpyModel.Sched — the accumulation step of parallel offline training
  (`nodes/readouts/ridge.py: partial_backward / _accumulate`, `nodes/esn.py: ESN.fit`,
  `compat/regression_models.py: partial_fit`) as a transition system over tasks (one per
  sequence): a task acquires the lock, reads the shared accumulator, writes accumulator +
  its own contribution, releases.  Without the lock the read and the write are two steps that any
  other task may interleave.  `_sort_and_unpack` restores the input order of results.
-/

namespace Sched

inductive PC (M : Type) | idle | holding (tmp : M) | done

def PC.isDone {M : Type} : PC M → Bool | .done => true | _ => false

structure Sys (M : Type) (n : Nat) where
  acc : M
  lock : Option (Fin n)
  pc : Fin n → PC M

def upd {α : Type} {n : Nat} (f : Fin n → α) (w : Fin n) (v : α) : Fin n → α :=
  fun x => if x = w then v else f x

variable {M : Type} [Add M] {n : Nat}

/-- one atomic step of task `w` under the lock discipline of `partial_backward(lock=...)` -/
def stepL (c : Fin n → M) (s : Sys M n) (w : Fin n) : Sys M n :=
  match s.pc w, s.lock with
  | .idle, none => { s with lock := some w, pc := upd s.pc w (.holding s.acc) }      -- acquire; read
  | .holding tmp, _ => { acc := tmp + c w, lock := none, pc := upd s.pc w .done }    -- write; release
  | _, _ => s                                                                         -- blocked / finished

/-- the same without any lock (the legacy trainer): read and write are separate steps -/
def stepU (c : Fin n → M) (s : Sys M n) (w : Fin n) : Sys M n :=
  match s.pc w with
  | .idle => { s with pc := upd s.pc w (.holding s.acc) }
  | .holding tmp => { s with acc := tmp + c w, pc := upd s.pc w .done }
  | .done => s

def runL (c : Fin n → M) (s : Sys M n) (sched : List (Fin n)) : Sys M n := sched.foldl (stepL c) s
def runU (c : Fin n → M) (s : Sys M n) (sched : List (Fin n)) : Sys M n := sched.foldl (stepU c) s

def Sys.init (a0 : M) : Sys M n := ⟨a0, none, fun _ => .idle⟩

/-- is the step of task w enabled (does it change the state) under the lock discipline? -/
def enabledL (s : Sys M n) (w : Fin n) : Bool :=
  match s.pc w, s.lock with
  | .idle, none => true
  | .holding _, _ => true
  | _, _ => false

/-- `enumerate(values)` starting at k -/
def indexedFrom {α : Type} : Nat → List α → List (Nat × α)
  | _, [] => []
  | k, v :: vs => (k, v) :: indexedFrom (k + 1) vs

/-- `_sort_and_unpack`: results come back as (index, value) pairs in completion order and are
    sorted by index -/
def sortAndUnpack {α : Type} (results : List (Nat × α)) : List α :=
  (results.mergeSort (fun a b => a.1 ≤ b.1)).map (·.2)

end Sched
