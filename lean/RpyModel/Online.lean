/-
  RpyModel.Online — online learning rules: RLS (`nodes/readouts/rls.py`), LMS (`lms.py`), the
  `learn_every`-gated training loop of `_base.train`, and the intrinsic-plasticity gradient
  steps of `nodes/reservoirs/intrinsic_plasticity.py`.

  p = regressors including the bias column when present, o = outputs.  `w` is the assembled
  weight matrix (`_assemble_wout`: bias row first), so a prediction is `wᵀ·x̃`.
-/
import RpyModel.Scalar
import RpyModel.Readout

section
variable {R : Type} [Add R] [Mul R] [Sub R] [Zero R] [One R]

/-- `wᵀ·x` -/
def predictRaw {p o : Nat} (w : Mat R p o) (x : Vec R p) : Vec R o :=
  Vector.ofFn fun j => Fin.foldl p (fun acc i => acc + w[i][j] * x[i]) 0

structure RlsState (R : Type) (p o : Nat) where
  w : Mat R p o
  P : Mat R p p

/-- `initialize`: zero weights, `P = I/alpha`. -/
def rlsInit [Div R] (p o : Nat) (alpha : R) : RlsState R p o :=
  { w := mzero p o, P := mscale (1 / alpha) (identity p) }

/-- One `_rls` update: `e = prediction − y` (prediction made *before* the update), `k = P·r`,
    `c = 1/(1 + rᵀk)`, `P ← P − c·k kᵀ`, `w ← w − c·k eᵀ`. -/
def rlsStep [Div R] {p o : Nat} (s : RlsState R p o) (x : Vec R p) (y : Vec R o) : RlsState R p o :=
  let e := vsub (predictRaw s.w x) y
  let k := matVec s.P x
  let c := 1 / (1 + dot x k)
  { P := msub s.P (mscale c (outer k k)), w := msub s.w (mscale c (outer k e)) }

/-- LMS state: the weights and how many elements of the learning-rate schedule were consumed. -/
structure LmsState (R : Type) (p o : Nat) where
  w : Mat R p o
  used : Nat

/-- One `_lms` update with schedule `alphas`: `w ← w − αₙ·r eᵀ`, one schedule element consumed. -/
def lmsStep {p o : Nat} (alphas : Nat → R) (s : LmsState R p o) (x : Vec R p) (y : Vec R o) :
    LmsState R p o :=
  let e := vsub (predictRaw s.w x) y
  { w := msub s.w (mscale (alphas s.used) (outer x e)), used := s.used + 1 }

/-- `_base.train` for one call on `samples`: at step `i` emit the prediction of the current
    parameters, then update when `i % learnEvery = 0` (or when the call has a single step). -/
def trainLoopAux {S X Y O : Type} (pred : S → X → O) (step : S → X → Y → S) (learnEvery len : Nat) :
    Nat → S → List (X × Y) → S × List O
  | _, s, [] => (s, [])
  | i, s, (x, y) :: rest =>
    let out := pred s x
    let s' := if i % learnEvery = 0 ∨ len = 1 then step s x y else s
    let (fin, outs) := trainLoopAux pred step learnEvery len (i + 1) s' rest
    (fin, out :: outs)

def trainLoop {S X Y O : Type} (pred : S → X → O) (step : S → X → Y → S) (learnEvery : Nat)
    (s : S) (samples : List (X × Y)) : S × List O :=
  trainLoopAux pred step learnEvery samples.length 0 s samples

end

/-! ### intrinsic plasticity (element-wise gradient steps) -/
section
variable {R : Type} [Add R] [Mul R] [Sub R] [Neg R] [Div R] [Zero R] [One R]

/-- `gaussian_gradients` + `apply_gradients` for one unit (tanh neurons):
    `Δb = −η(−μ/σ² + (y/σ²)(2σ² + 1 − y² + μy))`, `Δa = η/a + Δb·x`. -/
def ipTanhStep (eta mu sigma : R) (a b x y : R) : R × R :=
  let sig2 := sigma * sigma
  let db := -eta * (-(mu / sig2) + (y / sig2) * ((1 + 1) * sig2 + 1 - y * y + mu * y))
  let da := eta / a + db * x
  (a + da, b + db)

/-- `exp_gradients` + `apply_gradients` (sigmoid neurons):
    `Δb = η(1 − (2 + 1/μ)y + y²/μ)`, `Δa = η/a + Δb·x`. -/
def ipSigStep (eta mu : R) (a b x y : R) : R × R :=
  let db := eta * (1 - ((1 + 1) + 1 / mu) * y + (y * y) / mu)
  let da := eta / a + db * x
  (a + da, b + db)

structure IpState (R : Type) (n : Nat) where
  x : Vec R n      -- state()
  s : Vec R n      -- internal_state
  a : Vec R n
  b : Vec R n

/-- One timestep of `IPReservoir.backward`: forward (external equation with activation
    `f(a·s + b)`), then one plasticity step from `(pre, post)`. -/
def ipTrainStep {n m : Nat} (W : Mat R n n) (Win : Mat R n m) (bias : Vec R n) (lr : Vec R n)
    (f : R → R) (rule : R → R → R → R → R × R) (st : IpState R n) (u : Vec R m) : IpState R n :=
  let pre := vadd (vadd (matVec W st.x) (matVec Win u)) bias
  let s' : Vec R n := Vector.ofFn fun i => (1 - lr[i]) * st.s[i] + lr[i] * pre[i]
  let x' : Vec R n := Vector.ofFn fun i => f (st.a[i] * s'[i] + st.b[i])
  let ab : Vector (R × R) n := Vector.ofFn fun i => rule st.a[i] st.b[i] s'[i] x'[i]
  { x := x', s := s', a := Vector.ofFn fun i => ab[i].1, b := Vector.ofFn fun i => ab[i].2 }

/-- `backward`: epochs × sequences × timesteps, the state carried through. -/
def ipFit {n m : Nat} (W : Mat R n n) (Win : Mat R n m) (bias : Vec R n) (lr : Vec R n)
    (f : R → R) (rule : R → R → R → R → R × R) (epochs : Nat) (seqs : List (List (Vec R m)))
    (st : IpState R n) : IpState R n :=
  (List.range epochs).foldl (fun st _ =>
    seqs.foldl (fun st seq => seq.foldl (ipTrainStep W Win bias lr f rule) st) st) st

end
