/-
  RpyModel.Reservoir — the reservoir update equations of
  `reservoirpy/nodes/reservoirs/base.py` (`reservoir_kernel`, `forward_internal`,
  `forward_external`) and the `call`/`run` state plumbing of `node.py`, as total functions.

  n = units, m = input dimension, k = feedback dimension.
-/
import RpyModel.Scalar

section
variable {R : Type} [Add R] [Mul R] [Sub R] [Zero R] [One R] [ZeroTest R]

/-- How the recurrent matrix is stored: a dense array or a sparse (csr/csc) triple list. -/
inductive WStore (R : Type) (n : Nat) where
  | dense (W : Mat R n n)
  | sparse (c : COO R n n)

def WStore.apply {n : Nat} : WStore R n → Vec R n → Vec R n
  | .dense W, x => matVec W x
  | .sparse c, x => matVecCOO c x

structure ResParams (R : Type) (n m k : Nat) where
  W : WStore R n
  Win : Mat R n m
  bias : Vec R n            -- the zero vector when `input_bias=False`
  hasFb : Bool
  Wfb : Mat R n k
  lr : Vec R n              -- a scalar leak rate is the constant vector
  f : R → R                 -- activation
  g : R → R                 -- feedback activation
  gIn : R
  gFb : R
  gRc : R

/-- One step's worth of raw noise draws (input, feedback, state). -/
structure NoiseDraw (R : Type) (n m k : Nat) where
  xiIn : Vec R m
  xiFb : Vec R k
  xiRc : Vec R n

/-- `utils.random.noise`: exactly zero when the gain is zero, else gain × draw. -/
def noiseVec {d : Nat} (gain : R) (xi : Vec R d) : Vec R d :=
  if ZeroTest.isZero gain then vzero d else vscale gain xi

/-- `reservoir_kernel`: W·r + Win·(u + noise) + bias (+ Wfb·(g(fb) + noise)). -/
def kernel {n m k : Nat} (p : ResParams R n m k) (u : Vec R m) (r : Vec R n) (fb : Vec R k)
    (xi : NoiseDraw R n m k) : Vec R n :=
  let base := vadd (vadd (p.W.apply r) (matVec p.Win (vadd u (noiseVec p.gIn xi.xiIn)))) p.bias
  if p.hasFb then vadd base (matVec p.Wfb (vadd (vmap p.g fb) (noiseVec p.gFb xi.xiFb))) else base

/-- The node's memory: `state()` and the `internal_state` parameter. -/
structure ResState (R : Type) (n : Nat) where
  x : Vec R n
  s : Vec R n

/-- `forward_internal`. -/
def fwdInternal {n m k : Nat} (p : ResParams R n m k) (st : ResState R n) (u : Vec R m)
    (fb : Vec R k) (xi : NoiseDraw R n m k) : ResState R n :=
  let pre := kernel p u st.x fb xi
  let nz := noiseVec p.gRc xi.xiRc
  { x := Vector.ofFn fun i => (1 - p.lr[i]) * st.x[i] + p.lr[i] * p.f pre[i] + nz[i],
    s := st.s }

/-- `forward_external`: the leaky memory is the pre-activation `internal_state`. -/
def fwdExternal {n m k : Nat} (p : ResParams R n m k) (st : ResState R n) (u : Vec R m)
    (fb : Vec R k) (xi : NoiseDraw R n m k) : ResState R n :=
  let pre := kernel p u st.x fb xi
  let nz := noiseVec p.gRc xi.xiRc
  let s' : Vec R n := Vector.ofFn fun i => (1 - p.lr[i]) * st.s[i] + p.lr[i] * pre[i] + nz[i]
  { x := vmap p.f s', s := s' }

inductive Equation where
  | internal | external
  deriving DecidableEq, Repr

def fwdRes {n m k : Nat} (eq : Equation) (p : ResParams R n m k) (st : ResState R n)
    (u : Vec R m) (fb : Vec R k) (xi : NoiseDraw R n m k) : ResState R n :=
  match eq with
  | .internal => fwdInternal p st u fb xi
  | .external => fwdExternal p st u fb xi

/-- One timestep's external data. -/
structure StepIn (R : Type) (n m k : Nat) where
  u : Vec R m
  fb : Vec R k
  xi : NoiseDraw R n m k

/-- `Node.run`: iterate `call`; returns the emitted states (one per step) and the final memory. -/
def runRes {n m k : Nat} (eq : Equation) (p : ResParams R n m k) :
    ResState R n → List (StepIn R n m k) → List (Vec R n) × ResState R n
  | st, [] => ([], st)
  | st, i :: is =>
    let st' := fwdRes eq p st i.u i.fb i.xi
    let (outs, fin) := runRes eq p st' is
    (st'.x :: outs, fin)

/-- The sequence of memories visited by a run (including the start). -/
def trajRes {n m k : Nat} (eq : Equation) (p : ResParams R n m k) :
    ResState R n → List (StepIn R n m k) → List (ResState R n)
  | st, [] => [st]
  | st, i :: is => st :: trajRes eq p (fwdRes eq p st i.u i.fb i.xi) is

end
