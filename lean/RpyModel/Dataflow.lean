/-
  RpyModel.Dataflow — the per-timestep dataflow of a `Model` (model.py: forward, _call, _run,
  call, run, with_state, with_feedback, _load_proxys, _clean_proxys; utils/graphflow.py:
  DataDispatcher, dispatch; _base.py: DistantFeedback.call_distant_node / clamp, call).

  Generic in the value type `S` (a node's output row) and the hidden-memory type `M`.  Nodes are
  natural numbers; `order` is the model's execution order (`model.nodes`).  A feedback sender may
  be a node outside `order`.  Everything is a total function on stores `Nat → NState S M`.
-/

structure NState (S M : Type) where
  st : S                 -- `state()`: the last output
  mem : M                -- hidden memory (internal_state / store / buffer / learned parameters)
  proxy : Option S       -- `_state_proxy`
  clamp : Option S       -- one-shot forced feedback held by a *receiver*'s DistantFeedback

/-- The store: one `NState` per node.  A structure around the look-up function (not a bare
    function type) so that the compiler treats store-valued functions as returning data: a
    store-valued recursion is then evaluated once, not re-run at every look-up. -/
structure Store (S M : Type) where
  get : Nat → NState S M

instance {S M : Type} : CoeFun (Store S M) (fun _ => Nat → NState S M) := ⟨Store.get⟩

structure FNet (S M : Type) where
  parents : Nat → List Nat           -- ordered parents (DataDispatcher order)
  fbSender : Nat → Option Nat        -- sender of the feedback connection of a receiver
  /-- node, hidden memory, own state, inputs (parents' states then the external input), feedback -/
  fwd : Nat → M → S → List S → Option S → M × S
  zero : Nat → S                     -- `zero_state()`

variable {S M : Type}

def NState.stateProxy (ns : NState S M) : S := ns.proxy.getD ns.st

def upd (σ : Store S M) (v : Nat) (x : NState S M) : Store S M := ⟨fun w => if w = v then x else σ w⟩

/-- `node.feedback()`: the clamped value if one is pending (and it is consumed), else the
    sender's frozen state. Returns the value and the store after consumption. -/
def readFb (net : FNet S M) (σ : Store S M) (v : Nat) : Option S × Store S M :=
  match net.fbSender v with
  | none => (none, σ)
  | some s =>
    let sv := σ v
    match sv.clamp with
    | some c => (some c, upd σ v { sv with clamp := none })
    | none => (some (σ s).stateProxy, σ)

/-- inputs of node `v`: its parents' *current* states, then its external input if any -/
def inputsOf (net : FNet S M) (ext : Nat → Option S) (σ : Store S M) (v : Nat) : List S :=
  (net.parents v).map (fun p => (σ p).st) ++ (ext v).toList

/-- `forward`: one `_base.call` per node, in order. Proxies are not touched. -/
def forwardF (net : FNet S M) (ext : Nat → Option S) : List Nat → Store S M → Store S M
  | [], σ => σ
  | v :: vs, σ =>
    let (fb, σ1) := readFb net σ v
    let sv := σ1 v
    let r := net.fwd v sv.mem sv.st (inputsOf net ext σ1 v) fb
    forwardF net ext vs (upd σ1 v { sv with st := r.2, mem := r.1 })

/-- `_load_proxys(keep)` on the model's nodes -/
def loadProxys (order : List Nat) (keep : Bool) (σ : Store S M) : Store S M :=
  ⟨fun v =>
    let s := σ v
    if v ∈ order then (if keep && s.proxy.isSome then s else { s with proxy := some s.st }) else s⟩

/-- `_clean_proxys()` on the model's nodes -/
def cleanProxys (order : List Nat) (σ : Store S M) : Store S M :=
  ⟨fun v =>
    let s := σ v
    if v ∈ order then { s with proxy := none } else s⟩

/-- entering `Model.with_feedback(forced)`: for every model node, the value keyed by the node
    or (for a receiver) by its sender; a receiver is clamped, any other node gets its proxy
    overwritten. -/
def enterFbStep (net : FNet S M) (forced : Nat → Option S) (σ : Store S M) (v : Nat) : Store S M :=
  match net.fbSender v with
  | some s =>
    match (forced v).orElse (fun _ => forced s) with
    | some val => let sv := σ v; upd σ v { sv with clamp := some val }
    | none => σ
  | none =>
    match forced v with
    | some val => let sv := σ v; upd σ v { sv with proxy := some val }
    | none => σ

def enterFeedback (net : FNet S M) (order : List Nat) (forced : Nat → Option S) (σ : Store S M) :
    Store S M :=
  order.foldl (enterFbStep net forced) σ

/-- leaving it with `stateful = false`: non-receivers get their previous proxy back -/
def exitFeedback (net : FNet S M) (order : List Nat) (σ0 σ : Store S M) : Store S M :=
  ⟨fun v =>
    let s := σ v
    if v ∈ order ∧ (net.fbSender v).isNone then { s with proxy := (σ0 v).proxy } else s⟩

/-- entering `with_state(from_state, reset)` on the model's nodes -/
def enterState (net : FNet S M) (order : List Nat) (fromState : Nat → Option S) (reset : Bool)
    (σ : Store S M) : Store S M :=
  ⟨fun v =>
    let s := σ v
    if v ∈ order then
      { s with st := match fromState v with
                     | some x => x
                     | none => if reset then net.zero v else s.st }
    else s⟩

/-- leaving it: with `stateful = false` every model node gets back the state it had on entry -/
def exitState (order : List Nat) (stateful : Bool) (σ0 σ : Store S M) : Store S M :=
  if stateful then σ else ⟨fun v =>
    let s := σ v
    if v ∈ order then { s with st := (σ0 v).st } else s⟩

/-- one iteration of the loop of `Model._run`: forced feedback (if any), `_call`, reload proxies.
    Returns the store right after `_call` (what `return_states` reads) and the store after the
    iteration. -/
def stepM (net : FNet S M) (order : List Nat) (σ : Store S M)
    (inp : (Nat → Option S) × Option (Nat → Option S)) : Store S M × Store S M :=
  match inp.2 with
  | none =>
    let σc := forwardF net inp.1 order σ
    (σc, loadProxys order false σc)
  | some forced =>
    let σe := enterFeedback net order forced σ
    let σc := forwardF net inp.1 order σe
    (σc, loadProxys order false (exitFeedback net order σ σc))

/-- the loop: returns the per-step observation stores and the final store -/
def loopM (net : FNet S M) (order : List Nat) :
    Store S M → List ((Nat → Option S) × Option (Nat → Option S)) → List (Store S M) × Store S M
  | σ, [] => ([], σ)
  | σ, i :: is =>
    let (obs, σ') := stepM net order σ i
    let (os, fin) := loopM net order σ' is
    (obs :: os, fin)

/-- `dispatch(X, feedback, shift_fb)`: the forced value seen at step i is `zero` at i = 0 and
    `Y[i-1]` afterwards, or `Y[i]` when shifting is disabled. -/
def shiftForced (zeroLike : (Nat → Option S) → (Nat → Option S)) (shift : Bool)
    (ys : List (Nat → Option S)) : List (Nat → Option S) :=
  if shift then
    match ys with
    | [] => []
    | y0 :: _ => (zeroLike y0 :: ys).take ys.length
  else ys

structure RunOpts (S : Type) where
  fromState : Nat → Option S := fun _ => none
  stateful : Bool := true
  reset : Bool := false

/-- `Model._run` inside the outer `with_state(reset, stateful)` of `Model.run`, one sequence. -/
def runSeq (net : FNet S M) (order : List Nat) (o : RunOpts S)
    (inps : List ((Nat → Option S) × Option (Nat → Option S))) (σ : Store S M) :
    List (Store S M) × Store S M :=
  let σa := enterState net order (fun _ => none) o.reset σ          -- outer with_state
  let σb := enterState net order o.fromState false σa               -- inner with_state(from_state)
  let (obs, σc) := loopM net order (loadProxys order true σb) inps
  let σd := exitState order o.stateful σa σc                         -- inner exit
  let σe := cleanProxys order σd
  (obs, exitState order o.stateful σ σe)                             -- outer exit

/-- `Model.run` over several sequences -/
def runModel (net : FNet S M) (order : List Nat) (o : RunOpts S) :
    List (List ((Nat → Option S) × Option (Nat → Option S))) → Store S M → List (List (Store S M)) × Store S M
  | [], σ => ([], σ)
  | s :: ss, σ =>
    let (obs, σ') := runSeq net order o s σ
    let (os, fin) := runModel net order o ss σ'
    (obs :: os, fin)

/-- `Model.call(x, forced_feedback, from_state, stateful, reset)` -/
def callModel (net : FNet S M) (order : List Nat) (o : RunOpts S) (ext : Nat → Option S)
    (forced : Option (Nat → Option S)) (σ : Store S M) : Store S M × Store S M :=
  let σa := enterState net order o.fromState o.reset σ
  let σb := loadProxys order true σa
  let σc := match forced with
    | none => forwardF net ext order σb
    | some f =>
      let σe := enterFeedback net order f σb
      let σf := forwardF net ext order σe
      if o.stateful then σf else exitFeedback net order σb σf
  (σc, cleanProxys order (exitState order o.stateful σ σc))

/-- a free-running sequence of inputs (no forced feedback) -/
def freeInputs (xs : List (Nat → Option S)) : List ((Nat → Option S) × Option (Nat → Option S)) :=
  xs.map fun x => (x, none)

/-! ### operations that fail part-way (C08)

  A forward function raises at step `k` of a sequence, when the nodes `pre` (a prefix of the
  execution order) have already been evaluated in that step.  Everything done before the raise
  persists; the context managers then unwind (`try/finally`): feedback proxies restored, states
  restored when the operation is not stateful, proxies cleaned. -/

/-- `Model.run` on one sequence, failing at step `k` after the nodes `pre` of that step -/
def runSeqFail (net : FNet S M) (order : List Nat) (o : RunOpts S)
    (inps : List ((Nat → Option S) × Option (Nat → Option S))) (k : Nat) (pre : List Nat)
    (σ : Store S M) : Store S M :=
  let σa := enterState net order (fun _ => none) o.reset σ
  let σb := enterState net order o.fromState false σa
  let σc := (loopM net order (loadProxys order true σb) (inps.take k)).2
  let σp := match inps[k]? with
    | none => σc
    | some (x, none) => forwardF net x pre σc
    | some (x, some forced) =>
      let σe := enterFeedback net order forced σc
      exitFeedback net order σc (forwardF net x pre σe)
  let σd := exitState order o.stateful σa σp
  let σe := cleanProxys order σd
  exitState order o.stateful σ σe

/-- `Model.call` failing after the nodes `pre` -/
def callModelFail (net : FNet S M) (order : List Nat) (o : RunOpts S) (ext : Nat → Option S)
    (pre : List Nat) (σ : Store S M) : Store S M :=
  let σa := enterState net order o.fromState o.reset σ
  let σb := loadProxys order true σa
  let σc := forwardF net ext pre σb
  cleanProxys order (exitState order o.stateful σ σc)
