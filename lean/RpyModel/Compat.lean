/-
  RpyModel.Compat — the legacy (v0.2) ESN of `reservoirpy/compat` : its state update
  (`_ESNBase._get_next_state`, row vectors: x·W + ũ·Winᵀ + fb·Wfbᵀ), what `compat.utils.save`
  writes and `load` restores, and the conversion `load_compat` to a v0.3 reservoir
  (RpyModel.Reservoir).  Noise gains are zero here (the legacy noise law differs by design).
-/
import RpyModel.Reservoir

namespace Compat

inductive Act
  | tanh | sigmoid | identity | relu
deriving DecidableEq, Repr

section
variable {R : Type} [Add R] [Mul R] [Sub R] [Zero R] [One R] [ZeroTest R]

/-- row vector times matrix: (x·W)_j = Σ_i x_i W_ij -/
def vecMat {n m : Nat} (x : Vec R n) (W : Mat R n m) : Vec R m :=
  Vector.ofFn fun j => Fin.foldl n (fun acc i => acc + x[i] * W[i][j]) 0

structure Legacy (R : Type) (n m k : Nat) where
  W : Mat R n n
  Win : Mat R n m           -- the input columns of Win
  biasCol : Vec R n         -- its first column when `input_bias`, zero otherwise
  hasFb : Bool
  Wfb : Mat R n k
  lr : R
  act : Act
  fbact : Act

/-- `_get_next_state` with zero noise: x' = (1−lr)·x + lr·f(ũ·Winᵀ + x·W + g(fb)·Wfbᵀ) -/
def legacyStep {n m k : Nat} (ev : Act → R → R) (l : Legacy R n m k) (x : Vec R n) (u : Vec R m)
    (fb : Vec R k) : Vec R n :=
  let lin := vadd (vadd (matVec l.Win u) l.biasCol) (vecMat x l.W)
  let pre := if l.hasFb then vadd lin (matVec l.Wfb (vmap (ev l.fbact) fb)) else lin
  Vector.ofFn fun i => (1 - l.lr) * x[i] + l.lr * ev l.act pre[i]

/-- what `_save` writes: every matrix, the leak rate, the feedback function (dill) — and NOT
    the activation -/
structure Saved (R : Type) (n m k : Nat) where
  W : Mat R n n
  Win : Mat R n m
  biasCol : Vec R n
  hasFb : Bool
  Wfb : Mat R n k
  lr : R
  fbact : Act

def save {n m k : Nat} (l : Legacy R n m k) : Saved R n m k :=
  ⟨l.W, l.Win, l.biasCol, l.hasFb, l.Wfb, l.lr, l.fbact⟩

/-- `compat.load`: the activation defaults to tanh -/
def load {n m k : Nat} (s : Saved R n m k) : Legacy R n m k :=
  ⟨s.W, s.Win, s.biasCol, s.hasFb, s.Wfb, s.lr, .tanh, s.fbact⟩

/-- `load_compat`: a v0.3 reservoir with W transposed, tanh, the saved feedback function -/
def loadCompat {n m k : Nat} (ev : Act → R → R) (s : Saved R n m k) : ResParams R n m k :=
  { W := .dense (transpose s.W), Win := s.Win, bias := s.biasCol, hasFb := s.hasFb, Wfb := s.Wfb,
    lr := Vector.replicate n s.lr, f := ev .tanh, g := ev s.fbact, gIn := 0, gFb := 0, gRc := 0 }

/-- a closed-loop run: the feedback of step t is the readout of the state of step t−1 -/
def legacyRun {n m k : Nat} (ev : Act → R → R) (l : Legacy R n m k) (ro : Vec R n → Vec R k)
    (x : Vec R n) (y : Vec R k) : List (Vec R m) → List (Vec R n × Vec R k)
  | [] => []
  | u :: us => let x' := legacyStep ev l x u y; let y' := ro x'; (x', y') :: legacyRun ev l ro x' y' us

def v3Run {n m k : Nat} (p : ResParams R n m k) (ro : Vec R n → Vec R k) (xi : NoiseDraw R n m k)
    (st : ResState R n) (y : Vec R k) : List (Vec R m) → List (Vec R n × Vec R k)
  | [] => []
  | u :: us => let st' := fwdInternal p st u y xi; let y' := ro st'.x; (st'.x, y') :: v3Run p ro xi st' y' us

end
end Compat
