/-
  RpyModel.Readout — offline ridge readout (`nodes/readouts/ridge.py`, `readouts/base.py`,
  `node.py: partial_fit / fit`): accumulate the Gram matrices over the retained timesteps,
  solve the regularised normal equations, split bias and weights, predict.

  p = number of regressors *including* the bias column when there is one; o = output dim.
-/
import RpyModel.Scalar

section
variable {R : Type} [Add R] [Mul R] [Sub R] [Zero R] [One R]

/-- The two buffers of a Ridge node. -/
structure Gram (R : Type) (p o : Nat) where
  XXT : Mat R p p
  YXT : Mat R o p

def Gram.zero (p o : Nat) : Gram R p o := ⟨mzero p p, mzero o p⟩

/-- `X.T.dot(X)` and `Y.T.dot(X)` of one (already warm-up-stripped, bias-augmented) sequence. -/
def seqGram {p o : Nat} (seq : List (Vec R p × Vec R o)) : Gram R p o :=
  seq.foldl (fun g s => ⟨madd g.XXT (outer s.1 s.1), madd g.YXT (outer s.2 s.1)⟩) (Gram.zero p o)

/-- `_accumulate`: `XXT += xxt; YXT += yxt`. -/
def Gram.add {p o : Nat} (g h : Gram R p o) : Gram R p o := ⟨madd g.XXT h.XXT, madd g.YXT h.YXT⟩

/-- `partial_fit` over a list of sequences: drop `warmup` rows of each, accumulate. -/
def accumulate {p o : Nat} (warmup : Nat) (g : Gram R p o) (seqs : List (List (Vec R p × Vec R o))) :
    Gram R p o :=
  seqs.foldl (fun g seq => g.add (seqGram (seq.drop warmup))) g

/-- Prepend the constant regressor (`add_bias`: a column of ones in front). -/
def withBias {d : Nat} (x : Vec R d) : Vec R (d + 1) :=
  Vector.ofFn fun i => if h : i.val = 0 then 1 else x[i.val - 1]'(by omega)

/-- The regularised system matrix `XXT + ridge·I`. -/
def ridgeMatrix {p : Nat} (XXT : Mat R p p) (lam : R) : Mat R p p := madd XXT (mscale lam (identity p))

/-- Exact check of the normal equations `(XXT + λI)·W = YXTᵀ` (the certificate). -/
def certify [ZeroTest R] {p o : Nat} (g : Gram R p o) (lam : R) (W : Mat R p o) : Bool :=
  let lhs := matMul (ridgeMatrix g.XXT lam) W
  let rhs := transpose g.YXT
  (List.finRange p).all fun i => (List.finRange o).all fun j => ZeroTest.isZero (lhs[i][j] - rhs[i][j])

/-- `readout_forward`: `Woutᵀ·x + bias`. -/
def readoutForward {d o : Nat} (Wout : Mat R d o) (bias : Vec R o) (x : Vec R d) : Vec R o :=
  Vector.ofFn fun j => Fin.foldl d (fun acc i => acc + Wout[i][j] * x[i]) 0 + bias[j]

/-- `backward`: with a bias column, row 0 of the solution is the bias and the rest is `Wout`. -/
def splitBias {d o : Nat} (Wraw : Mat R (d + 1) o) : Vec R o × Mat R d o :=
  (Wraw[0], Vector.ofFn fun i => Wraw[i.val + 1])

end

/-! ### Untrusted solver: Gauss–Jordan elimination on arrays.  Its answer is only ever used
    after `certify` accepted it, so nothing here is part of the trusted base. -/
section
variable {R : Type} [Add R] [Mul R] [Sub R] [Zero R] [One R] [Div R] [ZeroTest R] [Inhabited R]

def gaussJordan (p o : Nat) (A : Array (Array R)) (B : Array (Array R)) : Option (Array (Array R)) := Id.run do
  -- augmented rows
  let mut M : Array (Array R) := (Array.range p).map fun i => (A[i]!) ++ (B[i]!)
  for c in [0:p] do
    -- find pivot
    let mut piv := p
    for r in [c:p] do
      if piv == p && !(ZeroTest.isZero (M[r]![c]!)) then piv := r
    if piv == p then return none
    let rowP := M[piv]!
    M := M.set! piv (M[c]!)
    M := M.set! c rowP
    let pv := rowP[c]!
    let nrow := rowP.map (· / pv)
    M := M.set! c nrow
    for r in [0:p] do
      if r != c then
        let f := M[r]![c]!
        if !(ZeroTest.isZero f) then
          M := M.set! r ((Array.range (p + o)).map fun j => M[r]![j]! - f * nrow[j]!)
  return some (M.map fun row => row.extract p (p + o))

def toVecMat (n m : Nat) (a : Array (Array R)) : Option (Mat R n m) :=
  if h : a.size = n then
    let rows := a.mapM fun r => if h2 : r.size = m then some (⟨r, h2⟩ : Vec R m) else none
    match rows with
    | some rs => if h3 : rs.size = n then some ⟨rs, h3⟩ else none
    | none => none
  else none

/-- Solve the regularised normal equations and return the solution only if it passes the
    exact certificate. -/
def solveRidge {p o : Nat} (g : Gram R p o) (lam : R) : Option (Mat R p o) :=
  let A := (ridgeMatrix g.XXT lam).toArray.map (·.toArray)
  let B := (transpose g.YXT).toArray.map (·.toArray)
  match gaussJordan p o A B with
  | none => none
  | some S =>
    match toVecMat p o S with
    | none => none
    | some W => if certify g lam W then some W else none
end

/-! ### The offline life of a Ridge node (`node.py: partial_fit / fit`, `ridge.py: initialize_buffers / backward`) -/
section
variable {R : Type} [Add R] [Mul R] [Sub R] [Zero R] [One R] [Div R] [ZeroTest R] [Inhabited R]

/-- A Ridge node between fits: the hyper-parameter `ridge` (assignable at any time), the two buffers (absent outside a
    training session) and the learned matrix (bias row included). -/
structure RidgeNode (R : Type) (p o : Nat) where
  ridge : R
  buf : Option (Gram R p o)
  W : Option (Mat R p o)

inductive RidgeOp (R : Type) (p o : Nat)
  | partialFit (warmup : Nat) (seqs : List (List (Vec R p × Vec R o)))
  | setRidge (lam : R)
  | fit                                                                     -- `fit()` finishing earlier partial fits
  | fitData (warmup : Nat) (seqs : List (List (Vec R p × Vec R o)))         -- `fit(X, Y)`

variable {p o : Nat}

/-- `partial_fit`: zero buffers are created when there are none (`initialize_buffers`), then every sequence is accumulated -/
def RidgeNode.accum (n : RidgeNode R p o) (w : Nat) (seqs : List (List (Vec R p × Vec R o))) : RidgeNode R p o :=
  { n with buf := some (accumulate w (n.buf.getD (Gram.zero p o)) seqs) }

/-- `backward` + `clean_buffers`: the system is solved with the value `ridge` has NOW, and the buffers are dropped -/
def RidgeNode.solve (n : RidgeNode R p o) : RidgeNode R p o :=
  match n.buf with
  | none => n
  | some g => { n with W := solveRidge g n.ridge, buf := none }

def ridgeStep (n : RidgeNode R p o) : RidgeOp R p o → RidgeNode R p o
  | .partialFit w s => n.accum w s
  | .setRidge lam => { n with ridge := lam }
  | .fit => n.solve
  | .fitData w s => (n.accum w s).solve

def ridgeRun (n : RidgeNode R p o) (ops : List (RidgeOp R p o)) : RidgeNode R p o := ops.foldl ridgeStep n

/-- preparation operations: everything but a solve -/
def RidgeOp.isPrep : RidgeOp R p o → Bool
  | .partialFit _ _ => true
  | .setRidge _ => true
  | _ => false

def RidgeOp.isData : RidgeOp R p o → Bool
  | .partialFit _ _ => true
  | _ => false

/-- the buffers after the partial fits of a list of preparation operations -/
def prepGram (g : Gram R p o) : List (RidgeOp R p o) → Gram R p o
  | [] => g
  | .partialFit w s :: ops => prepGram (accumulate w g s) ops
  | _ :: ops => prepGram g ops

/-- the value of `ridge` after a list of operations -/
def lastRidge (r : R) : List (RidgeOp R p o) → R
  | [] => r
  | .setRidge lam :: ops => lastRidge lam ops
  | _ :: ops => lastRidge r ops

end
