/-
  RpyProofs.Bridge — lemmas connecting the core-only executable definitions
  (`Fin.foldl`, `Vector.ofFn`) with Mathlib's big operators.  Helper lemmas only.
-/
import RpyModel.Scalar
import Mathlib.Algebra.BigOperators.Fin
import Mathlib.Algebra.Field.Defs
import Mathlib.Tactic.Ring

set_option linter.unusedSectionVars false

section
variable {R : Type} [Field R]

theorem foldl_add_eq_sum {n : Nat} (g : Fin n → R) :
    Fin.foldl n (fun acc j => acc + g j) 0 = ∑ j : Fin n, g j := by
  induction n with
  | zero => simp [Fin.foldl_zero]
  | succ k ih => rw [Fin.foldl_succ_last, Fin.sum_univ_castSucc, ih]

theorem dot_eq_sum {n : Nat} (a b : Vec R n) : dot a b = ∑ j : Fin n, a[j] * b[j] := by
  unfold dot
  exact foldl_add_eq_sum (fun j => a[j] * b[j])

@[simp] theorem matVec_get {n m : Nat} (M : Mat R n m) (x : Vec R m) (i : Nat) (hi : i < n) :
    (matVec M x)[i] = ∑ j : Fin m, M[i][j] * x[j] := by
  simp [matVec, dot_eq_sum]

@[simp] theorem vadd_get {n : Nat} (a b : Vec R n) (i : Nat) (hi : i < n) :
    (vadd a b)[i] = a[i] + b[i] := by simp [vadd]
@[simp] theorem vsub_get {n : Nat} (a b : Vec R n) (i : Nat) (hi : i < n) :
    (vsub a b)[i] = a[i] - b[i] := by simp [vsub]
@[simp] theorem vscale_get {n : Nat} (c : R) (a : Vec R n) (i : Nat) (hi : i < n) :
    (vscale c a)[i] = c * a[i] := by simp [vscale]
@[simp] theorem vmap_get {n : Nat} (f : R → R) (a : Vec R n) (i : Nat) (hi : i < n) :
    (vmap f a)[i] = f a[i] := by simp [vmap]
@[simp] theorem vzero_get {n : Nat} (i : Nat) (hi : i < n) : (vzero n : Vec R n)[i] = 0 := by
  simp [vzero]

/-- Folding "add the matching entries" from any start value. -/
theorem coo_fold_shift {α : Type} (l : List α) (p : α → Prop) [DecidablePred p] (v : α → R) (a : R) :
    l.foldl (fun acc e => if p e then acc + v e else acc) a
      = a + l.foldl (fun acc e => if p e then acc + v e else acc) 0 := by
  induction l generalizing a with
  | nil => simp
  | cons e es ih =>
    simp only [List.foldl_cons]
    rw [ih, ih (if p e then 0 + v e else 0)]
    split <;> ring

theorem coo_fold_sum {n m : Nat} (c : List (Fin n × Fin m × R)) (xv : Fin m → R) (i : Fin n) :
    c.foldl (fun acc e => if e.1 = i then acc + e.2.2 * xv e.2.1 else acc) 0
      = ∑ j : Fin m,
          (c.foldl (fun acc e => if e.1 = i ∧ e.2.1 = j then acc + e.2.2 else acc) 0) * xv j := by
  induction c with
  | nil => simp
  | cons e es ih =>
    simp only [List.foldl_cons]
    rw [coo_fold_shift es (fun e => e.1 = i) (fun e => e.2.2 * xv e.2.1)]
    have : ∀ j : Fin m,
        es.foldl (fun acc e => if e.1 = i ∧ e.2.1 = j then acc + e.2.2 else acc)
          (if e.1 = i ∧ e.2.1 = j then 0 + e.2.2 else 0)
        = (if e.1 = i ∧ e.2.1 = j then 0 + e.2.2 else 0)
          + es.foldl (fun acc e => if e.1 = i ∧ e.2.1 = j then acc + e.2.2 else acc) 0 := by
      intro j
      exact coo_fold_shift es (fun e => e.1 = i ∧ e.2.1 = j) (fun e => e.2.2) _
    simp only [this, add_mul, Finset.sum_add_distrib]
    rw [ih]
    congr 1
    by_cases h : e.1 = i
    · simp [h, Finset.sum_ite_eq]
    · simp [h]

/-- Sparse product = dense product of the densified matrix (duplicate entries add up). -/
theorem matVecCOO_eq_dense {n m : Nat} (c : COO R n m) (x : Vec R m) :
    matVecCOO c x = matVec (cooToDense c) x := by
  apply Vector.ext
  intro i hi
  rw [matVec_get]
  simp only [matVecCOO, cooToDense, Vector.getElem_ofFn]
  have := coo_fold_sum c (fun j => x[j]) ⟨i, hi⟩
  simpa using this

end
