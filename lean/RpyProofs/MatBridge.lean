/-
  RpyProofs.MatBridge — the model's `Mat`/`Vec` (core `Vector`s) as Mathlib matrices.
  Helper lemmas only.
-/
import RpyModel.Scalar
import RpyProofs.Bridge
import Mathlib.Data.Matrix.Basic
import Mathlib.Data.Matrix.Mul
import Mathlib.LinearAlgebra.Matrix.Trace

set_option linter.unusedSectionVars false

open Matrix

section
variable {R : Type} [Field R]

def toMatrix {n m : Nat} (M : Mat R n m) : Matrix (Fin n) (Fin m) R := Matrix.of fun i j => M[i][j]
def toFn {n : Nat} (v : Vec R n) : Fin n → R := fun i => v[i]

@[simp] theorem toMatrix_apply {n m : Nat} (M : Mat R n m) (i : Fin n) (j : Fin m) :
    toMatrix M i j = M[i][j] := rfl
@[simp] theorem toFn_apply {n : Nat} (v : Vec R n) (i : Fin n) : toFn v i = v[i] := rfl

theorem toMatrix_madd {n m : Nat} (A B : Mat R n m) : toMatrix (madd A B) = toMatrix A + toMatrix B := by
  ext i j; simp [madd]

theorem toMatrix_msub {n m : Nat} (A B : Mat R n m) : toMatrix (msub A B) = toMatrix A - toMatrix B := by
  ext i j; simp [msub]

theorem toMatrix_mzero {n m : Nat} : toMatrix (mzero n m : Mat R n m) = 0 := by
  ext i j; simp [mzero, vzero]

theorem toMatrix_mscale {n m : Nat} (c : R) (A : Mat R n m) : toMatrix (mscale c A) = c • toMatrix A := by
  ext i j; simp [mscale]

theorem toMatrix_outer {n m : Nat} (a : Vec R n) (b : Vec R m) :
    toMatrix (outer a b) = vecMulVec (toFn a) (toFn b) := by
  ext i j; simp [outer, vecMulVec_apply]

theorem toMatrix_transpose {n m : Nat} (A : Mat R n m) : toMatrix (_root_.transpose A) = (toMatrix A)ᵀ := by
  ext i j; simp [_root_.transpose]

theorem toMatrix_identity {n : Nat} : toMatrix (identity n : Mat R n n) = 1 := by
  ext i j
  simp only [identity, toMatrix_apply, Fin.getElem_fin, Vector.getElem_ofFn, Matrix.one_apply]
  by_cases h : i = j
  · simp [h]
  · have : i.val ≠ j.val := fun e => h (Fin.ext e)
    simp [h, this]

theorem toMatrix_matMul {n m k : Nat} (A : Mat R n m) (B : Mat R m k) :
    toMatrix (matMul A B) = toMatrix A * toMatrix B := by
  ext i j
  simp only [matMul, toMatrix_apply, Fin.getElem_fin, Vector.getElem_ofFn, Matrix.mul_apply]
  exact foldl_add_eq_sum (fun l => A[i.val][l.val] * B[l.val][j.val])

theorem toMatrix_injective {n m : Nat} (A B : Mat R n m) (h : toMatrix A = toMatrix B) : A = B := by
  apply Vector.ext; intro i hi
  apply Vector.ext; intro j hj
  have := congrFun (congrFun h ⟨i, hi⟩) ⟨j, hj⟩
  simpa using this

end
