/-
  C04 — Ridge readout fitting returns the regularised least-squares optimum.
  Model: RpyModel/Readout.lean.  `R` is any linearly ordered field (ℝ, ℚ).
-/
import RpyModel.Readout
import RpyProofs.MatBridge
import Mathlib.LinearAlgebra.Matrix.Trace
import Mathlib.Algebra.Order.Field.Basic
import Mathlib.Algebra.BigOperators.Fin
import Mathlib.Tactic.Ring
import Mathlib.Tactic.Abel
import Mathlib.Tactic.Linarith
import Mathlib.Tactic.LinearCombination

set_option linter.unusedSectionVars false

open Matrix

section
variable {R : Type} [Field R] [LinearOrder R] [IsStrictOrderedRing R]

/-- squared Frobenius norm -/
def frob2 {m n : Nat} (M : Matrix (Fin m) (Fin n) R) : R := trace (Mᵀ * M)

theorem frob2_eq_sum {m n : Nat} (M : Matrix (Fin m) (Fin n) R) :
    frob2 M = ∑ j, ∑ i, M i j * M i j := by
  simp [frob2, trace, Matrix.mul_apply, Matrix.transpose_apply]

theorem frob2_nonneg {m n : Nat} (M : Matrix (Fin m) (Fin n) R) : 0 ≤ frob2 M := by
  rw [frob2_eq_sum]
  exact Finset.sum_nonneg fun j _ => Finset.sum_nonneg fun i _ => mul_self_nonneg _

theorem frob2_eq_zero {m n : Nat} (M : Matrix (Fin m) (Fin n) R) (h : frob2 M = 0) : M = 0 := by
  rw [frob2_eq_sum] at h
  have h1 := (Finset.sum_eq_zero_iff_of_nonneg
    (fun j _ => Finset.sum_nonneg fun i _ => mul_self_nonneg _)).mp h
  ext i j
  have h2 := (Finset.sum_eq_zero_iff_of_nonneg (fun i _ => mul_self_nonneg (M i j))).mp
    (h1 j (Finset.mem_univ _))
  exact mul_self_eq_zero.mp (h2 i (Finset.mem_univ _))

theorem frob2_add {m n : Nat} (A B : Matrix (Fin m) (Fin n) R) :
    frob2 (A + B) = frob2 A + 2 * trace (Aᵀ * B) + frob2 B := by
  have : trace (Bᵀ * A) = trace (Aᵀ * B) := by
    rw [← trace_transpose, transpose_mul, transpose_transpose]
  simp only [frob2, transpose_add, Matrix.add_mul, Matrix.mul_add, trace_add, this]
  ring

/-- The regularised least-squares cost over `T` retained timesteps (rows of `X`, `Y`):
    `Σₜ ‖Vᵀxₜ − yₜ‖² + λ‖V‖²` (weights and bias regularised together, as in the code). -/
def J {T d k : Nat} (lam : R) (X : Matrix (Fin T) (Fin d) R) (Y : Matrix (Fin T) (Fin k) R)
    (V : Matrix (Fin d) (Fin k) R) : R :=
  frob2 (X * V - Y) + lam * frob2 V

/-- **Gap identity.** If `W` satisfies the regularised normal equations then for every `V`
    `J V = J W + ‖X(V−W)‖² + λ‖V−W‖²`. -/
theorem C04_gap {T d k : Nat} (lam : R) (X : Matrix (Fin T) (Fin d) R) (Y : Matrix (Fin T) (Fin k) R)
    (W V : Matrix (Fin d) (Fin k) R)
    (hne : (Xᵀ * X + lam • (1 : Matrix (Fin d) (Fin d) R)) * W = Xᵀ * Y) :
    J lam X Y V = J lam X Y W + frob2 (X * (V - W)) + lam * frob2 (V - W) := by
  have hV : X * V - Y = (X * W - Y) + X * (V - W) := by rw [Matrix.mul_sub]; abel
  have hV2 : V = W + (V - W) := by abel
  have cross : trace ((X * W - Y)ᵀ * (X * (V - W))) + lam * trace (Wᵀ * (V - W)) = 0 := by
    have h0 : Xᵀ * (X * W - Y) + lam • W = 0 := by
      rw [Matrix.mul_sub, ← Matrix.mul_assoc]
      have : Xᵀ * X * W + lam • W = Xᵀ * Y := by
        rw [← hne, Matrix.add_mul, Matrix.smul_mul, Matrix.one_mul]
      rw [← this]; abel
    have : ((X * W - Y)ᵀ * X + lam • Wᵀ) = 0 := by
      have := congrArg Matrix.transpose h0
      simpa [transpose_add, transpose_mul, transpose_smul] using this
    calc trace ((X * W - Y)ᵀ * (X * (V - W))) + lam * trace (Wᵀ * (V - W))
        = trace (((X * W - Y)ᵀ * X + lam • Wᵀ) * (V - W)) := by
          rw [Matrix.add_mul, trace_add, Matrix.smul_mul, trace_smul, Matrix.mul_assoc, smul_eq_mul]
      _ = 0 := by rw [this, Matrix.zero_mul, trace_zero]
  unfold J
  rw [hV, frob2_add]
  conv_lhs => rw [hV2, frob2_add]
  have e1 : W + (V - W) - W = V - W := by abel
  simp only [e1] at *
  linear_combination (2 : R) * cross

/-- **Optimality and uniqueness.** For λ > 0 a solution of the normal equations is the unique
    minimiser of the regularised cost. -/
theorem C04_optimal {T d k : Nat} (lam : R) (hlam : 0 < lam) (X : Matrix (Fin T) (Fin d) R)
    (Y : Matrix (Fin T) (Fin k) R) (W V : Matrix (Fin d) (Fin k) R)
    (hne : (Xᵀ * X + lam • (1 : Matrix (Fin d) (Fin d) R)) * W = Xᵀ * Y) :
    J lam X Y W ≤ J lam X Y V ∧ (J lam X Y V = J lam X Y W → V = W) := by
  have hg := C04_gap lam X Y W V hne
  have h1 := frob2_nonneg (X * (V - W))
  have h2 := frob2_nonneg (V - W)
  refine ⟨by nlinarith [mul_nonneg hlam.le h2], ?_⟩
  intro heq
  have : lam * frob2 (V - W) = 0 := by nlinarith [mul_nonneg hlam.le h2]
  have : frob2 (V - W) = 0 := by
    rcases mul_eq_zero.mp this with h | h
    · exact absurd h hlam.ne'
    · exact h
  exact sub_eq_zero.mp (frob2_eq_zero _ this)

/-- Two solutions of the normal equations coincide (λ > 0). -/
theorem C04_unique_solution {T d k : Nat} (lam : R) (hlam : 0 < lam) (X : Matrix (Fin T) (Fin d) R)
    (Y : Matrix (Fin T) (Fin k) R) (W W' : Matrix (Fin d) (Fin k) R)
    (h : (Xᵀ * X + lam • (1 : Matrix (Fin d) (Fin d) R)) * W = Xᵀ * Y)
    (h' : (Xᵀ * X + lam • (1 : Matrix (Fin d) (Fin d) R)) * W' = Xᵀ * Y) : W' = W := by
  have a := (C04_optimal lam hlam X Y W W' h)
  have b := (C04_optimal lam hlam X Y W' W h')
  exact a.2 (le_antisymm b.1 a.1)

end

/-! ### From the model's accumulators to the matrices of retained samples -/
section
variable {R : Type} [Field R]

/-- The retained samples of a dataset: every sequence without its first `w` steps. -/
def retained {α : Type} (w : Nat) (seqs : List (List α)) : List α := seqs.flatMap (·.drop w)

def rowsX {p o : Nat} (S : List (Vec R p × Vec R o)) : Matrix (Fin S.length) (Fin p) R :=
  Matrix.of fun t j => (S[t]).1[j]
def rowsY {p o : Nat} (S : List (Vec R p × Vec R o)) : Matrix (Fin S.length) (Fin o) R :=
  Matrix.of fun t j => (S[t]).2[j]

def gramSum {p o : Nat} (S : List (Vec R p × Vec R o)) : Matrix (Fin p) (Fin p) R :=
  (S.map fun s => vecMulVec (toFn s.1) (toFn s.1)).sum
def crossSum {p o : Nat} (S : List (Vec R p × Vec R o)) : Matrix (Fin o) (Fin p) R :=
  (S.map fun s => vecMulVec (toFn s.2) (toFn s.1)).sum

theorem sum_fin_eq_list_sum {M : Type} [AddCommMonoid M] {α : Type} (S : List α) (f : α → M) :
    ∑ t : Fin S.length, f S[t] = (S.map f).sum := by
  induction S with
  | nil => simp
  | cons a as ih =>
    rw [List.map_cons, List.sum_cons, ← ih]
    simp [Fin.sum_univ_succ]

theorem rowsX_gram {p o : Nat} (S : List (Vec R p × Vec R o)) : (rowsX S)ᵀ * rowsX S = gramSum S := by
  ext i j
  simp only [Matrix.mul_apply, Matrix.transpose_apply, rowsX, Matrix.of_apply, gramSum]
  rw [sum_fin_eq_list_sum S (fun s => s.1[i] * s.1[j])]
  induction S with
  | nil => simp
  | cons a as ih =>
    simp only [List.map_cons, List.sum_cons, Matrix.add_apply, vecMulVec_apply, toFn_apply]
    rw [← ih]

theorem rowsY_cross {p o : Nat} (S : List (Vec R p × Vec R o)) : (rowsY S)ᵀ * rowsX S = crossSum S := by
  ext i j
  simp only [Matrix.mul_apply, Matrix.transpose_apply, rowsX, rowsY, Matrix.of_apply, crossSum]
  rw [sum_fin_eq_list_sum S (fun s => s.2[i] * s.1[j])]
  induction S with
  | nil => simp
  | cons a as ih =>
    simp only [List.map_cons, List.sum_cons, Matrix.add_apply, vecMulVec_apply, toFn_apply]
    rw [← ih]

theorem seqGram_fold {p o : Nat} (S : List (Vec R p × Vec R o)) (g : Gram R p o) :
    toMatrix (S.foldl (fun g s => ⟨madd g.XXT (outer s.1 s.1), madd g.YXT (outer s.2 s.1)⟩) g).XXT
        = toMatrix g.XXT + gramSum S
    ∧ toMatrix (S.foldl (fun g s => ⟨madd g.XXT (outer s.1 s.1), madd g.YXT (outer s.2 s.1)⟩) g).YXT
        = toMatrix g.YXT + crossSum S := by
  induction S generalizing g with
  | nil => simp [gramSum, crossSum]
  | cons s ss ih =>
    simp only [List.foldl_cons]
    obtain ⟨h1, h2⟩ := ih ⟨madd g.XXT (outer s.1 s.1), madd g.YXT (outer s.2 s.1)⟩
    rw [h1, h2]
    simp only [toMatrix_madd, toMatrix_outer, gramSum, crossSum, List.map_cons, List.sum_cons]
    constructor <;> abel

theorem seqGram_spec {p o : Nat} (S : List (Vec R p × Vec R o)) :
    toMatrix (seqGram S).XXT = gramSum S ∧ toMatrix (seqGram S).YXT = crossSum S := by
  obtain ⟨h1, h2⟩ := seqGram_fold S (Gram.zero p o)
  simp only [seqGram]
  rw [h1, h2]
  simp [Gram.zero, toMatrix_mzero]

theorem gramSum_append {p o : Nat} (A B : List (Vec R p × Vec R o)) :
    gramSum (A ++ B) = gramSum A + gramSum B ∧ crossSum (A ++ B) = crossSum A + crossSum B := by
  simp [gramSum, crossSum, List.map_append, List.sum_append]

/-- **Accumulators.** After any list of sequences the buffers hold the start value plus the sums
    of `x̃x̃ᵀ` and `y x̃ᵀ` over exactly the retained timesteps (each once). -/
theorem C04_accumulate {p o : Nat} (w : Nat) (g : Gram R p o) (seqs : List (List (Vec R p × Vec R o))) :
    toMatrix (accumulate w g seqs).XXT = toMatrix g.XXT + gramSum (retained w seqs)
    ∧ toMatrix (accumulate w g seqs).YXT = toMatrix g.YXT + crossSum (retained w seqs) := by
  induction seqs generalizing g with
  | nil => simp [accumulate, retained, gramSum, crossSum]
  | cons s ss ih =>
    have hstep : accumulate w g (s :: ss) = accumulate w (g.add (seqGram (s.drop w))) ss := by
      simp [accumulate]
    rw [hstep]
    obtain ⟨h1, h2⟩ := ih (g.add (seqGram (s.drop w)))
    obtain ⟨s1, s2⟩ := seqGram_spec (s.drop w)
    have hr : retained w (s :: ss) = s.drop w ++ retained w ss := by simp [retained]
    obtain ⟨a1, a2⟩ := gramSum_append (s.drop w) (retained w ss)
    rw [h1, h2, hr, a1, a2]
    simp only [Gram.add, toMatrix_madd, s1, s2]
    constructor <;> abel

/-- **Warm-up irrelevance.** Datasets that agree after dropping the first `w` steps of every
    sequence give the same buffers: the warm-up rows have no influence at all. -/
theorem C04_warmup_irrelevant {p o : Nat} (w : Nat) (g : Gram R p o)
    (seqs seqs' : List (List (Vec R p × Vec R o)))
    (h : seqs.map (·.drop w) = seqs'.map (·.drop w)) :
    accumulate w g seqs = accumulate w g seqs' := by
  have key : ∀ (l : List (List (Vec R p × Vec R o))) (g : Gram R p o),
      accumulate w g l = (l.map (·.drop w)).foldl (fun g d => g.add (seqGram d)) g := by
    intro l
    induction l with
    | nil => intro g; simp [accumulate]
    | cons s ss ih =>
      intro g
      have : accumulate w g (s :: ss) = accumulate w (g.add (seqGram (s.drop w))) ss := by
        simp [accumulate]
      rw [this, ih]; simp
  rw [key, key, h]

/-- The certificate is sound: an accepted `W` satisfies the normal equations exactly. -/
theorem C04_certify_sound [ZeroTest R] (hz : ∀ x : R, ZeroTest.isZero x = true → x = 0)
    {p o : Nat} (g : Gram R p o) (lam : R) (W : Mat R p o) (hc : certify g lam W = true) :
    (toMatrix g.XXT + lam • (1 : Matrix (Fin p) (Fin p) R)) * toMatrix W = (toMatrix g.YXT)ᵀ := by
  have hm : toMatrix (matMul (ridgeMatrix g.XXT lam) W) = toMatrix (_root_.transpose g.YXT) := by
    ext i j
    simp only [certify, List.all_eq_true, List.mem_finRange, true_implies] at hc
    have := hz _ (hc i j)
    simp only [toMatrix_apply]
    exact sub_eq_zero.mp this
  rw [toMatrix_matMul, toMatrix_transpose] at hm
  rw [← hm]
  simp [ridgeMatrix, toMatrix_madd, toMatrix_mscale, toMatrix_identity]

end

section
variable {R : Type} [Field R] [LinearOrder R] [IsStrictOrderedRing R]

/-- **C04, end to end on the model.**  For every dataset (list of sequences), warm-up and λ > 0:
    a weight matrix accepted by the certificate on the accumulated buffers is the unique
    minimiser of `Σₜ ‖Vᵀx̃ₜ − yₜ‖² + λ‖V‖²` over the retained timesteps. -/
theorem C04_fit_optimal [ZeroTest R] (hz : ∀ x : R, ZeroTest.isZero x = true → x = 0)
    {p o : Nat} (w : Nat) (seqs : List (List (Vec R p × Vec R o))) (lam : R) (hlam : 0 < lam)
    (W : Mat R p o) (hc : certify (accumulate w (Gram.zero p o) seqs) lam W = true)
    (V : Matrix (Fin p) (Fin o) R) :
    J lam (rowsX (retained w seqs)) (rowsY (retained w seqs)) (toMatrix W)
        ≤ J lam (rowsX (retained w seqs)) (rowsY (retained w seqs)) V
    ∧ (J lam (rowsX (retained w seqs)) (rowsY (retained w seqs)) V
        = J lam (rowsX (retained w seqs)) (rowsY (retained w seqs)) (toMatrix W) → V = toMatrix W) := by
  have hs := C04_certify_sound hz _ lam W hc
  obtain ⟨h1, h2⟩ := C04_accumulate w (Gram.zero p o) seqs
  have z1 : toMatrix (Gram.zero p o : Gram R p o).XXT = 0 := toMatrix_mzero
  have z2 : toMatrix (Gram.zero p o : Gram R p o).YXT = 0 := toMatrix_mzero
  rw [z1, zero_add] at h1
  rw [z2, zero_add] at h2
  rw [h1, h2] at hs
  apply C04_optimal lam hlam
  rw [rowsX_gram, hs, ← rowsY_cross, Matrix.transpose_mul, Matrix.transpose_transpose]

end

section
variable {R : Type} [Field R]

/-- **Prediction.** `forward x = Woutᵀ·x + bias`, entry by entry. -/
theorem C04_predict {d o : Nat} (Wout : Mat R d o) (bias : Vec R o) (x : Vec R d) (j : Fin o) :
    (readoutForward Wout bias x)[j] = (∑ i : Fin d, Wout[i][j] * x[i]) + bias[j] := by
  simp only [readoutForward, Fin.getElem_fin, Vector.getElem_ofFn]
  rw [foldl_add_eq_sum (fun i => Wout[i.val][j.val] * x[i.val])]

/-- With a bias column, predicting with the split solution (bias = row 0, weights = the rest)
    is applying the raw solution to the augmented input `x̃ = (1, x)`: the cost `J` of the raw
    solution is the node's summed squared prediction error. -/
theorem C04_split_bias {d o : Nat} (Wraw : Mat R (d + 1) o) (x : Vec R d) (j : Fin o) :
    (readoutForward (splitBias Wraw).2 (splitBias Wraw).1 x)[j]
      = ∑ i : Fin (d + 1), Wraw[i][j] * (withBias x)[i] := by
  rw [C04_predict, Fin.sum_univ_succ]
  have h0 : (withBias x)[(0 : Fin (d + 1))] = 1 := by simp [withBias]
  have hs : ∀ i : Fin d, (withBias x)[i.succ] = x[i] := by
    intro i; simp [withBias]
  have w0 : ((splitBias Wraw).1)[j] = Wraw[(0 : Fin (d + 1))][j] := by simp [splitBias]
  have ws : ∀ i : Fin d, ((splitBias Wraw).2)[i][j] = Wraw[i.succ][j] := by
    intro i; simp [splitBias]
  simp only [h0, hs, w0, ws, mul_one]
  rw [add_comm]

end

/-- The exact driver's zero test is lawful. -/
theorem ratZeroTest_lawful : ∀ x : Rat, ZeroTest.isZero x = true → x = 0 := by
  intro x h
  simpa [ZeroTest.isZero] using h

/-- Non-vacuity: a 2-sample, 1-feature problem with bias; the certified solution exists. -/
example : (solveRidge (R := Rat)
    (accumulate 0 (Gram.zero 2 1) [[(withBias #v[1], #v[2]), (withBias #v[3], #v[1])]]) (1/2)).isSome = true := by
  decide +kernel

/-! ### The offline life of the node: partial fits, assignments of `ridge`, `fit()` (model: `RidgeNode`, `ridgeStep`) -/

section
variable {R : Type} [Add R] [Mul R] [Sub R] [Zero R] [One R] [Div R] [ZeroTest R] [Inhabited R] {p o : Nat}

/-- assignments of `ridge` never touch the buffers -/
theorem prepGram_filter (g : Gram R p o) (ops : List (RidgeOp R p o)) :
    prepGram g ops = prepGram g (ops.filter RidgeOp.isData) := by
  induction ops generalizing g with
  | nil => rfl
  | cons op ops ih =>
    cases op with
    | partialFit w s =>
      rw [List.filter_cons_of_pos (by rfl)]
      simp only [prepGram]
      exact ih _
    | setRidge lam =>
      rw [List.filter_cons_of_neg (by simp [RidgeOp.isData])]
      simp only [prepGram]
      exact ih _
    | fit =>
      rw [List.filter_cons_of_neg (by simp [RidgeOp.isData])]
      simp only [prepGram]
      exact ih _
    | fitData w s =>
      rw [List.filter_cons_of_neg (by simp [RidgeOp.isData])]
      simp only [prepGram]
      exact ih _

theorem prepGram_noData (g : Gram R p o) (ops : List (RidgeOp R p o)) (h : ops.any RidgeOp.isData = false) :
    prepGram g ops = g := by
  rw [prepGram_filter]
  have : ops.filter RidgeOp.isData = [] := by
    rw [List.filter_eq_nil_iff]
    intro x hx
    have := List.any_eq_false.mp h x hx
    simpa using this
  rw [this]; rfl

theorem ridgeRun_prep (n : RidgeNode R p o) (ops : List (RidgeOp R p o)) (hp : ∀ op ∈ ops, op.isPrep = true) :
    ridgeRun n ops =
      { ridge := lastRidge n.ridge ops,
        buf := if ops.any RidgeOp.isData then some (prepGram (n.buf.getD (Gram.zero p o)) ops) else n.buf,
        W := n.W } := by
  induction ops generalizing n with
  | nil => simp [ridgeRun, lastRidge]
  | cons op ops ih =>
    have hp' : ∀ op ∈ ops, op.isPrep = true := fun x hx => hp x (List.mem_cons_of_mem _ hx)
    have h0 := hp op (List.mem_cons_self ..)
    unfold ridgeRun at ih ⊢
    rw [List.foldl_cons, ih _ hp']
    cases op with
    | partialFit w s =>
      by_cases ha : ops.any RidgeOp.isData = true
      · simp [ridgeStep, RidgeNode.accum, lastRidge, prepGram, RidgeOp.isData, ha]
      · have ha' : ops.any RidgeOp.isData = false := by simpa using ha
        simp only [ridgeStep, RidgeNode.accum, lastRidge, prepGram, RidgeOp.isData, List.any_cons, Bool.true_or,
          if_true, ha', Bool.false_eq_true, if_false, Option.getD_some]
        rw [prepGram_noData _ _ ha']
    | setRidge lam =>
      simp [ridgeStep, lastRidge, prepGram, RidgeOp.isData]
    | fit => simp [RidgeOp.isPrep] at h0
    | fitData w s => simp [RidgeOp.isPrep] at h0

/-- **The life-cycle theorem.** From a node without buffers, after ANY interleaving of partial fits and assignments
    of `ridge` (with at least one partial fit), `fit()` installs the certified solution for the buffers accumulated
    over exactly those partial fits, in order, and the value of `ridge` at the moment of the solve — and leaves no
    buffers behind. The values `ridge` had while the data was being accumulated do not appear. -/
theorem C04_lifecycle (n : RidgeNode R p o) (hn : n.buf = none) (ops : List (RidgeOp R p o))
    (hp : ∀ op ∈ ops, op.isPrep = true) (hd : ops.any RidgeOp.isData = true) :
    ridgeRun n (ops ++ [.fit]) =
      { ridge := lastRidge n.ridge ops, buf := none,
        W := solveRidge (prepGram (Gram.zero p o) ops) (lastRidge n.ridge ops) } := by
  unfold ridgeRun
  rw [List.foldl_append]
  have := ridgeRun_prep n ops hp
  unfold ridgeRun at this
  rw [this, hd, hn]
  simp [ridgeStep, RidgeNode.solve]

/-- `fit(X, Y)` is a partial fit followed by `fit()` -/
theorem C04_fitData_eq (n : RidgeNode R p o) (w : Nat) (s : List (List (Vec R p × Vec R o))) :
    ridgeStep n (.fitData w s) = ridgeRun n [.partialFit w s, .fit] := rfl

/-- **λ enters at the solve only**: two preparations that hand over the same data in the same order and end with the
    same `ridge` give the same weights, whatever `ridge` was in between -/
theorem C04_lambda_at_solve_only (n m : RidgeNode R p o) (hn : n.buf = none) (hm : m.buf = none)
    (ops ops' : List (RidgeOp R p o))
    (hp : ∀ op ∈ ops, op.isPrep = true) (hp' : ∀ op ∈ ops', op.isPrep = true)
    (hd : ops.any RidgeOp.isData = true)
    (hdata : ops.filter RidgeOp.isData = ops'.filter RidgeOp.isData)
    (hl : lastRidge n.ridge ops = lastRidge m.ridge ops') :
    (ridgeRun n (ops ++ [.fit])).W = (ridgeRun m (ops' ++ [.fit])).W := by
  have hd' : ops'.any RidgeOp.isData = true := by
    have h1 : (ops.filter RidgeOp.isData).any RidgeOp.isData = true := by
      simpa [List.any_filter] using hd
    rw [hdata] at h1
    simpa [List.any_filter] using h1
  rw [C04_lifecycle n hn ops hp hd, C04_lifecycle m hm ops' hp' hd']
  simp only
  rw [prepGram_filter _ ops, prepGram_filter _ ops', hdata, hl]

/-- partial fits sequence by sequence = one partial fit of the whole list -/
theorem C04_partial_chunks (g : Gram R p o) (w : Nat) (chunks : List (List (List (Vec R p × Vec R o)))) :
    prepGram g (chunks.map (RidgeOp.partialFit w)) = accumulate w g chunks.flatten := by
  induction chunks generalizing g with
  | nil => simp [prepGram, accumulate]
  | cons c cs ih =>
    simp only [List.map_cons, prepGram, List.flatten_cons]
    rw [ih]
    simp [accumulate, List.foldl_append]

/-- **Session isolation for Ridge**: what a later training session installs does not depend on anything an earlier,
    completed session did (its data, its λ, its weights): after any completed fit the node has no buffers, and the
    next session starts from zero buffers -/
theorem C04_refit_forgets (n : RidgeNode R p o) (w0 : Nat) (s0 : List (List (Vec R p × Vec R o)))
    (ops : List (RidgeOp R p o)) (hp : ∀ op ∈ ops, op.isPrep = true) (hd : ops.any RidgeOp.isData = true) :
    (ridgeRun n (.fitData w0 s0 :: (ops ++ [.fit]))).W
      = solveRidge (prepGram (Gram.zero p o) ops) (lastRidge n.ridge ops) := by
  have h1 : ridgeRun n (.fitData w0 s0 :: (ops ++ [.fit])) = ridgeRun (ridgeStep n (.fitData w0 s0)) (ops ++ [.fit]) := rfl
  have hb : (ridgeStep n (.fitData w0 s0)).buf = none := by
    simp [ridgeStep, RidgeNode.accum, RidgeNode.solve]
  have hr : (ridgeStep n (.fitData w0 s0)).ridge = n.ridge := by
    simp [ridgeStep, RidgeNode.accum, RidgeNode.solve]
  rw [h1, C04_lifecycle _ hb ops hp hd, hr]

theorem solveRidge_certified (g : Gram R p o) (lam : R) (W : Mat R p o) (h : solveRidge g lam = some W) :
    certify g lam W = true := by
  unfold solveRidge at h
  simp only at h
  split at h
  · exact absurd h (by simp)
  · split at h
    · exact absurd h (by simp)
    · split at h
      · cases h; assumption
      · exact absurd h (by simp)

end

section
variable {R : Type} [Field R] [LinearOrder R] [IsStrictOrderedRing R] [ZeroTest R] [Inhabited R]

/-- **C04 over the whole offline life of the node.** Hand the data over in any number of partial fits (common warm-up
    `w`), assign `ridge` as often as you like in between, call `fit()`: if the value of `ridge` at that moment is
    positive, the installed weights are the unique minimiser of the regularised cost, *for that value*, over the retained
    timesteps of everything handed over. -/
theorem C04_lifecycle_optimal (hz : ∀ x : R, ZeroTest.isZero x = true → x = 0) {p o : Nat}
    (n : RidgeNode R p o) (hn : n.buf = none) (ops : List (RidgeOp R p o)) (hp : ∀ op ∈ ops, op.isPrep = true)
    (w : Nat) (chunks : List (List (List (Vec R p × Vec R o)))) (hne : chunks ≠ [])
    (hdata : ops.filter RidgeOp.isData = chunks.map (RidgeOp.partialFit w))
    (hlam : 0 < lastRidge n.ridge ops) (W : Mat R p o) (hW : (ridgeRun n (ops ++ [.fit])).W = some W)
    (V : Matrix (Fin p) (Fin o) R) :
    let lam := lastRidge n.ridge ops
    let S := retained w chunks.flatten
    J lam (rowsX S) (rowsY S) (toMatrix W) ≤ J lam (rowsX S) (rowsY S) V
      ∧ (J lam (rowsX S) (rowsY S) V = J lam (rowsX S) (rowsY S) (toMatrix W) → V = toMatrix W) := by
  intro lam S
  have hd : ops.any RidgeOp.isData = true := by
    have h1 : (ops.filter RidgeOp.isData).any RidgeOp.isData = true := by
      rw [hdata]
      cases chunks with
      | nil => exact absurd rfl hne
      | cons c cs => simp [RidgeOp.isData]
    simpa [List.any_filter] using h1
  rw [C04_lifecycle n hn ops hp hd] at hW
  simp only at hW
  rw [prepGram_filter, hdata, C04_partial_chunks] at hW
  exact C04_fit_optimal hz w chunks.flatten lam hlam W (solveRidge_certified _ _ _ hW) V

end

/-- non-vacuity: data in two partial fits, `ridge` 5 while accumulating and 1/2 at the solve; the installed weight
    solves (XXT + 1/2)·W = YXT with XXT = 1·1 + 2·2 = 5 and YXT = 1·2 + 2·3 = 8, i.e. W = 16/11 — not 8/10 -/
example : (ridgeRun (R := Rat) (p := 1) (o := 1) { ridge := 5, buf := none, W := none }
    [.partialFit 0 [[(#v[1], #v[2])]], .setRidge 7, .partialFit 0 [[(#v[2], #v[3])]], .setRidge (1/2), .fit]).W
    = some #v[#v[16/11]] := by decide +kernel

