/-
  C19 — metrics follow their formulas; spectral radius of the structured family.
  Model: RpyModel/Metrics.lean.  `R` any (ordered) field.
-/
import RpyModel.Metrics
import RpyProofs.MatBridge
import Mathlib.Algebra.Order.Field.Basic
import Mathlib.Algebra.BigOperators.Group.List.Basic
import Mathlib.LinearAlgebra.Matrix.Charpoly.Basic
import Mathlib.LinearAlgebra.Matrix.Charpoly.Coeff
import Mathlib.LinearAlgebra.Matrix.Block
import Mathlib.Tactic.Ring
import Mathlib.Tactic.FieldSimp
import Mathlib.Tactic.Linarith
import Mathlib.Data.Complex.Basic

set_option linter.unusedSectionVars false
set_option linter.unusedSimpArgs false

section
variable {R : Type} [Field R]

theorem foldl_add_shift (l : List R) (a : R) : l.foldl (· + ·) a = a + l.sum := by
  induction l generalizing a with
  | nil => simp
  | cons x xs ih => simp [List.foldl_cons, ih, add_assoc]

theorem sumL_eq_sum (l : List R) : sumL l = l.sum := by
  simp [sumL, foldl_add_shift]

/-- **mse is the mean of the squared differences.** -/
theorem C19_mse (y yh : List R) :
    mseFlat y yh = (List.zipWith (fun a b => (a - b) ^ 2) y yh).sum / ((min y.length yh.length : Nat) : R) := by
  simp [mseFlat, meanL, sumL_eq_sum, pow_two]

theorem sum_map_mul_left (l : List R) (c : R) : (l.map (c * ·)).sum = c * l.sum := by
  induction l with
  | nil => simp
  | cons x xs ih => simp [ih, mul_add]

theorem zipWith_affine (a c : R) (y yh : List R) :
    List.zipWith (fun u v => (u - v) * (u - v)) (y.map (a * · + c)) (yh.map (a * · + c))
      = (List.zipWith (fun u v => (u - v) * (u - v)) y yh).map (a ^ 2 * ·) := by
  induction y generalizing yh with
  | nil => simp
  | cons u us ih =>
    cases yh with
    | nil => simp
    | cons v vs => simp [ih]; ring

/-- **Affine law for mse**: scaling both series by `a` and shifting by `c` multiplies mse by a². -/
theorem C19_mse_affine (a c : R) (y yh : List R) :
    mseFlat (y.map (a * · + c)) (yh.map (a * · + c)) = a ^ 2 * mseFlat y yh := by
  simp only [mseFlat, meanL, sumL_eq_sum, zipWith_affine, sum_map_mul_left, List.length_map,
    List.length_zipWith]
  ring

theorem sum_map_affine (a c : R) (l : List R) : (l.map (a * · + c)).sum = a * l.sum + (l.length : R) * c := by
  induction l with
  | nil => simp
  | cons x xs ih => simp [ih]; ring

/-- mean responds affinely, variance quadratically, to `y ↦ a·y + c` (non-empty data). -/
theorem C19_mean_affine (a c : R) (l : List R) (hne : (l.length : R) ≠ 0) :
    meanL (l.map (a * · + c)) = a * meanL l + c := by
  simp only [meanL, sumL_eq_sum, sum_map_affine, List.length_map]
  field_simp

theorem C19_var_affine (a c : R) (l : List R) (hne : (l.length : R) ≠ 0) :
    varL (l.map (a * · + c)) = a ^ 2 * varL l := by
  unfold varL
  rw [C19_mean_affine a c l hne]
  simp only [List.map_map, meanL, sumL_eq_sum, List.length_map]
  have : (fun x => (x - (a * (l.sum / (l.length : R)) + c)) * (x - (a * (l.sum / (l.length : R)) + c))) ∘ (fun x => a * x + c)
      = (fun x => a ^ 2 * x) ∘ (fun x => (x - l.sum / (l.length : R)) * (x - l.sum / (l.length : R))) := by
    funext x; simp; ring
  rw [this, ← List.map_map, sum_map_mul_left]
  ring

end

section
variable {R : Type} [Field R] [LinearOrder R] [IsStrictOrderedRing R]

/-- **rmse² = mse**, and rmse scales by |a|: if `r` is the non-negative root of the mse, then
    `|a|·r` is the non-negative root of the mse of the scaled-and-shifted series. -/
theorem C19_rmse_sq (a c : R) (y yh : List R) (r : R) (hr : 0 ≤ r) (hsq : r ^ 2 = mseFlat y yh) :
    0 ≤ |a| * r ∧ (|a| * r) ^ 2 = mseFlat (y.map (a * · + c)) (yh.map (a * · + c)) := by
  refine ⟨mul_nonneg (abs_nonneg a) hr, ?_⟩
  rw [C19_mse_affine, mul_pow, sq_abs, hsq]

theorem mse_nonneg (y yh : List R) : 0 ≤ mseFlat y yh := by
  have hsqdummy : True := trivial
  rw [C19_mse]
  apply div_nonneg
  · apply List.sum_nonneg
    intro x hx
    obtain ⟨a, b, _, rfl⟩ : ∃ a b, True ∧ (a - b) ^ 2 = x := by
      clear hsqdummy
      induction y generalizing yh with
      | nil => simp at hx
      | cons u us ih =>
        cases yh with
        | nil => simp at hx
        | cons v vs =>
          simp only [List.zipWith_cons_cons, List.mem_cons] at hx
          rcases hx with rfl | hx
          · exact ⟨u, v, trivial, rfl⟩
          · exact ih vs hx
    exact sq_nonneg _
  · exact Nat.cast_nonneg _

end

section
variable {R : Type} [Field R]

theorem zipWith_self_zero (y : List R) :
    List.zipWith (fun a b => (a - b) * (a - b)) y y = y.map fun _ => 0 := by
  induction y with
  | nil => simp
  | cons x xs ih => simp [ih]

/-- **R² = 1 for perfect predictions** (non-constant truth, so that R² is defined). -/
theorem C19_r2_perfect (y : List R)
    (_hD : sumL (y.map fun a => (a - meanL y) * (a - meanL y)) ≠ 0) : rsquareFlat y y = 1 := by
  simp only [rsquareFlat, zipWith_self_zero, sumL_eq_sum]
  simp

/-- **R² = 0 for the mean predictor.** -/
theorem C19_r2_mean (y : List R)
    (hD : sumL (y.map fun a => (a - meanL y) * (a - meanL y)) ≠ 0) :
    rsquareFlat y (y.map fun _ => meanL y) = 0 := by
  have : List.zipWith (fun a b => (a - b) * (a - b)) y (y.map fun _ => meanL y)
      = y.map fun a => (a - meanL y) * (a - meanL y) := by
    induction y with
    | nil => simp
    | cons x xs ih =>
      have key : ∀ (m : R) (l : List R), List.zipWith (fun a b => (a - b) * (a - b)) l (l.map fun _ => m)
          = l.map fun a => (a - m) * (a - m) := by
        intro m l; induction l with
        | nil => simp
        | cons z zs ihz =>
          simp only [List.map_cons, List.zipWith_cons_cons]
          rw [ihz]
      exact key _ _
  simp only [rsquareFlat, this]
  rw [div_self hD]; ring

/-- **R² is invariant under `y ↦ a·y + c`, `a ≠ 0`** applied to truth and prediction. -/
theorem C19_r2_affine (a c : R) (ha : a ≠ 0) (y yh : List R) (hne : (y.length : R) ≠ 0) :
    rsquareFlat (y.map (a * · + c)) (yh.map (a * · + c)) = rsquareFlat y yh := by
  unfold rsquareFlat
  rw [C19_mean_affine a c y hne]
  simp only [sumL_eq_sum, zipWith_affine, sum_map_mul_left, List.map_map]
  have : (fun x => (x - (a * meanL y + c)) * (x - (a * meanL y + c))) ∘ (fun x => a * x + c)
      = (fun x => a ^ 2 * x) ∘ (fun x => (x - meanL y) * (x - meanL y)) := by
    funext x; simp; ring
  rw [this, ← List.map_map, sum_map_mul_left]
  have ha2 : a ^ 2 ≠ 0 := pow_ne_zero 2 ha
  rw [mul_div_mul_left _ _ ha2]

/-- **Dimension-wise.** Entry `j` of a dimension-wise metric is the metric of feature `j`:
    the list of all values in column `j` (over all rows — axis 0, or axes (0,1) of a 3-D array). -/
theorem C19_dimensionwise (y yh : List (List R)) (j : Nat) (hj : j < width y) :
    (mseDim y yh)[j]? = some (mseFlat (column y j) (column yh j))
    ∧ (rsquareDim y yh)[j]? = some (rsquareFlat (column y j) (column yh j)) := by
  simp [mseDim, rsquareDim, hj]

theorem C19_column (rows : List (List R)) (j : Nat) (h : ∀ r ∈ rows, j < r.length) :
    column rows j = rows.pmap (fun r hr => r[j]'hr) h := by
  induction rows with
  | nil => simp [column]
  | cons r rs ih =>
    have hr : j < r.length := h r (by simp)
    simp only [column, List.filterMap_cons, List.getElem?_eq_getElem hr, List.pmap]
    congr 1
    exact ih (fun r' hr' => h r' (List.mem_cons_of_mem _ hr'))

/-- Arrays of different shapes are rejected. -/
theorem C19_shape_mismatch (y yh : List (List R)) (h : y.length ≠ yh.length) : sameShape y yh = false := by
  simp [sameShape, h]

end

/-! ### spectral radius of the structured family -/
section
variable {R : Type} [Field R]
open Matrix Polynomial

/-- **Triangular matrices**: the characteristic polynomial is ∏ (X − dᵢ), so the eigenvalues are
    exactly the diagonal entries. -/
theorem C19_triangular_charpoly {n : Nat} (M : Matrix (Fin n) (Fin n) R) (h : M.BlockTriangular id) :
    M.charpoly = ∏ i : Fin n, (X - C (M i i)) :=
  Matrix.charpoly_of_isUpperTriangular M h

theorem C19_triangular_eigen {n : Nat} (M : Matrix (Fin n) (Fin n) R) (h : M.BlockTriangular id) (μ : R) :
    M.charpoly.IsRoot μ ↔ ∃ i, M i i = μ := by
  rw [C19_triangular_charpoly M h, Polynomial.IsRoot.def, Polynomial.eval_prod]
  simp only [eval_sub, eval_X, eval_C, Finset.prod_eq_zero_iff, Finset.mem_univ, true_and, sub_eq_zero]
  constructor
  · rintro ⟨i, hi⟩; exact ⟨i, hi.symm⟩
  · rintro ⟨i, hi⟩; exact ⟨i, hi.symm⟩

/-- **Similarity** (here: conjugation by any invertible matrix, in particular a permutation):
    same characteristic polynomial, hence same eigenvalues and same spectral radius. -/
theorem C19_similarity {n : Nat} (P : (Matrix (Fin n) (Fin n) R)ˣ) (M : Matrix (Fin n) (Fin n) R) :
    ((P : Matrix (Fin n) (Fin n) R) * M * (P : Matrix (Fin n) (Fin n) R)⁻¹).charpoly = M.charpoly :=
  Matrix.charpoly_units_conj P M

/-- **Effective matrix**: `lr·W + (1−lr)·I`, entry by entry; for a triangular `W` it is triangular
    with diagonal `lr·dᵢ + (1−lr)`. -/
theorem C19_effective {n : Nat} (W : Mat R n n) (lr : R) :
    toMatrix (effectiveMatrix W lr) = lr • toMatrix W + (1 - lr) • (1 : Matrix (Fin n) (Fin n) R) := by
  simp [effectiveMatrix, toMatrix_madd, toMatrix_mscale, toMatrix_identity]

theorem C19_effective_triangular {n : Nat} (W : Mat R n n) (lr : R)
    (h : (toMatrix W).BlockTriangular id) :
    (toMatrix (effectiveMatrix W lr)).BlockTriangular id
    ∧ ∀ i, toMatrix (effectiveMatrix W lr) i i = lr * toMatrix W i i + (1 - lr) := by
  rw [C19_effective]
  constructor
  · intro i j hij
    have hne : i ≠ j := by
      intro e; subst e; exact lt_irrefl _ hij
    have h0 : toMatrix W i j = 0 := h hij
    rw [Matrix.add_apply, Matrix.smul_apply, Matrix.smul_apply, h0, Matrix.one_apply_ne hne]
    simp
  · intro i; simp [Matrix.add_apply, Matrix.smul_apply]

end

section
variable {R : Type} [Field R] [LinearOrder R] [IsStrictOrderedRing R]

theorem maxBy_spec (l : List R) (x : R) :
    ∀ m, (l.foldl (fun m a => if decide (m < a) then a else m) x) = m →
      (m = x ∨ m ∈ l) ∧ x ≤ m ∧ ∀ a ∈ l, a ≤ m := by
  induction l generalizing x with
  | nil => intro m h; simp at h; subst h; simp
  | cons a as ih =>
    intro m h
    simp only [List.foldl_cons] at h
    by_cases hxa : x < a
    · simp only [hxa, decide_true, if_true] at h
      obtain ⟨h1, h2, h3⟩ := ih a m h
      refine ⟨?_, le_trans hxa.le h2, ?_⟩
      · rcases h1 with rfl | h1
        · right; simp
        · right; exact List.mem_cons_of_mem _ h1
      · intro b hb
        rcases List.mem_cons.mp hb with rfl | hb
        · exact h2
        · exact h3 b hb
    · simp only [hxa, decide_false, Bool.false_eq_true, if_false] at h
      obtain ⟨h1, h2, h3⟩ := ih x m h
      refine ⟨?_, h2, ?_⟩
      · rcases h1 with rfl | h1
        · left; rfl
        · right; exact List.mem_cons_of_mem _ h1
      · intro b hb
        rcases List.mem_cons.mp hb with rfl | hb
        · exact le_trans (not_lt.mp hxa) h2
        · exact h3 b hb

/-- `rhoDiag` returns the largest modulus of the diagonal: it is attained and bounds all. -/
theorem C19_rhoDiag (d : List R) (ρ : R) (h : rhoDiag (fun a b => decide (a < b)) d = some ρ) :
    (∃ x ∈ d, |x| = ρ) ∧ ∀ x ∈ d, |x| ≤ ρ := by
  have habs : ∀ x : R, (if decide (x < 0) = true then -x else x) = |x| := by
    intro x
    by_cases hx : x < 0
    · simp [hx, abs_of_neg hx]
    · simp [hx, abs_of_nonneg (not_lt.mp hx)]
  cases d with
  | nil => simp [rhoDiag, maxBy] at h
  | cons x xs =>
    simp only [rhoDiag, List.map_cons, maxBy, Option.some.injEq, habs] at h
    obtain ⟨h1, h2, h3⟩ := maxBy_spec (xs.map fun x => |x|) |x| ρ (by simpa [habs] using h)
    constructor
    · rcases h1 with rfl | h1
      · exact ⟨x, by simp, rfl⟩
      · obtain ⟨z, hz, rfl⟩ := List.mem_map.mp h1
        exact ⟨z, List.mem_cons_of_mem _ hz, rfl⟩
    · intro z hz
      rcases List.mem_cons.mp hz with rfl | hz
      · exact h2
      · exact h3 _ (List.mem_map.mpr ⟨z, hz, rfl⟩)

end

/-- Non-vacuity / sanity. -/
example : mseFlat ([1, 2, 3] : List Rat) [1, 1, 1] = 5 / 3 := by decide +kernel
example : rsquareFlat ([1, 2, 3] : List Rat) [1, 2, 3] = 1 := by decide +kernel
example : rhoDiag (fun a b => decide (a < b)) ([1/2, -3/4, 1/4] : List Rat) = some (3/4) := by decide +kernel

/-! ### complex spectra: rotation blocks and block-diagonal matrices -/

section Rotation
open Matrix


/-- the 2×2 block a·I + b·J (a scaled rotation when a² + b² = s²) -/
def rotBlock {K : Type} [Ring K] (a b : K) : Matrix (Fin 2) (Fin 2) K := !![a, -b; b, a]

/-- **Rotation blocks**: μ is an eigenvalue of [[a, −b], [b, a]] (in any commutative ring containing the
    entries) exactly when (a − μ)² + b² = 0 -/
theorem C19_rotation_block_det {K : Type} [CommRing K] (a b μ : K) :
    (rotBlock a b - μ • (1 : Matrix (Fin 2) (Fin 2) K)).det = (a - μ) ^ 2 + b ^ 2 := by
  simp [rotBlock, Matrix.det_fin_two]
  ring

/-- … so over ℂ the eigenvalues of a real rotation block are a ± b·i, of modulus² a² + b²: for
    (a, b) = s·(3/5, 4/5) the spectral radius of the block is exactly |s| -/
theorem C19_rotation_block_modulus (a b : ℝ) (μ : ℂ)
    (h : ((a : ℂ) - μ) ^ 2 + (b : ℂ) ^ 2 = 0) : Complex.normSq μ = a ^ 2 + b ^ 2 := by
  have hre := congrArg Complex.re h
  have him := congrArg Complex.im h
  simp [pow_two, Complex.mul_re, Complex.mul_im] at hre him
  -- im: 2 (a - μ.re) (-μ.im) = 0 ; re: (a-μ.re)^2 - μ.im^2 + b^2 = 0
  rw [Complex.normSq_apply]
  by_cases hb : b = 0
  · subst hb
    have h1 : (a - μ.re) ^ 2 + μ.im ^ 2 = 0 := by nlinarith [sq_nonneg (a - μ.re), sq_nonneg μ.im]
    have h2 : a - μ.re = 0 := by nlinarith [sq_nonneg (a - μ.re), sq_nonneg μ.im]
    have h3 : μ.im = 0 := by nlinarith [sq_nonneg (a - μ.re), sq_nonneg μ.im]
    have : μ.re = a := by linarith
    rw [this, h3]; ring
  · -- b ≠ 0 forces μ.im ≠ 0, hence μ.re = a and μ.im² = b²
    have him' : (a - μ.re) * μ.im = 0 := by nlinarith
    rcases mul_eq_zero.mp him' with h1 | h1
    · have : μ.re = a := by linarith
      have h2 : μ.im ^ 2 = b ^ 2 := by rw [this] at hre; nlinarith
      rw [this]; nlinarith
    · exfalso
      rw [h1] at hre
      have : (a - μ.re) ^ 2 + b ^ 2 = 0 := by nlinarith
      have hb2 : b ^ 2 = 0 := by nlinarith [sq_nonneg (a - μ.re), sq_nonneg b]
      exact hb ((pow_eq_zero_iff (two_ne_zero)).mp hb2)

/-- **Block-diagonal matrices**: the characteristic polynomial is the product of the blocks' — the
    spectrum is the union of the blocks' spectra -/
theorem C19_block_diag_charpoly {K : Type} [CommRing K] {m n : Type} [Fintype m] [Fintype n] [DecidableEq m] [DecidableEq n]
    (A : Matrix m m K) (D : Matrix n n K) :
    (Matrix.fromBlocks A 0 0 D).charpoly = A.charpoly * D.charpoly := by
  simp

end Rotation

section SymBlock

/-- the symmetric 2×2 block [[a, b], [b, a]] -/
def symBlock {K : Type} [Ring K] (a b : K) : Matrix (Fin 2) (Fin 2) K := !![a, b; b, a]

theorem C19_sym_block_symm {K : Type} [Ring K] (a b : K) : (symBlock a b).transpose = symBlock a b := by
  ext i j; fin_cases i <;> fin_cases j <;> simp [symBlock]

/-- **Symmetric blocks**: the characteristic determinant factors as (a + b − μ)(a − b − μ) -/
theorem C19_sym_block_det {K : Type} [CommRing K] (a b μ : K) :
    (symBlock a b - μ • (1 : Matrix (Fin 2) (Fin 2) K)).det = (a + b - μ) * (a - b - μ) := by
  simp [symBlock, Matrix.det_fin_two]
  ring

/-- … so over a domain its eigenvalues are exactly a + b and a − b -/
theorem C19_sym_block_eigen {K : Type} [CommRing K] [IsDomain K] (a b μ : K) :
    (symBlock a b - μ • (1 : Matrix (Fin 2) (Fin 2) K)).det = 0 ↔ μ = a + b ∨ μ = a - b := by
  rw [C19_sym_block_det, mul_eq_zero]
  constructor
  · rintro (h | h)
    · left; exact (sub_eq_zero.mp h).symm
    · right; exact (sub_eq_zero.mp h).symm
  · rintro (h | h)
    · left; rw [h]; ring
    · right; rw [h]; ring

/-- … and the largest modulus of an eigenvalue is max |a + b| |a − b| = |a| + |b|: a NEGATIVE dominant eigenvalue
    (a + b < 0 with a, b ≤ 0) still gives a positive radius -/
theorem C19_sym_block_radius {K : Type} [Field K] [LinearOrder K] [IsStrictOrderedRing K] (a b μ : K)
    (h : (symBlock a b - μ • (1 : Matrix (Fin 2) (Fin 2) K)).det = 0) :
    |μ| ≤ max |a + b| |a - b| ∧ max |a + b| |a - b| = |a| + |b| := by
  refine ⟨?_, ?_⟩
  · rcases (C19_sym_block_eigen a b μ).mp h with h | h <;> rw [h]
    · exact le_max_left _ _
    · exact le_max_right _ _
  · rcases le_total 0 a with ha | ha <;> rcases le_total 0 b with hb | hb <;>
      rcases le_total 0 (a + b) with hab | hab <;> rcases le_total 0 (a - b) with hab' | hab' <;>
      simp only [abs_of_nonneg, abs_of_nonpos, ha, hb, hab, hab', max_def] <;> split_ifs <;> linarith

/-- non-vacuity: the block [[-3, -2], [-2, -3]] has the eigenvalue −5 (dominant, negative) and radius 5 -/
example : (symBlock (-3 : ℚ) (-2) - (-5 : ℚ) • (1 : Matrix (Fin 2) (Fin 2) ℚ)).det = 0 ∧
    max |(-3 : ℚ) + -2| |(-3 : ℚ) - -2| = 5 := by
  constructor
  · rw [C19_sym_block_det]; norm_num
  · norm_num [abs_of_nonpos, max_def]

end SymBlock


/-- … so over a domain the eigenvalues (roots of the characteristic polynomial) of a block-diagonal matrix are those of
    its blocks: the spectral radius of the structured family is the largest modulus found in any block, which is what
    the harness takes (diagonal entries, rotation-block scales, a ± b of the symmetric blocks) -/
theorem C19_block_diag_roots {K : Type} [CommRing K] [IsDomain K] {m n : Type} [Fintype m] [Fintype n]
    [DecidableEq m] [DecidableEq n] (A : Matrix m m K) (D : Matrix n n K) (μ : K) :
    (Matrix.fromBlocks A 0 0 D).charpoly.IsRoot μ ↔ A.charpoly.IsRoot μ ∨ D.charpoly.IsRoot μ := by
  rw [C19_block_diag_charpoly, Polynomial.root_mul]
