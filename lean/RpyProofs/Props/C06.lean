/-
  C06 — training a model equals the explicit node-by-node procedure.
  Models: RpyModel/Stages.lean (staging of Model.fit), RpyModel/Dataflow.lean (forward passes),
  RpyModel/Online.lean (gated online training loop).
-/
import RpyModel.Stages
import RpyModel.Dataflow
import RpyModel.Online
import RpyProofs.Props.C02
import RpyProofs.Props.C10
import Mathlib.Data.List.Nodup

set_option linter.unusedSectionVars false
set_option linter.unusedVariables false
set_option linter.unusedSimpArgs false

/-- invariant of the whole staging: duplicate-free sets, an offline node is trained before it is included,
and everything included had all its parents included first -/
structure SInv (g : SG) (s : PassSt) : Prop where
  inc_nodup : s.included.Nodup
  tr_nodup : s.trained.Nodup
  tr_offline : ∀ v ∈ s.trained, g.offline v = true
  off_inc_trained : ∀ v ∈ s.included, g.offline v = true → v ∈ s.trained
  inc_closed : ∀ v ∈ s.included, ∀ p ∈ g.parents v, p ∈ s.included
  tr_ready : ∀ v ∈ s.trained, ∀ p ∈ g.parents v, p ∈ s.included

theorem ready_spec {g : SG} {inc : List Nat} {v : Nat} (h : ready g inc v = true) :
    ∀ p ∈ g.parents v, p ∈ inc := by
  intro p hp
  simp only [ready, Bool.or_eq_true, List.isEmpty_iff, List.all_eq_true, List.contains_eq_mem,
    decide_eq_true_eq] at h
  rcases h with h | h
  · rw [h] at hp; simp at hp
  · exact h p hp

theorem sinv_step (g : SG) (s : PassSt) (v : Nat) (hv : v ∉ s.included) (h : SInv g s) :
    SInv g (passStep g s v) := by
  unfold passStep
  split
  · rename_i hr
    have hpar := ready_spec hr
    split
    · rename_i hoff
      simp only [Bool.and_eq_true, Bool.not_eq_eq_eq_not, Bool.not_true, List.contains_eq_mem,
        decide_eq_false_iff_not] at hoff
      refine ⟨h.inc_nodup, List.nodup_cons.mpr ⟨hoff.2, h.tr_nodup⟩, ?_, ?_, h.inc_closed, ?_⟩
      · intro w hw
        rcases List.mem_cons.mp hw with rfl | hw'
        · exact hoff.1
        · exact h.tr_offline w hw'
      · intro w hw ho; exact List.mem_cons_of_mem _ (h.off_inc_trained w hw ho)
      · intro w hw
        rcases List.mem_cons.mp hw with rfl | hw'
        · exact hpar
        · exact h.tr_ready w hw'
    · rename_i hoff
      refine ⟨List.nodup_cons.mpr ⟨hv, h.inc_nodup⟩, h.tr_nodup, h.tr_offline, ?_, ?_, ?_⟩
      · intro w hw ho
        rcases List.mem_cons.mp hw with rfl | hw'
        · -- an offline node reaches this branch only when it is already trained
          simp only [Bool.and_eq_true, Bool.not_eq_eq_eq_not, Bool.not_true, List.contains_eq_mem,
            decide_eq_false_iff_not, not_and, not_not] at hoff
          exact hoff ho
        · exact h.off_inc_trained w hw' ho
      · intro w hw p hp
        rcases List.mem_cons.mp hw with rfl | hw'
        · exact List.mem_cons_of_mem _ (hpar p hp)
        · exact List.mem_cons_of_mem _ (h.inc_closed w hw' p hp)
      · intro w hw p hp; exact List.mem_cons_of_mem _ (h.tr_ready w hw p hp)
  · exact h

/-- membership in `included` only grows during a pass -/
theorem passStep_inc_mono (g : SG) (s : PassSt) (v w : Nat) (h : w ∈ s.included) :
    w ∈ (passStep g s v).included := by
  unfold passStep
  split
  · split
    · exact h
    · exact List.mem_cons_of_mem _ h
  · exact h

/-- a node can only be added to `included` when it is the node being visited -/
theorem passStep_inc_new (g : SG) (s : PassSt) (v w : Nat) (h : w ∈ (passStep g s v).included) :
    w ∈ s.included ∨ w = v := by
  unfold passStep at h
  split at h
  · split at h
    · exact Or.inl h
    · rcases List.mem_cons.mp h with rfl | h'
      · exact Or.inr rfl
      · exact Or.inl h'
  · exact Or.inl h

theorem sinv_pass (g : SG) : ∀ (todo : List Nat) (s : PassSt), todo.Nodup → (∀ v ∈ todo, v ∉ s.included) →
    SInv g s → SInv g (pass g todo s) := by
  intro todo
  induction todo with
  | nil => intro s _ _ h; exact h
  | cons v vs ih =>
    intro s hnd hfresh h
    simp only [pass, List.foldl_cons]
    have hnd' := List.nodup_cons.mp hnd
    apply ih _ hnd'.2
    · intro w hw hin
      rcases passStep_inc_new g s v w hin with h1 | h1
      · exact hfresh w (List.mem_cons_of_mem _ hw) h1
      · subst h1; exact hnd'.1 hw
    · exact sinv_step g s v (hfresh v (by simp)) h


/-! ### the whole staging -/

theorem sinv_loop (g : SG) (nodes offl : List Nat) (hnd : nodes.Nodup) :
    ∀ (fuel : Nat) (s : PassSt) (acc : List (List Nat)), SInv g s →
      SInv g (stagesLoop g nodes offl fuel s acc).2 := by
  intro fuel
  induction fuel with
  | zero => intro s acc h; exact h
  | succ n ih =>
    intro s acc h
    simp only [stagesLoop]
    split
    · exact h
    · apply ih
      apply sinv_pass g _ _ (hnd.filter _)
      · intro v hv
        simp only [List.mem_filter, Bool.not_eq_eq_eq_not, Bool.not_true, List.contains_eq_mem,
          decide_eq_false_iff_not] at hv
        exact hv.2
      · exact ⟨h.inc_nodup, h.tr_nodup, h.tr_offline, h.off_inc_trained, h.inc_closed, h.tr_ready⟩

/-- **Staging invariants, for every DAG and every choice of offline nodes.**  After the staging
    of `Model.fit`: only offline nodes are trained and each at most once; each node is included
    (run as a forward node) at most once; when a node is trained or run, all its parents have
    already been run — and an offline node is run forward only after it was trained, so no node
    ever consumes the output of an unfitted readout ("no stale states"). -/
theorem C06_stage_invariants (g : SG) (nodes : List Nat) (hnd : nodes.Nodup) :
    let s := (offlineStages g nodes).2
    s.trained.Nodup ∧ s.included.Nodup
    ∧ (∀ v ∈ s.trained, g.offline v = true)
    ∧ (∀ v ∈ s.trained, ∀ p ∈ g.parents v, p ∈ s.included)
    ∧ (∀ v ∈ s.included, ∀ p ∈ g.parents v, p ∈ s.included)
    ∧ (∀ v ∈ s.included, g.offline v = true → v ∈ s.trained) := by
  intro s
  have h0 : SInv g ⟨[], [], []⟩ :=
    ⟨List.nodup_nil, List.nodup_nil, by simp, by simp, by simp, by simp⟩
  have h := sinv_loop g nodes (nodes.filter g.offline) hnd (nodes.length + 2) _ [] h0
  exact ⟨h.tr_nodup, h.inc_nodup, h.tr_offline, h.tr_ready, h.inc_closed, h.off_inc_trained⟩

/-! ### node-by-node over the whole sequence = step by step through the graph -/

variable {S M : Type}

/-- run one node alone over a sequence of input lists (no feedback): the explicit,
    node-level procedure -/
def nodeRun (net : FNet S M) (v : Nat) : M × S → List (List S) → List S × (M × S)
  | ms, [] => ([], ms)
  | ms, ins :: rest =>
    let r := net.fwd v ms.1 ms.2 ins none
    let (outs, fin) := nodeRun net v r rest
    (r.2 :: outs, fin)

/-- the stores a free loop goes through (after each forward pass) -/
def stepStores (net : FNet S M) (order : List Nat) : Store S M → List (Nat → Option S) → List (Store S M)
  | _, [] => []
  | σ, x :: xs =>
    let σc := forwardF net x order σ
    σc :: stepStores net order (loadProxys order false σc) xs

theorem loadProxys_st_mem (order : List Nat) (keep : Bool) (σ : Store S M) (v : Nat) :
    (loadProxys order keep σ v).st = (σ v).st ∧ (loadProxys order keep σ v).mem = (σ v).mem := by
  simp only [loadProxys, Store.get]
  by_cases hv : v ∈ order
  · simp only [hv, if_true]; split <;> simp
  · simp [hv]

theorem inputsOf_loadProxys (net : FNet S M) (ext : Nat → Option S) (order : List Nat) (keep : Bool)
    (σ : Store S M) (v : Nat) :
    inputsOf net ext (loadProxys order keep σ) v = inputsOf net ext σ v := by
  apply inputsOf_congr
  intro p _; exact (loadProxys_st_mem order keep σ p).1

/-- **Running a feed-forward model step by step gives every node exactly the output sequence
    that the node, run alone, produces on the sequence of its inputs** (its parents' outputs of
    the same steps, then its external input) from its own starting memory and state.  This is
    the equivalence between `Model.run` inside `fit` and the explicit node-by-node procedure. -/
theorem C06_nodewise_eq_stepwise (net : FNet S M) (h : NoFeedback net) (order : List Nat)
    (ht : TopoFrom net order) (v : Nat) (hv : v ∈ order) :
    ∀ (xs : List (Nat → Option S)) (σ : Store S M),
      (stepStores net order σ xs).map (fun τ => (τ v).st)
        = (nodeRun net v ((σ v).mem, (σ v).st)
            ((List.zip (stepStores net order σ xs) xs).map fun p => inputsOf net p.2 p.1 v)).1 := by
  intro xs
  induction xs with
  | nil => intro σ; simp [stepStores, nodeRun]
  | cons x xs ih =>
    intro σ
    simp only [stepStores, List.map_cons, List.zip_cons_cons, nodeRun]
    obtain ⟨h1, h2, _, _⟩ := C02_forward_fixpoint net h x order σ ht v hv
    simp only [evalNode] at h1 h2
    have ih' := ih (loadProxys order false (forwardF net x order σ))
    have e1 := (loadProxys_st_mem order false (forwardF net x order σ) v)
    rw [e1.1, e1.2, h1, h2] at ih'
    rw [ih']
    simp [h1]

/-! ### online training of a model -/

/-- **Model.train = the explicit per-timestep loop**, gated by `learn_every`: the parameters
    after a call are those obtained by applying the learning rule to exactly the steps `i` with
    `i % learn_every = 0` (the only step, for a one-step call), in order; and the output
    returned for each step is the prediction made before that step's update.  (`pred` = "call the
    upstream nodes, then the readout"; `step` = the readout's rule on that step.) -/
theorem C06_train_refines_loop {St X Y O : Type} (pred : St → X → O) (step : St → X → Y → St)
    (k : Nat) (s : St) (samples : List (X × Y)) :
    (trainLoop pred step k s samples).1
      = (gatedFrom k samples.length 0 samples).foldl (fun s xy => step s xy.1 xy.2) s
    ∧ (trainLoop pred step k s samples).2.length = samples.length :=
  ⟨C10_learn_every pred step k s samples, trainLoopAux_outs_length pred step k _ 0 s samples⟩

/-- the external inputs produced by an array (every entry node gets it) and by the equivalent
    name-keyed mapping are the same function — so are the gate (`trainLoop` tests the length of
    the *sequence*, not of the container) and everything downstream -/
def extOfArray (entries : List Nat) (x : S) : Nat → Option S := fun v => if v ∈ entries then some x else none
def extOfMapping (m : List (Nat × S)) : Nat → Option S := fun v => (m.find? (·.1 == v)).map (·.2)

theorem C06_array_eq_mapping (entries : List Nat) (hnd : entries.Nodup) (x : S) :
    extOfMapping (entries.map fun e => (e, x)) = extOfArray entries x := by
  funext v
  simp only [extOfMapping, extOfArray]
  induction entries with
  | nil => simp
  | cons e es ih =>
    have hnd' := List.nodup_cons.mp hnd
    simp only [List.map_cons, List.find?_cons]
    by_cases hev : e = v
    · subst hev; simp
    · have : (e == v) = false := by simp [hev]
      simp only [this, List.mem_cons]
      rw [ih hnd'.2]
      have hve : v ≠ e := fun h => hev h.symm
      simp [hve]

/-- Non-vacuity: a deep model  0 → 1(offline) → 2 → 3(offline):  two stages, each readout once. -/
example :
    let g : SG := { parents := fun v => match v with | 1 => [0] | 2 => [1] | 3 => [2] | _ => [],
                    isExit := fun v => v == 3, offline := fun v => v == 1 || v == 3 }
    (offlineStages g [0, 1, 2, 3]).1 = [[0, 1], [1, 2, 3]]
      ∧ (offlineStages g [0, 1, 2, 3]).2.trained = [3, 1] := by
  decide
