/-
  C06 — training a model equals the explicit node-by-node procedure.
  Models: RpyModel/Stages.lean (staging of Model.fit), RpyModel/Dataflow.lean (forward passes),
  RpyModel/Online.lean (gated online training loop).
-/
import RpyModel.Stages
import RpyModel.Dataflow
import RpyModel.Online
import RpyProofs.Props.C02
import RpyProofs.Props.C10
import Mathlib.Data.List.Nodup

set_option linter.unusedSectionVars false
set_option linter.unusedVariables false
set_option linter.unusedSimpArgs false

/-- invariant of the whole staging: duplicate-free sets, an offline node is trained before it is included,
and everything included had all its parents included first -/
structure SInv (g : SG) (s : PassSt) : Prop where
  inc_nodup : s.included.Nodup
  tr_nodup : s.trained.Nodup
  tr_offline : ∀ v ∈ s.trained, g.offline v = true
  off_inc_trained : ∀ v ∈ s.included, g.offline v = true → v ∈ s.trained
  inc_closed : ∀ v ∈ s.included, ∀ p ∈ g.parents v, p ∈ s.included
  tr_ready : ∀ v ∈ s.trained, ∀ p ∈ g.parents v, p ∈ s.included

theorem ready_spec {g : SG} {inc : List Nat} {v : Nat} (h : ready g inc v = true) :
    ∀ p ∈ g.parents v, p ∈ inc := by
  intro p hp
  simp only [ready, Bool.or_eq_true, List.isEmpty_iff, List.all_eq_true, List.contains_eq_mem,
    decide_eq_true_eq] at h
  rcases h with h | h
  · rw [h] at hp; simp at hp
  · exact h p hp

theorem sinv_step (g : SG) (s : PassSt) (v : Nat) (hv : v ∉ s.included) (h : SInv g s) :
    SInv g (passStep g s v) := by
  unfold passStep
  split
  · rename_i hr
    have hpar := ready_spec hr
    split
    · rename_i hoff
      simp only [Bool.and_eq_true, Bool.not_eq_eq_eq_not, Bool.not_true, List.contains_eq_mem,
        decide_eq_false_iff_not] at hoff
      refine ⟨h.inc_nodup, List.nodup_cons.mpr ⟨hoff.2, h.tr_nodup⟩, ?_, ?_, h.inc_closed, ?_⟩
      · intro w hw
        rcases List.mem_cons.mp hw with rfl | hw'
        · exact hoff.1
        · exact h.tr_offline w hw'
      · intro w hw ho; exact List.mem_cons_of_mem _ (h.off_inc_trained w hw ho)
      · intro w hw
        rcases List.mem_cons.mp hw with rfl | hw'
        · exact hpar
        · exact h.tr_ready w hw'
    · rename_i hoff
      refine ⟨List.nodup_cons.mpr ⟨hv, h.inc_nodup⟩, h.tr_nodup, h.tr_offline, ?_, ?_, ?_⟩
      · intro w hw ho
        rcases List.mem_cons.mp hw with rfl | hw'
        · -- an offline node reaches this branch only when it is already trained
          simp only [Bool.and_eq_true, Bool.not_eq_eq_eq_not, Bool.not_true, List.contains_eq_mem,
            decide_eq_false_iff_not, not_and, not_not] at hoff
          exact hoff ho
        · exact h.off_inc_trained w hw' ho
      · intro w hw p hp
        rcases List.mem_cons.mp hw with rfl | hw'
        · exact List.mem_cons_of_mem _ (hpar p hp)
        · exact List.mem_cons_of_mem _ (h.inc_closed w hw' p hp)
      · intro w hw p hp; exact List.mem_cons_of_mem _ (h.tr_ready w hw p hp)
  · exact h

/-- membership in `included` only grows during a pass -/
theorem passStep_inc_mono (g : SG) (s : PassSt) (v w : Nat) (h : w ∈ s.included) :
    w ∈ (passStep g s v).included := by
  unfold passStep
  split
  · split
    · exact h
    · exact List.mem_cons_of_mem _ h
  · exact h

/-- a node can only be added to `included` when it is the node being visited -/
theorem passStep_inc_new (g : SG) (s : PassSt) (v w : Nat) (h : w ∈ (passStep g s v).included) :
    w ∈ s.included ∨ w = v := by
  unfold passStep at h
  split at h
  · split at h
    · exact Or.inl h
    · rcases List.mem_cons.mp h with rfl | h'
      · exact Or.inr rfl
      · exact Or.inl h'
  · exact Or.inl h

theorem sinv_pass (g : SG) : ∀ (todo : List Nat) (s : PassSt), todo.Nodup → (∀ v ∈ todo, v ∉ s.included) →
    SInv g s → SInv g (pass g todo s) := by
  intro todo
  induction todo with
  | nil => intro s _ _ h; exact h
  | cons v vs ih =>
    intro s hnd hfresh h
    simp only [pass, List.foldl_cons]
    have hnd' := List.nodup_cons.mp hnd
    apply ih _ hnd'.2
    · intro w hw hin
      rcases passStep_inc_new g s v w hin with h1 | h1
      · exact hfresh w (List.mem_cons_of_mem _ hw) h1
      · subst h1; exact hnd'.1 hw
    · exact sinv_step g s v (hfresh v (by simp)) h


/-! ### the whole staging -/

theorem sinv_loop (g : SG) (nodes offl : List Nat) (hnd : nodes.Nodup) :
    ∀ (fuel : Nat) (s : PassSt) (acc : List (List Nat)), SInv g s →
      SInv g (stagesLoop g nodes offl fuel s acc).2 := by
  intro fuel
  induction fuel with
  | zero => intro s acc h; exact h
  | succ n ih =>
    intro s acc h
    simp only [stagesLoop]
    split
    · exact h
    · apply ih
      apply sinv_pass g _ _ (hnd.filter _)
      · intro v hv
        simp only [List.mem_filter, Bool.not_eq_eq_eq_not, Bool.not_true, List.contains_eq_mem,
          decide_eq_false_iff_not] at hv
        exact hv.2
      · exact ⟨h.inc_nodup, h.tr_nodup, h.tr_offline, h.off_inc_trained, h.inc_closed, h.tr_ready⟩

/-- **Staging invariants, for every DAG and every choice of offline nodes.**  After the staging
    of `Model.fit`: only offline nodes are trained and each at most once; each node is included
    (run as a forward node) at most once; when a node is trained or run, all its parents have
    already been run — and an offline node is run forward only after it was trained, so no node
    ever consumes the output of an unfitted readout ("no stale states"). -/
theorem C06_stage_invariants (g : SG) (nodes : List Nat) (hnd : nodes.Nodup) :
    let s := (offlineStages g nodes).2
    s.trained.Nodup ∧ s.included.Nodup
    ∧ (∀ v ∈ s.trained, g.offline v = true)
    ∧ (∀ v ∈ s.trained, ∀ p ∈ g.parents v, p ∈ s.included)
    ∧ (∀ v ∈ s.included, ∀ p ∈ g.parents v, p ∈ s.included)
    ∧ (∀ v ∈ s.included, g.offline v = true → v ∈ s.trained) := by
  intro s
  have h0 : SInv g ⟨[], [], []⟩ :=
    ⟨List.nodup_nil, List.nodup_nil, by simp, by simp, by simp, by simp⟩
  have h := sinv_loop g nodes (nodes.filter g.offline) hnd (nodes.length + 2) _ [] h0
  exact ⟨h.tr_nodup, h.inc_nodup, h.tr_offline, h.tr_ready, h.inc_closed, h.off_inc_trained⟩

/-! ### node-by-node over the whole sequence = step by step through the graph -/

variable {S M : Type}

/-- run one node alone over a sequence of input lists (no feedback): the explicit,
    node-level procedure -/
def nodeRun (net : FNet S M) (v : Nat) : M × S → List (List S) → List S × (M × S)
  | ms, [] => ([], ms)
  | ms, ins :: rest =>
    let r := net.fwd v ms.1 ms.2 ins none
    let (outs, fin) := nodeRun net v r rest
    (r.2 :: outs, fin)

/-- the stores a free loop goes through (after each forward pass) -/
def stepStores (net : FNet S M) (order : List Nat) : Store S M → List (Nat → Option S) → List (Store S M)
  | _, [] => []
  | σ, x :: xs =>
    let σc := forwardF net x order σ
    σc :: stepStores net order (loadProxys order false σc) xs

theorem loadProxys_st_mem (order : List Nat) (keep : Bool) (σ : Store S M) (v : Nat) :
    (loadProxys order keep σ v).st = (σ v).st ∧ (loadProxys order keep σ v).mem = (σ v).mem := by
  simp only [loadProxys, Store.get]
  by_cases hv : v ∈ order
  · simp only [hv, if_true]; split <;> simp
  · simp [hv]

theorem inputsOf_loadProxys (net : FNet S M) (ext : Nat → Option S) (order : List Nat) (keep : Bool)
    (σ : Store S M) (v : Nat) :
    inputsOf net ext (loadProxys order keep σ) v = inputsOf net ext σ v := by
  apply inputsOf_congr
  intro p _; exact (loadProxys_st_mem order keep σ p).1

/-- **Running a feed-forward model step by step gives every node exactly the output sequence
    that the node, run alone, produces on the sequence of its inputs** (its parents' outputs of
    the same steps, then its external input) from its own starting memory and state.  This is
    the equivalence between `Model.run` inside `fit` and the explicit node-by-node procedure. -/
theorem C06_nodewise_eq_stepwise (net : FNet S M) (h : NoFeedback net) (order : List Nat)
    (ht : TopoFrom net order) (v : Nat) (hv : v ∈ order) :
    ∀ (xs : List (Nat → Option S)) (σ : Store S M),
      (stepStores net order σ xs).map (fun τ => (τ v).st)
        = (nodeRun net v ((σ v).mem, (σ v).st)
            ((List.zip (stepStores net order σ xs) xs).map fun p => inputsOf net p.2 p.1 v)).1 := by
  intro xs
  induction xs with
  | nil => intro σ; simp [stepStores, nodeRun]
  | cons x xs ih =>
    intro σ
    simp only [stepStores, List.map_cons, List.zip_cons_cons, nodeRun]
    obtain ⟨h1, h2, _, _⟩ := C02_forward_fixpoint net h x order σ ht v hv
    simp only [evalNode] at h1 h2
    have ih' := ih (loadProxys order false (forwardF net x order σ))
    have e1 := (loadProxys_st_mem order false (forwardF net x order σ) v)
    rw [e1.1, e1.2, h1, h2] at ih'
    rw [ih']
    simp [h1]

/-! ### online training of a model -/

/-- **Model.train = the explicit per-timestep loop**, gated by `learn_every`: the parameters
    after a call are those obtained by applying the learning rule to exactly the steps `i` with
    `i % learn_every = 0` (the only step, for a one-step call), in order; and the output
    returned for each step is the prediction made before that step's update.  (`pred` = "call the
    upstream nodes, then the readout"; `step` = the readout's rule on that step.) -/
theorem C06_train_refines_loop {St X Y O : Type} (pred : St → X → O) (step : St → X → Y → St)
    (k : Nat) (s : St) (samples : List (X × Y)) :
    (trainLoop pred step k s samples).1
      = (gatedFrom k samples.length 0 samples).foldl (fun s xy => step s xy.1 xy.2) s
    ∧ (trainLoop pred step k s samples).2.length = samples.length :=
  ⟨C10_learn_every pred step k s samples, trainLoopAux_outs_length pred step k _ 0 s samples⟩

/-- the external inputs produced by an array (every entry node gets it) and by the equivalent
    name-keyed mapping are the same function — so are the gate (`trainLoop` tests the length of
    the *sequence*, not of the container) and everything downstream -/
def extOfArray (entries : List Nat) (x : S) : Nat → Option S := fun v => if v ∈ entries then some x else none
def extOfMapping (m : List (Nat × S)) : Nat → Option S := fun v => (m.find? (·.1 == v)).map (·.2)

theorem C06_array_eq_mapping (entries : List Nat) (hnd : entries.Nodup) (x : S) :
    extOfMapping (entries.map fun e => (e, x)) = extOfArray entries x := by
  funext v
  simp only [extOfMapping, extOfArray]
  induction entries with
  | nil => simp
  | cons e es ih =>
    have hnd' := List.nodup_cons.mp hnd
    simp only [List.map_cons, List.find?_cons]
    by_cases hev : e = v
    · subst hev; simp
    · have : (e == v) = false := by simp [hev]
      simp only [this, List.mem_cons]
      rw [ih hnd'.2]
      have hve : v ≠ e := fun h => hev h.symm
      simp [hve]

/-- Non-vacuity: a deep model  0 → 1(offline) → 2 → 3(offline):  two stages, each readout once. -/
example :
    let g : SG := { parents := fun v => match v with | 1 => [0] | 2 => [1] | 3 => [2] | _ => [],
                    isExit := fun v => v == 3, offline := fun v => v == 1 || v == 3 }
    (offlineStages g [0, 1, 2, 3]).1 = [[0, 1], [1, 2, 3]]
      ∧ (offlineStages g [0, 1, 2, 3]).2.trained = [3, 1] := by
  decide

/-! the staged offline fit computes, for every node, what the explicit node-by-node procedure computes -/

variable {D P : Type}

/-- the dataset-level network: a node maps the (whole-dataset) outputs of its predecessors to its own;
    an offline node first fits its parameters on those inputs (its targets are part of `fit`) -/
def liftNet (g : SG) (fit : Nat → List D → P) (runD : Nat → P → List D → D) (zeroD : Nat → D) : FNet D P :=
  { parents := g.parents, fbSender := fun _ => none,
    fwd := fun v θ _ ins _ => ((if g.offline v then fit v ins else θ), runD v (if g.offline v then fit v ins else θ) ins),
    zero := zeroD }

theorem liftNet_nofb (g : SG) (fit : Nat → List D → P) (runD : Nat → P → List D → D) (zeroD : Nat → D) :
    NoFeedback (liftNet g fit runD zeroD) := fun _ => rfl

/-- the staging of `Model.fit` with its data actions: when a node is TRAINED its parameters are fitted on
    the inputs currently in the store; when it is INCLUDED it is run forward with its current parameters -/
structure DSt (D P : Type) where
  ps : PassSt
  σ : Store D P

def passStepD (g : SG) (fit : Nat → List D → P) (runD : Nat → P → List D → D) (zeroD : Nat → D)
    (ext : Nat → Option D) (s : DSt D P) (v : Nat) : DSt D P :=
  let net := liftNet g fit runD zeroD
  if ready g s.ps.included v then
    if g.offline v && !s.ps.trained.contains v then
      { ps := passStep g s.ps v, σ := upd s.σ v { s.σ v with mem := fit v (inputsOf net ext s.σ v) } }
    else
      { ps := passStep g s.ps v, σ := upd s.σ v { s.σ v with st := runD v (s.σ v).mem (inputsOf net ext s.σ v) } }
  else { ps := passStep g s.ps v, σ := s.σ }

def passD (g : SG) (fit : Nat → List D → P) (runD : Nat → P → List D → D) (zeroD : Nat → D)
    (ext : Nat → Option D) (todo : List Nat) (s : DSt D P) : DSt D P :=
  todo.foldl (passStepD g fit runD zeroD ext) s

def stagesLoopD (g : SG) (fit : Nat → List D → P) (runD : Nat → P → List D → D) (zeroD : Nat → D)
    (ext : Nat → Option D) (nodes offl : List Nat) : Nat → DSt D P → DSt D P
  | 0, s => s
  | fuel + 1, s =>
    if offl.all (fun v => s.ps.trained.contains v) then s
    else
      let todo := nodes.filter (fun v => !s.ps.included.contains v)
      stagesLoopD g fit runD zeroD ext nodes offl fuel
        (passD g fit runD zeroD ext todo { s with ps := { s.ps with sub := [] } })

/-- the bookkeeping component is exactly the staging of RpyModel.Stages -/
theorem passStepD_ps (g : SG) (fit : Nat → List D → P) (runD : Nat → P → List D → D) (zeroD : Nat → D)
    (ext : Nat → Option D) (s : DSt D P) (v : Nat) :
    (passStepD g fit runD zeroD ext s v).ps = passStep g s.ps v := by
  unfold passStepD
  split
  · split <;> rfl
  · rfl

section
variable (g : SG) (fit : Nat → List D → P) (runD : Nat → P → List D → D) (zeroD : Nat → D)
  (ext : Nat → Option D)

/-- what the explicit procedure (one pass over a topological order) leaves in the store -/
abbrev specStore (order : List Nat) (σ0 : Store D P) : Store D P :=
  forwardF (liftNet g fit runD zeroD) ext order σ0

/-- the data invariant of the staged fit w.r.t. the explicit procedure -/
structure DInv (order : List Nat) (σ0 : Store D P) (s : DSt D P) : Prop where
  inc_st : ∀ v ∈ s.ps.included, (s.σ v).st = (specStore g fit runD zeroD ext order σ0 v).st
  tr_mem : ∀ v ∈ s.ps.trained, (s.σ v).mem = (specStore g fit runD zeroD ext order σ0 v).mem
  other_mem : ∀ v, g.offline v = false → (s.σ v).mem = (σ0 v).mem

theorem inputs_eq_of_parents (σ τ : Store D P) (v : Nat)
    (h : ∀ p ∈ g.parents v, (σ p).st = (τ p).st) :
    inputsOf (liftNet g fit runD zeroD) ext σ v = inputsOf (liftNet g fit runD zeroD) ext τ v := by
  simp only [inputsOf, liftNet]
  congr 1
  apply List.map_congr_left
  intro p hp
  exact h p hp

/-- the explicit procedure satisfies the node equations (from C02_forward_fixpoint) -/
theorem spec_eqs (order : List Nat) (σ0 : Store D P) (ht : TopoFrom (liftNet g fit runD zeroD) order)
    (v : Nat) (hv : v ∈ order) :
    let spec := specStore g fit runD zeroD ext order σ0
    let ins := inputsOf (liftNet g fit runD zeroD) ext spec v
    (spec v).mem = (if g.offline v then fit v ins else (σ0 v).mem)
    ∧ (spec v).st = runD v (if g.offline v then fit v ins else (σ0 v).mem) ins := by
  intro spec ins
  obtain ⟨h1, h2, _, _⟩ := C02_forward_fixpoint (liftNet g fit runD zeroD) (liftNet_nofb g fit runD zeroD) ext order σ0 ht v hv
  simp only [evalNode, liftNet] at h1 h2
  exact ⟨h2, h1⟩

theorem dinv_step (order : List Nat) (σ0 : Store D P) (ht : TopoFrom (liftNet g fit runD zeroD) order)
    (s : DSt D P) (v : Nat) (hv : v ∈ order) (hnot : v ∉ s.ps.included)
    (hs : SInv g s.ps) (hd : DInv g fit runD zeroD ext order σ0 s) :
    DInv g fit runD zeroD ext order σ0 (passStepD g fit runD zeroD ext s v) := by
  have hspec := spec_eqs g fit runD zeroD ext order σ0 ht v hv
  simp only at hspec
  unfold passStepD
  simp only
  split
  · rename_i hr
    have hpar := ready_spec hr
    have hins : inputsOf (liftNet g fit runD zeroD) ext s.σ v
        = inputsOf (liftNet g fit runD zeroD) ext (specStore g fit runD zeroD ext order σ0) v :=
      inputs_eq_of_parents g fit runD zeroD ext _ _ v (fun p hp => hd.inc_st p (hpar p hp))
    split
    · -- trained now
      rename_i hoff
      simp only [Bool.and_eq_true, Bool.not_eq_eq_eq_not, Bool.not_true, List.contains_eq_mem,
        decide_eq_false_iff_not] at hoff
      have hps : (passStep g s.ps v) = { s.ps with trained := v :: s.ps.trained, sub := s.ps.sub ++ [v] } := by
        unfold passStep; simp [hr, hoff.1, hoff.2]
      refine ⟨?_, ?_, ?_⟩
      · intro w hw
        rw [hps] at hw
        have hwv : w ≠ v := fun e => hnot (e ▸ hw)
        simp only [upd, hwv, if_false]
        exact hd.inc_st w hw
      · intro w hw
        rw [hps] at hw
        rcases List.mem_cons.mp hw with rfl | hw'
        · simp only [upd, if_true]
          rw [hins, hspec.1, hoff.1]; rfl
        · by_cases hwv : w = v
          · subst hwv; exact absurd hw' hoff.2
          · simp only [upd, hwv, if_false]; exact hd.tr_mem w hw'
      · intro w hw
        by_cases hwv : w = v
        · subst hwv; rw [hoff.1] at hw; cases hw
        · simp only [upd, hwv, if_false]; exact hd.other_mem w hw
    · -- included now
      rename_i hoff
      simp only [Bool.and_eq_true, Bool.not_eq_eq_eq_not, Bool.not_true, List.contains_eq_mem,
        decide_eq_false_iff_not, not_and, not_not] at hoff
      have hps : (passStep g s.ps v).included = v :: s.ps.included ∧ (passStep g s.ps v).trained = s.ps.trained := by
        unfold passStep
        have : ¬ (g.offline v = true ∧ v ∉ s.ps.trained) := fun h => h.2 (hoff h.1)
        simp [hr, this]
      have hmem : (s.σ v).mem = (if g.offline v then fit v (inputsOf (liftNet g fit runD zeroD) ext (specStore g fit runD zeroD ext order σ0) v) else (σ0 v).mem) := by
        by_cases ho : g.offline v = true
        · rw [hd.tr_mem v (hoff ho), hspec.1]
        · have ho' : g.offline v = false := by simpa using ho
          rw [hd.other_mem v ho']; simp [ho']
      refine ⟨?_, ?_, ?_⟩
      · intro w hw
        rw [hps.1] at hw
        rcases List.mem_cons.mp hw with rfl | hw'
        · simp only [upd, if_true]
          rw [hins, hmem, hspec.2]
        · have hwv : w ≠ v := fun e => hnot (e ▸ hw')
          simp only [upd, hwv, if_false]; exact hd.inc_st w hw'
      · intro w hw
        rw [hps.2] at hw
        by_cases hwv : w = v
        · subst hwv; simp only [upd, if_true]; exact hd.tr_mem w hw
        · simp only [upd, hwv, if_false]; exact hd.tr_mem w hw
      · intro w hw
        by_cases hwv : w = v
        · subst hwv; simp only [upd, if_true]; exact hd.other_mem w hw
        · simp only [upd, hwv, if_false]; exact hd.other_mem w hw
  · -- not ready: nothing happens
    rename_i hr
    have : passStep g s.ps v = s.ps := by unfold passStep; simp [hr]
    exact ⟨by rw [this]; exact hd.inc_st, by rw [this]; exact hd.tr_mem, hd.other_mem⟩
end

section
variable (g : SG) (fit : Nat → List D → P) (runD : Nat → P → List D → D) (zeroD : Nat → D)
  (ext : Nat → Option D)

theorem dinv_pass (order : List Nat) (σ0 : Store D P) (ht : TopoFrom (liftNet g fit runD zeroD) order) :
    ∀ (todo : List Nat) (s : DSt D P), todo.Nodup → (∀ v ∈ todo, v ∉ s.ps.included) → (∀ v ∈ todo, v ∈ order) →
      SInv g s.ps → DInv g fit runD zeroD ext order σ0 s →
      SInv g (passD g fit runD zeroD ext todo s).ps ∧ DInv g fit runD zeroD ext order σ0 (passD g fit runD zeroD ext todo s) := by
  intro todo
  induction todo with
  | nil => intro s _ _ _ hs hd; exact ⟨hs, hd⟩
  | cons v vs ih =>
    intro s hnd hfresh hord hs hd
    simp only [passD, List.foldl_cons]
    have hnd' := List.nodup_cons.mp hnd
    have hv : v ∉ s.ps.included := hfresh v (by simp)
    have hs' : SInv g (passStepD g fit runD zeroD ext s v).ps := by
      rw [passStepD_ps]; exact sinv_step g s.ps v hv hs
    have hd' := dinv_step g fit runD zeroD ext order σ0 ht s v (hord v (by simp)) hv hs hd
    apply ih _ hnd'.2 _ (fun w hw => hord w (List.mem_cons_of_mem _ hw)) hs' hd'
    intro w hw hin
    rw [passStepD_ps] at hin
    rcases passStep_inc_new g s.ps v w hin with h1 | h1
    · exact hfresh w (List.mem_cons_of_mem _ hw) h1
    · subst h1; exact hnd'.1 hw

theorem dinv_loop (order : List Nat) (σ0 : Store D P) (ht : TopoFrom (liftNet g fit runD zeroD) order)
    (nodes offl : List Nat) (hnd : nodes.Nodup) (hord : ∀ v ∈ nodes, v ∈ order) :
    ∀ (fuel : Nat) (s : DSt D P), SInv g s.ps → DInv g fit runD zeroD ext order σ0 s →
      SInv g (stagesLoopD g fit runD zeroD ext nodes offl fuel s).ps
      ∧ DInv g fit runD zeroD ext order σ0 (stagesLoopD g fit runD zeroD ext nodes offl fuel s) := by
  intro fuel
  induction fuel with
  | zero => intro s hs hd; exact ⟨hs, hd⟩
  | succ n ih =>
    intro s hs hd
    simp only [stagesLoopD]
    split
    · exact ⟨hs, hd⟩
    · have hs0 : SInv g ({ s with ps := { s.ps with sub := [] } } : DSt D P).ps :=
        ⟨hs.inc_nodup, hs.tr_nodup, hs.tr_offline, hs.off_inc_trained, hs.inc_closed, hs.tr_ready⟩
      have hd0 : DInv g fit runD zeroD ext order σ0 ({ s with ps := { s.ps with sub := [] } } : DSt D P) :=
        ⟨hd.inc_st, hd.tr_mem, hd.other_mem⟩
      obtain ⟨hs1, hd1⟩ := dinv_pass g fit runD zeroD ext order σ0 ht
        (nodes.filter (fun v => !s.ps.included.contains v)) _ (hnd.filter _)
        (by
          intro v hv
          simp only [List.mem_filter, Bool.not_eq_eq_eq_not, Bool.not_true, List.contains_eq_mem,
            decide_eq_false_iff_not] at hv
          exact hv.2)
        (fun v hv => hord v (List.mem_filter.mp hv).1) hs0 hd0
      exact ih _ hs1 hd1

/-- `Model.fit` with its data: the staging of RpyModel.Stages, carrying the store -/
def offlineStagesD (nodes : List Nat) (σ0 : Store D P) : DSt D P :=
  stagesLoopD g fit runD zeroD ext nodes (nodes.filter g.offline) (nodes.length + 2) ⟨⟨[], [], []⟩, σ0⟩

/-- **The staged offline fit refines the explicit node-by-node procedure.**  For every DAG, every
    choice of offline nodes, every fitting rule and node semantics (a node maps the whole-dataset
    outputs of its predecessors to its own, an offline node fits on exactly those inputs first),
    every topological order and every start store: whatever `Model.fit`'s staging trains gets the
    parameters the explicit procedure — one pass over the nodes in topological order: run the
    predecessors over the data, fit on their outputs, feed the fitted node's outputs on — gives it,
    and whatever it runs forward produces the outputs of the explicit procedure. -/
theorem C06_fit_refines_explicit (nodes order : List Nat) (σ0 : Store D P) (hnd : nodes.Nodup)
    (ht : TopoFrom (liftNet g fit runD zeroD) order) (hord : ∀ v ∈ nodes, v ∈ order) :
    let r := offlineStagesD g fit runD zeroD ext nodes σ0
    let spec := forwardF (liftNet g fit runD zeroD) ext order σ0
    (∀ v ∈ r.ps.trained, (r.σ v).mem = (spec v).mem)
    ∧ (∀ v ∈ r.ps.included, (r.σ v).st = (spec v).st)
    ∧ (∀ v, g.offline v = false → (r.σ v).mem = (σ0 v).mem) := by
  intro r spec
  have hs0 : SInv g (⟨⟨[], [], []⟩, σ0⟩ : DSt D P).ps :=
    ⟨List.nodup_nil, List.nodup_nil, by simp, by simp, by simp, by simp⟩
  have hd0 : DInv g fit runD zeroD ext order σ0 (⟨⟨[], [], []⟩, σ0⟩ : DSt D P) :=
    ⟨by simp, by simp, fun _ _ => rfl⟩
  obtain ⟨_, hd⟩ := dinv_loop g fit runD zeroD ext order σ0 ht nodes (nodes.filter g.offline) hnd hord
    (nodes.length + 2) _ hs0 hd0
  exact ⟨hd.tr_mem, hd.inc_st, hd.other_mem⟩

/-- the bookkeeping of the data-carrying staging IS the staging of RpyModel.Stages -/
theorem stagesLoopD_ps (nodes offl : List Nat) : ∀ (fuel : Nat) (s : DSt D P) (acc : List (List Nat)),
    (stagesLoopD g fit runD zeroD ext nodes offl fuel s).ps = (stagesLoop g nodes offl fuel s.ps acc).2 := by
  intro fuel
  induction fuel with
  | zero => intro s acc; rfl
  | succ n ih =>
    intro s acc
    simp only [stagesLoopD, stagesLoop]
    split
    · rfl
    · have hp : ∀ (todo : List Nat) (t : DSt D P), (passD g fit runD zeroD ext todo t).ps = pass g todo t.ps := by
        intro todo
        induction todo with
        | nil => intro t; rfl
        | cons v vs ihv => intro t; simp only [passD, pass, List.foldl_cons]; rw [← passStepD_ps g fit runD zeroD ext t v]; exact ihv _
      rw [ih _ (acc ++ [(pass g (nodes.filter (fun v => !s.ps.included.contains v)) { s.ps with sub := [] }).sub]), hp]
end

/-- the staging part of the data-carrying fit is `offlineStages` itself -/
theorem offlineStagesD_ps {D P : Type} (g : SG) (fit : Nat → List D → P) (runD : Nat → P → List D → D) (zeroD : Nat → D)
    (ext : Nat → Option D) (nodes : List Nat) (σ0 : Store D P) :
    (offlineStagesD g fit runD zeroD ext nodes σ0).ps = (offlineStages g nodes).2 :=
  stagesLoopD_ps g fit runD zeroD ext nodes (nodes.filter g.offline) (nodes.length + 2) ⟨⟨[], [], []⟩, σ0⟩ []

/-! non-vacuity: entry 0 → offline readout 1 → node 2 → offline readout 3; "fit" = 100 + sum of the inputs,
    "run" = θ + sum.  The second readout is fitted on what the first, fitted, readout produces. -/
def demoG : SG := ⟨fun v => if v = 0 then [] else [v - 1], fun v => v == 3, fun v => v == 1 || v == 3⟩
def demoσ : Store Nat Nat := ⟨fun _ => ⟨0, 0, none, none⟩⟩
def demoR := offlineStagesD demoG (fun _ ins => 100 + ins.sum) (fun _ θ ins => θ + ins.sum) (fun _ => 0)
  (fun v => if v = 0 then some 5 else none) [0, 1, 2, 3] demoσ

example : demoR.ps.trained = [3, 1] ∧ (demoR.σ 1).mem = 105 ∧ (demoR.σ 1).st = 110 ∧ (demoR.σ 2).st = 110
    ∧ (demoR.σ 3).mem = 210 ∧ 2 ∈ demoR.ps.included := by decide


/-! ### progress and termination of the staging loop

`get_offline_subgraphs` has no fuel: `while trained != offlines`. The model's loop carries
`nodes.length + 2` units of fuel. For the node list a `Model` holds (topologically sorted) every pass
trains at least one more offline node, so the loop ends with every offline node trained after at most
`#offline` passes: the fuel is never exhausted and the `while` loop of the code terminates. -/

/-- `l` lists its nodes parents-first, given that the nodes of `inc` are already available -/
def TopoL (g : SG) : List Nat → List Nat → Prop
  | _, [] => True
  | inc, u :: us => (∀ p ∈ g.parents u, p ∈ inc) ∧ TopoL g (u :: inc) us

/-- dropping nodes that are already available keeps the list parents-first -/
theorem topoL_filter (g : SG) : ∀ (l A B I : List Nat), (∀ x ∈ A, x ∈ B) → (∀ x ∈ I, x ∈ B) → TopoL g A l →
    TopoL g B (l.filter (fun v => !I.contains v)) := by
  intro l
  induction l with
  | nil => intro A B I _ _ _; trivial
  | cons u us ih =>
    intro A B I hAB hIB h
    by_cases hu : u ∈ I
    · rw [List.filter_cons_of_neg (by simp [hu])]
      apply ih (u :: A) B I _ hIB h.2
      intro x hx
      rcases List.mem_cons.mp hx with rfl | hx'
      · exact hIB _ hu
      · exact hAB x hx'
    · rw [List.filter_cons_of_pos (by simp [hu])]
      refine ⟨fun p hp => hAB p (h.1 p hp), ?_⟩
      apply ih (u :: A) (u :: B) I _ _ h.2
      · intro x hx
        rcases List.mem_cons.mp hx with rfl | hx'
        · exact List.mem_cons_self
        · exact List.mem_cons_of_mem _ (hAB x hx')
      · intro x hx; exact List.mem_cons_of_mem _ (hIB x hx)

theorem topoL_append (g : SG) : ∀ (pre l B : List Nat), TopoL g B (pre ++ l) →
    TopoL g B pre ∧ TopoL g (pre.reverse ++ B) l := by
  intro pre
  induction pre with
  | nil => intro l B h; exact ⟨trivial, by simpa using h⟩
  | cons u us ih =>
    intro l B h
    have h' : (∀ p ∈ g.parents u, p ∈ B) ∧ TopoL g (u :: B) (us ++ l) := h
    have := ih l (u :: B) h'.2
    refine ⟨⟨h'.1, this.1⟩, ?_⟩
    simpa [List.reverse_cons, List.append_assoc] using this.2

theorem ready_of {g : SG} {inc : List Nat} {v : Nat} (h : ∀ p ∈ g.parents v, p ∈ inc) : ready g inc v = true := by
  simp only [ready, Bool.or_eq_true, List.isEmpty_iff, List.all_eq_true, List.contains_eq_mem, decide_eq_true_eq]
  exact Or.inr h

/-- a prefix of the pass without untrained offline nodes, listed parents-first: every node of it is included, in
    order, and nothing is trained -/
theorem pass_prefix (g : SG) : ∀ (pre : List Nat) (s : PassSt), TopoL g s.included pre →
    (∀ u ∈ pre, ¬ (g.offline u = true ∧ u ∉ s.trained)) →
    (pass g pre s).included = pre.reverse ++ s.included ∧ (pass g pre s).trained = s.trained := by
  intro pre
  induction pre with
  | nil => intro s _ _; exact ⟨by simp [pass], rfl⟩
  | cons u us ih =>
    intro s ht hno
    have ht' : (∀ p ∈ g.parents u, p ∈ s.included) ∧ TopoL g (u :: s.included) us := ht
    have hr := ready_of ht'.1
    have hc : (g.offline u && !s.trained.contains u) = false := by
      have := hno u List.mem_cons_self
      cases ho : g.offline u
      · simp
      · simp only [ho, true_and, not_not] at this
        simp [this]
    have hstep : passStep g s u = { s with included := u :: s.included,
                                           sub := if g.isExit u then s.sub else s.sub ++ [u] } := by
      unfold passStep
      rw [if_pos hr, if_neg (by rw [hc]; simp)]
    simp only [pass, List.foldl_cons]
    rw [hstep]
    have := ih { s with included := u :: s.included, sub := if g.isExit u then s.sub else s.sub ++ [u] } ht'.2
      (fun w hw => hno w (List.mem_cons_of_mem _ hw))
    simp only [pass] at this
    refine ⟨?_, this.2⟩
    rw [this.1]; simp [List.reverse_cons, List.append_assoc]

theorem passStep_tr_mono (g : SG) (s : PassSt) (v w : Nat) (h : w ∈ s.trained) : w ∈ (passStep g s v).trained := by
  unfold passStep
  split
  · split
    · exact List.mem_cons_of_mem _ h
    · exact h
  · exact h

theorem pass_tr_mono (g : SG) : ∀ (todo : List Nat) (s : PassSt) (w : Nat), w ∈ s.trained → w ∈ (pass g todo s).trained := by
  intro todo
  induction todo with
  | nil => intro s w h; exact h
  | cons v vs ih =>
    intro s w h
    simp only [pass, List.foldl_cons]
    exact ih _ w (passStep_tr_mono g s v w h)

theorem passStep_trains (g : SG) (s : PassSt) (v : Nat) (hr : ready g s.included v = true)
    (hc : (g.offline v && !s.trained.contains v) = true) : v ∈ (passStep g s v).trained := by
  unfold passStep
  rw [if_pos hr, if_pos hc]
  exact List.mem_cons_self

/-- **Progress.** In a pass over a parents-first list, the first offline node that is not trained yet gets trained. -/
theorem pass_trains_first (g : SG) (pre post : List Nat) (v : Nat) (s : PassSt)
    (ht : TopoL g s.included (pre ++ v :: post))
    (hno : ∀ u ∈ pre, ¬ (g.offline u = true ∧ u ∉ s.trained))
    (hoff : g.offline v = true) (hv : v ∉ s.trained) :
    v ∈ (pass g (pre ++ v :: post) s).trained := by
  have hsplit := topoL_append g pre (v :: post) s.included ht
  have hp := pass_prefix g pre s hsplit.1 hno
  have hvt : (∀ p ∈ g.parents v, p ∈ pre.reverse ++ s.included) ∧ _ := hsplit.2
  simp only [pass, List.foldl_append, List.foldl_cons]
  apply pass_tr_mono
  have hr : ready g (List.foldl (passStep g) s pre).included v = true := by
    apply ready_of
    have : (List.foldl (passStep g) s pre).included = pre.reverse ++ s.included := hp.1
    rw [this]; exact hvt.1
  have htr : (List.foldl (passStep g) s pre).trained = s.trained := hp.2
  have hc : (g.offline v && !(List.foldl (passStep g) s pre).trained.contains v) = true := by
    rw [htr]; simp [hoff, hv]
  exact passStep_trains g _ v hr hc

theorem exists_first (P : Nat → Prop) [DecidablePred P] : ∀ (l : List Nat), (∃ x ∈ l, P x) →
    ∃ pre v post, l = pre ++ v :: post ∧ (∀ u ∈ pre, ¬ P u) ∧ P v := by
  intro l
  induction l with
  | nil => intro h; obtain ⟨x, hx, _⟩ := h; simp at hx
  | cons a as ih =>
    intro h
    by_cases ha : P a
    · exact ⟨[], a, as, rfl, by simp, ha⟩
    · obtain ⟨x, hx, hpx⟩ := h
      rcases List.mem_cons.mp hx with rfl | hx'
      · exact absurd hpx ha
      · obtain ⟨pre, v, post, hl, hpre, hv⟩ := ih ⟨x, hx', hpx⟩
        refine ⟨a :: pre, v, post, by simp [hl], ?_, hv⟩
        intro u hu
        rcases List.mem_cons.mp hu with rfl | hu'
        · exact ha
        · exact hpre u hu'

theorem filter_length_le {l : List Nat} {p p' : Nat → Bool} (himp : ∀ x, p' x = true → p x = true) :
    (l.filter p').length ≤ (l.filter p).length := by
  induction l with
  | nil => simp
  | cons a as ih =>
    cases h' : p' a
    · rw [List.filter_cons_of_neg (by simp [h'])]
      cases h : p a
      · rw [List.filter_cons_of_neg (by simp [h])]; exact ih
      · rw [List.filter_cons_of_pos h]; simp only [List.length_cons]; omega
    · rw [List.filter_cons_of_pos h', List.filter_cons_of_pos (himp a h')]
      simp only [List.length_cons]; omega

theorem filter_length_lt {l : List Nat} {p p' : Nat → Bool} (himp : ∀ x, p' x = true → p x = true)
    (hex : ∃ x ∈ l, p x = true ∧ p' x = false) : (l.filter p').length < (l.filter p).length := by
  induction l with
  | nil => obtain ⟨x, hx, _⟩ := hex; simp at hx
  | cons a as ih =>
    obtain ⟨x, hx, hpx, hp'x⟩ := hex
    cases h' : p' a
    · rw [List.filter_cons_of_neg (by simp [h'])]
      cases h : p a
      · rw [List.filter_cons_of_neg (by simp [h])]
        rcases List.mem_cons.mp hx with rfl | hx'
        · rw [h] at hpx; exact absurd hpx (by simp)
        · exact ih ⟨x, hx', hpx, hp'x⟩
      · rw [List.filter_cons_of_pos h]
        have := filter_length_le (l := as) himp
        simp only [List.length_cons]; omega
    · rw [List.filter_cons_of_pos h', List.filter_cons_of_pos (himp a h')]
      rcases List.mem_cons.mp hx with rfl | hx'
      · rw [h'] at hp'x; exact absurd hp'x (by simp)
      · have := ih ⟨x, hx', hpx, hp'x⟩
        simp only [List.length_cons]; omega

/-- the offline nodes still to be trained -/
def untr (offl : List Nat) (s : PassSt) : List Nat := offl.filter (fun v => !s.trained.contains v)

theorem stagesLoop_terminates (g : SG) (nodes : List Nat) (hnd : nodes.Nodup) (htopo : TopoL g [] nodes) :
    ∀ (fuel : Nat) (s : PassSt) (acc : List (List Nat)), SInv g s →
      (untr (nodes.filter g.offline) s).length < fuel →
      (∀ v ∈ nodes.filter g.offline, v ∈ (stagesLoop g nodes (nodes.filter g.offline) fuel s acc).2.trained)
      ∧ (stagesLoop g nodes (nodes.filter g.offline) fuel s acc).1.length
          ≤ acc.length + (untr (nodes.filter g.offline) s).length := by
  intro fuel
  induction fuel with
  | zero => intro s acc _ h; omega
  | succ n ih =>
    intro s acc hinv hfuel
    simp only [stagesLoop]
    split
    · rename_i hall
      refine ⟨?_, by simp⟩
      intro v hv
      simp only [List.all_eq_true, List.contains_eq_mem, decide_eq_true_eq] at hall
      exact hall v hv
    · rename_i hall
      simp only [List.all_eq_true, List.contains_eq_mem, decide_eq_true_eq, not_forall] at hall
      obtain ⟨v, hv, hvt⟩ := hall
      have hvm := List.mem_filter.mp hv
      -- the todo list of this pass
      generalize htodo : List.filter (fun v => !s.included.contains v) nodes = todo
      have hvinc : v ∉ s.included := fun h => hvt (hinv.off_inc_trained v h hvm.2)
      have hvtodo : v ∈ todo := by
        rw [← htodo, List.mem_filter]
        exact ⟨hvm.1, by simp [hvinc]⟩
      have httodo : TopoL g s.included todo := htodo ▸
        topoL_filter g nodes [] s.included s.included (by simp) (fun _ h => h) htopo
      obtain ⟨pre, w, post, hl, hpre, hw⟩ :=
        exists_first (fun u => g.offline u = true ∧ u ∉ s.trained) todo ⟨v, hvtodo, hvm.2, hvt⟩
      have hwtr : w ∈ (pass g todo { s with sub := [] }).trained := by
        rw [hl]
        apply pass_trains_first g pre post w { s with sub := [] } (by rw [← hl]; exact httodo) hpre hw.1 hw.2
      have hwnodes : w ∈ nodes := by
        have : w ∈ todo := by rw [hl]; simp
        rw [← htodo] at this
        exact (List.mem_filter.mp this).1
      have hinv' : SInv g (pass g todo { s with sub := [] }) := by
        apply sinv_pass g _ _ (htodo ▸ hnd.filter _)
        · intro u hu
          rw [← htodo] at hu
          simp only [List.mem_filter, Bool.not_eq_eq_eq_not, Bool.not_true, List.contains_eq_mem,
            decide_eq_false_iff_not] at hu
          exact hu.2
        · exact ⟨hinv.inc_nodup, hinv.tr_nodup, hinv.tr_offline, hinv.off_inc_trained, hinv.inc_closed, hinv.tr_ready⟩
      have hlt : (untr (nodes.filter g.offline) (pass g todo { s with sub := [] })).length
          < (untr (nodes.filter g.offline) s).length := by
        apply filter_length_lt
        · intro x hx
          simp only [Bool.not_eq_eq_eq_not, Bool.not_true, List.contains_eq_mem, decide_eq_false_iff_not] at hx ⊢
          intro hxs
          exact hx (pass_tr_mono g todo { s with sub := [] } x hxs)
        · refine ⟨w, List.mem_filter.mpr ⟨hwnodes, hw.1⟩, by simp [hw.2], by simp [hwtr]⟩
      have := ih (pass g todo { s with sub := [] }) (acc ++ [(pass g todo { s with sub := [] }).sub]) hinv' (by omega)
      refine ⟨this.1, ?_⟩
      have h2 := this.2
      rw [List.length_append, List.length_singleton] at h2
      omega

/-- **The staging terminates with everything trained.** For every graph whose node list is parents-first (the
    list a `Model` holds) and every choice of offline nodes, the staged loop of `Model.fit` ends — within the
    model's fuel, so the `while trained != offlines` loop of the code ends too — with every offline node trained,
    after at most one pass per offline node. -/
theorem C06_staging_terminates (g : SG) (nodes : List Nat) (hnd : nodes.Nodup) (htopo : TopoL g [] nodes) :
    (∀ v ∈ nodes, g.offline v = true → v ∈ (offlineStages g nodes).2.trained)
    ∧ (offlineStages g nodes).1.length ≤ (nodes.filter g.offline).length := by
  have h0 : SInv g ⟨[], [], []⟩ :=
    ⟨List.nodup_nil, List.nodup_nil, by simp, by simp, by simp, by simp⟩
  have hlen : (untr (nodes.filter g.offline) ⟨[], [], []⟩).length < nodes.length + 2 := by
    have h1 : (untr (nodes.filter g.offline) ⟨[], [], []⟩).length ≤ (nodes.filter g.offline).length :=
      List.length_filter_le _ _
    have h2 : (nodes.filter g.offline).length ≤ nodes.length := List.length_filter_le _ _
    omega
  have := stagesLoop_terminates g nodes hnd htopo (nodes.length + 2) ⟨[], [], []⟩ [] h0 hlen
  refine ⟨fun v hv ho => this.1 v (List.mem_filter.mpr ⟨hv, ho⟩), ?_⟩
  have h2 := this.2
  have h1 : (untr (nodes.filter g.offline) ⟨[], [], []⟩).length ≤ (nodes.filter g.offline).length :=
    List.length_filter_le _ _
  simp only [List.length_nil, Nat.zero_add] at h2
  exact Nat.le_trans h2 h1

/-- the premises are satisfiable: the chain 0 → 1 → 2 → 3 with readouts at 1 and 3 is parents-first -/
example : TopoL demoG [] [0, 1, 2, 3] ∧ [0, 1, 2, 3].Nodup := by
  refine ⟨?_, by decide⟩
  simp [TopoL, demoG]

/-- … and the order matters for the *bound*, not for the invariants: listed children-first, the same chain needs
    more passes than it has offline nodes (the code only ever hands over the sorted list) -/
example : (offlineStages demoG [3, 2, 1, 0]).1.length > ([3, 2, 1, 0].filter demoG.offline).length := by decide


/-- the executable test used by the driver decides `TopoL` -/
theorem topoLB_iff (g : SG) : ∀ (l inc : List Nat), topoLB g inc l = true ↔ TopoL g inc l := by
  intro l
  induction l with
  | nil => intro inc; simp [topoLB, TopoL]
  | cons u us ih =>
    intro inc
    simp only [topoLB, TopoL, Bool.and_eq_true, List.all_eq_true, List.contains_eq_mem, decide_eq_true_eq, ih]

/-- what the correspondence checks on every model (`topo = true` in the driver's answer) is the hypothesis of
    `C06_staging_terminates` -/
theorem C06_staging_terminates_of_test (g : SG) (nodes : List Nat) (hnd : nodes.Nodup)
    (htest : topoLB g [] nodes = true) :
    (∀ v ∈ nodes, g.offline v = true → v ∈ (offlineStages g nodes).2.trained)
    ∧ (offlineStages g nodes).1.length ≤ (nodes.filter g.offline).length :=
  C06_staging_terminates g nodes hnd ((topoLB_iff g nodes []).mp htest)


/-! ### routing of the data across the cut edges (model of the code as it is, findings K20–K23) -/

/-- a forward node all of whose predecessors are run in its own stage receives exactly its predecessors, in operand
    order: inside one stage the routing is right -/
theorem C06_delivered_internal (g : SG) (prevSub curSub fw : List Nat) (c : Nat)
    (h : ∀ p ∈ g.parents c, p ∈ fw) (hsub : ∀ p ∈ fw, p ∈ curSub) :
    delivered g prevSub curSub fw c = some (g.parents c) := by
  have hint : (g.parents c).filter (fun p => fw.contains p) = g.parents c := by
    apply List.filter_eq_self.mpr
    intro p hp; simp [h p hp]
  have hext : (g.parents c).filter (fun p => prevSub.contains p && !curSub.contains p) = [] := by
    apply List.filter_eq_nil_iff.mpr
    intro p hp
    simp [hsub p (h p hp)]
  simp only [delivered, hint, hext]

/-- one operand forwarded from the previous stage is delivered correctly exactly when it is the LAST operand: the
    dispatcher appends it after the internal ones -/
theorem C06_delivered_last_external (g : SG) (prevSub curSub fw : List Nat) (c q : Nat) (ps : List Nat)
    (hpar : g.parents c = ps ++ [q]) (hps : ∀ p ∈ ps, p ∈ fw) (hsub : ∀ p ∈ fw, p ∈ curSub)
    (hq : q ∈ prevSub) (hqc : q ∉ curSub) :
    delivered g prevSub curSub fw c = some (g.parents c) := by
  have hqfw : q ∉ fw := fun h => hqc (hsub q h)
  have hint : (g.parents c).filter (fun p => fw.contains p) = ps := by
    rw [hpar, List.filter_append]
    have h1 : ps.filter (fun p => fw.contains p) = ps := List.filter_eq_self.mpr (by intro p hp; simp [hps p hp])
    have h2 : [q].filter (fun p => fw.contains p) = [] := by simp [hqfw]
    rw [h1, h2, List.append_nil]
  have hext : (g.parents c).filter (fun p => prevSub.contains p && !curSub.contains p) = [q] := by
    rw [hpar, List.filter_append]
    have h1 : ps.filter (fun p => prevSub.contains p && !curSub.contains p) = [] := by
      apply List.filter_eq_nil_iff.mpr
      intro p hp; simp [hsub p (hps p hp)]
    have h2 : [q].filter (fun p => prevSub.contains p && !curSub.contains p) = [q] := by simp [hq, hqc]
    rw [h1, h2, List.nil_append]
  simp only [delivered, hint, hext]
  rw [hpar]

/-- … and wrongly when it is not: with `parents c = q :: p :: ps`, `q` forwarded and the others internal, `c` receives
    `p :: ps ++ [q]` — the readout behind it is fitted on permuted features (finding K20) -/
theorem C06_delivered_first_external (g : SG) (prevSub curSub fw : List Nat) (c q p : Nat) (ps : List Nat)
    (hpar : g.parents c = q :: p :: ps) (hps : ∀ x ∈ p :: ps, x ∈ fw) (hsub : ∀ x ∈ fw, x ∈ curSub)
    (hq : q ∈ prevSub) (hqc : q ∉ curSub) :
    delivered g prevSub curSub fw c = some (p :: ps ++ [q]) := by
  have hqfw : q ∉ fw := fun h => hqc (hsub q h)
  have hint : (g.parents c).filter (fun x => fw.contains x) = p :: ps := by
    rw [hpar, List.filter_cons_of_neg (by simp [hqfw])]
    exact List.filter_eq_self.mpr (by intro x hx; simp [hps x hx])
  have hext : (g.parents c).filter (fun x => prevSub.contains x && !curSub.contains x) = [q] := by
    rw [hpar, List.filter_cons_of_pos (by simp [hq, hqc])]
    congr 1
    apply List.filter_eq_nil_iff.mpr
    intro x hx; simp [hsub x (hps x hx)]
  simp only [delivered, hint, hext]

/-- when the model reports no fault for a stage, every forward node of the stage receives exactly its predecessors in
    operand order -/
theorem C06_no_fault_sound (g : SG) (prevSub curSub : List Nat) (fw : List Nat)
    (h : stageFaults g prevSub curSub fw = []) :
    ∀ c ∈ fw, delivered g prevSub curSub fw c = some (g.parents c) := by
  simp only [stageFaults, List.filterMap_eq_nil_iff] at h
  intro c hc
  have := h c hc
  cases hd : delivered g prevSub curSub fw c with
  | none => simp [hd] at this
  | some l =>
    simp only [hd] at this
    by_cases hl : l = g.parents c
    · rw [hl]
    · simp only [hl, if_false] at this
      split at this <;> simp at this

/-! the recorded findings (K23 repaired since: fix D39), as the model sees them (graphs WITH their concatenation nodes; `parents` in operand
    order = sorted by name, the input sorting first) -/

/-- K20: `(inp >> r1 >> o1 >> r2 >> o2) & (inp >> o2)`; 0 inp, 1 r1, 2 o1, 3 r2, 4 Concat(inp, r2), 5 o2 -/
def gK20 : SG := ⟨fun v => [[], [0], [1], [2], [0, 3], [4]].getD v [], fun v => v == 5, fun v => v == 2 || v == 5⟩
example : routeFaults gK20 [0, 1, 2, 3, 4, 5] = [.order 4] := by decide
/-- the same model with the shortcut as LAST operand is routed correctly -/
def gK20ok : SG := ⟨fun v => [[], [0], [1], [2], [3, 0], [4]].getD v [], fun v => v == 5, fun v => v == 2 || v == 5⟩
example : routeFaults gK20ok [0, 1, 2, 3, 4, 5] = [] := by decide

/-- K21: `(inp >> r1 >> o1 >> r2 >> o2 >> r3 >> o3) & (r1 >> o3)`; 7 = Concat(r1, r3), 8 = o3 -/
def gK21 : SG := ⟨fun v => [[], [0], [1], [2], [3], [4], [], [1, 5], [7]].getD v [], fun v => v == 8,
                  fun v => v == 2 || v == 4 || v == 8⟩
example : routeFaults gK21 [0, 1, 2, 3, 4, 5, 7, 8] = [.missing 7] := by decide

/-- K22: `(inp >> r1 >> o1) & ([inp, r1, o1] >> o2)`; 3 = Concat(inp, r1, o1), 4 = o2 -/
def gK22 : SG := ⟨fun v => [[], [0], [1], [0, 1, 2], [3]].getD v [], fun v => v == 4, fun v => v == 2 || v == 4⟩
example : routeFaults gK22 [0, 1, 2, 3, 4] = [.overwrite 3] := by decide

/-- K23 (repaired by D39): `inp >> r1 >> oA` next to `inp >> r2 >> oB >> oC`; 2 = oA (exit, trained in stage 1 of 2): no fault any more -/
def gK23 : SG := ⟨fun v => [[], [0], [1], [0], [3], [4]].getD v [], fun v => v == 2 || v == 5,
                  fun v => v == 2 || v == 4 || v == 5⟩
example : routeFaults gK23 [0, 1, 2, 3, 4, 5] = [] := by decide
/-- … because the relations of its first stage now name the early exit readout as a consumer (2 = oA, fed by 1 = r1) -/
example : (required gK23 [0, 1, 2, 3, 4, 5]).head? = some [(1, [2]), (3, [4])] := by decide

/-- a deep chain without shortcuts has no fault -/
example : routeFaults demoG [0, 1, 2, 3] = [] := by decide


/-- the forwarded operands of the routing model are exactly the senders the relations of the previous stage name for
    this consumer: `delivered` reads `_get_required_nodes` correctly -/
theorem C06_ext_iff_link (g : SG) (nodes prevSub curSub : List Nat) (c p : Nat)
    (hc : c ∈ curSub) (hcn : c ∈ nodes) (hp : p ∈ g.parents c) :
    (p ∈ prevSub ∧ p ∉ curSub) ↔ ∃ cs, (p, cs) ∈ getLinks g nodes prevSub curSub ∧ c ∈ cs := by
  have hcmem : c ∈ childrenOf g nodes p := by simp [childrenOf, hcn, hp]
  constructor
  · rintro ⟨h1, h2⟩
    refine ⟨(childrenOf g nodes p).filter (fun c => curSub.contains c), ?_, ?_⟩
    · simp only [getLinks, List.mem_filterMap]
      refine ⟨p, h1, ?_⟩
      simp only [List.contains_eq_mem, h2, decide_false, Bool.false_eq_true, if_false]
      have hne : ((childrenOf g nodes p).filter (fun c => decide (c ∈ curSub))).isEmpty = false := by
        rw [List.isEmpty_eq_false_iff_exists_mem]
        exact ⟨c, by simp [hcmem, hc]⟩
      simp [hne]
    · simp [hcmem, hc]
  · rintro ⟨cs, hmem, _⟩
    simp only [getLinks, List.mem_filterMap] at hmem
    obtain ⟨n, hn, hval⟩ := hmem
    by_cases hnx : n ∈ curSub
    · simp [hnx] at hval
    · simp only [List.contains_eq_mem, hnx, decide_false, Bool.false_eq_true, if_false] at hval
      split at hval
      · simp at hval
      · simp only [Option.some.injEq, Prod.mk.injEq] at hval
        obtain ⟨rfl, _⟩ := hval
        exact ⟨hn, hnx⟩


open Matrix

section PermutedFit
variable {R : Type} [Field R] [LinearOrder R] [IsStrictOrderedRing R]

/-- **What a permuted fan-in does to the readout behind it (finding K20).** If the features reach the readout permuted
    (or rotated by any orthogonal `Q`: `X * Q` instead of `X`) the normal equations are solved by `Qᵀ W`, where `W`
    solves them for the features in operand order … -/
theorem C06_permuted_fit_normal_eq {T d k : Nat} (lam : R) (X : Matrix (Fin T) (Fin d) R) (Y : Matrix (Fin T) (Fin k) R)
    (W : Matrix (Fin d) (Fin k) R) (Q : Matrix (Fin d) (Fin d) R) (hQ : Q * Qᵀ = 1)
    (hne : (Xᵀ * X + lam • (1 : Matrix (Fin d) (Fin d) R)) * W = Xᵀ * Y) :
    ((X * Q)ᵀ * (X * Q) + lam • (1 : Matrix (Fin d) (Fin d) R)) * (Qᵀ * W) = (X * Q)ᵀ * Y := by
  have h1 : (X * Q)ᵀ * (X * Q) * (Qᵀ * W) = Qᵀ * (Xᵀ * X * W) := by
    rw [transpose_mul]
    calc Qᵀ * Xᵀ * (X * Q) * (Qᵀ * W) = Qᵀ * Xᵀ * X * (Q * Qᵀ) * W := by simp only [Matrix.mul_assoc]
      _ = Qᵀ * (Xᵀ * X * W) := by rw [hQ, Matrix.mul_one]; simp only [Matrix.mul_assoc]
  rw [Matrix.add_mul, h1, Matrix.smul_mul, Matrix.one_mul, transpose_mul, Matrix.mul_assoc Qᵀ Xᵀ Y, ← hne,
    Matrix.add_mul, Matrix.smul_mul, Matrix.one_mul, Matrix.mul_add, Matrix.mul_smul]

/-- … so for λ > 0 the readout fitted on the permuted features is EXACTLY `Qᵀ W` (unique optimum), and applied to the
    features in operand order - what the fitted model does at run time - it computes `Wᵀ (Q x)`: the right weights on
    the wrongly ordered features -/
theorem C06_permuted_fit {T d k : Nat} (lam : R) (hlam : 0 < lam) (X : Matrix (Fin T) (Fin d) R)
    (Y : Matrix (Fin T) (Fin k) R) (W W' : Matrix (Fin d) (Fin k) R) (Q : Matrix (Fin d) (Fin d) R) (hQ : Q * Qᵀ = 1)
    (hne : (Xᵀ * X + lam • (1 : Matrix (Fin d) (Fin d) R)) * W = Xᵀ * Y)
    (hne' : ((X * Q)ᵀ * (X * Q) + lam • (1 : Matrix (Fin d) (Fin d) R)) * W' = (X * Q)ᵀ * Y) :
    W' = Qᵀ * W ∧ ∀ x : Matrix (Fin d) (Fin 1) R, W'ᵀ * x = Wᵀ * (Q * x) := by
  have h := C06_permuted_fit_normal_eq lam X Y W Q hQ hne
  have hW : W' = Qᵀ * W := C04_unique_solution lam hlam (X * Q) Y (Qᵀ * W) W' h hne'
  refine ⟨hW, fun x => ?_⟩
  rw [hW, transpose_mul, transpose_transpose, Matrix.mul_assoc]

end PermutedFit

/-- what the fault `overwrite` means (finding K22): a forward node with two or more operands forwarded from the
    previous stage -/
theorem C06_overwrite_iff (g : SG) (prevSub curSub : List Nat) (fw : List Nat) (c : Nat) :
    RouteFault.overwrite c ∈ stageFaults g prevSub curSub fw ↔
      c ∈ fw ∧ 2 ≤ ((g.parents c).filter (fun p => prevSub.contains p && !curSub.contains p)).length := by
  simp only [stageFaults, List.mem_filterMap]
  constructor
  · rintro ⟨d, hd, h⟩
    · cases hdel : delivered g prevSub curSub fw d with
      | none =>
        simp only [hdel, Option.some.injEq, RouteFault.overwrite.injEq] at h
        subst h
        refine ⟨hd, ?_⟩
        unfold delivered at hdel
        generalize (g.parents d).filter (fun p => prevSub.contains p && !curSub.contains p) = ext at hdel ⊢
        match ext, hdel with
        | [], h' => simp at h'
        | [_], h' => simp at h'
        | _ :: _ :: _, _ => simp
      | some l =>
        simp only [hdel] at h
        split at h
        · simp at h
        · split at h <;> simp at h
  · rintro ⟨hc, hlen⟩
    refine ⟨c, hc, ?_⟩
    have : delivered g prevSub curSub fw c = none := by
      unfold delivered
      generalize (g.parents c).filter (fun p => prevSub.contains p && !curSub.contains p) = ext at hlen ⊢
      match ext, hlen with
      | [], h' => simp at h'
      | [_], h' => simp at h'
      | _ :: _ :: _, _ => rfl
    simp [this]


/-- a forward node with at most one predecessor receives either that predecessor or nothing: permuted (`order`) and
    overwritten (`overwrite`) operands are phenomena of fan-in nodes only -/
theorem C06_single_parent_delivered (g : SG) (prevSub curSub fw : List Nat) (c : Nat)
    (h1 : (g.parents c).length ≤ 1) (hsub : ∀ p ∈ fw, p ∈ curSub) :
    delivered g prevSub curSub fw c = some (g.parents c) ∨ delivered g prevSub curSub fw c = some [] := by
  match hp : g.parents c, h1 with
  | [], _ => left; simp [delivered, hp]
  | [p], _ =>
    by_cases hfw : p ∈ fw
    · left
      have hc := hsub p hfw
      simp [delivered, hp, hfw, hc]
    · by_cases hext : p ∈ prevSub ∧ p ∉ curSub
      · left; simp [delivered, hp, hfw, hext.1, hext.2]
      · right
        have : (prevSub.contains p && !curSub.contains p) = false := by
          by_cases hpp : p ∈ prevSub
          · have : p ∈ curSub := by
              by_contra hn; exact hext ⟨hpp, hn⟩
            simp [hpp, this]
          · simp [hpp]
        have this' : (decide (p ∈ prevSub) && !decide (p ∈ curSub)) = false := by simpa using this
        simp [delivered, hp, hfw, this']
  | _ :: _ :: _, h => simp at h

theorem C06_single_parent_faults (g : SG) (prevSub curSub fw : List Nat) (c : Nat)
    (h1 : (g.parents c).length ≤ 1) (hsub : ∀ p ∈ fw, p ∈ curSub) :
    RouteFault.order c ∉ stageFaults g prevSub curSub fw ∧ RouteFault.overwrite c ∉ stageFaults g prevSub curSub fw := by
  have hd := C06_single_parent_delivered g prevSub curSub fw c h1 hsub
  constructor
  · intro hmem
    simp only [stageFaults, List.mem_filterMap] at hmem
    obtain ⟨d, _, hval⟩ := hmem
    cases hdel : delivered g prevSub curSub fw d with
    | none => simp [hdel] at hval
    | some l =>
      simp only [hdel] at hval
      split at hval
      · simp at hval
      · rename_i hne
        split at hval
        · simp at hval
        · rename_i hlen
          simp only [Option.some.injEq, RouteFault.order.injEq] at hval
          subst hval
          rcases hd with h | h
          · rw [hdel] at h; exact hne (Option.some.inj h)
          · rw [hdel] at h
            have hl : l = [] := Option.some.inj h
            subst hl
            -- [] is not shorter than the operand list only if that list is empty: then they are equal
            have : g.parents d = [] := by
              cases hp : g.parents d with
              | nil => rfl
              | cons a as => simp [hp] at hlen
            exact hne this.symm
  · intro hmem
    rw [C06_overwrite_iff] at hmem
    have hlen := hmem.2
    have hle : ((g.parents c).filter (fun p => prevSub.contains p && !curSub.contains p)).length ≤ (g.parents c).length :=
      List.length_filter_le _ _
    omega
