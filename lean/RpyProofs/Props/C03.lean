/-
  C03 — linking and merging build exactly the intended acyclic graph.
  Model: RpyModel/Graph.lean.
-/
import RpyModel.Graph
import Mathlib.Data.List.Perm.Subperm
import Mathlib.Data.List.Nodup
import Mathlib.Data.List.Basic

set_option linter.unusedSectionVars false
set_option linter.unusedSimpArgs false
set_option linter.unusedVariables false

/-! ### Soundness -/

theorem hasParent_iff {es : List Edge} {m : Node} : hasParent es m = true ↔ ∃ a, (a, m) ∈ es := by
  simp only [hasParent, List.any_eq_true, beq_iff_eq]
  constructor
  · rintro ⟨⟨a, b⟩, h, rfl⟩; exact ⟨a, h⟩
  · rintro ⟨a, h⟩; exact ⟨(a, m), h, rfl⟩

theorem mem_children {es : List Edge} {n m : Node} : m ∈ children es n ↔ (n, m) ∈ es := by
  simp only [children, List.mem_map, List.mem_filter, beq_iff_eq]
  constructor
  · rintro ⟨⟨a, b⟩, ⟨h, rfl⟩, rfl⟩; exact h
  · intro h; exact ⟨(n, m), ⟨h, rfl⟩, rfl⟩

/-- `a` occurs strictly after `b` in `l` (so strictly before it in `l.reverse`). -/
def After (a b : Node) (l : List Node) : Prop := ∃ l1 l2, l = l1 ++ b :: l2 ∧ a ∈ l2

theorem After.cons {a b n : Node} {l : List Node} (h : After a b l) : After a b (n :: l) := by
  obtain ⟨l1, l2, rfl, h2⟩ := h
  exact ⟨n :: l1, l2, rfl, h2⟩

structure KInv (N : List Node) (E : List Edge) (stack : List Node) (es : List Edge) (out : List Node) : Prop where
  es_eq : ∀ e, e ∈ es ↔ (e ∈ E ∧ e.1 ∉ out)
  es_nodup : es.Nodup
  out_nodup : out.Nodup
  out_sub : ∀ n ∈ out, n ∈ N
  stack_nodup : stack.Nodup
  stack_ok : ∀ n ∈ stack, n ∈ N ∧ n ∉ out ∧ hasParent es n = false
  rest : ∀ n ∈ N, n ∉ out → n ∉ stack → hasParent es n = true
  topo : ∀ a b, (a, b) ∈ E → b ∈ out → After a b out

theorem inv_init (N : List Node) (E : List Edge) (hN : N.Nodup) (hEnd : E.Nodup) : KInv N E (entries N E) E [] := by
  refine ⟨by simp, hEnd, by simp, by simp, hN.filter _, ?_, ?_, by simp⟩
  · intro n hn
    simp only [entries, List.mem_filter, Bool.not_eq_eq_eq_not, Bool.not_true] at hn
    exact ⟨hn.1, by simp, hn.2⟩
  · intro n hN _ hs
    simp only [entries, List.mem_filter, Bool.not_eq_eq_eq_not, Bool.not_true, not_and, Bool.not_eq_false] at hs
    exact hs hN

theorem inv_step {N : List Node} {E : List Edge} {n : Node} {stack : List Node} {es : List Edge} {out : List Node}
    (hE : ∀ e ∈ E, e.1 ∈ N ∧ e.2 ∈ N)
    (h : KInv N E (n :: stack) es out) :
    KInv N E ((children es n).filter (fun m => !hasParent (es.filter (fun e => e.1 != n)) m) ++ stack)
      (es.filter (fun e => e.1 != n)) (n :: out) := by
  have hn := h.stack_ok n (by simp)
  have hn_stack : n ∉ stack := (List.nodup_cons.mp h.stack_nodup).1
  refine ⟨?_, h.es_nodup.filter _, ?_, ?_, ?_, ?_, ?_, ?_⟩
  · intro e
    simp only [List.mem_filter, bne_iff_ne, ne_eq, h.es_eq, List.mem_cons, not_or]
    constructor
    · rintro ⟨⟨h1, h2⟩, h3⟩; exact ⟨h1, h3, h2⟩
    · rintro ⟨h1, h3, h2⟩; exact ⟨⟨h1, h2⟩, h3⟩
  · exact List.nodup_cons.mpr ⟨hn.2.1, h.out_nodup⟩
  · intro m hm
    rcases List.mem_cons.mp hm with rfl | hm
    · exact hn.1
    · exact h.out_sub m hm
  · -- new stack is duplicate free
    have hst_nd : stack.Nodup := (List.nodup_cons.mp h.stack_nodup).2
    have hch_nd : (children es n).Nodup := by
      unfold children
      refine (List.Nodup.filter _ h.es_nodup).map_on ?_
      intro a ha b hb hab
      simp only [List.mem_filter, beq_iff_eq] at ha hb
      exact Prod.ext (ha.2.trans hb.2.symm) hab
    refine List.nodup_append.mpr ⟨hch_nd.filter _, hst_nd, ?_⟩
    intro a ha b hb hab
    subst hab
    simp only [List.mem_filter] at ha
    have hedge : (n, a) ∈ es := mem_children.mp ha.1
    have h1 : hasParent es a = true := hasParent_iff.mpr ⟨n, hedge⟩
    have h2 := (h.stack_ok a (by simp [hb])).2.2
    rw [h2] at h1; exact Bool.noConfusion h1
  · intro m hm
    rcases List.mem_append.mp hm with hm' | hmst
    · simp only [List.mem_filter, Bool.not_eq_eq_eq_not, Bool.not_true] at hm'
      obtain ⟨hc, hp⟩ := hm'
      have hedge : (n, m) ∈ es := mem_children.mp hc
      have hE' := (h.es_eq (n, m)).mp hedge
      refine ⟨(hE _ hE'.1).2, ?_, hp⟩
      simp only [List.mem_cons, not_or]
      refine ⟨?_, ?_⟩
      · rintro rfl
        have : hasParent es m = true := hasParent_iff.mpr ⟨m, hedge⟩
        rw [hn.2.2] at this; exact Bool.noConfusion this
      · intro hmo
        -- m ∈ out would give n ∈ out by topo
        obtain ⟨l1, l2, hl, hmem⟩ := h.topo n m hE'.1 hmo
        exact hE'.2 (by rw [hl]; simp [hmem])
    · have hst := h.stack_ok m (by simp [hmst])
      have hm_ne : m ≠ n := by rintro rfl; exact hn_stack hmst
      refine ⟨hst.1, ?_, ?_⟩
      · simp only [List.mem_cons, not_or]
        exact ⟨hm_ne, hst.2.1⟩
      · cases hp : hasParent (es.filter (fun e => e.1 != n)) m with
        | false => rfl
        | true =>
          obtain ⟨a, ha⟩ := hasParent_iff.mp hp
          have h2 : hasParent es m = true := hasParent_iff.mpr ⟨a, (List.mem_filter.mp ha).1⟩
          rw [hst.2.2] at h2
          exact Bool.noConfusion h2
  · intro m hN hmo hms
    simp only [List.mem_cons, not_or] at hmo
    simp only [List.mem_append, List.mem_filter, Bool.not_eq_eq_eq_not, Bool.not_true, not_or, not_and,
      Bool.not_eq_false] at hms
    by_cases hst : m ∈ stack
    · exact absurd hst hms.2
    · -- m was in `rest` before: it has a parent in es
      have hm_ne : m ≠ n := hmo.1
      have hp : hasParent es m = true := h.rest m hN hmo.2 (by simp [hm_ne, hst])
      obtain ⟨a, ha⟩ := hasParent_iff.mp hp
      by_cases han : a = n
      · subst han
        exact hms.1 (mem_children.mpr ha)
      · exact hasParent_iff.mpr ⟨a, List.mem_filter.mpr ⟨ha, by simp [han]⟩⟩
  · intro a b hab hb
    rcases List.mem_cons.mp hb with rfl | hb
    · -- all parents of the popped node are already in out
      refine ⟨[], out, rfl, ?_⟩
      by_cases hao : a ∈ out
      · exact hao
      · have : (a, b) ∈ es := (h.es_eq (a, b)).mpr ⟨hab, hao⟩
        have : hasParent es b = true := hasParent_iff.mpr ⟨a, this⟩
        rw [hn.2.2] at this; exact Bool.noConfusion this
    · exact (h.topo a b hab hb).cons


theorem kahnLoop_sound {N : List Node} {E : List Edge} (hE : ∀ e ∈ E, e.1 ∈ N ∧ e.2 ∈ N) :
    ∀ (fuel : Nat) (stack : List Node) (es : List Edge) (out o : List Node),
      KInv N E stack es out → kahnLoop fuel stack es out = .ok o →
      o.Nodup ∧ (∀ n, n ∈ o ↔ n ∈ N) ∧ ∀ a b, (a, b) ∈ E → After a b o.reverse := by
  intro fuel
  induction fuel with
  | zero => intro stack es out o _ h; simp [kahnLoop] at h
  | succ f ih =>
    intro stack es out o hinv h
    cases stack with
    | nil =>
      simp only [kahnLoop] at h
      split at h
      · rename_i hemp
        have hes : es = [] := List.isEmpty_iff.mp hemp
        injection h with h; subst h
        have hall : ∀ n ∈ N, n ∈ out := by
          intro n hn
          by_cases hno : n ∈ out
          · exact hno
          · have := hinv.rest n hn hno (by simp)
            rw [hes] at this; simp [hasParent] at this
        refine ⟨List.nodup_reverse.mpr hinv.out_nodup, ?_, ?_⟩
        · intro n; simp only [List.mem_reverse]; exact ⟨hinv.out_sub n, hall n⟩
        · intro a b hab
          rw [List.reverse_reverse]
          exact hinv.topo a b hab (hall b (hE _ hab).2)
      · exact KahnResult.noConfusion h
    | cons n stack =>
      simp only [kahnLoop] at h
      exact ih _ _ _ o (inv_step hE hinv) h

/-- Soundness of the model of `topological_sort`: an accepted graph is given an order that contains every
node exactly once and in which every edge goes forward. -/
theorem kahn_sound {N : List Node} {E : List Edge} (hN : N.Nodup) (hEnd : E.Nodup)
    (hE : ∀ e ∈ E, e.1 ∈ N ∧ e.2 ∈ N) {o : List Node} (h : kahn N E = .ok o) :
    o.Nodup ∧ (∀ n, n ∈ o ↔ n ∈ N) ∧ ∀ a b, (a, b) ∈ E → After a b o.reverse :=
  kahnLoop_sound hE _ _ _ _ o (inv_init N E hN hEnd) h


/-! ### Completeness: a graph that admits a ranking (i.e. is acyclic) is accepted -/

theorem no_edges_left {N : List Node} {E : List Edge} {es : List Edge} {out : List Node}
    (hE : ∀ e ∈ E, e.1 ∈ N ∧ e.2 ∈ N) (rank : Node → Nat) (hr : ∀ e ∈ E, rank e.1 < rank e.2)
    (h : KInv N E [] es out) : es = [] := by
  have key : ∀ k, ∀ e ∈ es, rank e.1 ≠ k := by
    intro k
    induction k using Nat.strongRecOn with
    | _ k ih =>
      intro e he hk
      have heE := (h.es_eq e).mp he
      have hp := h.rest e.1 (hE e heE.1).1 heE.2 (by simp)
      obtain ⟨a, ha⟩ := hasParent_iff.mp hp
      have haE := (h.es_eq (a, e.1)).mp ha
      have hlt := hr _ haE.1
      exact ih (rank a) (by simpa [hk] using hlt) (a, e.1) ha rfl
  cases es with
  | nil => rfl
  | cons e es => exact absurd rfl (key (rank e.1) e (by simp))

theorem kahnLoop_complete {N : List Node} {E : List Edge} (hN : N.Nodup)
    (hE : ∀ e ∈ E, e.1 ∈ N ∧ e.2 ∈ N) (rank : Node → Nat) (hr : ∀ e ∈ E, rank e.1 < rank e.2) :
    ∀ (fuel : Nat) (stack : List Node) (es : List Edge) (out : List Node),
      KInv N E stack es out → N.length - out.length + 1 ≤ fuel →
      ∃ o, kahnLoop fuel stack es out = .ok o := by
  intro fuel
  induction fuel with
  | zero => intro _ _ _ _ h; omega
  | succ f ih =>
    intro stack es out hinv hf
    cases stack with
    | nil =>
      have := no_edges_left hE rank hr hinv
      subst this
      exact ⟨out.reverse, by simp [kahnLoop]⟩
    | cons n stack =>
      simp only [kahnLoop]
      apply ih _ _ _ (inv_step hE hinv)
      have hn := hinv.stack_ok n (by simp)
      have hnd : (n :: out).Nodup := List.nodup_cons.mpr ⟨hn.2.1, hinv.out_nodup⟩
      have hsub : (n :: out) ⊆ N := by
        intro x hx
        rcases List.mem_cons.mp hx with rfl | hx
        · exact hn.1
        · exact hinv.out_sub x hx
      have hlen : (n :: out).length ≤ N.length := (List.subperm_of_subset hnd hsub).length_le
      simp only [List.length_cons] at hlen ⊢
      omega

theorem kahn_complete {N : List Node} {E : List Edge} (hN : N.Nodup) (hEnd : E.Nodup)
    (hE : ∀ e ∈ E, e.1 ∈ N ∧ e.2 ∈ N) (rank : Node → Nat) (hr : ∀ e ∈ E, rank e.1 < rank e.2) :
    ∃ o, kahn N E = .ok o :=
  kahnLoop_complete hN hE rank hr _ _ _ _ (inv_init N E hN hEnd) (by simp)


/-! ### Property-level statements -/

/-- position-based reading of `After`: in the returned order `a` comes strictly before `b` -/
theorem after_reverse_idx {a b : Node} {o : List Node} (hnd : o.Nodup) (h : After a b o.reverse) :
    o.idxOf a < o.idxOf b := by
  obtain ⟨l1, l2, hl, ha⟩ := h
  have ho : o = l2.reverse ++ b :: l1.reverse := by
    have := congrArg List.reverse hl
    simpa using this
  subst ho
  have ha' : a ∈ l2.reverse := by simpa using ha
  have hb : b ∉ l2.reverse := by
    intro hb
    have := List.nodup_append.mp hnd
    exact this.2.2 b hb b (by simp) rfl
  rw [List.idxOf_append_of_mem ha', List.idxOf_append_of_notMem hb]
  have : List.idxOf a l2.reverse < l2.reverse.length := List.idxOf_lt_length_iff.mpr ha'
  simp only [List.length_reverse] at this
  simp only [List.idxOf_cons_self, List.length_reverse]; omega

/-- **The execution order is a valid topological order** (each node exactly once, every edge
    from an earlier to a later position), for every accepted graph. -/
theorem C03_kahn_sound {N : List Node} {E : List Edge} (hN : N.Nodup) (hEnd : E.Nodup)
    (hE : ∀ e ∈ E, e.1 ∈ N ∧ e.2 ∈ N) {o : List Node} (h : kahn N E = .ok o) :
    o.Nodup ∧ (∀ n, n ∈ o ↔ n ∈ N) ∧ ∀ a b, (a, b) ∈ E → o.idxOf a < o.idxOf b := by
  obtain ⟨h1, h2, h3⟩ := kahn_sound hN hEnd hE h
  exact ⟨h1, h2, fun a b hab => after_reverse_idx h1 (h3 a b hab)⟩

/-- **Every acyclic graph is accepted** (acyclic = admits a ranking that increases along edges),
    whatever its shape: several entries, unreachable parts, no edges at all. -/
theorem C03_kahn_complete {N : List Node} {E : List Edge} (hN : N.Nodup) (hEnd : E.Nodup)
    (hE : ∀ e ∈ E, e.1 ∈ N ∧ e.2 ∈ N) (rank : Node → Nat) (hr : ∀ e ∈ E, rank e.1 < rank e.2) :
    ∃ o, kahn N E = .ok o := kahn_complete hN hEnd hE rank hr

/-- **Accepted ⇔ acyclic.** -/
theorem C03_accept_iff_ranked {N : List Node} {E : List Edge} (hN : N.Nodup) (hEnd : E.Nodup)
    (hE : ∀ e ∈ E, e.1 ∈ N ∧ e.2 ∈ N) :
    (∃ o, kahn N E = .ok o) ↔ ∃ rank : Node → Nat, ∀ e ∈ E, rank e.1 < rank e.2 := by
  constructor
  · rintro ⟨o, h⟩
    obtain ⟨_, _, h3⟩ := C03_kahn_sound hN hEnd hE h
    exact ⟨fun n => o.idxOf n, fun e he => h3 e.1 e.2 he⟩
  · rintro ⟨rank, hr⟩
    exact C03_kahn_complete hN hEnd hE rank hr

/-- a directed cycle: a closed walk `v → … → v` along edges (a self-loop is the walk `v → v`) -/
def HasCycle (E : List Edge) : Prop :=
  ∃ v l, List.IsChain (fun a b => (a, b) ∈ E) (v :: (l ++ [v]))

theorem chain_rank_lt {E : List Edge} (rank : Node → Nat) (hr : ∀ e ∈ E, rank e.1 < rank e.2) :
    ∀ (v : Node) (l : List Node) (w : Node),
      List.IsChain (fun a b => (a, b) ∈ E) (v :: (l ++ [w])) → rank v < rank w := by
  intro v l
  induction l generalizing v with
  | nil =>
    intro w h
    simp only [List.nil_append, List.isChain_cons_cons] at h
    exact hr (v, w) h.1
  | cons x xs ih =>
    intro w h
    simp only [List.cons_append, List.isChain_cons_cons] at h
    exact Nat.lt_trans (hr (v, x) h.1) (ih x w h.2)

/-- **Any graph containing a directed cycle is rejected at construction** — including cycles
    not reachable from any entry, and graphs with no entry at all. -/
theorem C03_cycle_rejected {N : List Node} {E : List Edge} (hN : N.Nodup) (hEnd : E.Nodup)
    (hE : ∀ e ∈ E, e.1 ∈ N ∧ e.2 ∈ N) (hc : HasCycle E) : ∀ o, kahn N E ≠ .ok o := by
  intro o h
  obtain ⟨rank, hr⟩ := (C03_accept_iff_ranked hN hEnd hE).mp ⟨o, h⟩
  obtain ⟨v, l, hch⟩ := hc
  exact Nat.lt_irrefl _ (chain_rank_lt rank hr v l v hch)

theorem hasChild_iff {es : List Edge} {n : Node} : hasChild es n = true ↔ ∃ b, (n, b) ∈ es := by
  simp only [hasChild, List.any_eq_true, beq_iff_eq]
  constructor
  · rintro ⟨⟨a, b⟩, h, rfl⟩; exact ⟨b, h⟩
  · rintro ⟨b, h⟩; exact ⟨(n, b), h, rfl⟩

/-- **Entries and exits** are exactly the nodes without predecessor / without successor. -/
theorem C03_entries_exits (N : List Node) (E : List Edge) (n : Node) :
    (n ∈ entries N E ↔ n ∈ N ∧ ∀ a, (a, n) ∉ E) ∧ (n ∈ exits N E ↔ n ∈ N ∧ ∀ b, (n, b) ∉ E) := by
  constructor
  · simp only [entries, List.mem_filter, Bool.not_eq_eq_eq_not, Bool.not_true]
    rw [← Bool.not_eq_true, hasParent_iff]; simp
  · simp only [exits, List.mem_filter, Bool.not_eq_eq_eq_not, Bool.not_true]
    rw [← Bool.not_eq_true, hasChild_iff]; simp

theorem mem_product {α β : Type} (a : List α) (b : List β) (x : α) (y : β) :
    (x, y) ∈ product a b ↔ x ∈ a ∧ y ∈ b := by
  simp [product]

/-- **Linking one operand to another**: every node of both, every pre-existing edge, plus an edge
    from every output of the left operand to every input of the right — and nothing else. -/
theorem C03_link_edges (a b : Operand) (n : Node) (e : Edge) :
    (n ∈ (link1to1 a b).1 ↔ n ∈ a.nodes ∨ n ∈ b.nodes)
    ∧ (e ∈ (link1to1 a b).2 ↔ e ∈ a.edges ∨ e ∈ b.edges ∨ (e.1 ∈ a.outputs ∧ e.2 ∈ b.inputs)) := by
  obtain ⟨x, y⟩ := e
  simp [link1to1, mem_product, or_assoc]

/-- many-to-many `link`: the union over all pairs (left operand, right operand). -/
theorem C03_link_many (as bs : List Operand) (n : Node) (e : Edge) :
    (n ∈ (linkRaw as bs).1 ↔ ∃ a ∈ as, ∃ b ∈ bs, n ∈ a.nodes ∨ n ∈ b.nodes)
    ∧ (e ∈ (linkRaw as bs).2 ↔ ∃ a ∈ as, ∃ b ∈ bs,
          e ∈ a.edges ∨ e ∈ b.edges ∨ (e.1 ∈ a.outputs ∧ e.2 ∈ b.inputs)) := by
  constructor
  · simp only [linkRaw, List.mem_flatMap, Prod.exists, mem_product]
    constructor
    · rintro ⟨a, b, ⟨ha, hb⟩, h⟩; exact ⟨a, ha, b, hb, (C03_link_edges a b n e).1.mp h⟩
    · rintro ⟨a, ha, b, hb, h⟩; exact ⟨a, b, ⟨ha, hb⟩, (C03_link_edges a b n e).1.mpr h⟩
  · simp only [linkRaw, List.mem_flatMap, Prod.exists, mem_product]
    constructor
    · rintro ⟨a, b, ⟨ha, hb⟩, h⟩; exact ⟨a, ha, b, hb, (C03_link_edges a b n e).2.mp h⟩
    · rintro ⟨a, ha, b, hb, h⟩; exact ⟨a, b, ⟨ha, hb⟩, (C03_link_edges a b n e).2.mpr h⟩

/-- **Merging** is the union of the operands' nodes and edges: as sets it is commutative,
    idempotent and associative. -/
theorem C03_merge_sets (ops : List Operand) (n : Node) (e : Edge) :
    (n ∈ (mergeRaw ops).1 ↔ ∃ o ∈ ops, n ∈ o.nodes) ∧ (e ∈ (mergeRaw ops).2 ↔ ∃ o ∈ ops, e ∈ o.edges) := by
  simp [mergeRaw, List.mem_flatMap]

theorem C03_merge_comm (a b : Operand) (n : Node) (e : Edge) :
    (n ∈ (mergeRaw [a, b]).1 ↔ n ∈ (mergeRaw [b, a]).1) ∧ (e ∈ (mergeRaw [a, b]).2 ↔ e ∈ (mergeRaw [b, a]).2) := by
  simp [mergeRaw, or_comm]

theorem C03_merge_idem (a : Operand) (n : Node) (e : Edge) :
    (n ∈ (mergeRaw [a, a]).1 ↔ n ∈ a.nodes) ∧ (e ∈ (mergeRaw [a, a]).2 ↔ e ∈ a.edges) := by
  simp [mergeRaw]

theorem C03_merge_assoc (a b c : Operand) (n : Node) (e : Edge) :
    (n ∈ (mergeRaw [.model ⟨(mergeRaw [a, b]).1, (mergeRaw [a, b]).2⟩, c]).1
        ↔ n ∈ (mergeRaw [a, .model ⟨(mergeRaw [b, c]).1, (mergeRaw [b, c]).2⟩]).1)
    ∧ (e ∈ (mergeRaw [.model ⟨(mergeRaw [a, b]).1, (mergeRaw [a, b]).2⟩, c]).2
        ↔ e ∈ (mergeRaw [a, .model ⟨(mergeRaw [b, c]).1, (mergeRaw [b, c]).2⟩]).2) := by
  simp [mergeRaw, Operand.nodes, Operand.edges, or_assoc]

theorem mem_dedup {α : Type} [DecidableEq α] (l : List α) (x : α) : x ∈ dedup l ↔ x ∈ l := by
  induction l with
  | nil => simp [dedup]
  | cons y ys ih =>
    unfold dedup
    by_cases h : y ∈ ys
    · simp only [h, if_true, ih, List.mem_cons]
      constructor
      · intro hx; exact Or.inr hx
      · rintro (rfl | hx)
        · exact h
        · exact hx
    · simp [h, ih]

theorem dedup_nodup {α : Type} [DecidableEq α] (l : List α) : (dedup l).Nodup := by
  induction l with
  | nil => simp [dedup]
  | cons y ys ih =>
    unfold dedup
    by_cases h : y ∈ ys
    · simp [h, ih]
    · simp only [h, if_false, List.nodup_cons]
      exact ⟨fun hy => h ((mem_dedup ys y).mp hy), ih⟩

/-- **Concat insertion, one node.** Processing a non-Concat node `v` with more than one
    (distinct) parent adds one fresh Concat `c` with an edge from each parent of `v` (each once:
    the parent list is duplicate-free) and the single edge `c → v`; `v` gets no other new
    incoming edge.  A node with at most one parent keeps its parents. -/
theorem C03_concat_step (es : List Edge) (ns : List Node) (new : List Edge) (next : Nat) (v : Node) (e : Edge) :
    let ps := dedup (parentsOf es v)
    let r := concatStep es (ns, new, next) v
    ps.Nodup ∧
    (ps.length > 1 ∧ isConcat v = false →
        r.2.2 = next + 1 ∧
        (e ∈ r.2.1 ↔ e ∈ new ∨ (e.2 = concatBase + next ∧ e.1 ∈ ps) ∨ e = (concatBase + next, v)))
    ∧ (¬(ps.length > 1 ∧ isConcat v = false) →
        r.2.2 = next ∧ (e ∈ r.2.1 ↔ e ∈ new ∨ (e.2 = v ∧ e.1 ∈ ps))) := by
  intro ps r
  refine ⟨dedup_nodup _, ?_, ?_⟩
  · intro h
    have hc : (ps.length > 1 ∧ (!isConcat v) = true) := ⟨h.1, by simp [h.2]⟩
    simp only [r, concatStep, ps] at *
    simp only [hc, and_self, if_true]
    refine ⟨trivial, ?_⟩
    obtain ⟨x, y⟩ := e
    simp only [unionL, mem_dedup, List.mem_append, List.mem_map, List.mem_singleton, Prod.mk.injEq]
    constructor
    · rintro (h | ⟨p, hp, rfl, rfl⟩ | ⟨rfl, rfl⟩)
      · exact Or.inl h
      · exact Or.inr (Or.inl ⟨rfl, hp⟩)
      · exact Or.inr (Or.inr ⟨rfl, rfl⟩)
    · rintro (h | ⟨rfl, hp⟩ | ⟨rfl, rfl⟩)
      · exact Or.inl h
      · exact Or.inr (Or.inl ⟨x, hp, rfl, rfl⟩)
      · exact Or.inr (Or.inr ⟨rfl, rfl⟩)
  · intro h
    have hc : ¬(ps.length > 1 ∧ (!isConcat v) = true) := by
      intro hc; exact h ⟨hc.1, by simpa using hc.2⟩
    simp only [r, concatStep, ps] at *
    simp only [hc, if_false]
    refine ⟨trivial, ?_⟩
    obtain ⟨x, y⟩ := e
    simp only [unionL, mem_dedup, List.mem_append, List.mem_map, Prod.mk.injEq]
    constructor
    · rintro (h | ⟨p, hp, rfl, rfl⟩)
      · exact Or.inl h
      · exact Or.inr ⟨rfl, hp⟩
    · rintro (h | ⟨rfl, hp⟩)
      · exact Or.inl h
      · exact Or.inr ⟨x, hp, rfl, rfl⟩

/-- Non-vacuity / sanity on concrete graphs (tests, not the unbounded claim). -/
example : kahn [0, 1, 2] [(0, 1), (1, 2), (0, 2)] = .ok [0, 1, 2] := by decide
example : kahn [0, 1, 2] [(0, 1), (1, 2), (2, 1)] = .cycle := by decide
example : kahn [0, 1] [(0, 1), (1, 0)] = .cycle := by decide     -- no entry at all
example : effParents 5 (concatMultiInputs [0, 1, 2] [(0, 2), (1, 2)] 0).1.edges 2 = [0, 1] := by decide

/-! ### Concat insertion, the whole pass -/

/-- `omega` does not look through the abbreviation `Node := Nat` in the type of an equation -/
macro "nomega" : tactic => `(tactic| ((try simp only [Node] at *); omega))

theorem mem_parentsOf {es : List Edge} {m p : Node} : p ∈ parentsOf es m ↔ (p, m) ∈ es := by
  simp only [parentsOf, List.mem_map, List.mem_filter, beq_iff_eq]
  constructor
  · rintro ⟨⟨a, b⟩, ⟨h, rfl⟩, rfl⟩; exact h
  · intro h; exact ⟨(p, m), ⟨h, rfl⟩, rfl⟩

/-- what is true of the edges built so far, for Concat ids `concatBase + k`, `lo ≤ k < hi`, handed out while processing
    the nodes `S` -/
structure ConcatInv (es : List Edge) (lo hi : Nat) (S : List Node) (new : List Edge) : Prop where
  targets : ∀ e ∈ new, (∃ k, lo ≤ k ∧ k < hi ∧ e.2 = concatBase + k) ∨ e.2 < concatBase
  sources : ∀ e ∈ new, (∃ k, lo ≤ k ∧ k < hi ∧ e.1 = concatBase + k) ∨ e.1 < concatBase + lo
  own : ∀ k, lo ≤ k → k < hi → ∃ v ∈ S, (dedup (parentsOf es v)).length > 1 ∧
      (∀ e ∈ new, e.2 = concatBase + k → e.1 ∈ dedup (parentsOf es v)) ∧
      (∀ p ∈ dedup (parentsOf es v), (p, concatBase + k) ∈ new) ∧
      (∀ e ∈ new, e.1 = concatBase + k → e.2 = v) ∧
      (concatBase + k, v) ∈ new

theorem concatInv_step (es : List Edge) (lo : Nat) (hfresh : ∀ e ∈ es, e.1 < concatBase + lo)
    (ns : List Node) (new : List Edge) (hi : Nat) (S : List Node) (v : Node) (hv : v < concatBase) (hlo : lo ≤ hi)
    (inv : ConcatInv es lo hi S new) :
    ConcatInv es lo (concatStep es (ns, new, hi) v).2.2 (S ++ [v]) (concatStep es (ns, new, hi) v).2.1 := by
  have hvc : isConcat v = false := by simp [isConcat]; omega
  have hps : ∀ p ∈ dedup (parentsOf es v), p < concatBase + lo := by
    intro p hp
    have := mem_parentsOf.mp ((mem_dedup _ _).mp hp)
    exact hfresh _ this
  by_cases hm : (dedup (parentsOf es v)).length > 1
  · -- a Concat is inserted
    have key := fun e => ((C03_concat_step es ns new hi v e).2.1 ⟨hm, hvc⟩)
    have hnext : (concatStep es (ns, new, hi) v).2.2 = hi + 1 := (key (0, 0)).1
    have hmem : ∀ e, e ∈ (concatStep es (ns, new, hi) v).2.1 ↔
        e ∈ new ∨ (e.2 = concatBase + hi ∧ e.1 ∈ dedup (parentsOf es v)) ∨ e = (concatBase + hi, v) :=
      fun e => (key e).2
    rw [hnext]
    refine ⟨?_, ?_, ?_⟩
    · intro e he
      rcases (hmem e).mp he with h | ⟨h, _⟩ | rfl
      · rcases inv.targets e h with ⟨k, h1, h2, h3⟩ | h'
        · exact Or.inl ⟨k, h1, by nomega, h3⟩
        · exact Or.inr h'
      · exact Or.inl ⟨hi, hlo, by nomega, h⟩
      · exact Or.inr hv
    · intro e he
      rcases (hmem e).mp he with h | ⟨_, h⟩ | rfl
      · rcases inv.sources e h with ⟨k, h1, h2, h3⟩ | h'
        · exact Or.inl ⟨k, h1, by nomega, h3⟩
        · exact Or.inr h'
      · exact Or.inr (hps _ h)
      · exact Or.inl ⟨hi, hlo, by nomega, rfl⟩
    · intro k hk1 hk2
      by_cases hk : k < hi
      · obtain ⟨w, hw, hwm, hA, hB, hC, hD⟩ := inv.own k hk1 hk
        refine ⟨w, List.mem_append_left _ hw, hwm, ?_, ?_, ?_, ?_⟩
        · intro e he het
          rcases (hmem e).mp he with h | ⟨h, _⟩ | rfl
          · exact hA e h het
          · nomega
          · simp at het; nomega
        · intro p hp; exact (hmem _).mpr (Or.inl (hB p hp))
        · intro e he hes
          rcases (hmem e).mp he with h | ⟨_, h⟩ | rfl
          · exact hC e h hes
          · have := hps _ h; nomega
          · simp at hes; nomega
        · exact (hmem _).mpr (Or.inl hD)
      · have hk' : k = hi := by nomega
        subst hk'
        refine ⟨v, List.mem_append_right _ (List.mem_singleton.mpr rfl), hm, ?_, ?_, ?_, ?_⟩
        · intro e he het
          rcases (hmem e).mp he with h | ⟨_, h⟩ | rfl
          · rcases inv.targets e h with ⟨k', _, h2, h3⟩ | h'
            · nomega
            · nomega
          · exact h
          · simp at het; nomega
        · intro p hp; exact (hmem _).mpr (Or.inr (Or.inl ⟨rfl, hp⟩))
        · intro e he hes
          rcases (hmem e).mp he with h | ⟨_, h⟩ | rfl
          · rcases inv.sources e h with ⟨k', _, h2, h3⟩ | h'
            · nomega
            · nomega
          · have := hps _ h; nomega
          · rfl
        · exact (hmem _).mpr (Or.inr (Or.inr rfl))
  · -- no Concat for this node
    have hn : ¬((dedup (parentsOf es v)).length > 1 ∧ isConcat v = false) := fun h => hm h.1
    have key := fun e => ((C03_concat_step es ns new hi v e).2.2 hn)
    have hnext : (concatStep es (ns, new, hi) v).2.2 = hi := (key (0, 0)).1
    have hmem : ∀ e, e ∈ (concatStep es (ns, new, hi) v).2.1 ↔
        e ∈ new ∨ (e.2 = v ∧ e.1 ∈ dedup (parentsOf es v)) := fun e => (key e).2
    rw [hnext]
    refine ⟨?_, ?_, ?_⟩
    · intro e he
      rcases (hmem e).mp he with h | ⟨h, _⟩
      · exact inv.targets e h
      · exact Or.inr (by rw [h]; exact hv)
    · intro e he
      rcases (hmem e).mp he with h | ⟨_, h⟩
      · exact inv.sources e h
      · exact Or.inr (hps _ h)
    · intro k hk1 hk2
      obtain ⟨w, hw, hwm, hA, hB, hC, hD⟩ := inv.own k hk1 hk2
      refine ⟨w, List.mem_append_left _ hw, hwm, ?_, ?_, ?_, ?_⟩
      · intro e he het
        rcases (hmem e).mp he with h | ⟨h, _⟩
        · exact hA e h het
        · nomega
      · intro p hp; exact (hmem _).mpr (Or.inl (hB p hp))
      · intro e he hes
        rcases (hmem e).mp he with h | ⟨_, h⟩
        · exact hC e h hes
        · have := hps _ h; nomega
      · exact (hmem _).mpr (Or.inl hD)

theorem concatStep_next_ge (es : List Edge) (ns : List Node) (new : List Edge) (hi : Nat) (v : Node) :
    hi ≤ (concatStep es (ns, new, hi) v).2.2 := by
  unfold concatStep
  simp only
  split <;> simp

theorem concatInv_fold (es : List Edge) (lo : Nat) (hfresh : ∀ e ∈ es, e.1 < concatBase + lo) :
    ∀ (vs : List Node) (hvs : ∀ v ∈ vs, v < concatBase) (ns : List Node) (new : List Edge) (hi : Nat) (S : List Node)
      (hlo : lo ≤ hi) (inv : ConcatInv es lo hi S new),
      ConcatInv es lo (vs.foldl (concatStep es) (ns, new, hi)).2.2 (S ++ vs) (vs.foldl (concatStep es) (ns, new, hi)).2.1 := by
  intro vs
  induction vs with
  | nil => intro _ ns new hi S _ inv; simpa using inv
  | cons v vs ih =>
    intro hvs ns new hi S hlo inv
    simp only [List.foldl_cons]
    have hv := hvs v (List.mem_cons_self ..)
    have hvs' : ∀ w ∈ vs, w < concatBase := fun w hw => hvs w (List.mem_cons_of_mem _ hw)
    have step := concatInv_step es lo hfresh ns new hi S v hv hlo inv
    have hge := concatStep_next_ge es ns new hi v
    have := ih hvs' (concatStep es (ns, new, hi) v).1 (concatStep es (ns, new, hi) v).2.1
      (concatStep es (ns, new, hi) v).2.2 (S ++ [v]) (by omega) step
    simpa [List.append_assoc] using this

/-- **Concat insertion, the whole pass** (`concat_multi_inputs` over all the nodes of a model). Every Concat handed out
    by the pass feeds exactly ONE node, and gathers exactly that node's (distinct) predecessors - no more, no fewer -
    whatever the order in which the nodes are visited and however their predecessor sets overlap or nest. Hypotheses:
    the user's nodes are not Concat ids, and the ids the counter hands out are fresh w.r.t. the edges given. -/
theorem C03_concat_pass (nodes : List Node) (es : List Edge) (next : Nat)
    (hn : ∀ v ∈ nodes, v < concatBase) (hfresh : ∀ e ∈ es, e.1 < concatBase + next) (k : Nat)
    (hk1 : next ≤ k) (hk2 : k < (concatMultiInputs nodes es next).2) :
    let g := (concatMultiInputs nodes es next).1
    ∃ v ∈ nodes, (dedup (parentsOf es v)).length > 1 ∧
      (∀ e ∈ g.edges, e.2 = concatBase + k → e.1 ∈ dedup (parentsOf es v)) ∧
      (∀ p ∈ dedup (parentsOf es v), (p, concatBase + k) ∈ g.edges) ∧
      (∀ e ∈ g.edges, e.1 = concatBase + k → e.2 = v) ∧
      (concatBase + k, v) ∈ g.edges := by
  intro g
  have h0 : ConcatInv es next next [] [] :=
    ⟨by intro e he; simp at he, by intro e he; simp at he, by intro k h1 h2; omega⟩
  have hvs : ∀ v ∈ dedup nodes, v < concatBase := fun v hv => hn v ((mem_dedup _ _).mp hv)
  have inv := concatInv_fold es next hfresh (dedup nodes) hvs [] [] next [] (Nat.le_refl _) h0
  obtain ⟨v, hv, rest⟩ := inv.own k hk1 hk2
  simp only [List.nil_append] at hv
  exact ⟨v, (mem_dedup _ _).mp hv, rest⟩

/-- the nested fan-in graph of the seeded change C02-H: `wide ← {a, b, e}` (visited first), `narrow ← {a, b}`: two
    Concats, the second one gathering a and b only -/
example : (concatMultiInputs [0, 1, 2, 3, 4] [(0, 3), (1, 3), (2, 3), (0, 4), (1, 4)] 0).2 = 2
    ∧ parentsOf (concatMultiInputs [0, 1, 2, 3, 4] [(0, 3), (1, 3), (2, 3), (0, 4), (1, 4)] 0).1.edges (concatBase + 1) = [0, 1] := by
  decide
