/-
  C20 — dataset helpers align, split and encode exactly; map generators obey their maps.
  Model: RpyModel/Datasets.lean.
-/
import RpyModel.Datasets
import Mathlib.Data.List.Basic
import Mathlib.Data.List.Sort
import Mathlib.Tactic.Ring
import Mathlib.Tactic.Linarith

/-- **Alignment.** `X` and `y` both have `n − f` rows, `X[i] = s[i]` and `y[i] = s[i+f]`. -/
theorem C20_forecast_align {α : Type} (s : List α) (f : Nat) :
    (forecastPairs s f).1.length = s.length - f ∧ (forecastPairs s f).2.length = s.length - f
    ∧ ∀ i, i < s.length - f →
        (forecastPairs s f).1[i]? = s[i]? ∧ (forecastPairs s f).2[i]? = s[i + f]? := by
  refine ⟨by simp [forecastPairs], by simp [forecastPairs], ?_⟩
  intro i hi
  constructor
  · simp [forecastPairs, hi]
  · simp [forecastPairs, Nat.add_comm]

theorem dropLastK_append_lastK {α : Type} (l : List α) (k : Nat) : dropLastK l k ++ lastK l k = l := by
  simp [dropLastK, lastK]

/-- **Split.** Train and test parts are contiguous, in order, non-overlapping and together give
    the unsplit pair; the test part has the requested size (capped by what exists). -/
theorem C20_split {α : Type} (s : List α) (f t : Nat) (ht : 0 < t) :
    let r := toForecasting s f t
    r.X ++ r.Xt = (forecastPairs s f).1 ∧ r.y ++ r.yt = (forecastPairs s f).2
    ∧ r.Xt.length = min t (s.length - f) ∧ r.yt.length = min t (s.length - f)
    ∧ r.X.length = s.length - f - t ∧ r.y.length = s.length - f - t := by
  simp only [toForecasting, ht, if_true]
  refine ⟨dropLastK_append_lastK _ _, dropLastK_append_lastK _ _, ?_, ?_, ?_, ?_⟩ <;>
    simp [lastK, dropLastK, forecastPairs] <;> omega

/-- Alignment survives the split: train target `i` is row `i+f`; test target `i` is row
    `|X| + i + f`, where test input `i` is row `|X| + i`. -/
theorem C20_split_align {α : Type} (s : List α) (f t : Nat) (ht : 0 < t) :
    let r := toForecasting s f t
    (∀ i, i < r.X.length → r.X[i]? = s[i]? ∧ r.y[i]? = s[i + f]?)
    ∧ (∀ i, i < r.Xt.length → r.Xt[i]? = s[r.X.length + i]? ∧ r.yt[i]? = s[r.X.length + i + f]?) := by
  simp only [toForecasting, ht, if_true]
  constructor
  · intro i hi
    simp only [dropLastK, forecastPairs, List.length_take, List.length_drop] at hi ⊢
    constructor
    · rw [List.getElem?_take, List.getElem?_take]
      have h1 : i < s.length - f - t := by omega
      have h2 : i < s.length - f := by omega
      simp [h2]
      omega
    · rw [List.getElem?_take]
      have h1 : i < s.length - f - t := by omega
      simp [Nat.add_comm]
      omega
  · intro i hi
    simp only [lastK, dropLastK, forecastPairs, List.length_take, List.length_drop] at hi ⊢
    constructor
    · rw [List.getElem?_drop, List.getElem?_take]
      have : min (s.length - f) s.length - t + i < s.length - f := by omega
      simp [this]
      congr 1
      omega
    · rw [List.getElem?_drop, List.getElem?_drop]
      congr 1
      omega

/-- Without a test size nothing is split off. -/
theorem C20_nosplit {α : Type} (s : List α) (f : Nat) :
    (toForecasting s f 0).X = (forecastPairs s f).1 ∧ (toForecasting s f 0).y = (forecastPairs s f).2
    ∧ (toForecasting s f 0).Xt = [] ∧ (toForecasting s f 0).yt = [] := by
  simp [toForecasting]

/-! ### one-hot -/

theorem insertUniq_mem (x : Int) (l : List Int) (z : Int) :
    z ∈ insertUniq x l ↔ z = x ∨ z ∈ l := by
  induction l with
  | nil => simp [insertUniq]
  | cons y ys ih =>
    unfold insertUniq
    split
    · simp
    · split
      · rename_i h1 h2; subst h2; simp
      · simp [ih]; tauto

theorem insertUniq_sorted (x : Int) (l : List Int) (h : l.Pairwise (· < ·)) :
    (insertUniq x l).Pairwise (· < ·) := by
  induction l with
  | nil => simp [insertUniq]
  | cons y ys ih =>
    unfold insertUniq
    obtain ⟨hy, hys⟩ := List.pairwise_cons.mp h
    split
    · rename_i hxy
      refine List.pairwise_cons.mpr ⟨?_, h⟩
      intro z hz
      rcases List.mem_cons.mp hz with rfl | hz
      · exact hxy
      · exact lt_trans hxy (hy z hz)
    · split
      · exact h
      · rename_i h1 h2
        refine List.pairwise_cons.mpr ⟨?_, ih hys⟩
        intro z hz
        rcases (insertUniq_mem x ys z).mp hz with rfl | hz
        · omega
        · exact hy z hz

/-- The class list is strictly increasing (sorted, no duplicates) and holds exactly the labels. -/
theorem C20_classes (labels : List Int) :
    (classesOf labels).Pairwise (· < ·) ∧ ∀ z, z ∈ classesOf labels ↔ z ∈ labels := by
  induction labels with
  | nil => simp [classesOf]
  | cons x xs ih =>
    obtain ⟨h1, h2⟩ := ih
    constructor
    · exact insertUniq_sorted x _ h1
    · intro z
      simp only [classesOf, List.foldr_cons] at h2 ⊢
      rw [insertUniq_mem, h2]
      simp

/-- **One-hot.** Row `i` is the unit vector of the index of label `i` in the class list: it has
    a 1 exactly at the positions `j` with `classes[j] = label` — and there is exactly one. -/
theorem C20_one_hot (labels : List Int) (i : Nat) (hi : i < labels.length) :
    ∃ h : i < (oneHot labels).1.length,
      ((oneHot labels).1[i]).length = (oneHot labels).2.length
      ∧ (∀ j (hj : j < (oneHot labels).2.length),
          ((oneHot labels).1[i])[j]? = some (if (oneHot labels).2[j] = labels[i] then 1 else 0))
      ∧ (∃ j, ∃ hj : j < (oneHot labels).2.length, (oneHot labels).2[j] = labels[i]
            ∧ ∀ j', ∀ hj' : j' < (oneHot labels).2.length, (oneHot labels).2[j'] = labels[i] → j' = j) := by
  refine ⟨by simp [oneHot, hi], by simp [oneHot, oneHotRow], ?_, ?_⟩
  · intro j hj
    simp only [oneHot] at hj ⊢
    simp only [oneHotRow, List.getElem_map, List.getElem?_map, List.getElem?_eq_getElem hj,
      Option.map_some]
    by_cases hc : (classesOf labels)[j] = labels[i] <;> simp [hc]
  · obtain ⟨hs, hm⟩ := C20_classes labels
    have hmem : labels[i] ∈ classesOf labels := (hm _).mpr (List.getElem_mem hi)
    obtain ⟨j, hj, hjv⟩ := List.getElem_of_mem hmem
    refine ⟨j, by simpa [oneHot] using hj, by simpa [oneHot] using hjv, ?_⟩
    intro j' hj' hv
    simp only [oneHot] at hj' hv
    have hnd : (classesOf labels).Nodup := hs.imp (fun h => ne_of_lt h)
    exact (List.Nodup.getElem_inj_iff hnd).mp (hv.trans hjv.symm)

/-- Splitting at the original boundaries gives back pieces of the original lengths whose
    concatenation is the encoded concatenation. -/
theorem C20_split_lens {α : Type} (lens : List Nat) (l : List α) (h : lens.sum = l.length)
    (hne : lens ≠ []) :
    (splitLens lens l).flatten = l ∧ (splitLens lens l).map List.length = lens := by
  induction lens generalizing l with
  | nil => exact absurd rfl hne
  | cons n ns ih =>
    cases ns with
    | nil =>
      simp only [List.sum_cons, List.sum_nil, Nat.add_zero] at h
      refine ⟨by simp [splitLens], ?_⟩
      show [l].map List.length = [n]
      simp [h]
    | cons m ms =>
      simp only [splitLens, List.flatten_cons, List.map_cons]
      have hsum : (m :: ms).sum = (l.drop n).length := by
        simp only [List.sum_cons, List.length_drop] at h ⊢; omega
      obtain ⟨h1, h2⟩ := ih (l.drop n) hsum (by simp)
      rw [h1]
      refine ⟨List.take_append_drop n l, ?_⟩
      rw [h2]
      simp only [List.sum_cons] at h
      simp; omega

theorem C20_one_hot_multi (seqs : List (List Int)) (hne : seqs ≠ []) :
    (oneHotMulti seqs).2 = classesOf seqs.flatten
    ∧ (oneHotMulti seqs).1.flatten = (oneHot seqs.flatten).1
    ∧ (oneHotMulti seqs).1.map List.length = seqs.map List.length := by
  have hlen : (seqs.map List.length).sum = (oneHot seqs.flatten).1.length := by
    have e : (oneHot seqs.flatten).1.length = seqs.flatten.length := by
      show (seqs.flatten.map _).length = _
      exact List.length_map _
    rw [e, List.length_flatten]
  obtain ⟨h1, h2⟩ := C20_split_lens (seqs.map List.length) (oneHot seqs.flatten).1 hlen (by simpa using hne)
  exact ⟨rfl, h1, h2⟩

/-! ### maps -/

theorem iterSeries_length {S : Type} (step : S → S) (n : Nat) (x : S) :
    (iterSeries step n x).length = n := by
  induction n generalizing x with
  | zero => simp [iterSeries]
  | succ n ih => simp [iterSeries, ih]

/-- A generated series has the requested length, starts at the initial condition, and every
    consecutive pair satisfies the map. -/
theorem C20_iter_series {S : Type} (step : S → S) (n : Nat) (x0 : S) :
    (iterSeries step n x0).length = n
    ∧ (0 < n → (iterSeries step n x0)[0]? = some x0)
    ∧ ∀ i, i + 1 < n → ∃ a b, (iterSeries step n x0)[i]? = some a
        ∧ (iterSeries step n x0)[i + 1]? = some b ∧ b = step a := by
  refine ⟨iterSeries_length _ _ _, ?_, ?_⟩
  · intro h; cases n with
    | zero => omega
    | succ n => simp [iterSeries]
  · induction n generalizing x0 with
    | zero => intro i hi; omega
    | succ n ih =>
      intro i hi
      cases i with
      | zero =>
        cases n with
        | zero => omega
        | succ n => exact ⟨x0, step x0, by simp [iterSeries], by simp [iterSeries], rfl⟩
      | succ i =>
        obtain ⟨a, b, h1, h2, h3⟩ := ih (step x0) i (by omega)
        exact ⟨a, b, by simpa [iterSeries] using h1, by simpa [iterSeries] using h2, h3⟩

theorem C20_logistic {R : Type} [Field R] (n : Nat) (r x0 : R) (i : Nat) (hi : i + 1 < n) :
    ∃ a b, (logisticMap n r x0)[i]? = some a ∧ (logisticMap n r x0)[i + 1]? = some b
      ∧ b = r * a * (1 - a) := by
  obtain ⟨a, b, h1, h2, h3⟩ := (C20_iter_series (logisticStep r) n x0).2.2 i hi
  exact ⟨a, b, h1, h2, by simpa [logisticStep] using h3⟩

theorem C20_henon {R : Type} [Field R] (n : Nat) (a b : R) (x0 : R × R) (i : Nat) (hi : i + 1 < n) :
    ∃ p q, (henonMap n a b x0)[i]? = some p ∧ (henonMap n a b x0)[i + 1]? = some q
      ∧ q.1 = 1 - a * p.1 ^ 2 + p.2 ∧ q.2 = b * p.1 := by
  obtain ⟨p, q, h1, h2, h3⟩ := (C20_iter_series (henonStep a b) n x0).2.2 i hi
  refine ⟨p, q, h1, h2, ?_, ?_⟩
  · rw [h3]; show 1 - a * (p.1 * p.1) + p.2 = _; ring
  · rw [h3]; rfl

/-- NARMA: what the code implements is the documented recurrence with both windows shifted by
    one step (`Σ y[t-n..t-1]` for `Σ y[t-n+1..t]`, `u[t-n]` for `u[t-(n-1)]`): evaluating the
    documented formula on the histories shifted one step back gives the implemented one
    except for the leading `y[t]` factors. Witness that they differ (order 2, decide): -/
theorem C20_narma_doc_witness :
    narmaNextImpl (R := Int) 2 1 1 1 0 (fun i => [1, 2, 3, 4].getD i 0) (fun i => [1, 2, 3, 4].getD i 0) 2
      ≠ narmaNextDoc (R := Int) 2 1 1 1 0 (fun i => [1, 2, 3, 4].getD i 0) (fun i => [1, 2, 3, 4].getD i 0) 2 := by
  decide

/-- The implemented recurrence, spelled out (order ≤ t). -/
theorem C20_narma_impl {R : Type} [Field R] (order : Nat) (a1 a2 b c : R) (y u : Nat → R) (t : Nat) :
    narmaNextImpl order a1 a2 b c y u t
      = a1 * y t + a2 * y t * (((List.range order).map fun i => y (t - order + i)).foldl (· + ·) 0)
        + b * u (t - order) * u t + c := rfl

/-- Non-vacuity / sanity. -/
example : (toForecasting [10, 11, 12, 13, 14, 15] 2 1).X = [10, 11, 12] := by decide
example : (toForecasting [10, 11, 12, 13, 14, 15] 2 1).yt = [15] := by decide
example : oneHot [5, 2, 5, 9] = ([[0, 1, 0], [1, 0, 0], [0, 1, 0], [0, 0, 1]], [2, 5, 9]) := by decide
