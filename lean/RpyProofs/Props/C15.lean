/-
  C15 — echo-state contraction and boundedness of the reservoir dynamics.
  The step function of these theorems is C01's `fwdInternal` (RpyModel/Reservoir.lean) at
  R := ℝ with zero noise gains — the same definition the correspondence of C01 ties to the code.
-/
import RpyModel.Reservoir
import RpyProofs.Props.C01
import RpyProofs.MatBridge
import Mathlib.Analysis.InnerProductSpace.PiL2
import Mathlib.Analysis.Matrix.Normed
import Mathlib.Analysis.SpecialFunctions.Trigonometric.DerivHyp
import Mathlib.Analysis.Calculus.MeanValue
import Mathlib.Tactic.Ring
import Mathlib.Tactic.Abel
import Mathlib.Tactic.Linarith
import Mathlib.Tactic.Positivity
import Mathlib.Tactic.GCongr

set_option linter.unusedSectionVars false
set_option linter.unusedSimpArgs false
set_option linter.unusedVariables false

open Real

noncomputable instance : ZeroTest ℝ := ⟨fun r => decide (r = 0)⟩
theorem realZeroTest : ZeroTest.isZero (0 : ℝ) = true := by simp [ZeroTest.isZero]

/-- element-wise Lipschitz map does not increase Euclidean distance -/
theorem norm_map_sub_le {n : Nat} (f : ℝ → ℝ) (hf : ∀ a b, |f a - f b| ≤ |a - b|)
    (u v : EuclideanSpace ℝ (Fin n)) :
    ‖(WithLp.toLp 2 (fun i => f (u i)) : EuclideanSpace ℝ (Fin n)) - WithLp.toLp 2 (fun i => f (v i))‖
      ≤ ‖u - v‖ := by
  rw [EuclideanSpace.norm_eq, EuclideanSpace.norm_eq]
  apply Real.sqrt_le_sqrt
  apply Finset.sum_le_sum
  intro i _
  simp only [PiLp.sub_apply, Real.norm_eq_abs, sq_abs]
  have := hf (u i) (v i)
  calc (f (u i) - f (v i)) ^ 2 = |f (u i) - f (v i)| ^ 2 := (sq_abs _).symm
    _ ≤ |u i - v i| ^ 2 := by gcongr
    _ = (u i - v i) ^ 2 := sq_abs _

/-- one step of the leaky integrator with scalar leak rate on Euclidean space; `pre x` stands
    for `W x + Win u + b (+ feedback term)` -/
noncomputable def stepE {n : Nat} (lr : ℝ) (f : ℝ → ℝ)
    (pre : EuclideanSpace ℝ (Fin n) → EuclideanSpace ℝ (Fin n))
    (x : EuclideanSpace ℝ (Fin n)) : EuclideanSpace ℝ (Fin n) :=
  (1 - lr) • x + lr • (WithLp.toLp 2 (fun i => f (pre x i)))

theorem contraction_stepE {n : Nat} (lr σ : ℝ) (hlr0 : 0 ≤ lr) (hlr1 : lr ≤ 1) (f : ℝ → ℝ)
    (hf : ∀ a b, |f a - f b| ≤ |a - b|)
    (L : EuclideanSpace ℝ (Fin n) →ₗ[ℝ] EuclideanSpace ℝ (Fin n)) (hL : ∀ v, ‖L v‖ ≤ σ * ‖v‖)
    (c x y : EuclideanSpace ℝ (Fin n)) :
    ‖stepE lr f (fun z => L z + c) x - stepE lr f (fun z => L z + c) y‖
      ≤ ((1 - lr) + lr * σ) * ‖x - y‖ := by
  unfold stepE
  have h1 : (1 - lr) • x + lr • (WithLp.toLp 2 fun i => f ((L x + c) i)) -
      ((1 - lr) • y + lr • (WithLp.toLp 2 fun i => f ((L y + c) i)))
      = (1 - lr) • (x - y)
        + lr • ((WithLp.toLp 2 fun i => f ((L x + c) i)) - (WithLp.toLp 2 fun i => f ((L y + c) i))) := by
    simp only [smul_sub]; abel
  rw [h1]
  have hA := norm_map_sub_le f hf (L x + c) (L y + c)
  have hB : ‖(L x + c) - (L y + c)‖ ≤ σ * ‖x - y‖ := by
    have : (L x + c) - (L y + c) = L (x - y) := by rw [map_sub]; abel
    rw [this]; exact hL _
  set D := (WithLp.toLp 2 fun i => f ((L x + c) i) : EuclideanSpace ℝ (Fin n))
    - WithLp.toLp 2 fun i => f ((L y + c) i) with hD
  calc ‖(1 - lr) • (x - y) + lr • D‖ ≤ ‖(1 - lr) • (x - y)‖ + ‖lr • D‖ := norm_add_le _ _
    _ = (1 - lr) * ‖x - y‖ + lr * ‖D‖ := by
        rw [norm_smul, norm_smul, Real.norm_of_nonneg (by linarith), Real.norm_of_nonneg hlr0]
    _ ≤ (1 - lr) * ‖x - y‖ + lr * (σ * ‖x - y‖) := by
        have : ‖D‖ ≤ σ * ‖x - y‖ := hA.trans hB
        gcongr
    _ = ((1 - lr) + lr * σ) * ‖x - y‖ := by ring

/-- the model's vectors as points of Euclidean space -/
noncomputable def toE {n : Nat} (v : Vec ℝ n) : EuclideanSpace ℝ (Fin n) := WithLp.toLp 2 (fun i => v[i])

/-- the linear map of the (densified) recurrent matrix -/
noncomputable def wLin {n : Nat} (W : WStore ℝ n) : EuclideanSpace ℝ (Fin n) →ₗ[ℝ] EuclideanSpace ℝ (Fin n) :=
  Matrix.toEuclideanLin (toMatrix W.toDense)

/-- everything in the pre-activation that does not depend on the state -/
noncomputable def drive {n m k : Nat} (p : ResParams ℝ n m k) (u : Vec ℝ m) (fb : Vec ℝ k) :
    EuclideanSpace ℝ (Fin n) :=
  WithLp.toLp 2 (fun i => (∑ j : Fin m, p.Win[i][j] * u[j]) + p.bias[i]
    + (if p.hasFb then ∑ j : Fin k, p.Wfb[i][j] * p.g fb[j] else 0))

/-- the model's `forward_internal` with a scalar leak rate *is* the Euclidean step -/
theorem fwdInternal_eq_stepE {n m k : Nat} (p : ResParams ℝ n m k) (hp : p.noiseFree) (lr : ℝ)
    (hlr : ∀ i : Fin n, p.lr[i] = lr) (st : ResState ℝ n) (u : Vec ℝ m) (fb : Vec ℝ k)
    (xi : NoiseDraw ℝ n m k) :
    toE (fwdInternal p st u fb xi).x
      = stepE lr p.f (fun z => wLin p.W z + drive p u fb) (toE st.x) := by
  ext i
  have h := C01_step_internal realZeroTest p hp st u fb xi i
  simp only [toE, stepE, PiLp.add_apply, PiLp.smul_apply, smul_eq_mul, WithLp.ofLp_toLp]
  rw [h, hlr i]
  congr 2
  simp only [preact, wLin, drive, Matrix.toEuclideanLin_apply, WithLp.ofLp_toLp, Matrix.mulVec,
    dotProduct, toMatrix_apply]
  congr 1
  ring

/-- **Contraction, one step.** With a 1-Lipschitz activation, no noise, a scalar leak rate
    lr ∈ [0,1] and a recurrent matrix whose ℓ² gain is at most σ, two copies of the reservoir
    driven by the same input (and feedback) move closer by the factor (1−lr) + lr·σ — for every
    input, feedback value, input weights, bias and pair of states. -/
theorem C15_contraction_step {n m k : Nat} (p : ResParams ℝ n m k) (hp : p.noiseFree) (lr σ : ℝ)
    (hlr : ∀ i : Fin n, p.lr[i] = lr) (hlr0 : 0 ≤ lr) (hlr1 : lr ≤ 1)
    (hf : ∀ a b, |p.f a - p.f b| ≤ |a - b|) (hW : ∀ v, ‖wLin p.W v‖ ≤ σ * ‖v‖)
    (sx sy : ResState ℝ n) (u : Vec ℝ m) (fb : Vec ℝ k) (xi : NoiseDraw ℝ n m k) :
    ‖toE (fwdInternal p sx u fb xi).x - toE (fwdInternal p sy u fb xi).x‖
      ≤ ((1 - lr) + lr * σ) * ‖toE sx.x - toE sy.x‖ := by
  rw [fwdInternal_eq_stepE p hp lr hlr sx, fwdInternal_eq_stepE p hp lr hlr sy]
  exact contraction_stepE lr σ hlr0 hlr1 p.f hf (wLin p.W) hW (drive p u fb) _ _

/-- the distance after a whole run -/
theorem C15_contraction_run {n m k : Nat} (p : ResParams ℝ n m k) (hp : p.noiseFree) (lr σ : ℝ)
    (hlr : ∀ i : Fin n, p.lr[i] = lr) (hlr0 : 0 ≤ lr) (hlr1 : lr ≤ 1) (hσ : 0 ≤ σ)
    (hf : ∀ a b, |p.f a - p.f b| ≤ |a - b|) (hW : ∀ v, ‖wLin p.W v‖ ≤ σ * ‖v‖)
    (steps : List (StepIn ℝ n m k)) (sx sy : ResState ℝ n) :
    ‖toE (runRes .internal p sx steps).2.x - toE (runRes .internal p sy steps).2.x‖
      ≤ ((1 - lr) + lr * σ) ^ steps.length * ‖toE sx.x - toE sy.x‖ := by
  have hq : 0 ≤ (1 - lr) + lr * σ := by nlinarith
  induction steps generalizing sx sy with
  | nil => simp [runRes]
  | cons s ss ih =>
    simp only [runRes, fwdRes, List.length_cons, pow_succ]
    have h1 := ih (fwdInternal p sx s.u s.fb s.xi) (fwdInternal p sy s.u s.fb s.xi)
    have h2 := C15_contraction_step p hp lr σ hlr hlr0 hlr1 hf hW sx sy s.u s.fb s.xi
    calc _ ≤ ((1 - lr) + lr * σ) ^ ss.length
              * ‖toE (fwdInternal p sx s.u s.fb s.xi).x - toE (fwdInternal p sy s.u s.fb s.xi).x‖ := h1
      _ ≤ ((1 - lr) + lr * σ) ^ ss.length * (((1 - lr) + lr * σ) * ‖toE sx.x - toE sy.x‖) := by
          gcongr
      _ = ((1 - lr) + lr * σ) ^ ss.length * ((1 - lr) + lr * σ) * ‖toE sx.x - toE sy.x‖ := by ring

/-- the hypothesis on the recurrent matrix follows from the ℓ² operator norm (= largest singular
    value) of the matrix -/
theorem C15_opnorm {n : Nat} (W : WStore ℝ n) (v : EuclideanSpace ℝ (Fin n)) :
    ‖wLin W v‖ ≤ ‖LinearMap.toContinuousLinearMap (wLin W)‖ * ‖v‖ :=
  (LinearMap.toContinuousLinearMap (wLin W)).le_opNorm v

/-- **Boundedness.** If |f| ≤ 1 (tanh), every leak rate lies in [0,1] and the state is in the box
    [−1,1]ⁿ, the next state is in the box too — for every input, however large, every W, Win, bias. -/
theorem C15_bounded {n m k : Nat} (p : ResParams ℝ n m k) (hp : p.noiseFree)
    (hf : ∀ a, |p.f a| ≤ 1) (hlr : ∀ i : Fin n, 0 ≤ p.lr[i] ∧ p.lr[i] ≤ 1)
    (st : ResState ℝ n) (hx : ∀ i : Fin n, |st.x[i]| ≤ 1) (u : Vec ℝ m) (fb : Vec ℝ k)
    (xi : NoiseDraw ℝ n m k) (i : Fin n) :
    |(fwdInternal p st u fb xi).x[i]| ≤ 1 := by
  rw [C01_step_internal realZeroTest p hp st u fb xi i]
  obtain ⟨h0, h1⟩ := hlr i
  have a1 := hx i
  have a2 := hf (preact p st.x u fb i)
  rw [abs_le] at *
  constructor <;> nlinarith

/-- tanh is 1-Lipschitz -/
theorem tanh_lipschitz (a b : ℝ) : |Real.tanh a - Real.tanh b| ≤ |a - b| := by
  have hderiv : ∀ x : ℝ, HasDerivAt Real.tanh (1 / Real.cosh x ^ 2) x := by
    intro x
    have hc : Real.cosh x ≠ 0 := (Real.cosh_pos x).ne'
    have h := (Real.hasDerivAt_sinh x).div (Real.hasDerivAt_cosh x) hc
    have e : Real.tanh = fun y => Real.sinh y / Real.cosh y := by
      funext y; exact Real.tanh_eq_sinh_div_cosh y
    rw [e]
    have e2 : 1 / Real.cosh x ^ 2
        = (Real.cosh x * Real.cosh x - Real.sinh x * Real.sinh x) / Real.cosh x ^ 2 := by
      congr 1
      nlinarith [Real.cosh_sq x]
    rw [e2]; exact h
  have hbound : ∀ x : ℝ, ‖deriv Real.tanh x‖ ≤ 1 := by
    intro x
    rw [(hderiv x).deriv, Real.norm_eq_abs, abs_of_nonneg (by positivity)]
    have h1 : 1 ≤ Real.cosh x := Real.one_le_cosh x
    rw [div_le_one (by positivity)]
    nlinarith
  have hd : Differentiable ℝ Real.tanh := fun x => (hderiv x).differentiableAt
  have := Convex.norm_image_sub_le_of_norm_deriv_le (s := Set.univ) (fun x _ => hd x)
    (fun x _ => hbound x) convex_univ (Set.mem_univ b) (Set.mem_univ a)
  simpa [Real.norm_eq_abs] using this

theorem tanh_abs_le_one (a : ℝ) : |Real.tanh a| ≤ 1 :=
  abs_le.mpr ⟨(Real.neg_one_lt_tanh a).le, (Real.tanh_lt_one a).le⟩

theorem relu_lipschitz (a b : ℝ) : |max a 0 - max b 0| ≤ |a - b| :=
  abs_max_sub_max_le_abs a b 0

theorem id_lipschitz (a b : ℝ) : |id a - id b| ≤ |a - b| := le_refl _
