/-
  C10 — iterative learning rules follow their recurrences exactly.
  Model: RpyModel/Online.lean.  `R` is any linearly ordered field.
-/
import RpyModel.Online
import RpyProofs.MatBridge
import RpyProofs.Props.C04
import Mathlib.LinearAlgebra.Matrix.NonsingularInverse
import Mathlib.Tactic.Ring
import Mathlib.Tactic.Abel
import Mathlib.Tactic.FieldSimp
import Mathlib.Tactic.Positivity
import Mathlib.Tactic.Linarith

set_option linter.unusedSectionVars false
set_option linter.unusedSimpArgs false

open Matrix

section
variable {R : Type} [Field R]
variable {n k : Type} [Fintype n] [DecidableEq n] [Fintype k] [DecidableEq k]

/-- Sherman–Morrison step as in `_rls`: k = P r, c = 1/(1 + rᵀk), P' = P − c·k kᵀ. -/
def rlsP (P : Matrix n n R) (r : n → R) : Matrix n n R :=
  P - (1 / (1 + r ⬝ᵥ (P *ᵥ r))) • vecMulVec (P *ᵥ r) (P *ᵥ r)

/-- The weight update of `_rls`: `e = wᵀr − y`, `w' = w − c·k eᵀ`. -/
def rlsW (P : Matrix n n R) (w : Matrix n k R) (r : n → R) (y : k → R) : Matrix n k R :=
  w - (1 / (1 + r ⬝ᵥ (P *ᵥ r))) • vecMulVec (P *ᵥ r) (r ᵥ* w - y)

theorem rlsP_inv (A : Matrix n n R) (P : Matrix n n R) (r : n → R)
    (hPA : P * A = 1) (hsym : Pᵀ = P) (hpos : 1 + r ⬝ᵥ (P *ᵥ r) ≠ 0) :
    rlsP P r * (A + vecMulVec r r) = 1 := by
  unfold rlsP
  set k := P *ᵥ r with hk
  set c := 1 / (1 + r ⬝ᵥ k) with hc
  have h1 : k ᵥ* A = r := by
    rw [hk, ← vecMul_transpose, hsym, vecMul_vecMul, hPA, vecMul_one]
  have h2 : P * vecMulVec r r = vecMulVec k r := by
    rw [hk]; ext i j
    simp [vecMulVec_apply, Matrix.mul_apply, mulVec, dotProduct, Finset.sum_mul, mul_assoc]
  have h3 : vecMulVec k k * A = vecMulVec k r := by
    ext i j
    have := congrFun h1 j
    simp only [vecMulVec_apply, Matrix.mul_apply, vecMul, dotProduct] at this ⊢
    rw [← this, Finset.mul_sum]; simp [mul_assoc]
  have h4 : vecMulVec k k * vecMulVec r r = (r ⬝ᵥ k) • vecMulVec k r := by
    ext i j
    rw [Matrix.smul_apply]
    simp only [vecMulVec_apply, Matrix.mul_apply, dotProduct, smul_eq_mul, Finset.sum_mul]
    apply Finset.sum_congr rfl; intro x _; ring
  rw [Matrix.sub_mul, Matrix.mul_add, Matrix.smul_mul, Matrix.mul_add, hPA, h2, h3, h4]
  have hc' : c * (1 + r ⬝ᵥ k) = 1 := by rw [hc]; field_simp
  have : c • (vecMulVec k r + (r ⬝ᵥ k) • vecMulVec k r) = vecMulVec k r := by
    rw [smul_add, smul_smul, ← add_smul, ← mul_one_add, hc', one_smul]
  rw [this, add_sub_cancel_right]

end

section
variable {R : Type} [Field R] [LinearOrder R] [IsStrictOrderedRing R]
variable {n k : Type} [Fintype n] [DecidableEq n] [Fintype k] [DecidableEq k]

/-- Invariant of the recursion: `P` is the inverse of the (symmetric, positive semi-definite)
    regularised covariance `A`, and `w` solves `A·w = B`. -/
structure RInv (A P : Matrix n n R) (B w : Matrix n k R) : Prop where
  PA : P * A = 1
  Psym : Pᵀ = P
  Asym : Aᵀ = A
  Apsd : ∀ v : n → R, 0 ≤ v ⬝ᵥ (A *ᵥ v)
  Aw : A * w = B

theorem quad_nonneg {A P : Matrix n n R} {B w : Matrix n k R} (h : RInv A P B w) (r : n → R) :
    0 ≤ r ⬝ᵥ (P *ᵥ r) := by
  have hAP : A * P = 1 := mul_eq_one_comm.mp h.PA
  set v := P *ᵥ r with hv
  have hr : r = A *ᵥ v := by rw [hv, mulVec_mulVec, hAP, one_mulVec]
  have : r ⬝ᵥ v = v ⬝ᵥ (A *ᵥ v) := by
    conv_lhs => rw [hr]
    exact dotProduct_comm _ _
  rw [this]; exact h.Apsd v

/-- The denominator of the RLS gain is always ≥ 1, so the division is always defined. -/
theorem C10_rls_denominator_pos {A P : Matrix n n R} {B w : Matrix n k R} (h : RInv A P B w)
    (r : n → R) : 0 < 1 + r ⬝ᵥ (P *ᵥ r) := by
  have := quad_nonneg h r
  linarith

theorem rinv_step {A P : Matrix n n R} {B w : Matrix n k R} (h : RInv A P B w)
    (r : n → R) (y : k → R) :
    RInv (A + vecMulVec r r) (rlsP P r) (B + vecMulVec r y) (rlsW P w r y) := by
  have hq := quad_nonneg h r
  have hpos : 1 + r ⬝ᵥ (P *ᵥ r) ≠ 0 := (C10_rls_denominator_pos h r).ne'
  have hAP : A * P = 1 := mul_eq_one_comm.mp h.PA
  refine ⟨rlsP_inv A P r h.PA h.Psym hpos, ?_, ?_, ?_, ?_⟩
  · unfold rlsP
    simp only [transpose_sub, transpose_smul, h.Psym]
    congr 2
    ext i j; simp [vecMulVec_apply, mul_comm]
  · rw [transpose_add, h.Asym]; congr 1; ext i j; simp [vecMulVec_apply, mul_comm]
  · intro v
    rw [add_mulVec, dotProduct_add]
    have : v ⬝ᵥ (vecMulVec r r *ᵥ v) = (r ⬝ᵥ v) * (r ⬝ᵥ v) := by
      simp only [dotProduct, mulVec, vecMulVec_apply, Finset.mul_sum, Finset.sum_mul]
      rw [Finset.sum_comm]
      apply Finset.sum_congr rfl; intro i _
      apply Finset.sum_congr rfl; intro j _
      ring
    rw [this]
    exact add_nonneg (h.Apsd v) (mul_self_nonneg _)
  · unfold rlsW
    set kk := P *ᵥ r with hk
    set c := 1 / (1 + r ⬝ᵥ kk) with hc
    set e := r ᵥ* w - y with he
    have hc' : c * (1 + r ⬝ᵥ kk) = 1 := by rw [hc]; field_simp
    have hAk : A *ᵥ kk = r := by rw [hk, mulVec_mulVec, hAP, one_mulVec]
    have h1 : A * vecMulVec kk e = vecMulVec r e := by
      ext i j
      have := congrFun hAk i
      simp only [mulVec, dotProduct] at this
      simp only [Matrix.mul_apply, vecMulVec_apply, ← this, Finset.sum_mul, mul_assoc]
    have h2 : vecMulVec r r * vecMulVec kk e = (r ⬝ᵥ kk) • vecMulVec r e := by
      ext i j
      rw [Matrix.smul_apply]
      simp only [Matrix.mul_apply, vecMulVec_apply, dotProduct, smul_eq_mul, Finset.sum_mul]
      apply Finset.sum_congr rfl; intro x _; ring
    have h3 : vecMulVec r r * w = vecMulVec r (r ᵥ* w) := by
      ext i j
      simp only [Matrix.mul_apply, vecMulVec_apply, vecMul, dotProduct, Finset.mul_sum, mul_assoc]
    have h4 : vecMulVec r (r ᵥ* w) = vecMulVec r e + vecMulVec r y := by
      ext i j; simp [vecMulVec_apply, he]; ring
    rw [Matrix.add_mul, Matrix.mul_sub, Matrix.mul_sub, Matrix.mul_smul, Matrix.mul_smul, h.Aw,
      h1, h2, h3, h4, smul_smul]
    have : c • vecMulVec r e + (c * (r ⬝ᵥ kk)) • vecMulVec r e = vecMulVec r e := by
      rw [← add_smul, ← mul_one_add, hc', one_smul]
    calc B - c • vecMulVec r e + (vecMulVec r e + vecMulVec r y - (c * r ⬝ᵥ kk) • vecMulVec r e)
        = B + vecMulVec r y
          + (vecMulVec r e - (c • vecMulVec r e + (c * r ⬝ᵥ kk) • vecMulVec r e)) := by abel
      _ = B + vecMulVec r y := by rw [this, sub_self, add_zero]

theorem rinv_init (α : R) (hα : 0 < α) :
    RInv (α • (1 : Matrix n n R)) (α⁻¹ • (1 : Matrix n n R)) (0 : Matrix n k R) 0 := by
  refine ⟨?_, by simp, by simp, ?_, by simp⟩
  · simp [smul_smul, inv_mul_cancel₀ hα.ne', mul_inv_cancel₀ hα.ne']
  · intro v
    simp only [smul_mulVec, one_mulVec, dotProduct_smul, smul_eq_mul]
    exact mul_nonneg hα.le (by
      simp only [dotProduct]; exact Finset.sum_nonneg fun i _ => mul_self_nonneg _)

end

/-! ### The executable model is this recursion -/
section
variable {R : Type} [Field R]

theorem toFn_matVec {n m : Nat} (M : Mat R n m) (x : Vec R m) :
    toFn (matVec M x) = toMatrix M *ᵥ toFn x := by
  funext i; simp [mulVec, dotProduct]

theorem dot_eq_dotProduct {n : Nat} (a b : Vec R n) : dot a b = toFn a ⬝ᵥ toFn b := by
  rw [dot_eq_sum]; simp [dotProduct]

theorem toFn_predictRaw {p o : Nat} (w : Mat R p o) (x : Vec R p) :
    toFn (predictRaw w x) = toFn x ᵥ* toMatrix w := by
  funext j
  simp only [predictRaw, toFn_apply, Fin.getElem_fin, Vector.getElem_ofFn, vecMul, dotProduct,
    toMatrix_apply]
  rw [foldl_add_eq_sum (fun i => w[i.val][j.val] * x[i.val])]
  apply Finset.sum_congr rfl; intro i _; ring

theorem toFn_vsub {n : Nat} (a b : Vec R n) : toFn (vsub a b) = toFn a - toFn b := by
  funext i; simp

theorem rlsStep_P {p o : Nat} (s : RlsState R p o) (x : Vec R p) (y : Vec R o) :
    toMatrix (rlsStep s x y).P = rlsP (toMatrix s.P) (toFn x) := by
  simp only [rlsStep, rlsP, toMatrix_msub, toMatrix_mscale, toMatrix_outer, toFn_matVec,
    dot_eq_dotProduct]

theorem rlsStep_w {p o : Nat} (s : RlsState R p o) (x : Vec R p) (y : Vec R o) :
    toMatrix (rlsStep s x y).w = rlsW (toMatrix s.P) (toMatrix s.w) (toFn x) (toFn y) := by
  simp only [rlsStep, rlsW, toMatrix_msub, toMatrix_mscale, toMatrix_outer, toFn_matVec,
    dot_eq_dotProduct, toFn_vsub, toFn_predictRaw]

theorem rlsInit_spec (p o : Nat) (α : R) :
    toMatrix (rlsInit p o α).P = α⁻¹ • (1 : Matrix (Fin p) (Fin p) R)
    ∧ toMatrix (rlsInit p o α).w = 0 := by
  simp [rlsInit, toMatrix_mscale, toMatrix_identity, toMatrix_mzero]

/-- Σ x yᵀ over the samples (p × o). -/
def xySum {p o : Nat} (S : List (Vec R p × Vec R o)) : Matrix (Fin p) (Fin o) R :=
  (S.map fun s => vecMulVec (toFn s.1) (toFn s.2)).sum

end

section
variable {R : Type} [Field R] [LinearOrder R] [IsStrictOrderedRing R]

theorem rls_fold_inv {p o : Nat} (S : List (Vec R p × Vec R o)) (st : RlsState R p o)
    (A : Matrix (Fin p) (Fin p) R) (B : Matrix (Fin p) (Fin o) R)
    (h : RInv A (toMatrix st.P) B (toMatrix st.w)) :
    RInv (A + gramSum S) (toMatrix (S.foldl (fun s xy => rlsStep s xy.1 xy.2) st).P)
      (B + xySum S) (toMatrix (S.foldl (fun s xy => rlsStep s xy.1 xy.2) st).w) := by
  induction S generalizing st A B with
  | nil => simpa [gramSum, xySum] using h
  | cons s ss ih =>
    simp only [List.foldl_cons]
    have hs := rinv_step h (toFn s.1) (toFn s.2)
    rw [← rlsStep_P, ← rlsStep_w] at hs
    have := ih (rlsStep st s.1 s.2) _ _ hs
    have e1 : A + gramSum (s :: ss) = A + vecMulVec (toFn s.1) (toFn s.1) + gramSum ss := by
      simp [gramSum, add_assoc]
    have e2 : B + xySum (s :: ss) = B + vecMulVec (toFn s.1) (toFn s.2) + xySum ss := by
      simp [xySum, add_assoc]
    rw [e1, e2]; exact this

/-- **RLS = ridge, for every prefix.**  From zero weights and `P₀ = I/α` (α > 0), after *any*
    list of samples: `P` is the inverse of the regularised sample covariance `αI + Σ r rᵀ` and
    the weights solve the regularised normal equations `(αI + Σ r rᵀ)·w = Σ r yᵀ`. -/
theorem C10_rls_is_ridge {p o : Nat} (α : R) (hα : 0 < α) (S : List (Vec R p × Vec R o)) :
    let fin := S.foldl (fun s xy => rlsStep s xy.1 xy.2) (rlsInit p o α)
    toMatrix fin.P * (α • (1 : Matrix (Fin p) (Fin p) R) + gramSum S) = 1
    ∧ (α • (1 : Matrix (Fin p) (Fin p) R) + gramSum S) * toMatrix fin.w = xySum S := by
  intro fin
  have h0 : RInv (α • (1 : Matrix (Fin p) (Fin p) R)) (toMatrix (rlsInit p o α).P)
      (0 : Matrix (Fin p) (Fin o) R) (toMatrix (rlsInit p o α).w) := by
    obtain ⟨e1, e2⟩ := rlsInit_spec (R := R) p o α
    rw [e1, e2]; exact rinv_init α hα
  have := rls_fold_inv S (rlsInit p o α) _ _ h0
  exact ⟨this.PA, by simpa using this.Aw⟩

theorem xySum_eq {p o : Nat} (S : List (Vec R p × Vec R o)) : xySum S = (crossSum S)ᵀ := by
  induction S with
  | nil => simp [xySum, crossSum]
  | cons s ss ih =>
    simp only [xySum, crossSum, List.map_cons, List.sum_cons, transpose_add] at ih ⊢
    rw [ih]; congr 1
    ext i j; simp [vecMulVec_apply, mul_comm]

/-- Hence (with C04): after any list of updates the RLS weights are the unique minimiser of the
    regularised least-squares cost with λ = α over the samples seen so far. -/
theorem C10_rls_optimal {p o : Nat} (α : R) (hα : 0 < α) (S : List (Vec R p × Vec R o))
    (V : Matrix (Fin p) (Fin o) R) :
    let w := toMatrix (S.foldl (fun s xy => rlsStep s xy.1 xy.2) (rlsInit p o α)).w
    J α (rowsX S) (rowsY S) w ≤ J α (rowsX S) (rowsY S) V
    ∧ (J α (rowsX S) (rowsY S) V = J α (rowsX S) (rowsY S) w → V = w) := by
  intro w
  have h := (C10_rls_is_ridge α hα S).2
  apply C04_optimal α hα
  rw [rowsX_gram, add_comm, h, xySum_eq, ← rowsY_cross, transpose_mul, transpose_transpose]

end

/-! ### LMS, gating, outputs -/
section
variable {R : Type} [Field R]

/-- One LMS update, entry by entry: `w' = w − αₙ·(prediction − y)·rᵀ` with the next element of
    the schedule. -/
theorem C10_lms_step {p o : Nat} (alphas : Nat → R) (s : LmsState R p o) (x : Vec R p) (y : Vec R o)
    (i : Fin p) (j : Fin o) :
    (lmsStep alphas s x y).w[i][j]
      = s.w[i][j] - alphas s.used * (x[i] * ((predictRaw s.w x)[j] - y[j]))
    ∧ (lmsStep alphas s x y).used = s.used + 1 := by
  simp [lmsStep, msub, mscale, outer]

/-- Exactly one schedule element is consumed per update. -/
theorem C10_lms_schedule {p o : Nat} (alphas : Nat → R) (s : LmsState R p o)
    (S : List (Vec R p × Vec R o)) :
    (S.foldl (fun s xy => lmsStep alphas s xy.1 xy.2) s).used = s.used + S.length := by
  induction S generalizing s with
  | nil => simp
  | cons a as ih =>
    rw [List.foldl_cons, ih]
    simp only [lmsStep, List.length_cons]; omega

end

/-- The samples a call actually learns from: those at positions `i` with `i % k = 0`
    (all of them — i.e. the only one — when the call has a single step). -/
def gatedFrom {α : Type} (k len : Nat) : Nat → List α → List α
  | _, [] => []
  | i, x :: xs => if i % k = 0 ∨ len = 1 then x :: gatedFrom k len (i + 1) xs else gatedFrom k len (i + 1) xs

/-- **learn_every.** The parameters after a training call are those obtained by applying the
    rule to exactly the gated samples, in order. -/
theorem C10_learn_every {S X Y O : Type} (pred : S → X → O) (step : S → X → Y → S) (k : Nat)
    (s : S) (samples : List (X × Y)) :
    (trainLoop pred step k s samples).1
      = (gatedFrom k samples.length 0 samples).foldl (fun s xy => step s xy.1 xy.2) s := by
  unfold trainLoop
  generalize samples.length = len
  generalize 0 = i
  induction samples generalizing i s with
  | nil => simp [trainLoopAux, gatedFrom]
  | cons xy rest ih =>
    obtain ⟨x, y⟩ := xy
    simp only [trainLoopAux, gatedFrom]
    by_cases h : i % k = 0 ∨ len = 1
    · simp only [h, if_true, List.foldl_cons]; exact ih _ _
    · simp only [h, if_false]; exact ih _ _

theorem trainLoopAux_outs_length {S X Y O : Type} (pred : S → X → O) (step : S → X → Y → S)
    (k len i : Nat) (s : S) (samples : List (X × Y)) :
    (trainLoopAux pred step k len i s samples).2.length = samples.length := by
  induction samples generalizing i s with
  | nil => simp [trainLoopAux]
  | cons xy rest ih => obtain ⟨x, y⟩ := xy; simp [trainLoopAux, ih]

/-- **Output before update.** The value returned for the first step of a call is the prediction
    of the parameters the call started with, and the remaining outputs are those of the call
    continued from the (possibly updated) parameters: by induction, the output of every step is
    the prediction made before that step's update. -/
theorem C10_output_before_update {S X Y O : Type} (pred : S → X → O) (step : S → X → Y → S)
    (k len i : Nat) (s : S) (x : X) (y : Y) (rest : List (X × Y)) :
    (trainLoopAux pred step k len i s ((x, y) :: rest)).2
      = pred s x :: (trainLoopAux pred step k len (i + 1)
          (if i % k = 0 ∨ len = 1 then step s x y else s) rest).2 := by
  simp [trainLoopAux]

/-! ### intrinsic plasticity -/
section
variable {R : Type} [Field R]

theorem C10_ip_tanh (eta mu sigma a b x y : R) :
    ipTanhStep eta mu sigma a b x y
      = (a + (eta / a + (-eta * (-(mu / sigma ^ 2) + (y / sigma ^ 2) * (2 * sigma ^ 2 + 1 - y ^ 2 + mu * y))) * x),
         b + (-eta * (-(mu / sigma ^ 2) + (y / sigma ^ 2) * (2 * sigma ^ 2 + 1 - y ^ 2 + mu * y)))) := by
  simp only [ipTanhStep, pow_two, one_add_one_eq_two]

theorem C10_ip_sigmoid (eta mu a b x y : R) :
    ipSigStep eta mu a b x y
      = (a + (eta / a + (eta * (1 - (2 + 1 / mu) * y + y ^ 2 / mu)) * x),
         b + eta * (1 - (2 + 1 / mu) * y + y ^ 2 / mu)) := by
  simp only [ipSigStep, pow_two, one_add_one_eq_two]

/-- **One step per timestep and epoch.** Fitting for `e` epochs applies the plasticity step to
    the concatenation of all sequences, `e` times over, in order: `e × Σ|seq|` steps. -/
theorem C10_ip_count {n m : Nat} (W : Mat R n n) (Win : Mat R n m) (bias lr : Vec R n) (f : R → R)
    (rule : R → R → R → R → R × R) (e : Nat) (seqs : List (List (Vec R m))) (st : IpState R n) :
    ipFit W Win bias lr f rule e seqs st
      = ((List.replicate e seqs.flatten).flatten).foldl (ipTrainStep W Win bias lr f rule) st
    ∧ ((List.replicate e seqs.flatten).flatten).length = e * (seqs.map List.length).sum := by
  constructor
  · unfold ipFit
    have pass : ∀ st, seqs.foldl (fun st seq => seq.foldl (ipTrainStep W Win bias lr f rule) st) st
        = seqs.flatten.foldl (ipTrainStep W Win bias lr f rule) st := by
      intro st
      induction seqs generalizing st with
      | nil => simp
      | cons s ss ih => simp [List.foldl_append, ih]
    induction e generalizing st with
    | zero => simp
    | succ e ih =>
      rw [List.range_succ, List.foldl_append, ih]
      simp only [List.foldl_cons, List.foldl_nil, pass]
      rw [List.replicate_succ', List.flatten_append, List.foldl_append]
      simp
  · simp [List.length_flatten, List.sum_replicate]

end

/-- Non-vacuity: two RLS updates on concrete rationals. -/
example :
    let s := [((#v[1, 2] : Vec Rat 2), (#v[1] : Vec Rat 1)), (#v[1, -1], #v[0])].foldl
      (fun s xy => rlsStep s xy.1 xy.2) (rlsInit 2 1 (1/2))
    s.w = #v[#v[14/51], #v[16/51]] := by decide +kernel
