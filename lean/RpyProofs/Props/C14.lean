/-
  C14 — every stochastic component is a deterministic function of its seed.
  Model: RpyModel/Seeds.lean (provenance of every array the code draws or computes).
  "Same provenance ⇒ same bits" is the assumption on numpy's generators; what is proved here is
  that the provenance of a seeded component does not depend on the history or on the rest of the
  world — for every history.
-/
import RpyModel.Seeds
open Seeds

/-! ### helpers -/

@[simp] theorem alGet_alSet_same {α : Type} (l : List (Nat × α)) (k : Nat) (v : α) :
    alGet (alSet l k v) k = some v := by simp [alGet, alSet]

@[simp] theorem alGet_alSet_other {α : Type} (l : List (Nat × α)) (k k' : Nat) (v : α) (h : k ≠ k') :
    alGet (alSet l k v) k' = alGet l k' := by simp [alGet, alSet, h]

@[simp] theorem drawFrom_nodes (w : World) (spec : SeedSpec) (r : Req) : (drawFrom w spec r).1.nodes = w.nodes := by
  unfold drawFrom
  cases spec with
  | none => rfl
  | int s => rfl
  | gen h =>
    simp only
    cases hg : alGet w.heap h <;> simp

@[simp] theorem serveShared_nodes (w : World) (spec : SeedSpec) (rs : List Req) :
    (serveShared w spec rs).1.nodes = w.nodes := by
  induction rs generalizing w with
  | nil => rfl
  | cons r rs ih => simp [serveShared, ih]

/-! ### integer seeds: stateless components -/

/-- **An initialiser or dataset generator called with an integer seed** produces the same
    provenance whatever the world it is called in (whatever was created or run before), and leaves
    the world exactly as it was. -/
theorem C14_int_seed_stateless (w1 w2 : World) (s : Nat) (r : Req) :
    (step w1 (.initCall (.int s) r)).2 = (step w2 (.initCall (.int s) r)).2
    ∧ (step w1 (.dataset (.int s) r)).2 = (step w2 (.dataset (.int s) r)).2
    ∧ (step w1 (.initCall (.int s) r)).1 = w1 ∧ (step w1 (.dataset (.int s) r)).1 = w1 := by
  simp [step, drawFrom]

/-- a dataset generator called without a seed uses the package-wide dataset seed: a function of
    that seed only -/
theorem C14_dataset_default_seed (w1 w2 : World) (r : Req) (h : w1.dsSeed = w2.dsSeed) :
    (step w1 (.dataset .none r)).2 = (step w2 (.dataset .none r)).2 := by
  simp [step, drawFrom, h]

/-- different seeds: different provenance (that different provenance means different bits is the
    assumption on the PRNG, observed by the correspondence check) -/
theorem C14_distinct_seeds (w : World) (s s' : Nat) (r : Req) (h : s ≠ s') :
    (step w (.initCall (.int s) r)).2 ≠ (step w (.initCall (.int s') r)).2 := by
  simp [step, drawFrom, GenSt.serve, GenSt.fresh, h]

/-! ### generator objects -/

/-- **Two generator objects in the same state** (e.g. two `default_rng(s)`) give the same
    provenance and end in the same state, whatever the rest of the two worlds. -/
theorem C14_generator_seed (w1 w2 : World) (h1 h2 : Nat) (g : GenSt) (r : Req)
    (e1 : alGet w1.heap h1 = some g) (e2 : alGet w2.heap h2 = some g) :
    (drawFrom w1 (.gen h1) r).2 = (drawFrom w2 (.gen h2) r).2
    ∧ alGet (drawFrom w1 (.gen h1) r).1.heap h1 = some (g.serve r).1
    ∧ alGet (drawFrom w2 (.gen h2) r).1.heap h2 = some (g.serve r).1 := by
  simp [drawFrom, e1, e2]

/-! ### a node with an integer seed is an isolated deterministic machine -/

/-- the node-local machine: what the operations addressed to a node with an integer seed do,
    written without any reference to the world -/
def localStep (nd : Option NodeSt) : Op → Option NodeSt × List Tag
  | .mkRes _ (.int s) => (some ⟨.int s, GenSt.fresh s, [], zeroState⟩, [])
  | .initRes _ rW rWin rBias =>
    match nd with
    | some nd => (match nd.spec with
        | .int s => let p := nd.initOwn s rW rWin rBias; (some p.1, p.2)
        | _ => (some nd, []))
    | none => (none, [])
  | .initFb _ rWfb =>
    match nd with
    | some nd => (match nd.spec with
        | .int s => let p := nd.initFbOwn s rWfb; (some p.1, p.2)
        | _ => (some nd, []))
    | none => (none, [])
  | .runRes _ input steps noise =>
    match nd with
    | some nd => (match nd.spec with
        | .int _ => let p := nd.runOwn input steps noise; (some p.1, [p.2])
        | _ => (some nd, []))
    | none => (none, [])
  | _ => (nd, [])

def localRun (nd : Option NodeSt) : List Op → List (List Tag)
  | [] => []
  | o :: os => let p := localStep nd o; p.2 :: localRun p.1 os

/-- what the world run emits for the operations addressed to node n -/
def emitsOf (n : Nat) : List Op → List (List Tag) → List (List Tag)
  | o :: os, t :: ts => if o.node = some n then t :: emitsOf n os ts else emitsOf n os ts
  | _, _ => []

/-- node n is absent or was built with an integer seed -/
def IntSeeded (nd : Option NodeSt) : Prop := ∀ x, nd = some x → ∃ s, x.spec = .int s

/-- every construction of node n in the history uses an integer seed -/
def BuildsInt (n : Nat) (ops : List Op) : Prop :=
  ∀ spec, Op.mkRes n spec ∈ ops → ∃ s, spec = .int s

theorem step_frame (w : World) (o : Op) (n : Nat) (h : o.node ≠ some n) :
    alGet (step w o).1.nodes n = alGet w.nodes n := by
  cases o with
  | setSeed s => rfl
  | dsSetSeed s => rfl
  | newGen id s => rfl
  | initCall spec r => simp [step]
  | dataset spec r => simp [step]
  | legacyDraw r => rfl
  | mkRes id spec =>
    have : id ≠ n := by intro e; apply h; simp [Op.node, e]
    simp [step, this]
  | initRes id rW rWin rBias =>
    have hid : id ≠ n := by intro e; apply h; simp [Op.node, e]
    simp only [step]
    cases hnd : alGet w.nodes id with
    | none => rfl
    | some nd =>
      dsimp only
      split <;> simp [hid]
  | initFb id rWfb =>
    have hid : id ≠ n := by intro e; apply h; simp [Op.node, e]
    simp only [step]
    cases hnd : alGet w.nodes id with
    | none => rfl
    | some nd =>
      dsimp only
      split <;> simp [hid]
  | runRes id input steps noise =>
    have hid : id ≠ n := by intro e; apply h; simp [Op.node, e]
    simp only [step]
    cases hnd : alGet w.nodes id with
    | none => rfl
    | some nd =>
      dsimp only
      split <;> simp [hid]
  | mkSk id => rfl
  | fitSk id data =>
    simp only [step]
    cases alGet w.sks id <;> rfl

theorem step_local (w : World) (o : Op) (n : Nat) (h : o.node = some n)
    (hint : IntSeeded (alGet w.nodes n)) (hb : ∀ spec, o = .mkRes n spec → ∃ s, spec = .int s) :
    alGet (step w o).1.nodes n = (localStep (alGet w.nodes n) o).1
    ∧ (step w o).2 = (localStep (alGet w.nodes n) o).2 := by
  cases o with
  | setSeed s => simp [Op.node] at h
  | dsSetSeed s => simp [Op.node] at h
  | newGen id s => simp [Op.node] at h
  | initCall spec r => simp [Op.node] at h
  | dataset spec r => simp [Op.node] at h
  | legacyDraw r => simp [Op.node] at h
  | mkSk id => simp [Op.node] at h
  | fitSk id data => simp [Op.node] at h
  | mkRes id spec =>
    have hid : id = n := by simpa [Op.node] using h
    subst hid
    obtain ⟨s, rfl⟩ := hb spec rfl
    simp [step, localStep]
  | initRes id rW rWin rBias =>
    have hid : id = n := by simpa [Op.node] using h
    subst hid
    simp only [step, localStep]
    cases hnd : alGet w.nodes id with
    | none => simp [hnd]
    | some nd =>
      obtain ⟨s, hs⟩ := hint nd hnd
      simp [hs]
  | initFb id rWfb =>
    have hid : id = n := by simpa [Op.node] using h
    subst hid
    simp only [step, localStep]
    cases hnd : alGet w.nodes id with
    | none => simp [hnd]
    | some nd =>
      obtain ⟨s, hs⟩ := hint nd hnd
      simp [hs]
  | runRes id input steps noise =>
    have hid : id = n := by simpa [Op.node] using h
    subst hid
    simp only [step, localStep]
    cases hnd : alGet w.nodes id with
    | none => simp [hnd]
    | some nd =>
      obtain ⟨s, hs⟩ := hint nd hnd
      simp [hs]

theorem localStep_intSeeded (nd : Option NodeSt) (o : Op) (h : IntSeeded nd)
    (hb : ∀ id spec, o = .mkRes id spec → ∃ s, spec = .int s) : IntSeeded (localStep nd o).1 := by
  cases o with
  | mkRes id spec =>
    obtain ⟨s, rfl⟩ := hb id spec rfl
    intro x hx
    simp [localStep] at hx
    exact ⟨s, by rw [← hx]⟩
  | initRes id rW rWin rBias =>
    cases nd with
    | none => simpa [localStep] using h
    | some nd =>
      obtain ⟨s, hs⟩ := h nd rfl
      intro x hx
      simp [localStep, hs, NodeSt.initOwn] at hx
      exact ⟨s, by rw [← hx]⟩
  | initFb id rWfb =>
    cases nd with
    | none => simpa [localStep] using h
    | some nd =>
      obtain ⟨s, hs⟩ := h nd rfl
      intro x hx
      simp [localStep, hs, NodeSt.initFbOwn] at hx
      exact ⟨s, by rw [← hx]⟩
  | runRes id input steps noise =>
    cases nd with
    | none => simpa [localStep] using h
    | some nd =>
      obtain ⟨s, hs⟩ := h nd rfl
      intro x hx
      simp [localStep, hs, NodeSt.runOwn] at hx
      exact ⟨s, by rw [← hx]⟩
  | setSeed s => simpa [localStep] using h
  | dsSetSeed s => simpa [localStep] using h
  | newGen id s => simpa [localStep] using h
  | initCall spec r => simpa [localStep] using h
  | dataset spec r => simpa [localStep] using h
  | legacyDraw r => simpa [localStep] using h
  | mkSk id => simpa [localStep] using h
  | fitSk id data => simpa [localStep] using h

/-- **Refinement to the node-local machine**: in any world and any history — other nodes,
    initialisers, datasets, global re-seeding, runs with noise, in any interleaving — what the
    operations addressed to a node with an integer seed emit is what the isolated local machine
    emits on those operations alone. -/
theorem C14_node_refines_local (n : Nat) (ops : List Op) (w : World)
    (hint : IntSeeded (alGet w.nodes n)) (hb : BuildsInt n ops) :
    emitsOf n ops (run w ops).2 = localRun (alGet w.nodes n) (ops.filter (fun o => o.node = some n)) := by
  induction ops generalizing w with
  | nil => rfl
  | cons o os ih =>
    have hb' : BuildsInt n os := fun spec hm => hb spec (List.mem_cons_of_mem _ hm)
    by_cases ho : o.node = some n
    · have hloc := step_local w o n ho hint (fun spec e => hb spec (by simp [e]))
      have hint' : IntSeeded (alGet (step w o).1.nodes n) := by
        rw [hloc.1]
        apply localStep_intSeeded _ _ hint
        intro id spec e
        have : id = n := by rw [e] at ho; simpa [Op.node] using ho
        subst this
        exact hb spec (by simp [e])
      simp only [run, emitsOf, ho, if_true, List.filter_cons, decide_true, localRun]
      rw [ih (step w o).1 hint' hb', hloc.1, hloc.2]
    · have hfr := step_frame w o n ho
      have hint' : IntSeeded (alGet (step w o).1.nodes n) := by rw [hfr]; exact hint
      simp only [run, emitsOf, ho, if_false, List.filter_cons, decide_false]
      rw [ih (step w o).1 hint' hb', hfr]
      simp

/-- **History independence of a seeded reservoir**: two histories (in two worlds) that contain the
    same operations on node n — built with an integer seed — emit the same weights, noise and
    trajectories for it, whatever else they contain. -/
theorem C14_node_history_independent (n : Nat) (ops1 ops2 : List Op) (w1 w2 : World)
    (h1 : alGet w1.nodes n = none) (h2 : alGet w2.nodes n = none)
    (hb1 : BuildsInt n ops1) (hb2 : BuildsInt n ops2)
    (hsame : ops1.filter (fun o => o.node = some n) = ops2.filter (fun o => o.node = some n)) :
    emitsOf n ops1 (run w1 ops1).2 = emitsOf n ops2 (run w2 ops2).2 := by
  rw [C14_node_refines_local n ops1 w1 (by intro x hx; rw [h1] at hx; cases hx) hb1,
      C14_node_refines_local n ops2 w2 (by intro x hx; rw [h2] at hx; cases hx) hb2, h1, h2, hsame]

/-! ### the global seed -/

/-- **Setting the global seed makes a whole script reproducible**: two processes (two worlds that
    differ in how the OS seeded the global generators) that run `set_seed(s)` and then the same
    script emit the same provenance for everything, and end in the same world. -/
theorem C14_set_seed_script (w1 w2 : World) (s : Nat) (script : List Op)
    (hd : w1.dsSeed = w2.dsSeed) (hh : w1.heap = w2.heap) (hn : w1.nodes = w2.nodes) (hk : w1.sks = w2.sks) :
    run w1 (.setSeed s :: script) = run w2 (.setSeed s :: script) := by
  have : (step w1 (.setSeed s)).1 = (step w2 (.setSeed s)).1 := by
    cases w1; cases w2; simp_all [step]
  simp only [run, this]
  simp [step]

example (k k' : Nat) (s : Nat) (script : List Op) :
    (run (World.fresh k) (.setSeed s :: script)).2 = (run (World.fresh k') (.setSeed s :: script)).2 := by
  rw [C14_set_seed_script (World.fresh k) (World.fresh k') s script rfl rfl rfl rfl]

/-! same-process reproducibility: closed scripts after any history -/

/-- the worlds agree on everything a script scoped by (G, N, K) can read -/
structure Agree (w1 w2 : World) (G N K : List Nat) : Prop where
  glob : w1.glob = w2.glob
  legacy : w1.legacy = w2.legacy
  ds : w1.dsSeed = w2.dsSeed
  heap : ∀ h ∈ G, alGet w1.heap h = alGet w2.heap h
  nodes : ∀ n ∈ N, alGet w1.nodes n = alGet w2.nodes n
  sks : ∀ k ∈ K, alGet w1.sks k = alGet w2.sks k
  /-- a node created inside the script refers to a generator created inside the script -/
  refs : ∀ n ∈ N, ∀ nd, alGet w1.nodes n = some nd → ∀ h, nd.spec = .gen h → h ∈ G

def specIn (G : List Nat) : SeedSpec → Prop
  | .gen h => h ∈ G
  | _ => True

/-- what an operation may refer to, and what it defines -/
def opScoped (G N K : List Nat) : Op → Prop
  | .initCall spec _ => specIn G spec
  | .dataset spec _ => specIn G spec
  | .mkRes _ spec => specIn G spec
  | .initRes id .. => id ∈ N
  | .initFb id _ => id ∈ N
  | .runRes id .. => id ∈ N
  | .fitSk id _ => id ∈ K
  | _ => True

def defs (G N K : List Nat) : Op → List Nat × List Nat × List Nat
  | .newGen id _ => (id :: G, N, K)
  | .mkRes id _ => (G, id :: N, K)
  | .mkSk id => (G, N, id :: K)
  | _ => (G, N, K)

def scriptScoped : List Nat → List Nat → List Nat → List Op → Prop
  | _, _, _, [] => True
  | G, N, K, o :: os => opScoped G N K o ∧ scriptScoped (defs G N K o).1 (defs G N K o).2.1 (defs G N K o).2.2 os

theorem alGet_alSet {α : Type} (l : List (Nat × α)) (k k' : Nat) (v : α) :
    alGet (alSet l k v) k' = if k = k' then some v else alGet l k' := by
  by_cases h : k = k'
  · subst h; simp
  · simp [h]

theorem drawFrom_agree (w1 w2 : World) (G N K : List Nat) (spec : SeedSpec) (r : Req)
    (ha : Agree w1 w2 G N K) (hs : specIn G spec) :
    (drawFrom w1 spec r).2 = (drawFrom w2 spec r).2 ∧ Agree (drawFrom w1 spec r).1 (drawFrom w2 spec r).1 G N K := by
  cases spec with
  | none =>
    simp only [drawFrom]
    refine ⟨by rw [ha.glob], ?_⟩
    exact { glob := by simp [ha.glob], legacy := ha.legacy, ds := ha.ds, heap := ha.heap, nodes := ha.nodes,
            sks := ha.sks, refs := ha.refs }
  | int s =>
    simp only [drawFrom]
    exact ⟨trivial, ha⟩
  | gen h =>
    have hh : alGet w1.heap h = alGet w2.heap h := ha.heap h hs
    simp only [drawFrom]
    rw [← hh]
    cases hg : alGet w1.heap h with
    | none => exact ⟨rfl, ha⟩
    | some g =>
      refine ⟨rfl, ?_⟩
      exact { glob := ha.glob, legacy := ha.legacy, ds := ha.ds, nodes := ha.nodes, sks := ha.sks, refs := ha.refs,
              heap := by
                intro h' hh'
                simp only [alGet_alSet]
                split
                · rfl
                · exact ha.heap h' hh' }

theorem Agree.dropN {w1 w2 : World} {G N K : List Nat} {id : Nat} (h : Agree w1 w2 G (id :: N) K) :
    Agree w1 w2 G N K :=
  { glob := h.glob, legacy := h.legacy, ds := h.ds, heap := h.heap, sks := h.sks,
    nodes := fun n hn => h.nodes n (List.mem_cons_of_mem _ hn),
    refs := fun n hn => h.refs n (List.mem_cons_of_mem _ hn) }

theorem agree_setNode {w1 w2 : World} {G N K : List Nat} (ha : Agree w1 w2 G N K) (id : Nat) (nd : NodeSt)
    (hrefs : ∀ h, nd.spec = .gen h → h ∈ G) :
    Agree { w1 with nodes := alSet w1.nodes id nd } { w2 with nodes := alSet w2.nodes id nd } G (id :: N) K :=
  { glob := ha.glob, legacy := ha.legacy, ds := ha.ds, heap := ha.heap, sks := ha.sks,
    nodes := by
      intro n hn
      simp only [alGet_alSet]
      split
      · rfl
      · rename_i hne
        rcases List.mem_cons.mp hn with rfl | hn'
        · exact absurd rfl hne
        · exact ha.nodes n hn',
    refs := by
      intro n hn x hx h hsp
      simp only [alGet_alSet] at hx
      split at hx
      · cases hx; exact hrefs h hsp
      · rename_i hne
        rcases List.mem_cons.mp hn with rfl | hn'
        · exact absurd rfl hne
        · exact ha.refs n hn' x hx h hsp }

theorem specIn_of_refs {w1 w2 : World} {G N K : List Nat} (ha : Agree w1 w2 G N K) (id : Nat) (hid : id ∈ N)
    (nd : NodeSt) (hnd : alGet w1.nodes id = some nd) : specIn G nd.spec := by
  cases hs : nd.spec with
  | none => trivial
  | int s => trivial
  | gen h => exact ha.refs id hid nd hnd h hs

theorem serveShared_agree (rs : List Req) (w1 w2 : World) (G N K : List Nat) (spec : SeedSpec)
    (ha : Agree w1 w2 G N K) (hs : specIn G spec) :
    (serveShared w1 spec rs).2 = (serveShared w2 spec rs).2
    ∧ Agree (serveShared w1 spec rs).1 (serveShared w2 spec rs).1 G N K := by
  induction rs generalizing w1 w2 with
  | nil => exact ⟨rfl, ha⟩
  | cons r rs ih =>
    obtain ⟨ht, ha'⟩ := drawFrom_agree w1 w2 G N K spec r ha hs
    obtain ⟨ht2, ha2⟩ := ih _ _ ha'
    simp only [serveShared]
    exact ⟨by rw [ht, ht2], ha2⟩

/-- nodes are not touched by draws: Agree lets us transport a node look-up through a draw -/
theorem agree_nodes_eq {w1 w2 : World} {G N K : List Nat} (ha : Agree w1 w2 G N K) (id : Nat) (hid : id ∈ N) :
    alGet w1.nodes id = alGet w2.nodes id := ha.nodes id hid

theorem step_agree (o : Op) (w1 w2 : World) (G N K : List Nat) (ha : Agree w1 w2 G N K)
    (hs : opScoped G N K o) :
    (step w1 o).2 = (step w2 o).2
    ∧ Agree (step w1 o).1 (step w2 o).1 (defs G N K o).1 (defs G N K o).2.1 (defs G N K o).2.2 := by
  cases o with
  | setSeed s =>
    refine ⟨rfl, ?_⟩
    exact { glob := rfl, legacy := rfl, ds := ha.ds, heap := ha.heap, nodes := ha.nodes, sks := ha.sks, refs := ha.refs }
  | dsSetSeed s =>
    refine ⟨rfl, ?_⟩
    exact { glob := ha.glob, legacy := ha.legacy, ds := rfl, heap := ha.heap, nodes := ha.nodes, sks := ha.sks, refs := ha.refs }
  | newGen id s =>
    refine ⟨rfl, ?_⟩
    exact { glob := ha.glob, legacy := ha.legacy, ds := ha.ds, nodes := ha.nodes, sks := ha.sks,
            heap := by
              intro h hh
              simp only [step, alGet_alSet]
              split
              · rfl
              · rename_i hne
                rcases List.mem_cons.mp hh with rfl | hh'
                · exact absurd rfl hne
                · exact ha.heap h hh',
            refs := fun n hn x hx h hsp => List.mem_cons_of_mem _ (ha.refs n hn x hx h hsp) }
  | initCall spec r =>
    obtain ⟨ht, ha'⟩ := drawFrom_agree w1 w2 G N K spec r ha hs
    simp only [step, defs]
    exact ⟨by rw [ht], ha'⟩
  | dataset spec r =>
    cases spec with
    | none =>
      simp only [step, defs]
      rw [← ha.ds]
      obtain ⟨ht, ha'⟩ := drawFrom_agree w1 w2 G N K (.int w1.dsSeed) r ha trivial
      exact ⟨by rw [ht], ha'⟩
    | int s =>
      simp only [step, defs]
      obtain ⟨ht, ha'⟩ := drawFrom_agree w1 w2 G N K (.int s) r ha trivial
      exact ⟨by rw [ht], ha'⟩
    | gen h =>
      simp only [step, defs]
      obtain ⟨ht, ha'⟩ := drawFrom_agree w1 w2 G N K (.gen h) r ha hs
      exact ⟨by rw [ht], ha'⟩
  | legacyDraw r =>
    simp only [step, defs]
    refine ⟨by rw [ha.legacy], ?_⟩
    exact { glob := ha.glob, legacy := by simp [ha.legacy], ds := ha.ds, heap := ha.heap, nodes := ha.nodes, sks := ha.sks,
            refs := ha.refs }
  | mkRes id spec =>
    simp only [step, defs]
    refine ⟨by simp, ?_⟩
    apply agree_setNode ha
    intro h hsp
    simp only at hsp
    subst hsp
    exact hs
  | initRes id rW rWin rBias =>
    have hid : id ∈ N := hs
    have hn := ha.nodes id hid
    simp only [step, defs]
    rw [← hn]
    cases hnd : alGet w1.nodes id with
    | none => exact ⟨rfl, ha⟩
    | some nd =>
      have hsp := specIn_of_refs ha id hid nd hnd
      cases hspec : nd.spec with
      | int s =>
        simp only [hspec]
        refine ⟨by simp, ?_⟩
        exact (agree_setNode ha id _ (by intro h hh; simp [NodeSt.initOwn, hspec] at hh)).dropN
      | none =>
        simp only [hspec]
        rw [hspec] at hsp
        obtain ⟨t1, a1⟩ := drawFrom_agree w1 w2 G N K .none rW ha hsp
        obtain ⟨t2, a2⟩ := drawFrom_agree _ _ G N K .none rWin a1 hsp
        obtain ⟨t3, a3⟩ := drawFrom_agree _ _ G N K .none rBias a2 hsp
        refine ⟨by rw [t1, t2, t3], ?_⟩
        rw [t1, t2, t3]
        exact (agree_setNode a3 id _ (by intro h hh; simp [hspec] at hh)).dropN
      | gen g =>
        simp only [hspec]
        rw [hspec] at hsp
        obtain ⟨t1, a1⟩ := drawFrom_agree w1 w2 G N K (.gen g) rW ha hsp
        obtain ⟨t2, a2⟩ := drawFrom_agree _ _ G N K (.gen g) rWin a1 hsp
        obtain ⟨t3, a3⟩ := drawFrom_agree _ _ G N K (.gen g) rBias a2 hsp
        refine ⟨by rw [t1, t2, t3], ?_⟩
        rw [t1, t2, t3]
        exact (agree_setNode a3 id _ (by intro h hh; simp [hspec] at hh; subst hh; exact hsp)).dropN
  | initFb id rWfb =>
    have hid : id ∈ N := hs
    have hn := ha.nodes id hid
    simp only [step, defs]
    rw [← hn]
    cases hnd : alGet w1.nodes id with
    | none => exact ⟨rfl, ha⟩
    | some nd =>
      have hsp := specIn_of_refs ha id hid nd hnd
      cases hspec : nd.spec with
      | int s =>
        simp only [hspec]
        refine ⟨by simp, ?_⟩
        exact (agree_setNode ha id _ (by intro h hh; simp [NodeSt.initFbOwn, hspec] at hh)).dropN
      | none =>
        simp only [hspec]
        rw [hspec] at hsp
        obtain ⟨t1, a1⟩ := drawFrom_agree w1 w2 G N K .none rWfb ha hsp
        refine ⟨by rw [t1], ?_⟩
        rw [t1]
        exact (agree_setNode a1 id _ (by intro h hh; simp [hspec] at hh)).dropN
      | gen g =>
        simp only [hspec]
        rw [hspec] at hsp
        obtain ⟨t1, a1⟩ := drawFrom_agree w1 w2 G N K (.gen g) rWfb ha hsp
        refine ⟨by rw [t1], ?_⟩
        rw [t1]
        exact (agree_setNode a1 id _ (by intro h hh; simp [hspec] at hh; subst hh; exact hsp)).dropN
  | runRes id input steps noise =>
    have hid : id ∈ N := hs
    have hn := ha.nodes id hid
    simp only [step, defs]
    rw [← hn]
    cases hnd : alGet w1.nodes id with
    | none => exact ⟨rfl, ha⟩
    | some nd =>
      have hsp := specIn_of_refs ha id hid nd hnd
      cases hspec : nd.spec with
      | int s =>
        simp only [hspec]
        refine ⟨by simp, ?_⟩
        exact (agree_setNode ha id _ (by intro h hh; simp [NodeSt.runOwn, hspec] at hh)).dropN
      | none =>
        simp only [hspec]
        rw [hspec] at hsp
        obtain ⟨t1, a1⟩ := serveShared_agree (repeatReqs steps (stepReqs noise)) w1 w2 G N K .none ha hsp
        refine ⟨by rw [t1], ?_⟩
        rw [t1]
        exact (agree_setNode a1 id _ (by intro h hh; simp [hspec] at hh)).dropN
      | gen g =>
        simp only [hspec]
        rw [hspec] at hsp
        obtain ⟨t1, a1⟩ := serveShared_agree (repeatReqs steps (stepReqs noise)) w1 w2 G N K (.gen g) ha hsp
        refine ⟨by rw [t1], ?_⟩
        rw [t1]
        exact (agree_setNode a1 id _ (by intro h hh; simp [hspec] at hh; subst hh; exact hsp)).dropN
  | mkSk id =>
    simp only [step, defs]
    refine ⟨by simp, ?_⟩
    exact { glob := by simp [ha.glob], legacy := ha.legacy, ds := ha.ds, heap := ha.heap, nodes := ha.nodes, refs := ha.refs,
            sks := by
              intro k hk
              simp only [alGet_alSet, ha.glob]
              split
              · rfl
              · rename_i hne
                rcases List.mem_cons.mp hk with rfl | hk'
                · exact absurd rfl hne
                · exact ha.sks k hk' }
  | fitSk id data =>
    have hid : id ∈ K := hs
    have hk := ha.sks id hid
    simp only [step, defs]
    rw [← hk]
    cases alGet w1.sks id with
    | none => exact ⟨rfl, ha⟩
    | some sk => exact ⟨rfl, ha⟩

theorem run_agree (script : List Op) (w1 w2 : World) (G N K : List Nat) (ha : Agree w1 w2 G N K)
    (hs : scriptScoped G N K script) : (run w1 script).2 = (run w2 script).2 := by
  induction script generalizing w1 w2 G N K with
  | nil => rfl
  | cons o os ih =>
    obtain ⟨ho, hrest⟩ := hs
    obtain ⟨ht, ha'⟩ := step_agree o w1 w2 G N K ha ho
    simp only [run]
    rw [ht, ih _ _ _ _ _ ha' hrest]

/-- **Setting the seeds makes a script reproducible after ANY earlier history, in the same process
    or another one**: for arbitrary worlds w1, w2 (whatever was created, drawn, re-seeded or run
    before — other nodes, generator objects, `datasets.set_seed`, unseeded draws), `set_seed(s)`
    and `datasets.set_seed(d)` followed by a script that refers only to generator objects, nodes
    and readouts it creates itself emits the same provenance for every array. -/
theorem C14_set_seed_after_any_history (w1 w2 : World) (s d : Nat) (script : List Op)
    (hs : scriptScoped [] [] [] script) :
    (run w1 (.setSeed s :: .dsSetSeed d :: script)).2 = (run w2 (.setSeed s :: .dsSetSeed d :: script)).2 := by
  have ha : Agree (step (step w1 (.setSeed s)).1 (.dsSetSeed d)).1 (step (step w2 (.setSeed s)).1 (.dsSetSeed d)).1 [] [] [] :=
    { glob := rfl, legacy := rfl, ds := rfl,
      heap := fun h hh => (by cases hh),
      nodes := fun n hn => (by cases hn),
      sks := fun k hk => (by cases hk),
      refs := fun n hn => (by cases hn) }
  have h := run_agree script _ _ [] [] [] ha hs
  simp only [run]
  rw [h]
  rfl

/-- the scope condition is satisfiable by a non-trivial script -/
example : scriptScoped [] [] [] [.newGen 1 7, .mkRes 2 (.gen 1), .initRes 2 "W" "Win" "b", .mkRes 3 .none,
    .initCall (.gen 1) "u", .runRes 2 "x" 3 [("n", true)], .mkSk 4, .fitSk 4 "d", .dataset .none "mg"] := by
  simp [scriptScoped, opScoped, defs, specIn]

/-! ### zero gain -/

theorem serveAll_nil (g : GenSt) : serveAll g [] = (g, []) := rfl

theorem repeatReqs_nil (n : Nat) : repeatReqs n [] = [] := by
  induction n with
  | zero => rfl
  | succ n ih => simp [repeatReqs, ih]

/-- **A noise gain of zero means exactly no noise**: a run whose gains are all zero makes no
    request to any generator (the node's generator is left in its state) and the provenance of
    the trajectory contains no draw: state, weights and input only. -/
theorem C14_zero_gain_silent (nd : NodeSt) (input : String) (steps : Nat) (noise : List (Req × Bool))
    (h : ∀ p ∈ noise, p.2 = false) :
    (nd.runOwn input steps noise).1.own = nd.own
    ∧ (nd.runOwn input steps noise).2 = .comp ("run:" ++ input) (nd.state :: nd.weights) := by
  have : stepReqs noise = [] := by
    simp only [stepReqs, List.map_eq_nil_iff, List.filter_eq_nil_iff]
    intro p hp; simp [h p hp]
  simp [NodeSt.runOwn, this, repeatReqs_nil, serveAll_nil]

/-- the same through a shared generator: the world is untouched -/
theorem C14_zero_gain_silent_shared (w : World) (spec : SeedSpec) (steps : Nat) (noise : List (Req × Bool))
    (h : ∀ p ∈ noise, p.2 = false) :
    serveShared w spec (repeatReqs steps (stepReqs noise)) = (w, []) := by
  have : stepReqs noise = [] := by
    simp only [stepReqs, List.map_eq_nil_iff, List.filter_eq_nil_iff]
    intro p hp; simp [h p hp]
  simp [this, repeatReqs_nil, serveShared]

/-! ### non-vacuity -/
def demoOps : List Op :=
  [.newGen 1 7, .mkRes 5 .none, .initRes 5 "W" "Win" "b", .mkRes 2 (.int 3), .initCall .none "u", .initRes 2 "W" "Win" "b",
   .runRes 5 "x" 2 [("n", true)], .runRes 2 "x" 2 [("nin", true), ("nrc", false)]]

example : BuildsInt 2 demoOps := by
  intro spec h
  simp [demoOps] at h
  exact ⟨3, h⟩

example : (emitsOf 2 demoOps (run (World.fresh 0) demoOps).2).map (·.length) = [0, 3, 1] := by decide
