/-
  C09 — offline training is invariant to batching, order and parallel schedule.
  Models: RpyModel/Readout.lean (`accumulate`, as C04), RpyModel/Sched.lean (the accumulation
  step under / without the lock; `_sort_and_unpack`).
-/
import RpyModel.Sched
import RpyProofs.Props.C04
import Mathlib.Algebra.BigOperators.Group.Finset.Basic
import Mathlib.Data.List.Sort
import Mathlib.Tactic.Abel

set_option linter.unusedSectionVars false
set_option linter.unusedSimpArgs false
set_option linter.unusedVariables false

open Sched

/-! ### every schedule of the locked accumulation gives the sum -/
section
variable {M : Type} [AddCommMonoid M] {n : Nat}

@[simp] theorem PC.isDone_idle : (PC.idle : PC M).isDone = false := rfl
@[simp] theorem PC.isDone_holding (t : M) : (PC.holding t).isDone = false := rfl
@[simp] theorem PC.isDone_done : (PC.done : PC M).isDone = true := rfl

theorem upd_eq {α : Type} (f : Fin n → α) (w : Fin n) (v : α) : upd f w v = Function.update f w v := by
  funext x; simp [upd, Function.update]

structure LInv (c : Fin n → M) (a0 : M) (s : Sys M n) : Prop where
  acc_eq : s.acc = a0 + ∑ w ∈ Finset.univ.filter (fun w => (s.pc w).isDone), c w
  hold : ∀ w tmp, s.pc w = .holding tmp → s.lock = some w ∧ tmp = s.acc
  lock_held : ∀ w, s.lock = some w → ∃ tmp, s.pc w = .holding tmp

theorem linv_step (c : Fin n → M) (a0 : M) (s : Sys M n) (w : Fin n) (h : LInv c a0 s) :
    LInv c a0 (stepL c s w) := by
  unfold stepL
  simp only [upd_eq]
  cases hpc : s.pc w with
  | idle =>
    cases hlock : s.lock with
    | some v => simpa [hpc, hlock] using h
    | none =>
      simp only []
      refine ⟨?_, ?_, ?_⟩
      · have : (Finset.univ.filter fun v => (Function.update s.pc w (PC.holding s.acc) v).isDone)
            = Finset.univ.filter fun v => (s.pc v).isDone := by
          ext v; by_cases hv : v = w <;> simp [Function.update, hv, hpc]
        simp only [this]; exact h.acc_eq
      · intro v tmp hv
        by_cases hvw : v = w
        · subst hvw; simp [Function.update] at hv; exact ⟨rfl, hv.symm⟩
        · simp [Function.update, hvw] at hv
          have := (h.hold v tmp hv).1; rw [hlock] at this; exact absurd this (by simp)
      · intro v hv
        simp only [Option.some.injEq] at hv; subst hv
        exact ⟨s.acc, by simp [Function.update]⟩
  | holding tmp =>
    simp only []
    have hh := h.hold w tmp hpc
    refine ⟨?_, ?_, ?_⟩
    · have : (Finset.univ.filter fun v => (Function.update s.pc w PC.done v).isDone)
          = insert w (Finset.univ.filter fun v => (s.pc v).isDone) := by
        ext v; by_cases hv : v = w <;> simp [Function.update, hv]
      have hw : w ∉ Finset.univ.filter fun v => (s.pc v).isDone := by simp [hpc]
      simp only [this, Finset.sum_insert hw]
      rw [hh.2, h.acc_eq]; abel
    · intro v tmp' hv
      by_cases hvw : v = w
      · subst hvw; simp [Function.update] at hv
      · simp [Function.update, hvw] at hv
        have := (h.hold v tmp' hv).1; rw [hh.1] at this
        exact absurd (Option.some.inj this).symm hvw
    · intro v hv; simp at hv
  | done => simpa [hpc] using h

theorem linv_run (c : Fin n → M) (a0 : M) (l : List (Fin n)) (s : Sys M n) (h : LInv c a0 s) :
    LInv c a0 (runL c s l) := by
  induction l generalizing s with
  | nil => exact h
  | cons w l ih => exact ih _ (linv_step c a0 s w h)

theorem linv_init (c : Fin n → M) (a0 : M) : LInv c a0 (Sys.init a0 : Sys M n) :=
  ⟨by simp [Sys.init], by simp [Sys.init], by simp [Sys.init]⟩

/-- **No contribution is lost or counted twice, whatever the interleaving**: at every point of
    every schedule of any number of tasks, the shared accumulator holds the start value plus the
    contributions of exactly the tasks that have finished (each once); at most one task is inside
    the critical section and what it read is the current value. -/
theorem C09_locked_invariant (c : Fin n → M) (a0 : M) (sched : List (Fin n)) :
    LInv c a0 (runL c (Sys.init a0) sched) := linv_run c a0 sched _ (linv_init c a0)

/-- **Every complete schedule gives the same result**: once all tasks are done, the accumulator
    is the start value plus the sum of all contributions — for all schedules, all n. -/
theorem C09_locked_all_schedules (c : Fin n → M) (a0 : M) (sched : List (Fin n))
    (hdone : ∀ w, ((runL c (Sys.init a0) sched).pc w).isDone = true) :
    (runL c (Sys.init a0) sched).acc = a0 + ∑ w, c w := by
  have hfin := (C09_locked_invariant c a0 sched).acc_eq
  rw [hfin]
  congr 1
  apply Finset.sum_congr _ (fun _ _ => rfl)
  ext w; simp [hdone w]

end

/-- **Without the lock an update can be lost** (finding K5, the legacy trainer): two tasks, the
    interleaving read₀ read₁ write₀ write₁ loses the contribution of task 0. -/
theorem C09_unlocked_lost_update_witness :
    let c : Fin 2 → Int := fun w => if w = 0 then 1 else 2
    (runU c (Sys.init 0) [0, 1, 0, 1]).acc = 2
    ∧ ((runU c (Sys.init 0) [0, 1, 0, 1]).pc 0).isDone = true
    ∧ ((runU c (Sys.init 0) [0, 1, 0, 1]).pc 1).isDone = true
    ∧ (0 : Int) + ∑ w : Fin 2, c w = 3 := by
  decide

/-! ### batching, order, partition -/
section
variable {R : Type} [Field R]

theorem retained_perm {p o : Nat} (w : Nat) (a b : List (List (Vec R p × Vec R o))) (h : a.Perm b) :
    (retained w a).Perm (retained w b) := by
  unfold retained
  exact List.Perm.flatten (List.Perm.map _ h)

theorem gramSum_perm {p o : Nat} (A B : List (Vec R p × Vec R o)) (h : A.Perm B) :
    gramSum A = gramSum B ∧ crossSum A = crossSum B := by
  unfold gramSum crossSum
  exact ⟨(List.Perm.map _ h).sum_eq, (List.Perm.map _ h).sum_eq⟩

/-- **Order**: presenting the sequences in any order gives the same buffers. -/
theorem C09_order_invariant {p o : Nat} (w : Nat) (g : Gram R p o)
    (seqs seqs' : List (List (Vec R p × Vec R o))) (h : seqs.Perm seqs') :
    toMatrix (accumulate w g seqs).XXT = toMatrix (accumulate w g seqs').XXT
    ∧ toMatrix (accumulate w g seqs).YXT = toMatrix (accumulate w g seqs').YXT := by
  obtain ⟨a1, a2⟩ := C04_accumulate w g seqs
  obtain ⟨b1, b2⟩ := C04_accumulate w g seqs'
  obtain ⟨g1, g2⟩ := gramSum_perm _ _ (retained_perm w seqs seqs' h)
  rw [a1, a2, b1, b2, g1, g2]
  exact ⟨rfl, rfl⟩

/-- **Grouping**: successive partial fits in any grouping equal one pass over everything. -/
theorem C09_grouping_invariant {p o : Nat} (w : Nat) (g : Gram R p o)
    (groups : List (List (List (Vec R p × Vec R o)))) :
    groups.foldl (fun g grp => accumulate w g grp) g = accumulate w g groups.flatten := by
  induction groups generalizing g with
  | nil => rfl
  | cons a as ih =>
    simp only [List.foldl_cons, List.flatten_cons]
    rw [ih]
    simp [accumulate, List.foldl_append]

/-- **One array or several pieces** (no warm-up): cutting a sequence anywhere changes nothing. -/
theorem C09_split_invariant {p o : Nat} (g : Gram R p o) (a b : List (Vec R p × Vec R o)) :
    toMatrix (accumulate 0 g [a ++ b]).XXT = toMatrix (accumulate 0 g [a, b]).XXT
    ∧ toMatrix (accumulate 0 g [a ++ b]).YXT = toMatrix (accumulate 0 g [a, b]).YXT := by
  obtain ⟨a1, a2⟩ := C04_accumulate 0 g [a ++ b]
  obtain ⟨b1, b2⟩ := C04_accumulate 0 g [a, b]
  rw [a1, a2, b1, b2]
  simp [retained]

/-- **The buffers depend only on the multiset of retained timesteps**: two datasets — however
    batched, ordered or cut — whose retained (input, target) timesteps are the same up to order
    produce the same buffers, hence (C04_fit_optimal) the same solution. -/
theorem C09_multiset_of_timesteps {p o : Nat} (w w' : Nat) (g : Gram R p o)
    (seqs seqs' : List (List (Vec R p × Vec R o))) (h : (retained w seqs).Perm (retained w' seqs')) :
    toMatrix (accumulate w g seqs).XXT = toMatrix (accumulate w' g seqs').XXT
    ∧ toMatrix (accumulate w g seqs).YXT = toMatrix (accumulate w' g seqs').YXT := by
  obtain ⟨a1, a2⟩ := C04_accumulate w g seqs
  obtain ⟨b1, b2⟩ := C04_accumulate w' g seqs'
  obtain ⟨g1, g2⟩ := gramSum_perm _ _ h
  rw [a1, a2, b1, b2, g1, g2]
  exact ⟨rfl, rfl⟩

end

/-! ### results come back in input order -/

theorem indexedFrom_ge {α : Type} (k : Nat) (vals : List α) : ∀ p ∈ indexedFrom k vals, k ≤ p.1 := by
  induction vals generalizing k with
  | nil => intro p hp; cases hp
  | cons v vs ih =>
    intro p hp
    simp only [indexedFrom, List.mem_cons] at hp
    rcases hp with rfl | hp
    · exact Nat.le_refl _
    · exact Nat.le_of_succ_le (ih (k + 1) p hp)

theorem indexedFrom_pairwise {α : Type} (k : Nat) (vals : List α) :
    (indexedFrom k vals).Pairwise (fun a b => a.1 < b.1) := by
  induction vals generalizing k with
  | nil => simp [indexedFrom]
  | cons v vs ih =>
    simp only [indexedFrom, List.pairwise_cons]
    exact ⟨fun p hp => indexedFrom_ge (k + 1) vs p hp, ih (k + 1)⟩

theorem indexedFrom_snd {α : Type} (k : Nat) (vals : List α) : (indexedFrom k vals).map (·.2) = vals := by
  induction vals generalizing k with
  | nil => rfl
  | cons v vs ih => simp [indexedFrom, ih]

theorem pairwise_lt_unique {α : Type} (l : List (Nat × α)) (h : l.Pairwise (fun a b => a.1 < b.1))
    (a b : Nat × α) (ha : a ∈ l) (hb : b ∈ l) (hab : a.1 = b.1) : a = b := by
  induction l with
  | nil => cases ha
  | cons x xs ih =>
    rw [List.pairwise_cons] at h
    rcases List.mem_cons.mp ha with rfl | ha' <;> rcases List.mem_cons.mp hb with rfl | hb'
    · rfl
    · exact absurd hab (Nat.ne_of_lt (h.1 b hb'))
    · exact absurd hab.symm (Nat.ne_of_lt (h.1 a ha'))
    · exact ih h.2 ha' hb'

/-- **`_sort_and_unpack`**: whatever the completion order of the workers (any permutation of the
    indexed results), the outputs are returned in input order. -/
theorem C09_sort_and_unpack {α : Type} (vals : List α) (results : List (Nat × α))
    (h : results.Perm (indexedFrom 0 vals)) :
    sortAndUnpack results = vals := by
  unfold sortAndUnpack
  have hs : (results.mergeSort (fun a b => decide (a.1 ≤ b.1))).Pairwise (fun a b => decide (a.1 ≤ b.1) = true) :=
    List.pairwise_mergeSort (fun a b c hab hbc => by simp at *; omega) (fun a b => by simp; omega) results
  have hp : (results.mergeSort (fun a b => decide (a.1 ≤ b.1))).Perm (indexedFrom 0 vals) :=
    (List.mergeSort_perm _ _).trans h
  have href : (indexedFrom 0 vals).Pairwise (fun a b => decide (a.1 ≤ b.1) = true) :=
    (indexedFrom_pairwise 0 vals).imp (fun hlt => by simp; omega)
  have heq := List.Perm.eq_of_pairwise (le := fun a b => decide (a.1 ≤ b.1) = true)
    (fun a b ha hb hab hba => by
      have ha' : a ∈ indexedFrom 0 vals := hp.subset ha
      simp at hab hba
      exact pairwise_lt_unique _ (indexedFrom_pairwise 0 vals) a b ha' hb (by omega))
    hs href hp
  rw [heq, indexedFrom_snd]

example : sortAndUnpack [(2, 30), (0, 10), (1, 20)] = [10, 20, 30] :=
  C09_sort_and_unpack [10, 20, 30] _ (by decide)
