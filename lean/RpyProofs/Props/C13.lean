/-
  C13 — weight initialisers: the algebra around the random draw.
  Model: RpyModel/MatGen.lean.
-/
import RpyModel.MatGen
import RpyProofs.MatBridge
import Mathlib.Algebra.Order.Field.Basic
import Mathlib.Algebra.Algebra.Spectrum.Basic
import Mathlib.FieldTheory.IsAlgClosed.Spectrum
import Mathlib.Analysis.Complex.Polynomial.Basic
import Mathlib.LinearAlgebra.Matrix.Charpoly.Eigs
import Mathlib.Data.Complex.Basic
import Mathlib.Tactic.Ring
import Mathlib.Tactic.FieldSimp
import Mathlib.Tactic.Linarith
import Mathlib.Tactic.Positivity

set_option linter.unusedSectionVars false
set_option linter.unusedSimpArgs false
set_option linter.unusedVariables false

/-! ### partial application -/

theorem heapStep_get {V : Type} (hs : List (Init V)) (op : Nat × List (String × V)) (k : Nat)
    (hk : k < hs.length) : (heapStep hs op)[k]? = hs[k]? := by
  unfold heapStep
  split
  · rw [List.getElem?_append_left hk]
  · rfl

theorem heapStep_length {V : Type} (hs : List (Init V)) (op : Nat × List (String × V)) :
    hs.length ≤ (heapStep hs op).length := by
  unfold heapStep; split <;> simp

/-- **Partially applying an initialiser never alters the original** — nor any initialiser that
    already exists: whatever history of partial applications follows (on any object, in any
    order), object k holds the keywords it held before.  In particular the module-level
    initialisers (object 0, no keywords) stay empty. -/
theorem C13_partial_never_alters {V : Type} (ops : List (Nat × List (String × V))) (hs : List (Init V))
    (k : Nat) (hk : k < hs.length) : (ops.foldl heapStep hs)[k]? = hs[k]? := by
  induction ops generalizing hs with
  | nil => rfl
  | cons op ops ih =>
    simp only [List.foldl_cons]
    rw [ih (heapStep hs op) (Nat.lt_of_lt_of_le hk (heapStep_length hs op)), heapStep_get hs op k hk]

/-- the new object is the old one with the keywords merged in -/
theorem C13_partial_creates {V : Type} (hs : List (Init V)) (h : Nat) (kw : List (String × V)) (i : Init V)
    (hi : hs[h]? = some i) : heapStep hs (h, kw) = hs ++ [i.partial kw] := by
  simp [heapStep, hi]

theorem updateKw_append {V : Type} (kw a b : List (String × V)) :
    updateKw (updateKw kw a) b = updateKw kw (a ++ b) := by
  simp [updateKw, List.foldl_append]

/-- `f(k₁)(k₂) = f(k₁ then k₂)`: successive partial applications merge, later writes winning -/
theorem C13_partial_application {V : Type} (i : Init V) (a b : List (String × V)) :
    (i.partial a).partial b = i.partial (a ++ b) := by
  simp [Init.partial, updateKw_append]

theorem lookup_update_last {V : Type} (kw : List (String × V)) (k : String) (v : V) :
    lookupKw (updateKw kw [(k, v)]) k = some v := by
  simp only [updateKw, List.foldl_cons, List.foldl_nil, lookupKw]
  rw [List.find?_append]
  have : (kw.filter fun q => q.1 != k).find? (fun q => q.1 == k) = none := by
    rw [List.find?_eq_none]
    intro q hq
    simp only [List.mem_filter, bne_iff_ne, ne_eq] at hq
    simp [hq.2]
  simp [this]

theorem lookup_update_other {V : Type} (kw : List (String × V)) (k k' : String) (v : V) (h : k' ≠ k) :
    lookupKw (updateKw kw [(k, v)]) k' = lookupKw kw k' := by
  simp only [updateKw, List.foldl_cons, List.foldl_nil, lookupKw]
  rw [List.find?_append]
  have h1 : ([(k, v)] : List (String × V)).find? (fun q => q.1 == k') = none := by
    simp [Ne.symm h]
  rw [h1]
  have h2 : (kw.filter fun q => q.1 != k).find? (fun q => q.1 == k') = kw.find? (fun q => q.1 == k') := by
    rw [List.find?_filter]
    congr 1
    funext q
    by_cases hq' : q.1 = k'
    · have : q.1 ≠ k := by rw [hq']; exact h
      simp [hq', this, h]
    · simp [hq']
  rw [h2]; simp

/-! ### spectral-radius rescaling -/
section
variable {R : Type} [Field R] [LinearOrder R] [IsStrictOrderedRing R]

/-- **Requesting a spectral radius.**  Let ρ be any absolutely homogeneous function of the matrix
    (the spectral radius is one, see `C13_spectrum_smul`).  If the raw draw has ρ(W) ≥ ε, the
    result is the *positive* multiple (sr/ρ(W))·W and its ρ is exactly `sr`. -/
theorem C13_sr_scaling {n : Nat} (ρ : Mat R n n → R) (hhom : ∀ (c : R) (W : Mat R n n), ρ (mscale c W) = |c| * ρ W)
    (eps sr : R) (heps : 0 < eps) (hsr : 0 < sr) (W : Mat R n n) (hρ : eps ≤ ρ W) :
    scaleSR (fun a b => decide (a < b)) eps W (ρ W) sr = mscale (sr / ρ W) W
    ∧ 0 < sr / ρ W ∧ ρ (scaleSR (fun a b => decide (a < b)) eps W (ρ W) sr) = sr := by
  have hpos : 0 < ρ W := lt_of_lt_of_le heps hρ
  have hnot : ¬ (ρ W < eps) := not_lt.mpr hρ
  have h1 : scaleSR (fun a b => decide (a < b)) eps W (ρ W) sr = mscale (sr / ρ W) W := by
    simp [scaleSR, hnot]
  refine ⟨h1, div_pos hsr hpos, ?_⟩
  rw [h1, hhom, abs_of_pos (div_pos hsr hpos)]
  field_simp

/-- **The ε-floor** (finding K6): a draw whose spectral radius is (numerically) zero — which no
    factor can rescale — is multiplied by sr/ε, i.e. blown up by orders of magnitude
    (ε = 1e-8 in the code: a factor 10⁸·sr). -/
theorem C13_eps_blowup {n : Nat} (eps sr : R) (heps : 0 < eps) (W : Mat R n n) :
    scaleSR (fun a b => decide (a < b)) eps W 0 sr = mscale (sr / eps) W := by
  simp [scaleSR, heps]

end

open Pointwise in
/-- the spectrum is homogeneous: the eigenvalues of c·A are c times those of A (complex square
    matrices of positive size), hence so is the largest modulus -/
theorem C13_spectrum_smul {n : Nat} [NeZero n] (c : ℂ) (A : Matrix (Fin n) (Fin n) ℂ) :
    spectrum ℂ (c • A) = c • spectrum ℂ A := by
  apply spectrum.smul_eq_smul
  exact spectrum.nonempty_of_isAlgClosed_of_finiteDimensional ℂ A

/-! ### input scaling -/
section
variable {R : Type} [Field R]

/-- per-column input scaling: entry (i, j) of the result is the raw entry times factor j -/
theorem C13_input_scaling {n m : Nat} (w : Mat R n m) (s : Vec R m) (c : R) (i : Fin n) (j : Fin m) :
    (scaleInputsCols w s)[i][j] = w[i][j] * s[j] ∧ (scaleInputsScalar w c)[i][j] = c * w[i][j] := by
  simp [scaleInputsCols, scaleInputsScalar, mscale, vscale]

end

/-! ### deterministic structure -/

/-- `ring`: exactly n entries, neuron j → neuron (j+1) mod n, one per row and per column -/
theorem C13_ring (n : Nat) (hn : 0 < n) :
    (ringEntries n).length = n
    ∧ (∀ e ∈ ringEntries n, e.1 = (e.2 + 1) % n ∧ e.2 < n ∧ e.1 < n)
    ∧ ((ringEntries n).map (·.2)).Nodup := by
  refine ⟨by simp [ringEntries], ?_, ?_⟩
  · intro e he
    simp only [ringEntries, List.mem_map, List.mem_range] at he
    obtain ⟨j, hj, rfl⟩ := he
    exact ⟨rfl, hj, Nat.mod_lt _ hn⟩
  · simp only [ringEntries, List.map_map, Function.comp_def, List.map_id']
    exact List.nodup_range

/-- `line`: n−1 entries j → j+1, strictly below the diagonal: the matrix is nilpotent, its
    spectral radius is 0 (no eigenvalue but 0 for a strictly triangular matrix) -/
theorem C13_line (n : Nat) :
    (lineEntries n).length = n - 1 ∧ ∀ e ∈ lineEntries n, e.1 = e.2 + 1 ∧ e.2 < e.1 ∧ e.1 < n := by
  refine ⟨by simp [lineEntries], ?_⟩
  intro e he
  simp only [lineEntries, List.mem_map, List.mem_range] at he
  obtain ⟨j, hj, rfl⟩ := he
  exact ⟨rfl, Nat.lt_succ_self j, by omega⟩

/-- **Exact degree**: with duplicate-free target lists of length `degree`, every source has
    exactly `degree` non-zero entries, all distinct positions -/
theorem C13_degree_exact (out : Bool) (choices : List (List Nat)) (degree : Nat)
    (hlen : ∀ c ∈ choices, c.length = degree) :
    (degreeEntries out choices).length = choices.length * degree := by
  unfold degreeEntries
  have : ∀ (l : List (Nat × List Nat)), (∀ p ∈ l, p.2.length = degree) →
      (l.flatMap fun (s, ts) => ts.map fun t => if out then (t, s) else (s, t)).length = l.length * degree := by
    intro l hl
    induction l with
    | nil => simp
    | cons p ps ih =>
      simp only [List.flatMap_cons, List.length_append, List.length_map, List.length_cons]
      rw [ih (fun q hq => hl q (List.mem_cons_of_mem _ hq)), hl p (by simp)]
      ring
  rw [this]
  · simp
  · intro p hp
    have := List.of_mem_zip hp
    exact hlen p.2 this.2

/-- Non-vacuity / sanity. -/
example : ringEntries 3 = [(1, 0), (2, 1), (0, 2)] := by decide
example : lineEntries 4 = [(1, 0), (2, 1), (3, 2)] := by decide
example : (([(0, [("sr", 1)]), (1, [("seed", 2)]), (0, [("sr", 3)])] : List (Nat × List (String × Nat))).foldl heapStep
    [⟨"uniform", []⟩]).map (·.kwargs) = [[], [("sr", 1)], [("sr", 1), ("seed", 2)], [("sr", 3)]] := by decide
example : (Init.partial (Init.partial ⟨"normal", [("loc", 5)]⟩ [("scale", 2)]) [("loc", 7)]).kwargs
    = [("scale", 2), ("loc", 7)] := by decide
