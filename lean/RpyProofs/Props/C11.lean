/-
  C11 — training touches only what it should and sessions are isolated.
  Model: RpyModel/Training.lean (abstract learning rule).
-/
import RpyModel.Training

set_option linter.unusedVariables false

variable {D B P : Type}

/-- **Inference never changes anything.** -/
theorem C11_inference_pure (r : Rule D B P) (n : TNode B P) : (applyT r n .run).1 = n := rfl

/-- **Fixed weights are never written**, by any operation sequence. -/
theorem C11_fixed_frame (r : Rule D B P) (n : TNode B P) (ops : List (TOp D)) :
    (runT r n ops).fixed = n.fixed := by
  unfold runT
  induction ops generalizing n with
  | nil => rfl
  | cons op ops ih =>
    simp only [List.foldl_cons]
    rw [ih]
    cases op <;> simp only [applyT] <;> (try split) <;> (try split) <;> (try simp) <;> (try split) <;> (try simp)

/-- **A frozen node is never trained**: every operation on it — training ones are rejected —
    leaves its parameters, buffers and flags as they were (in this code base a frozen node cannot
    even be unfrozen: the `is_trainable` setter only acts on trainable nodes). -/
theorem C11_frozen_frame (r : Rule D B P) (n : TNode B P) (hf : n.frozen = true) (op : TOp D) :
    (applyT r n op).1 = n := by
  cases op <;> simp [applyT, hf]

theorem C11_frozen_forever (r : Rule D B P) (n : TNode B P) (hf : n.frozen = true) (ops : List (TOp D)) :
    runT r n ops = n := by
  unfold runT
  induction ops with
  | nil => rfl
  | cons op ops ih => simp only [List.foldl_cons, C11_frozen_frame r n hf op]; exact ih

theorem accumulateUntil_none (r : Rule D B P) (b : B) (ds : List D) (i : Nat) :
    accumulateUntil r b ds i none = (ds.foldl r.acc b, false) := by
  induction ds generalizing b i with
  | nil => rfl
  | cons d ds ih => simp [accumulateUntil, ih]

/-- **A completed fit depends only on its own data**: whatever the node's history, once its
    buffers are clean (as every completed *or failed* fit leaves them), `fit ds` gives
    `solve (fold acc empty ds)` — the parameters of a fresh node fitted on `ds`. -/
theorem C11_fit_function_of_data (r : Rule D B P) (n : TNode B P) (hf : n.frozen = false)
    (hb : n.buf = none) (ds : List D) :
    (applyT r n (.fit ds none)).1.params = r.solve (ds.foldl r.acc r.empty)
    ∧ (applyT r n (.fit ds none)).1.buf = none := by
  simp [applyT, hf, hb, accumulateUntil_none]

/-- every fit, completed or failed, leaves clean buffers -/
theorem C11_fit_cleans (r : Rule D B P) (n : TNode B P) (ds : List D) (f : Option Nat)
    (hf : n.frozen = false) : (applyT r n (.fit ds f)).1.buf = none := by
  simp only [applyT, hf, Bool.false_eq_true, if_false]
  split <;> rfl

/-- **Session isolation.** `fit d₁; fit d₂` and `failed fit; fit d₂` both give the parameters of
    `fresh; fit d₂`: neither an earlier completed fit nor the partial sums of a failed one
    influence the result. -/
theorem C11_session_isolation (r : Rule D B P) (n : TNode B P) (hf : n.frozen = false)
    (d1 d2 : List D) (f : Option Nat) :
    (applyT r (applyT r n (.fit d1 f)).1 (.fit d2 none)).1.params
      = r.solve (d2.foldl r.acc r.empty) := by
  have hb := C11_fit_cleans r n d1 f hf
  have hf' : (applyT r n (.fit d1 f)).1.frozen = false := by
    simp only [applyT, hf, Bool.false_eq_true, if_false]
    split <;> simp [hf]
  exact (C11_fit_function_of_data r _ hf' hb d2).1

/-- batched fitting: successive partial fits followed by `fit()` equal one fit on the
    concatenated data -/
theorem C11_partial_then_fit (r : Rule D B P) (n : TNode B P) (hf : n.frozen = false)
    (hb : n.buf = none) (d1 d2 : List D) :
    (applyT r (applyT r (applyT r n (.partialFit d1 none)).1 (.partialFit d2 none)).1 .fitNoData).1.params
      = r.solve ((d1 ++ d2).foldl r.acc r.empty) := by
  simp [applyT, hf, hb, accumulateUntil_none, List.foldl_append]

/-- the witness the repaired code no longer exhibits: *without* the clean-up of a failed fit the
    next fit would start from the stale partial sums (here: sums of naturals) -/
example :
    let r : Rule Nat Nat Nat := { empty := 0, acc := (· + ·), solve := id }
    let stale : TNode Nat Nat := { params := 0, fixed := 7, buf := some 5, frozen := false, fitted := false }
    (applyT r stale (.fit [1, 2] none)).1.params = 8            -- 5 stale + 3
      ∧ (applyT r (applyT r { stale with buf := none } (.fit [5, 9] (some 1))).1 (.fit [1, 2] none)).1.params = 3 := by
  decide

/-! ### The model-level switch, and rejected fits -/

/-- `model.is_trainable = False`: the switch goes to every node of the model that learns (online or offline) -/
def freezeModel (r : Rule D B P) (ns : List (TNode B P)) : List (TNode B P) :=
  ns.map fun n => (applyT r n (.freeze true)).1

theorem freezeModel_frozen (r : Rule D B P) (ns : List (TNode B P)) :
    ∀ n ∈ freezeModel r ns, n.frozen = true := by
  intro n hn
  simp only [freezeModel, List.mem_map] at hn
  obtain ⟨m, _, rfl⟩ := hn
  simp only [applyT]
  split
  · assumption
  · rfl

/-- **The model-level freeze.** After it, whatever sequence of operations each learner of the model receives
    (run, partial fits, fits - failing or not -, `fit()`, attempts to unfreeze), every one of them keeps the
    parameters, buffers and flags it had when the model was frozen; and freezing itself changed no parameter. -/
theorem C11_model_freeze (r : Rule D B P) (ns : List (TNode B P)) (opss : TNode B P → List (TOp D)) :
    (∀ n ∈ freezeModel r ns, runT r n (opss n) = n)
    ∧ (freezeModel r ns).map (·.params) = ns.map (·.params) := by
  refine ⟨fun n hn => C11_frozen_forever r n (freezeModel_frozen r ns n hn) _, ?_⟩
  simp only [freezeModel, List.map_map]
  apply List.map_congr_left
  intro n _
  simp only [Function.comp, applyT]
  split <;> rfl

/-- **A rejected `fit(X, Y)` is a fit that failed before its first sequence**: the parameters stay, no buffers are
    left - not even those of earlier partial fits - and the next fit is the one of a fresh node -/
theorem C11_rejected_fit (r : Rule D B P) (n : TNode B P) (hf : n.frozen = false) (d : D) (ds d2 : List D) :
    (applyT r n (.fit (d :: ds) (some 0))).1.params = n.params
    ∧ (applyT r n (.fit (d :: ds) (some 0))).1.buf = none
    ∧ (applyT r (applyT r n (.fit (d :: ds) (some 0))).1 (.fit d2 none)).1.params = r.solve (d2.foldl r.acc r.empty) := by
  refine ⟨?_, C11_fit_cleans r n _ _ hf, C11_session_isolation r n hf _ d2 _⟩
  simp [applyT, hf, accumulateUntil]
