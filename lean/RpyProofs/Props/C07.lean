/-
  C07 — time-compositionality: one run = successive calls = any chunking.
  Models: RpyModel/Dataflow.lean (models, with feedback), RpyModel/Reservoir.lean, Windows.lean
  (nodes), RpyModel/Online.lean (online training).
-/
import RpyModel.Dataflow
import RpyModel.Reservoir
import RpyModel.Windows
import RpyModel.Online
import RpyProofs.Props.C05
import RpyProofs.Props.C10

set_option linter.unusedSectionVars false
set_option linter.unusedVariables false
set_option linter.unusedSimpArgs false

/-! ### nodes -/

/-- a reservoir run over `xs ++ ys` is the run over `xs` followed by the run over `ys` from the
    memory the first run left: same rows, same final memory -/
theorem C07_reservoir_chunks {R : Type} [Add R] [Mul R] [Sub R] [Zero R] [One R] [ZeroTest R]
    {n m k : Nat} (eq : Equation) (p : ResParams R n m k) (st : ResState R n)
    (xs ys : List (StepIn R n m k)) :
    runRes eq p st (xs ++ ys)
      = ((runRes eq p st xs).1 ++ (runRes eq p (runRes eq p st xs).2 ys).1,
         (runRes eq p (runRes eq p st xs).2 ys).2) := by
  induction xs generalizing st with
  | nil => simp [runRes]
  | cons x xs ih => simp [runRes, ih]

theorem C07_delay_chunks {α : Type} (buf xs ys : List α) :
    delayRun buf (xs ++ ys)
      = ((delayRun (delayRun buf xs).1 ys).1, (delayRun buf xs).2 ++ (delayRun (delayRun buf xs).1 ys).2) := by
  induction xs generalizing buf with
  | nil => simp [delayRun]
  | cons x xs ih => simp [delayRun, ih]

theorem C07_nvar_chunks {R : Type} [Mul R] [One R] [Zero R] (strides order : Nat)
    (store : List (List R)) (xs ys : List (List R)) :
    nvarRun strides order store (xs ++ ys)
      = ((nvarRun strides order (nvarRun strides order store xs).1 ys).1,
         (nvarRun strides order store xs).2 ++ (nvarRun strides order (nvarRun strides order store xs).1 ys).2) := by
  induction xs generalizing store with
  | nil => simp [nvarRun]
  | cons x xs ih => simp [nvarRun, ih]

/-! ### models (with feedback) -/

variable {S M : Type}

theorem loopM_append (net : FNet S M) (order : List Nat) (σ : Store S M)
    (xs ys : List ((Nat → Option S) × Option (Nat → Option S))) :
    loopM net order σ (xs ++ ys)
      = ((loopM net order σ xs).1 ++ (loopM net order (loopM net order σ xs).2 ys).1,
         (loopM net order (loopM net order σ xs).2 ys).2) := by
  induction xs generalizing σ with
  | nil => simp [loopM]
  | cons x xs ih => simp [loopM, ih]

/-- a "clean" store: no model proxy, no pending clamp (the state a model is in between public
    operations) -/
def Clean (order : List Nat) (σ : Store S M) : Prop :=
  (∀ v ∈ order, (σ v).proxy = none) ∧ ∀ v, (σ v).clamp = none

theorem Store.ext' {σ τ : Store S M} (h : ∀ v, σ v = τ v) : σ = τ := by
  cases σ; cases τ; congr; funext v; exact h v

theorem enterState_id (net : FNet S M) (order : List Nat) (σ : Store S M) :
    enterState net order (fun _ => none) false σ = σ := by
  apply Store.ext'; intro v
  simp only [enterState, Store.get]
  split <;> rfl

theorem load_clean_of_synced (order : List Nat) (σ : Store S M) (h : SyncedOn order σ) :
    loadProxys order true (cleanProxys order σ) = σ := by
  apply Store.ext'; intro v
  simp only [loadProxys, cleanProxys, Store.get]
  by_cases hv : v ∈ order
  · have := h.1 v hv
    simp only [hv, if_true, Option.isSome_none, Bool.and_false, Bool.false_eq_true, if_false]
    cases hσ : σ.get v with
    | mk st mem proxy clamp =>
      have e : (σ.get v).proxy = some (σ.get v).st := this
      rw [hσ] at e
      simp only at e
      simp [e]
  · simp [hv]

theorem load_true_of_clean (order : List Nat) (σ : Store S M) (h : Clean order σ) :
    SyncedOn order (loadProxys order true σ) := by
  constructor
  · intro v hv
    simp [loadProxys, Store.get, hv, h.1 v hv]
  · intro v
    simp only [loadProxys, Store.get]
    split
    · split <;> simp [h.2 v]
    · exact h.2 v

theorem stepM_free_synced (net : FNet S M) (order : List Nat) (σ : Store S M) (ext : Nat → Option S)
    (hs : ∀ v, (σ v).clamp = none) : SyncedOn order (stepM net order σ (ext, none)).2 :=
  C05_step_synced net order σ ext hs

theorem loopM_free_synced (net : FNet S M) (order : List Nat) :
    ∀ (xs : List (Nat → Option S)) (σ : Store S M), SyncedOn order σ →
      SyncedOn order (loopM net order σ (freeInputs xs)).2 := by
  intro xs
  induction xs with
  | nil => intro σ h; simpa [freeInputs, loopM] using h
  | cons x xs ih =>
    intro σ h
    simp only [freeInputs, List.map_cons, loopM]
    exact ih _ (stepM_free_synced net order σ x h.2)

/-- the free run of one sequence, with default flags, on a clean store -/
def freeRun (net : FNet S M) (order : List Nat) (xs : List (Nat → Option S)) (σ : Store S M) :
    List (Store S M) × Store S M :=
  runSeq net order {} (freeInputs xs) σ

theorem freeRun_eq (net : FNet S M) (order : List Nat) (xs : List (Nat → Option S)) (σ : Store S M) :
    freeRun net order xs σ
      = ((loopM net order (loadProxys order true σ) (freeInputs xs)).1,
         cleanProxys order (loopM net order (loadProxys order true σ) (freeInputs xs)).2) := by
  simp [freeRun, runSeq, enterState_id, exitState]

theorem cleanProxys_clean (order : List Nat) (σ : Store S M) (h : ∀ v, (σ v).clamp = none) :
    Clean order (cleanProxys order σ) := by
  constructor
  · intro v hv; simp [cleanProxys, Store.get, hv]
  · intro v; simp only [cleanProxys, Store.get]; split <;> simp [h v]

/-- **Models, any chunking.** Running `xs ++ ys` in one go gives the observations of running
    `xs` and then `ys` (concatenated) and leaves the same store — with feedback connections,
    because the hand-over at the boundary (clean the proxies, reload them) is the identity on
    the synced store every step ends in.  By induction this covers every way of cutting a
    sequence into consecutive pieces, including pieces of length one. -/
theorem C07_model_chunks (net : FNet S M) (order : List Nat) (σ : Store S M) (h : Clean order σ)
    (xs ys : List (Nat → Option S)) :
    freeRun net order (xs ++ ys) σ
      = ((freeRun net order xs σ).1 ++ (freeRun net order ys (freeRun net order xs σ).2).1,
         (freeRun net order ys (freeRun net order xs σ).2).2)
    ∧ Clean order (freeRun net order xs σ).2 := by
  have hsync := loopM_free_synced net order xs _ (load_true_of_clean order σ h)
  constructor
  · simp only [freeRun_eq, freeInputs, List.map_append, loopM_append]
    have := load_clean_of_synced order _ hsync
    simp only [freeInputs] at this
    rw [this]
  · rw [freeRun_eq]
    exact cleanProxys_clean order _ hsync.2

/-- **One run = successive single-step calls.** A free `call` on a clean store is the one-step
    run (same observation, same final store); with `C07_model_chunks` a run is the iteration
    of calls. -/
theorem C07_call_eq_run1 (net : FNet S M) (order : List Nat) (σ : Store S M) (x : Nat → Option S) :
    (callModel net order {} x none σ).1 = ((freeRun net order [x] σ).1.headD σ)
    ∧ (callModel net order {} x none σ).2 = (freeRun net order [x] σ).2 := by
  simp only [callModel, freeRun_eq, freeInputs, List.map_cons, List.map_nil, loopM, stepM,
    enterState_id, exitState, List.headD_cons, if_true]
  refine ⟨trivial, ?_⟩
  apply Store.ext'; intro v
  simp only [cleanProxys, loadProxys, Store.get]
  split <;> rfl

/-! ### online training -/

/-- **Training in chunks, `learn_every = 1`**: the parameters after training on `xs ++ ys` are
    those after training on `xs` and then on `ys`. -/
theorem C07_train_chunks {St X Y O : Type} (pred : St → X → O) (step : St → X → Y → St)
    (s : St) (xs ys : List (X × Y)) :
    (trainLoop pred step 1 s (xs ++ ys)).1
      = (trainLoop pred step 1 (trainLoop pred step 1 s xs).1 ys).1 := by
  have g : ∀ (len i : Nat) (l : List (X × Y)), gatedFrom 1 len i l = l := by
    intro len i l
    induction l generalizing i with
    | nil => rfl
    | cons a as ih => simp [gatedFrom, Nat.mod_one, ih]
  simp only [C10_learn_every, g, List.foldl_append]

/-- with `learn_every = k` the same holds when `k` divides the length of the first chunk (the
    gate restarts at 0 in every call) — and the pieces must have more than one step or the
    whole must too (a one-step call always learns). -/
theorem C07_train_chunks_k {St X Y O : Type} (pred : St → X → O) (step : St → X → Y → St)
    (k : Nat) (hk : 0 < k) (s : St) (xs ys : List (X × Y)) (hdiv : k ∣ xs.length)
    (h1 : xs.length ≠ 1) (h2 : ys.length ≠ 1) (h3 : (xs ++ ys).length ≠ 1) :
    (trainLoop pred step k s (xs ++ ys)).1
      = (trainLoop pred step k (trainLoop pred step k s xs).1 ys).1 := by
  have shift : ∀ (len len' i : Nat) (l : List (X × Y)), len ≠ 1 → len' ≠ 1 → k ∣ i →
      gatedFrom k len (i + 0) l = gatedFrom k len' 0 l → True := fun _ _ _ _ _ _ _ _ => trivial
  have gapp : ∀ (len : Nat) (i : Nat) (a b : List (X × Y)), len ≠ 1 →
      gatedFrom k len i (a ++ b) = gatedFrom k len i a ++ gatedFrom k len (i + a.length) b := by
    intro len i a b hlen
    induction a generalizing i with
    | nil => simp [gatedFrom]
    | cons x a ih =>
      simp only [List.cons_append, gatedFrom, hlen, or_false, List.length_cons]
      have e : i + (a.length + 1) = i + 1 + a.length := by omega
      split <;> simp [ih (i + 1), e]
  have gshift : ∀ (len len' : Nat) (i : Nat) (b : List (X × Y)), len ≠ 1 → len' ≠ 1 → k ∣ i →
      gatedFrom k len i b = gatedFrom k len' 0 b := by
    intro len len' i b hl hl' hi
    have gen : ∀ (j : Nat) (b : List (X × Y)), gatedFrom k len (i + j) b = gatedFrom k len' j b := by
      intro j b
      induction b generalizing j with
      | nil => rfl
      | cons x b ih =>
        simp only [gatedFrom, hl, hl', or_false]
        have hm : (i + j) % k = j % k := by
          obtain ⟨c, rfl⟩ := hi
          rw [Nat.add_comm, Nat.add_mul_mod_self_left]
        rw [hm]
        have e : i + j + 1 = i + (j + 1) := by omega
        split <;> simp [e, ih (j + 1)]
    simpa using gen 0 b
  simp only [C10_learn_every]
  rw [gapp _ 0 xs ys h3, List.foldl_append]
  have e1 : gatedFrom k (xs ++ ys).length 0 xs = gatedFrom k xs.length 0 xs := by
    have gen : ∀ (len len' i : Nat) (l : List (X × Y)), len ≠ 1 → len' ≠ 1 →
        gatedFrom k len i l = gatedFrom k len' i l := by
      intro len len' i l hl hl'
      induction l generalizing i with
      | nil => rfl
      | cons x l ih => simp only [gatedFrom, hl, hl', or_false]; split <;> simp [ih (i + 1)]
    exact gen _ _ 0 xs h3 h1
  rw [e1, Nat.zero_add, gshift (xs ++ ys).length ys.length xs.length ys h3 h2 hdiv]



theorem enterState_compose (net : FNet S M) (order : List Nat) (fs : Nat → Option S) (reset : Bool) (σ : Store S M) :
    enterState net order fs false (enterState net order (fun _ => none) reset σ) = enterState net order fs reset σ := by
  apply Store.ext'; intro v
  simp only [enterState, Store.get]
  by_cases hv : v ∈ order
  · simp only [hv, if_true]
    cases fs v <;> simp
  · simp [hv]

/-- **One run = one call, with the options.** A stateful `call(x, from_state, reset)` is the run of the one-row sequence
    `[x]` with the same options: same observation, same final store. The states are set (`from_state`, `reset`) BEFORE
    the feedback proxies are loaded, in both. With `C07_model_chunks` this gives: a sequence run from zero or from
    given states = a first call carrying the option, then plain calls. -/
theorem C07_call_eq_run1_opts (net : FNet S M) (order : List Nat) (σ : Store S M) (x : Nat → Option S)
    (o : RunOpts S) (ho : o.stateful = true) :
    (callModel net order o x none σ).1 = ((runSeq net order o [(x, none)] σ).1.headD σ)
    ∧ (callModel net order o x none σ).2 = (runSeq net order o [(x, none)] σ).2 := by
  simp only [callModel, runSeq, loopM, stepM, exitState, ho, if_true, List.headD_cons, enterState_compose]
  refine ⟨trivial, ?_⟩
  apply Store.ext'; intro v
  simp only [cleanProxys, loadProxys, Store.get]
  split <;> rfl
