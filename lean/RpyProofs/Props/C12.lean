/-
  C12 — dimensions are fixed at initialisation and bad data is rejected cleanly.
  Model: RpyModel/Shapes.lean.
-/
import RpyModel.Shapes

set_option linter.unusedVariables false

theorem initOn_init (k : Kind) (s s' : NodeS) (d : Nat) (o : Option Nat) (h : initOn k s d o = .ok s') :
    s'.init = true ∧ s'.inDim = some d ∧ (s.init = true → s' = s)
    ∧ (s.init = false → ∃ e, s'.outDim = some e) := by
  unfold initOn at h
  grind

/-- every accepted operation leaves an *initialised* node exactly as it was (as far as
    dimensions go), and leaves any node initialised -/
theorem applyOp_init (k : Kind) (s s' : NodeS) (op : Op) (out : OutShape)
    (h : applyOp k s op = .ok (s', out)) : s'.init = true ∧ (s.init = true → s' = s) := by
  have key := fun d o (hh : initOn k s d o = .ok s') => initOn_init k s s' d o hh
  cases op <;>
    simp only [applyOp, bind, Except.bind, pure, Except.pure, throw, throwThe, MonadExceptOf.throw] at h <;>
    grind

/-- well-formed node: once initialised, both dimensions are known -/
def WF (s : NodeS) : Prop := s.init = true → (∃ d, s.inDim = some d) ∧ ∃ o, s.outDim = some o

theorem C12_wf_preserved (k : Kind) (s s' : NodeS) (op : Op) (out : OutShape) (hw : WF s)
    (h : applyOp k s op = .ok (s', out)) : WF s' := by
  have key := fun d o (hh : initOn k s d o = .ok s') => initOn_init k s s' d o hh
  unfold WF at *
  cases op <;>
    simp only [applyOp, bind, Except.bind, pure, Except.pure, throw, throwThe, MonadExceptOf.throw] at h <;>
    grind

/-- **Dimensions never change after initialisation** — over every sequence of operations,
    accepted or rejected. -/
theorem C12_dims_immutable (k : Kind) (s : NodeS) (hs : s.init = true) (ops : List Op) :
    ops.foldl (stepKeep k) s = s := by
  induction ops with
  | nil => rfl
  | cons op ops ih =>
    simp only [List.foldl_cons]
    have : stepKeep k s op = s := by
      unfold stepKeep
      cases h : applyOp k s op with
      | error e => rfl
      | ok r => obtain ⟨s', out⟩ := r; exact (applyOp_init k s s' op out h).2 hs
    rw [this]; exact ih

/-- **A rejected operation leaves the node unchanged** (by construction of `stepKeep`; the
    content is that `applyOp` decides acceptance from the data and the dimensions alone, before
    anything is touched). -/
theorem C12_reject_unchanged (k : Kind) (s : NodeS) (op : Op) (e : Err) (h : applyOp k s op = .error e) :
    stepKeep k s op = s := by
  simp [stepKeep, h]

/-- **T accepted timesteps give exactly T rows of the declared output size**, and the node is
    initialised with the input size of the data. -/
theorem C12_rows (k : Kind) (s s' : NodeS) (hw : WF s) (T d : Nat) (out : OutShape)
    (h : applyOp k s (.run (.seq T d)) = .ok (s', out)) :
    ∃ o, s'.outDim = some o ∧ out = some (T, o) ∧ s'.inDim = some d ∧ s'.init = true := by
  unfold WF at hw
  simp only [applyOp, asSeq, bind, Except.bind, pure, Except.pure, throw, throwThe, MonadExceptOf.throw] at h
  by_cases hT : (T == 0 && !s.init) = true
  · simp [hT] at h
  · simp only [hT, Bool.false_eq_true, if_false] at h
    cases hi : initOn k s d none with
    | error e => simp [hi] at h
    | ok v =>
      simp only [hi, Except.ok.injEq, Prod.mk.injEq] at h
      obtain ⟨rfl, rfl⟩ := h
      obtain ⟨a, b, c, e⟩ := initOn_init k s v d none hi
      by_cases hs : s.init = true
      · have := c hs; subst this
        obtain ⟨_, o, ho⟩ := hw hs
        exact ⟨o, ho, by simp [ho], b, a⟩
      · obtain ⟨o, ho⟩ := e (by simpa using hs)
        exact ⟨o, ho, by simp [ho], b, a⟩

/-- a single step (`call`) returns one row: the state is a single-row array of the output size -/
theorem C12_state_shape (k : Kind) (s s' : NodeS) (hw : WF s) (d : Nat) (out : OutShape)
    (h : applyOp k s (.call (.step d)) = .ok (s', out)) :
    ∃ o, s'.outDim = some o ∧ out = some (1, o) := by
  unfold WF at hw
  simp only [applyOp, asStep, bind, Except.bind, pure, Except.pure] at h
  cases hi : initOn k s d none with
  | error e => simp [hi] at h
  | ok v =>
    simp only [hi, Except.ok.injEq, Prod.mk.injEq] at h
    obtain ⟨rfl, rfl⟩ := h
    obtain ⟨a, b, c, e⟩ := initOn_init k s v d none hi
    by_cases hs : s.init = true
    · have := c hs; subst this
      obtain ⟨_, o, ho⟩ := hw hs
      exact ⟨o, ho, by simp [ho]⟩
    · obtain ⟨o, ho⟩ := e (by simpa using hs)
      exact ⟨o, ho, by simp [ho]⟩

/-- **Unsupported operations are rejected**: offline fit of a node without an offline rule,
    online training of a node without an online rule — whatever the data. -/
theorem C12_unsupported (k : Kind) (s : NodeS) (x y : Inp) :
    (k.offline = false → applyOp k s (.fit x y) = .error .unsupported)
    ∧ (k.online = false → applyOp k s (.train x y) = .error .unsupported) := by
  constructor <;> intro h <;> simp [applyOp, h, bind, Except.bind, throw, throwThe, MonadExceptOf.throw]

/-- malformed data (non-numeric, not an array, too many axes) is rejected by every operation -/
theorem C12_malformed_rejected (k : Kind) (s : NodeS) (x : Inp)
    (hx : x = .nonNumeric ∨ x = .notArray ∨ x = .badRank) :
    (∃ e, applyOp k s (.call x) = .error e) ∧ (∃ e, applyOp k s (.run x) = .error e) := by
  rcases hx with rfl | rfl | rfl <;> simp [applyOp, asStep, asSeq, bind, Except.bind]

/-- wrong feature count on an initialised node is rejected -/
theorem C12_wrong_features_rejected (k : Kind) (s : NodeS) (hs : s.init = true) (d e T : Nat)
    (hd : s.inDim = some d) (hne : e ≠ d) :
    applyOp k s (.run (.seq T e)) = .error .dimMismatch := by
  have : (some d == some e) = false := by simp [Ne.symm hne]
  simp [applyOp, asSeq, bind, Except.bind, initOn, hs, hd, this]

/-- Non-vacuity: a reservoir-like kind (5 units), first data of 3 features. -/
def resKind : Kind := { outOf := fun _ => 5, outFromTarget := false, offline := false, online := false }

example : applyOp resKind ⟨none, some 5, false⟩ (.run (.seq 4 3)) = .ok (⟨some 3, some 5, true⟩, some (4, 5)) := by
  rfl
example : applyOp resKind ⟨some 3, some 5, true⟩ (.run (.seq 4 2)) = .error .dimMismatch := by rfl
