/-
  C17 — NVAR, Delay and Concat compute their documented window functions.
  Model: RpyModel/Windows.lean (mirror of nodes/reservoirs/nvar.py, nodes/delay.py, nodes/concat.py).
-/
import RpyModel.Windows
import Mathlib.Data.Nat.Choose.Basic
import Mathlib.Data.List.Basic
import Mathlib.Tactic.Ring
import Mathlib.Tactic.Linarith

set_option linter.unusedSectionVars false

/-- Input history `u 0 … u t` seen from step `t`: `u (t-j)`, `zero` before the start. -/
def hist {α : Type} (zero : α) (u : Nat → α) (t : Nat) (j : Nat) : α :=
  if j ≤ t then u (t - j) else zero

theorem nvarPush_length {α : Type} (store : List α) (x : α) :
    (nvarPush store x).length = store.length := by
  simp [nvarPush, List.length_take]

/-- **NVAR window.**  After feeding `u 0 … u t` into a zero store of length `L`, row `j` of the
    store holds `u (t-j)` (zero if the data had not started yet) — for every `L` and `t`. -/
theorem C17_nvar_window {α : Type} (zero : α) (u : Nat → α) (L : Nat) :
    ∀ t, ((List.range (t + 1)).foldl (fun s i => nvarPush s (u i)) (List.replicate L zero))
        = (List.range L).map (hist zero u t) := by
  intro t
  induction t with
  | zero =>
    simp only [List.range_one, List.foldl_cons, List.foldl_nil, Nat.zero_add]
    apply List.ext_getElem
    · simp [nvarPush]
    · intro j h1 h2
      simp only [nvarPush, List.length_replicate] at h1 ⊢
      simp only [List.getElem_take, List.getElem_map, List.getElem_range, hist]
      cases j with
      | zero => simp
      | succ j => simp
  | succ t ih =>
    rw [List.range_succ, List.foldl_append, ih]
    simp only [List.foldl_cons, List.foldl_nil]
    apply List.ext_getElem
    · simp [nvarPush]
    · intro j h1 h2
      simp only [nvarPush, List.length_map, List.length_range] at h1 ⊢
      simp only [List.getElem_take, List.getElem_map, List.getElem_range, hist]
      cases j with
      | zero => simp
      | succ j =>
        simp only [List.getElem_cons_succ, List.getElem_map, List.getElem_range, hist]
        have : (j + 1 ≤ t + 1) ↔ (j ≤ t) := by omega
        by_cases h : j ≤ t
        · have e : t + 1 - (j + 1) = t - j := by omega
          simp [h, this.mpr h, e]
        · simp [h, mt this.mp h]

theorem stridedAux_drop {α : Type} (s c : Nat) (l : List α) :
    stridedAux s c l = stridedAux s 0 (l.drop c) := by
  induction l generalizing c with
  | nil => simp [stridedAux]
  | cons x xs ih =>
    cases c with
    | zero => simp
    | succ c => simp [stridedAux, ih c]

theorem strided_nil {α : Type} (s : Nat) : strided s ([] : List α) = [] := by
  simp [strided, stridedAux]

theorem strided_cons {α : Type} (s : Nat) (x : α) (xs : List α) :
    strided s (x :: xs) = x :: strided s (xs.drop (s - 1)) := by
  simp only [strided, stridedAux]
  rw [stridedAux_drop]

theorem combsWR_zero {α : Type} (l : List α) : combsWR l 0 = [[]] := rfl
theorem combsWR_nil_succ {α : Type} (k : Nat) : combsWR ([] : List α) (k + 1) = [] := rfl
theorem combsWR_cons_succ {α : Type} (x : α) (xs : List α) (k : Nat) :
    combsWR (x :: xs) (k + 1) = (combsWR (x :: xs) k).map (x :: ·) ++ combsWR xs (k + 1) := rfl

theorem drop_map_range {α : Type} (g : Nat → α) (n m : Nat) :
    ((List.range n).map g).drop m = (List.range (n - m)).map (fun i => g (i + m)) := by
  apply List.ext_getElem
  · simp
  · intro j h1 h2
    simp [Nat.add_comm]

theorem map_range_succ {α : Type} (g : Nat → α) (n : Nat) :
    (List.range (n + 1)).map g = g 0 :: (List.range n).map (fun i => g (i + 1)) := by
  rw [List.range_succ_eq_map]; simp [Function.comp_def]

/-- `a[::s]` of a tabulated list of length `k*s` picks positions `0, s, …, (k-1)s`. -/
theorem strided_tabulate {α : Type} (f : Nat → α) (s : Nat) (hs : 1 ≤ s) (k : Nat) :
    ∀ off, strided s ((List.range (k * s)).map (fun i => f (off + i)))
      = (List.range k).map (fun j => f (off + j * s)) := by
  induction k with
  | zero => intro off; simp [strided_nil]
  | succ k ih =>
    intro off
    have hlen : (k + 1) * s = (k * s + (s - 1)) + 1 := by
      calc (k + 1) * s = k * s + s := by ring
        _ = (k * s + (s - 1)) + 1 := by omega
    rw [hlen, map_range_succ, strided_cons, drop_map_range]
    have h2 : k * s + (s - 1) - (s - 1) = k * s := by omega
    rw [h2, map_range_succ]
    have e : ∀ i, off + (i + (s - 1) + 1) = off + s + i := by intro i; omega
    have e2 : ∀ j, off + (j + 1) * s = off + s + j * s := by intro j; ring
    congr 1
    · simp
    · simp only [e, e2]
      exact ih (off + s)

/-- **NVAR linear part.**  After `u 0 … u t` (from a zero store, delay `k`, strides `s ≥ 1`) the
    strided selection of the store is `u t, u (t-s), …, u (t-(k-1)s)` (zero rows before the
    start of the data), in that order. -/
theorem C17_nvar_linear {α : Type} (zero : α) (u : Nat → α) (k s : Nat) (hs : 1 ≤ s) (t : Nat) :
    strided s ((List.range (t + 1)).foldl (fun st i => nvarPush st (u i)) (List.replicate (k * s) zero))
      = (List.range k).map (fun j => hist zero u t (j * s)) := by
  rw [C17_nvar_window]
  have := strided_tabulate (hist zero u t) s hs k 0
  simpa using this

/-- Number of combinations with replacement = multiset coefficient. -/
theorem combsWR_length {α : Type} (l : List α) (n : Nat) :
    (combsWR l n).length = Nat.multichoose l.length n := by
  induction l generalizing n with
  | nil =>
    cases n with
    | zero => simp [combsWR_zero]
    | succ n => simp [combsWR_nil_succ]
  | cons x xs ihl =>
    induction n with
    | zero => simp [combsWR_zero]
    | succ n ihn =>
      simp only [combsWR_cons_succ, List.length_append, List.length_map, List.length_cons]
      rw [ihn, ihl (n + 1)]
      simp [Nat.multichoose_succ_succ, Nat.add_comm]

/-- **NVAR output dimension**: `k·d + C(k·d + n − 1, n)` for a linear part of `k·d` values. -/
theorem C17_nvar_dim {R : Type} [Mul R] [One R] [Zero R] (strides order : Nat)
    (store : List (List R)) :
    (nvarOut strides order store).length
      = ((strided strides store).flatten).length
        + Nat.choose (((strided strides store).flatten).length + order - 1) order := by
  simp [nvarOut, combsWR_length, Nat.multichoose_eq]

/-- The output starts with the linear features and continues with one monomial per combination,
    in `combinations_with_replacement` order. -/
theorem C17_nvar_layout {R : Type} [Mul R] [One R] [Zero R] (strides order : Nat)
    (store : List (List R)) :
    nvarOut strides order store
      = (strided strides store).flatten
        ++ (combsWR ((strided strides store).flatten) order).map monomial := rfl

/-- Every combination has exactly `n` factors, all taken from the pool. -/
theorem combsWR_mem {α : Type} (l : List α) (n : Nat) (c : List α) (hc : c ∈ combsWR l n) :
    c.length = n ∧ ∀ x ∈ c, x ∈ l := by
  induction l generalizing n c with
  | nil =>
    cases n with
    | zero => simp [combsWR_zero] at hc; subst hc; simp
    | succ n => simp [combsWR_nil_succ] at hc
  | cons y ys ihl =>
    induction n generalizing c with
    | zero => simp [combsWR_zero] at hc; subst hc; simp
    | succ n ihn =>
      simp only [combsWR_cons_succ, List.mem_append, List.mem_map] at hc
      rcases hc with ⟨c', hc', rfl⟩ | hc
      · obtain ⟨h1, h2⟩ := ihn c' hc'
        refine ⟨by simp [h1], ?_⟩
        intro x hx
        rcases List.mem_cons.mp hx with rfl | hx
        · simp
        · exact h2 x hx
      · obtain ⟨h1, h2⟩ := ihl (n + 1) c hc
        exact ⟨h1, fun x hx => List.mem_cons_of_mem _ (h2 x hx)⟩

/-- Each combination is a sub-multiset in pool order: it is a sublist of the pool with every
    element repeated `n` times (so index tuples are non-decreasing, as itertools yields them). -/
theorem combsWR_sorted {α : Type} (l : List α) (n : Nat) (c : List α) (hc : c ∈ combsWR l n) :
    c.Sublist (l.flatMap fun x => List.replicate n x) := by
  induction l generalizing n c with
  | nil =>
    cases n with
    | zero => simp [combsWR_zero] at hc; subst hc; simp
    | succ n => simp [combsWR_nil_succ] at hc
  | cons y ys ihl =>
    induction n generalizing c with
    | zero => simp [combsWR_zero] at hc; subst hc; simp
    | succ n ihn =>
      simp only [combsWR_cons_succ, List.mem_append, List.mem_map] at hc
      rcases hc with ⟨c', hc', rfl⟩ | hc
      · have h := ihn c' hc'
        simp only [List.flatMap_cons, List.replicate_succ, List.cons_append] at h ⊢
        refine List.Sublist.cons_cons y ?_
        refine h.trans ?_
        apply List.Sublist.append (List.Sublist.refl _)
        -- replicate n x ⊑ replicate (n+1) x, element-wise under flatMap
        clear h hc' ihn ihl
        induction ys with
        | nil => simp
        | cons z zs ih =>
          simp only [List.flatMap_cons]
          exact List.Sublist.append (by
            rw [show z :: List.replicate n z = List.replicate (n + 1) z from rfl]
            exact (List.replicate_sublist_replicate z).mpr (Nat.le_succ n)) ih
      · have h := ihl (n + 1) c hc
        simp only [List.flatMap_cons]
        exact List.sublist_append_of_sublist_right h

/-- **Delay law.**  From a buffer `buf` (the deque, left to right; `buf.reverse` is the order in
    which its values will come out: the supplied initial values, last one first) a run over `us`
    emits the first `|us|` elements of `buf.reverse ++ us` and keeps the rest, so the output at
    step `t` is the input of step `t − d` once the `d` buffered values are exhausted. -/
theorem C17_delay {α : Type} (buf us : List α) :
    (delayRun buf us).2 = (buf.reverse ++ us).take us.length
    ∧ (delayRun buf us).1 = ((buf.reverse ++ us).drop us.length).reverse := by
  induction us generalizing buf with
  | nil => simp [delayRun]
  | cons x xs ih =>
    rcases List.eq_nil_or_concat buf with rfl | ⟨b', y, rfl⟩
    · have hstep : delayStep ([] : List α) x = ([], x) := by simp [delayStep]
      obtain ⟨h1, h2⟩ := ih []
      simp only [delayRun, hstep]
      constructor
      · simp [h1]
      · simp [h2]
    · have hstep : delayStep (b' ++ [y]) x = (x :: b', y) := by
        have e : x :: (b' ++ [y]) = (x :: b') ++ [y] := rfl
        unfold delayStep
        rw [e, List.getLast?_concat, List.dropLast_concat]
      obtain ⟨h1, h2⟩ := ih (x :: b')
      simp only [delayRun, List.concat_eq_append]
      rw [hstep]
      constructor
      · simp [h1]
      · simp [h2]

/-- `delay = 0` is the identity. -/
theorem C17_delay_zero {α : Type} (us : List α) : (delayRun [] us).2 = us := by
  have := (C17_delay ([] : List α) us).1
  simpa using this

/-- With `d` buffered values the output at step `t ≥ d` is the input of step `t − d`, and before
    that the buffered values, last one first. -/
theorem C17_delay_get {α : Type} (buf us : List α) (t : Nat) (ht : t < us.length) :
    (delayRun buf us).2[t]? =
      if h : t < buf.length then some (buf[buf.length - 1 - t]'(by omega))
      else us[t - buf.length]? := by
  rw [(C17_delay buf us).1, List.getElem?_take]
  simp only [ht, if_true]
  by_cases h : t < buf.length
  · simp only [h, dite_true]
    rw [List.getElem?_append_left (by simpa using h), List.getElem?_reverse h]
    simp
  · simp only [h, dite_false]
    rw [List.getElem?_append_right (by simpa using Nat.le_of_not_lt h)]
    simp

/-- **Concat**: inputs side by side in the order given: the result has the summed width and the
    part `i` occupies the columns after parts `0 … i-1`. -/
theorem C17_concat {α : Type} (parts : List (List α)) :
    (concatRows parts).length = (parts.map List.length).sum
    ∧ ∀ (pre : List (List α)) (p : List α) (post : List (List α)), parts = pre ++ p :: post →
        ((concatRows parts).drop (pre.map List.length).sum).take p.length = p := by
  refine ⟨by simp [concatRows, List.length_flatten], ?_⟩
  intro pre p post h
  subst h
  have hl : (pre.map List.length).sum = pre.flatten.length := by simp [List.length_flatten]
  rw [hl]
  simp only [concatRows, List.flatten_append, List.flatten_cons]
  rw [List.drop_left, List.take_left]

/-- Non-vacuity / sanity on concrete data: NVAR(delay=2, order=2, strides=1) on a 1-d input. -/
example : (nvarRun (R := Int) 1 2 (nvarInit 2 1 1) [[2], [3]]).2
    = [[2, 0, 4, 0, 0], [3, 2, 9, 6, 4]] := by decide
example : (delayRun [[-1], [-2], [-3]] [[0], [1], [2], [3]] : List (List Int) × List (List Int)).2
    = [[-3], [-2], [-1], [0]] := by decide
example : combsWR [0, 1, 2] 2 = [[0, 0], [0, 1], [0, 2], [1, 1], [1, 2], [2, 2]] := by decide
