/-
  C08 — stateful=False, state contexts, reset and from_state mean what they say.
  Model: RpyModel/Dataflow.lean (`enterState`, `exitState`, `runSeq`, `callModel`, `runSeqFail`,
  `callModelFail`), generic in the node behaviour.
-/
import RpyModel.Dataflow
import RpyProofs.Props.C05
import RpyProofs.Props.C07

set_option linter.unusedSectionVars false
set_option linter.unusedVariables false
set_option linter.unusedSimpArgs false

variable {S M : Type}

/-- the guard of the `_partial` theorems: no node keeps hidden memory outside its state
    (the three library kinds that do — external-equation reservoirs, NVAR, Delay — are the
    recorded finding K4, see the witnesses at the end) -/
def NoHidden (net : FNet S M) : Prop := ∀ v m s ins fb, (net.fwd v m s ins fb).1 = m

/-- a pass changes nothing but the states of the nodes it evaluates, when no node has hidden
    memory, no feedback value is forced, and the store is synced -/
theorem forwardF_frame (net : FNet S M) (hh : NoHidden net) (ext : Nat → Option S) :
    ∀ (vs : List Nat) (σ : Store S M), (∀ v, (σ v).clamp = none) → ∀ w,
      (forwardF net ext vs σ w).mem = (σ w).mem ∧ (forwardF net ext vs σ w).proxy = (σ w).proxy
      ∧ (forwardF net ext vs σ w).clamp = none ∧ (w ∉ vs → (forwardF net ext vs σ w).st = (σ w).st) := by
  intro vs
  induction vs with
  | nil => intro σ h w; exact ⟨rfl, rfl, h w, fun _ => rfl⟩
  | cons v vs ih =>
    intro σ h w
    rw [forwardF_cons']
    have hcl : ∀ u, (afterNode net ext σ v u).clamp = none := by
      intro u
      by_cases hu : u = v
      · subst hu
        simp only [afterNode, upd, Store.get, if_true]
        cases hsnd : net.fbSender u with
        | none => rw [(readFb_snd net σ u u).2.2.2.2.2 hsnd]; exact h u
        | some s => exact (readFb_snd net σ u u).2.2.2.2.1 (by simp [hsnd])
      · rw [afterNode_other net ext σ v u hu]; exact h u
    obtain ⟨h1, h2, h3, h4⟩ := ih (afterNode net ext σ v) hcl w
    refine ⟨?_, ?_, h3, ?_⟩
    · rw [h1]
      by_cases hw : w = v
      · subst hw
        simp only [afterNode, upd, Store.get, if_true]
        rw [hh]
      · rw [afterNode_other net ext σ v w hw]
    · rw [h2, afterNode_proxy]
    · intro hw
      simp only [List.mem_cons, not_or] at hw
      rw [h4 hw.2, afterNode_other net ext σ v w hw.1]

theorem nstate_ext (a b : NState S M) (h1 : a.st = b.st) (h2 : a.mem = b.mem)
    (h3 : a.proxy = b.proxy) (h4 : a.clamp = b.clamp) : a = b := by
  cases a; cases b; simp only at h1 h2 h3 h4; simp [h1, h2, h3, h4]

/-! projections of the store transformers -/
theorem enterState_fields (net : FNet S M) (order : List Nat) (fs : Nat → Option S) (reset : Bool)
    (σ : Store S M) (v : Nat) :
    (enterState net order fs reset σ v).mem = (σ v).mem
    ∧ (enterState net order fs reset σ v).proxy = (σ v).proxy
    ∧ (enterState net order fs reset σ v).clamp = (σ v).clamp
    ∧ (v ∉ order → (enterState net order fs reset σ v).st = (σ v).st) := by
  simp only [enterState, Store.get]
  by_cases hv : v ∈ order <;> simp [hv]

theorem loadProxys_fields (order : List Nat) (keep : Bool) (σ : Store S M) (v : Nat) :
    (loadProxys order keep σ v).st = (σ v).st ∧ (loadProxys order keep σ v).mem = (σ v).mem
    ∧ (loadProxys order keep σ v).clamp = (σ v).clamp
    ∧ (v ∉ order → (loadProxys order keep σ v).proxy = (σ v).proxy) := by
  simp only [loadProxys, Store.get]
  by_cases hv : v ∈ order
  · simp only [hv, if_true]
    split <;> simp
  · simp [hv]

theorem cleanProxys_fields (order : List Nat) (σ : Store S M) (v : Nat) :
    (cleanProxys order σ v).st = (σ v).st ∧ (cleanProxys order σ v).mem = (σ v).mem
    ∧ (cleanProxys order σ v).clamp = (σ v).clamp
    ∧ (v ∈ order → (cleanProxys order σ v).proxy = none)
    ∧ (v ∉ order → (cleanProxys order σ v).proxy = (σ v).proxy) := by
  simp only [cleanProxys, Store.get]
  by_cases hv : v ∈ order <;> simp [hv]

theorem exitState_false_fields (order : List Nat) (σ0 σ : Store S M) (v : Nat) :
    (exitState order false σ0 σ v).mem = (σ v).mem ∧ (exitState order false σ0 σ v).proxy = (σ v).proxy
    ∧ (exitState order false σ0 σ v).clamp = (σ v).clamp
    ∧ (v ∈ order → (exitState order false σ0 σ v).st = (σ0 v).st)
    ∧ (v ∉ order → (exitState order false σ0 σ v).st = (σ v).st) := by
  simp only [exitState, Bool.false_eq_true, if_false, Store.get]
  by_cases hv : v ∈ order <;> simp [hv]

/-- after any number of free steps: memories unchanged, no clamp pending, nodes outside the
    order untouched -/
theorem loopM_frame (net : FNet S M) (hh : NoHidden net) (order : List Nat) :
    ∀ (xs : List (Nat → Option S)) (σ : Store S M), (∀ v, (σ v).clamp = none) → ∀ w,
      ((loopM net order σ (freeInputs xs)).2 w).mem = (σ w).mem
      ∧ ((loopM net order σ (freeInputs xs)).2 w).clamp = none
      ∧ (w ∉ order → (loopM net order σ (freeInputs xs)).2 w = σ w) := by
  intro xs
  induction xs with
  | nil => intro σ h w; simp [freeInputs, loopM, h w]
  | cons x xs ih =>
    intro σ h w
    simp only [freeInputs, List.map_cons, loopM]
    have hf := forwardF_frame net hh x order σ h
    have hstep : ∀ u, ((stepM net order σ (x, none)).2 u).mem = (σ u).mem
        ∧ ((stepM net order σ (x, none)).2 u).clamp = none
        ∧ (u ∉ order → (stepM net order σ (x, none)).2 u = σ u) := by
      intro u
      simp only [stepM]
      obtain ⟨l1, l2, l3, l4⟩ := loadProxys_fields order false (forwardF net x order σ) u
      obtain ⟨f1, f2, f3, f4⟩ := hf u
      refine ⟨by rw [l2, f1], by rw [l3, f3], ?_⟩
      intro hu
      apply nstate_ext
      · rw [l1, f4 hu]
      · rw [l2, f1]
      · rw [l4 hu, f2]
      · rw [l3, f3, h u]
    obtain ⟨h1, h2, h3⟩ := ih (stepM net order σ (x, none)).2 (fun u => (hstep u).2.1) w
    refine ⟨?_, h2, ?_⟩
    · exact h1.trans (hstep w).1
    · intro hw; exact (h3 hw).trans ((hstep w).2.2 hw)

/-- the common core of the stateless no-op theorems: whatever happened between entering and
    leaving, if it kept memories, left no clamp and did not touch nodes outside the order, the
    stateless unwinding gives back the original store -/
theorem stateless_unwind (net : FNet S M) (order : List Nat) (σ : Store S M) (hc : Clean order σ)
    (fs : Nat → Option S) (reset : Bool) (σp : Store S M)
    (hp : ∀ w, (σp w).mem = (σ w).mem ∧ (σp w).clamp = none ∧ (w ∉ order → σp w = σ w)) :
    exitState order false σ (cleanProxys order (exitState order false
        (enterState net order (fun _ => none) reset σ) σp)) = σ := by
  apply Store.ext'; intro w
  obtain ⟨p1, p2, p3⟩ := hp w
  obtain ⟨a1, a2, a3, a4, a5⟩ := exitState_false_fields order σ
    (cleanProxys order (exitState order false (enterState net order (fun _ => none) reset σ) σp)) w
  obtain ⟨c1, c2, c3, c4, c5⟩ := cleanProxys_fields order
    (exitState order false (enterState net order (fun _ => none) reset σ) σp) w
  obtain ⟨e1, e2, e3, e4, e5⟩ := exitState_false_fields order
    (enterState net order (fun _ => none) reset σ) σp w
  apply nstate_ext
  · by_cases hw : w ∈ order
    · exact a4 hw
    · rw [a5 hw, c1, e5 hw, p3 hw]
  · rw [a1, c2, e1, p1]
  · by_cases hw : w ∈ order
    · rw [a2, c4 hw, hc.1 w hw]
    · rw [a2, c5 hw, e2, p3 hw]
  · rw [a3, c3, e3, p2, hc.2 w]

/-- the store just before the loop starts, seen from the original one -/
theorem entered_fields (net : FNet S M) (order : List Nat) (σ : Store S M) (hc : Clean order σ)
    (fs : Nat → Option S) (reset : Bool) (w : Nat) :
    let σb := loadProxys order true (enterState net order fs false (enterState net order (fun _ => none) reset σ))
    (σb w).mem = (σ w).mem ∧ (σb w).clamp = none ∧ (w ∉ order → σb w = σ w) := by
  intro σb
  obtain ⟨l1, l2, l3, l4⟩ := loadProxys_fields order true
    (enterState net order fs false (enterState net order (fun _ => none) reset σ)) w
  obtain ⟨b1, b2, b3, b4⟩ := enterState_fields net order fs false
    (enterState net order (fun _ => none) reset σ) w
  obtain ⟨a1, a2, a3, a4⟩ := enterState_fields net order (fun _ => none) reset σ w
  refine ⟨by rw [l2, b1, a1], by rw [l3, b3, a3, hc.2 w], ?_⟩
  intro hw
  apply nstate_ext
  · rw [l1, b4 hw, a4 hw]
  · rw [l2, b1, a1]
  · rw [l4 hw, b2, a2]
  · rw [l3, b3, a3]

/-- **stateful = False is a no-op (free run, success).**  On a clean store, for networks without
    hidden memory, a run with `stateful = false` (any `from_state`, any `reset`) leaves every
    node exactly as it was: same state, same memory, no proxy, no clamp. -/
theorem C08_stateless_run_noop_partial (net : FNet S M) (hh : NoHidden net) (order : List Nat)
    (σ : Store S M) (hc : Clean order σ) (fs : Nat → Option S) (reset : Bool)
    (xs : List (Nat → Option S)) :
    (runSeq net order { fromState := fs, stateful := false, reset := reset } (freeInputs xs) σ).2 = σ := by
  simp only [runSeq]
  apply stateless_unwind net order σ hc fs reset
  intro w
  have hb := fun u => entered_fields net order σ hc fs reset u
  obtain ⟨h1, h2, h3⟩ := loopM_frame net hh order xs _ (fun u => (hb u).2.1) w
  exact ⟨h1.trans (hb w).1, h2, fun hw => (h3 hw).trans ((hb w).2.2 hw)⟩

/-- **… and the same operation repeated gives the same result.** -/
theorem C08_repeat_same_partial (net : FNet S M) (hh : NoHidden net) (order : List Nat)
    (σ : Store S M) (hc : Clean order σ) (fs : Nat → Option S) (reset : Bool)
    (xs : List (Nat → Option S)) :
    let o : RunOpts S := { fromState := fs, stateful := false, reset := reset }
    (runSeq net order o (freeInputs xs) (runSeq net order o (freeInputs xs) σ).2).1
      = (runSeq net order o (freeInputs xs) σ).1 := by
  intro o
  rw [C08_stateless_run_noop_partial net hh order σ hc fs reset xs]

/-- **Even when it fails part-way.**  The same no-op statement for a stateless run that raises
    at step `k` after evaluating the nodes `pre` of that step (any `k`, any set `pre` of already
    evaluated model nodes) — given the `try/finally` unwinding. -/
theorem C08_stateless_fail_noop_partial (net : FNet S M) (hh : NoHidden net) (order : List Nat)
    (σ : Store S M) (hc : Clean order σ) (fs : Nat → Option S) (reset : Bool)
    (xs : List (Nat → Option S)) (k : Nat) (pre : List Nat) (hpre : ∀ v ∈ pre, v ∈ order) :
    runSeqFail net order { fromState := fs, stateful := false, reset := reset } (freeInputs xs) k pre σ = σ := by
  simp only [runSeqFail]
  apply stateless_unwind net order σ hc fs reset
  intro w
  have hb := fun u => entered_fields net order σ hc fs reset u
  have htake : (freeInputs xs).take k = freeInputs (xs.take k) := by simp [freeInputs, List.map_take]
  rw [htake]
  have hl := fun u => loopM_frame net hh order (xs.take k) _ (fun u => (hb u).2.1) u
  have hc' : ∀ u, ((loopM net order _ (freeInputs (xs.take k))).2 u).mem = (σ u).mem
      ∧ ((loopM net order _ (freeInputs (xs.take k))).2 u).clamp = none
      ∧ (u ∉ order → (loopM net order _ (freeInputs (xs.take k))).2 u = σ u) :=
    fun u => ⟨(hl u).1.trans (hb u).1, (hl u).2.1, fun hu => ((hl u).2.2 hu).trans ((hb u).2.2 hu)⟩
  cases hk : (freeInputs xs)[k]? with
  | none => simpa using hc' w
  | some inp =>
    obtain ⟨x, f⟩ := inp
    have hf : f = none := by
      simp only [freeInputs, List.getElem?_map] at hk
      cases hx : xs[k]? with
      | none => simp [hx] at hk
      | some y => simp [hx] at hk; exact hk.2.symm
    subst hf
    simp only
    obtain ⟨f1, f2, f3, f4⟩ := forwardF_frame net hh x pre _ (fun u => (hc' u).2.1) w
    refine ⟨f1.trans (hc' w).1, f3, ?_⟩
    intro hw
    have hwp : w ∉ pre := fun hx => hw (hpre w hx)
    rw [← (hc' w).2.2 hw]
    apply nstate_ext
    · exact f4 hwp
    · exact f1
    · exact f2
    · rw [f3, (hc' w).2.1]

/-- **from_state** makes the operation start from exactly the given state for the named nodes:
    running with `from_state = fs` is running, with default flags, on the store whose named
    states were overwritten (and, when not stateful, restoring the original ones afterwards). -/
theorem C08_from_state (net : FNet S M) (order : List Nat) (σ : Store S M) (fs : Nat → Option S)
    (inps : List ((Nat → Option S) × Option (Nat → Option S))) :
    (runSeq net order { fromState := fs } inps σ)
      = (runSeq net order {} inps (enterState net order fs false σ)) := by
  simp [runSeq, enterState_id, exitState]

/-- **reset** puts every model node in its zero state, whatever it was: two stores that differ
    only in the states of model nodes become equal — a reset node behaves like a freshly
    initialised one with the same weights (and the same hidden memory: guard `NoHidden`). -/
theorem C08_reset_fresh (net : FNet S M) (order : List Nat) (σ τ : Store S M)
    (h : ∀ v, (σ v).mem = (τ v).mem ∧ (σ v).proxy = (τ v).proxy ∧ (σ v).clamp = (τ v).clamp
        ∧ (v ∉ order → (σ v).st = (τ v).st)) :
    enterState net order (fun _ => none) true σ = enterState net order (fun _ => none) true τ := by
  apply Store.ext'; intro v
  obtain ⟨h1, h2, h3, h4⟩ := h v
  simp only [enterState, Store.get] at *
  by_cases hv : v ∈ order
  · simp only [hv, if_true]
    cases hσ : σ.get v; cases hτ : τ.get v
    rw [hσ, hτ] at h1 h2 h3
    simp only at h1 h2 h3
    simp [h1, h2, h3]
  · simp only [hv, if_false]
    have := h4 hv
    cases hσ : σ.get v; cases hτ : τ.get v
    rw [hσ, hτ] at h1 h2 h3 this
    simp only at h1 h2 h3 this
    simp [h1, h2, h3, this]

/-! ### the excluded kinds really violate it (finding K4) -/

/-- a one-node network whose node is a one-step delay: hidden memory = the previous input -/
def delayNet : FNet Int Int :=
  { parents := fun _ => [], fbSender := fun _ => none,
    fwd := fun _ m _ ins _ => (ins.headD 0, m), zero := fun _ => 0 }

def delayStore : Store Int Int := ⟨fun _ => ⟨0, 0, none, none⟩⟩

/-- witness: a stateless run of a node with hidden memory is *not* a no-op — the same stateless
    run repeated returns something else -/
theorem C08_hidden_leak_witness :
    let o : RunOpts Int := { stateful := false }
    let xs := freeInputs [fun _ => some 5, fun _ => some 7]
    ((runSeq delayNet [0] o xs delayStore).1.map fun σ => (σ 0).st)
      ≠ ((runSeq delayNet [0] o xs (runSeq delayNet [0] o xs delayStore).2).1.map fun σ => (σ 0).st) := by
  decide

/-- Non-vacuity of the guard: a network without hidden memory, and a clean store. -/
example : NoHidden (diamond) ∧ Clean [0, 1, 2, 3] (⟨fun _ => ⟨0, (), none, none⟩⟩ : Store Int Unit) := by
  exact ⟨fun _ _ _ _ _ => rfl, ⟨fun _ _ => rfl, fun _ => rfl⟩⟩
