/-
  C05 — feedback is delayed by exactly one step; forced feedback replaces it.
  Model: RpyModel/Dataflow.lean (`readFb`, `forwardF`, `loadProxys`, `enterFeedback`, `stepM`,
  `shiftForced`), generic in the node behaviour.
-/
import RpyModel.Dataflow
import RpyProofs.Props.C02
import Mathlib.Data.List.Basic

set_option linter.unusedSectionVars false
set_option linter.unusedVariables false
set_option linter.unusedSimpArgs false

variable {S M : Type}

/-- the value `node.feedback()` hands to receiver `v`, computed from a store: the pending
    clamped (forced) value if there is one, else the sender's frozen state -/
def fbOf (net : FNet S M) (σ : Store S M) (v : Nat) : Option S :=
  match net.fbSender v with
  | none => none
  | some s => some (match (σ v).clamp with
                    | some c => c
                    | none => (σ s).stateProxy)

theorem readFb_fst (net : FNet S M) (σ : Store S M) (v : Nat) : (readFb net σ v).1 = fbOf net σ v := by
  unfold readFb fbOf
  cases net.fbSender v with
  | none => rfl
  | some s => cases h : (σ v).clamp <;> simp [h]

/-- reading the feedback only ever clears the reader's own clamp -/
theorem readFb_snd (net : FNet S M) (σ : Store S M) (v w : Nat) :
    ((readFb net σ v).2 w).st = (σ w).st ∧ ((readFb net σ v).2 w).mem = (σ w).mem
    ∧ ((readFb net σ v).2 w).proxy = (σ w).proxy
    ∧ (w ≠ v → (readFb net σ v).2 w = σ w)
    ∧ (net.fbSender v ≠ none → ((readFb net σ v).2 v).clamp = none)
    ∧ (net.fbSender v = none → (readFb net σ v).2 = σ) := by
  unfold readFb
  cases hs : net.fbSender v with
  | none => simp
  | some s =>
    cases hc : (σ v).clamp with
    | none => simp [hc]
    | some c =>
      by_cases hw : w = v
      · subst hw; simp [upd, hc]
      · simp [upd, hc, hw]

/-- the receiver-side safety condition: every sender of a node still to be evaluated either
    has a frozen proxy or is not going to be evaluated in this pass -/
def FbSafe (net : FNet S M) (vs : List Nat) (σ : Store S M) : Prop :=
  ∀ v ∈ vs, ∀ s, net.fbSender v = some s → (σ s).proxy.isSome ∨ s ∉ vs

/-- one node of the forward pass, spelled out -/
theorem forwardF_cons (net : FNet S M) (ext : Nat → Option S) (v : Nat) (vs : List Nat) (σ : Store S M) :
    forwardF net ext (v :: vs) σ
      = forwardF net ext vs
          (upd (readFb net σ v).2 v
            { (readFb net σ v).2 v with
                st := (net.fwd v ((readFb net σ v).2 v).mem ((readFb net σ v).2 v).st
                        (inputsOf net ext (readFb net σ v).2 v) (readFb net σ v).1).2,
                mem := (net.fwd v ((readFb net σ v).2 v).mem ((readFb net σ v).2 v).st
                        (inputsOf net ext (readFb net σ v).2 v) (readFb net σ v).1).1 }) := by
  simp [forwardF]

/-- the store after evaluating the head node `v` -/
def afterNode (net : FNet S M) (ext : Nat → Option S) (σ : Store S M) (v : Nat) : Store S M :=
  upd (readFb net σ v).2 v
    { (readFb net σ v).2 v with
        st := (net.fwd v (σ v).mem (σ v).st (inputsOf net ext σ v) (fbOf net σ v)).2,
        mem := (net.fwd v (σ v).mem (σ v).st (inputsOf net ext σ v) (fbOf net σ v)).1 }

theorem inputsOf_readFb (net : FNet S M) (ext : Nat → Option S) (σ : Store S M) (v u : Nat) :
    inputsOf net ext (readFb net σ v).2 u = inputsOf net ext σ u := by
  apply inputsOf_congr
  intro p _; exact (readFb_snd net σ v p).1

theorem forwardF_cons' (net : FNet S M) (ext : Nat → Option S) (v : Nat) (vs : List Nat) (σ : Store S M) :
    forwardF net ext (v :: vs) σ = forwardF net ext vs (afterNode net ext σ v) := by
  rw [forwardF_cons]
  unfold afterNode
  rw [inputsOf_readFb, readFb_fst, (readFb_snd net σ v v).1, (readFb_snd net σ v v).2.1]

theorem afterNode_other (net : FNet S M) (ext : Nat → Option S) (σ : Store S M) (v w : Nat) (h : w ≠ v) :
    afterNode net ext σ v w = σ w := by
  simp only [afterNode, upd, Store.get, h, if_false]
  exact (readFb_snd net σ v w).2.2.2.1 h

theorem afterNode_proxy (net : FNet S M) (ext : Nat → Option S) (σ : Store S M) (v w : Nat) :
    (afterNode net ext σ v w).proxy = (σ w).proxy := by
  by_cases h : w = v
  · subst h; simp only [afterNode, upd, Store.get, if_true]; exact (readFb_snd net σ w w).2.2.1
  · rw [afterNode_other net ext σ v w h]

/-- **Proxies are frozen during a step**: the forward pass never changes any `_state_proxy`. -/
theorem C05_proxy_frozen (net : FNet S M) (ext : Nat → Option S) :
    ∀ (vs : List Nat) (σ : Store S M) (w : Nat), (forwardF net ext vs σ w).proxy = (σ w).proxy := by
  intro vs
  induction vs with
  | nil => intro σ w; rfl
  | cons v vs ih => intro σ w; rw [forwardF_cons', ih, afterNode_proxy]

theorem forwardF_not_mem (net : FNet S M) (ext : Nat → Option S) :
    ∀ (vs : List Nat) (σ : Store S M) (w : Nat), w ∉ vs → forwardF net ext vs σ w = σ w := by
  intro vs
  induction vs with
  | nil => intro σ w _; rfl
  | cons v vs ih =>
    intro σ w hw
    simp only [List.mem_cons, not_or] at hw
    rw [forwardF_cons', ih _ _ hw.2, afterNode_other net ext σ v w hw.1]

theorem fbOf_afterNode (net : FNet S M) (ext : Nat → Option S) (σ : Store S M) (v' v : Nat)
    (hne : v ≠ v') (hsafe : ∀ s, net.fbSender v = some s → (σ s).proxy.isSome ∨ s ≠ v') :
    fbOf net (afterNode net ext σ v') v = fbOf net σ v := by
  unfold fbOf
  cases hs : net.fbSender v with
  | none => rfl
  | some s =>
    rw [afterNode_other net ext σ v' v hne]
    congr 1
    cases (σ v).clamp with
    | some c => rfl
    | none =>
      simp only [NState.stateProxy, afterNode_proxy]
      rcases hsafe s hs with hp | hp
      · cases hpx : (σ s).proxy with
        | none => simp [hpx] at hp
        | some p => simp
      · rw [afterNode_other net ext σ v' s hp]

/-- **What every node computes in a step, feedback included.**  For a topological order whose
    senders are frozen (or outside the pass): the new state of `v` is its step function on its own
    previous memory/state, the same-step states of its parents, and the feedback value
    determined by the store *at the start of the step* — never by anything computed during it,
    wherever the sender stands in the order. -/
theorem C05_forward_fixpoint (net : FNet S M) (ext : Nat → Option S) :
    ∀ (vs : List Nat) (σ : Store S M), TopoFrom net vs → FbSafe net vs σ → ∀ v ∈ vs,
      (forwardF net ext vs σ v).st
        = (net.fwd v (σ v).mem (σ v).st (inputsOf net ext (forwardF net ext vs σ) v) (fbOf net σ v)).2
      ∧ (forwardF net ext vs σ v).mem
        = (net.fwd v (σ v).mem (σ v).st (inputsOf net ext (forwardF net ext vs σ) v) (fbOf net σ v)).1 := by
  intro vs
  induction vs with
  | nil => intro σ _ _ v hv; simp at hv
  | cons v' vs ih =>
    intro σ ht hsafe v hv
    obtain ⟨hnot, hpar, ht'⟩ := ht
    rw [forwardF_cons']
    rcases List.mem_cons.mp hv with rfl | hvs
    · rw [forwardF_not_mem net ext vs _ v hnot]
      have hin : inputsOf net ext (forwardF net ext vs (afterNode net ext σ v)) v = inputsOf net ext σ v := by
        apply inputsOf_congr
        intro p hp
        have := hpar p hp
        rw [forwardF_not_mem net ext vs _ p this.1, afterNode_other net ext σ v p this.2]
      rw [hin]
      simp [afterNode, upd, Store.get]
    · have hne : v ≠ v' := by rintro rfl; exact hnot hvs
      have hsafe' : FbSafe net vs (afterNode net ext σ v') := by
        intro u hu s hs
        rcases hsafe u (List.mem_cons_of_mem _ hu) s hs with hp | hp
        · left; rw [afterNode_proxy]; exact hp
        · right; exact fun hx => hp (List.mem_cons_of_mem _ hx)
      obtain ⟨h1, h2⟩ := ih (afterNode net ext σ v') ht' hsafe' v hvs
      have hσv : afterNode net ext σ v' v = σ v := afterNode_other net ext σ v' v hne
      have hfb : fbOf net (afterNode net ext σ v') v = fbOf net σ v := by
        apply fbOf_afterNode net ext σ v' v hne
        intro s hs
        rcases hsafe v hv s hs with hp | hp
        · exact Or.inl hp
        · exact Or.inr (fun e => hp (by simp [e]))
      rw [h1, h2, hσv, hfb]
      exact ⟨rfl, rfl⟩

/-- model nodes hold a frozen copy of their current state (what `_load_proxys()` establishes),
    and no forced value is pending -/
def SyncedOn (order : List Nat) (σ : Store S M) : Prop :=
  (∀ v ∈ order, (σ v).proxy = some (σ v).st) ∧ ∀ v, (σ v).clamp = none

theorem loadProxys_false_synced (order : List Nat) (σ : Store S M) (hc : ∀ v, (σ v).clamp = none) :
    SyncedOn order (loadProxys order false σ) := by
  constructor
  · intro v hv; simp [loadProxys, Store.get, hv]
  · intro v; simp only [loadProxys, Store.get]; split <;> simp [hc v]

/-- **Free-running feedback is the sender's state of the previous step.**  At a step that starts
    from a synced store (every step of a run does, see `C05_step_synced`), the feedback value
    used by receiver `v` with sender `s` is `s`'s state at the *start* of the step — i.e. its
    output of step t−1 (its pre-existing output at the first step; zero after a reset) — whether
    `s` precedes `v`, follows it, or is not in the graph at all (then its proxy is empty and its
    state cannot change during the step). -/
theorem C05_fb_prev_step (net : FNet S M) (order : List Nat) (σ : Store S M) (hs : SyncedOn order σ)
    (hout : ∀ s, s ∉ order → (σ s).proxy = none)
    (v s : Nat) (hv : net.fbSender v = some s) : fbOf net σ v = some (σ s).st := by
  unfold fbOf
  rw [hv, hs.2 v]
  simp only [NState.stateProxy]
  by_cases hso : s ∈ order
  · rw [hs.1 s hso]; rfl
  · rw [hout s hso]; rfl

theorem SyncedOn.fbSafe (net : FNet S M) (order : List Nat) (σ : Store S M) (hs : SyncedOn order σ) :
    FbSafe net order σ := by
  intro v _ s _
  by_cases hso : s ∈ order
  · left; rw [hs.1 s hso]; rfl
  · right; exact hso

theorem forwardF_clamp_none (net : FNet S M) (ext : Nat → Option S) :
    ∀ (vs : List Nat) (σ : Store S M), (∀ v, (σ v).clamp = none) → ∀ v, (forwardF net ext vs σ v).clamp = none := by
  intro vs
  induction vs with
  | nil => intro σ h v; exact h v
  | cons v' vs ih =>
    intro σ h v
    rw [forwardF_cons']
    apply ih
    intro w
    by_cases hw : w = v'
    · subst hw
      simp only [afterNode, upd, Store.get, if_true]
      cases hsnd : net.fbSender w with
      | none => rw [(readFb_snd net σ w w).2.2.2.2.2 hsnd]; exact h w
      | some s => exact (readFb_snd net σ w w).2.2.2.2.1 (by simp [hsnd])
    · rw [afterNode_other net ext σ v' w hw]; exact h w

/-- every iteration of the free-running loop ends synced, so the previous theorem applies at
    every step of every run -/
theorem C05_step_synced (net : FNet S M) (order : List Nat) (σ : Store S M) (ext : Nat → Option S)
    (hs : ∀ v, (σ v).clamp = none) : SyncedOn order (stepM net order σ (ext, none)).2 := by
  simp only [stepM]
  exact loadProxys_false_synced order _ (forwardF_clamp_none net ext order σ hs)

/-- **Forced feedback replaces it.** A receiver with a pending forced value reads exactly that
    value, whatever its sender's state is. -/
theorem C05_forced_read (net : FNet S M) (σ : Store S M) (v s : Nat) (c : S)
    (hv : net.fbSender v = some s) (hc : (σ v).clamp = some c) : fbOf net σ v = some c := by
  simp [fbOf, hv, hc]

/-- … and it is consumed by that read (one-shot). -/
theorem C05_clamp_once (net : FNet S M) (σ : Store S M) (v s : Nat) (hv : net.fbSender v = some s) :
    ((readFb net σ v).2 v).clamp = none :=
  (readFb_snd net σ v v).2.2.2.2.1 (by simp [hv])

/-- **The shift.** With shifting on, the forced value seen at step 0 is the zero vector and at
    step t > 0 it is the forced value of step t−1; with shifting off it is the value of step t. -/
theorem C05_forced_shift (zeroLike : (Nat → Option S) → (Nat → Option S)) (ys : List (Nat → Option S)) :
    (shiftForced zeroLike false ys = ys)
    ∧ (shiftForced zeroLike true ys).length = ys.length
    ∧ (∀ y0, ys.head? = some y0 → (shiftForced zeroLike true ys)[0]? = some (zeroLike y0))
    ∧ ∀ t, t + 1 < ys.length → (shiftForced zeroLike true ys)[t + 1]? = ys[t]? := by
  refine ⟨by simp [shiftForced], ?_, ?_, ?_⟩
  · cases ys with
    | nil => simp [shiftForced]
    | cons y ys => simp [shiftForced]
  · intro y0 h
    cases ys with
    | nil => simp at h
    | cons y ys => simp at h; subst h; simp [shiftForced]
  · intro t ht
    cases ys with
    | nil => simp at ht
    | cons y ys =>
      simp only [shiftForced, if_true, List.length_cons] at ht ⊢
      rw [List.getElem?_take]
      simp only [List.length_cons, ht, if_true, List.getElem?_cons_succ]

theorem enterFbStep_other (net : FNet S M) (forced : Nat → Option S) (σ : Store S M) (u v : Nat)
    (h : v ≠ u) : enterFbStep net forced σ u v = σ v := by
  unfold enterFbStep
  cases net.fbSender u with
  | some s' =>
    simp only
    cases (forced u).orElse (fun _ => forced s') with
    | some val' => simp [upd, Store.get, h]
    | none => rfl
  | none =>
    simp only
    cases forced u with
    | some val' => simp [upd, Store.get, h]
    | none => rfl

theorem enterFeedback_not_mem (net : FNet S M) (forced : Nat → Option S) :
    ∀ (us : List Nat) (σ : Store S M) (v : Nat), v ∉ us → (us.foldl (enterFbStep net forced) σ) v = σ v := by
  intro us
  induction us with
  | nil => intro σ v _; rfl
  | cons u us ih =>
    intro σ v hv
    simp only [List.mem_cons, not_or] at hv
    simp only [List.foldl_cons]
    rw [ih _ _ hv.2, enterFbStep_other net forced σ u v hv.1]

/-- entering `with_feedback(forced)`: a receiver named directly, or whose sender is named, gets
    the value clamped (duplicate-free order) -/
theorem C05_enter_forced (net : FNet S M) (order : List Nat) (hnd : order.Nodup)
    (forced : Nat → Option S) (σ : Store S M) (v s : Nat) (hv : v ∈ order)
    (hs : net.fbSender v = some s) (val : S)
    (hval : (forced v).orElse (fun _ => forced s) = some val) :
    (enterFeedback net order forced σ v).clamp = some val := by
  unfold enterFeedback
  induction order generalizing σ with
  | nil => simp at hv
  | cons u us ih =>
    simp only [List.foldl_cons]
    have hnd' := (List.nodup_cons.mp hnd)
    rcases List.mem_cons.mp hv with rfl | hvs
    · rw [enterFeedback_not_mem net forced us _ v hnd'.1]
      unfold enterFbStep
      simp only [hs, hval]
      simp [upd, Store.get]
    · exact ih hnd'.2 _ hvs

/-! ### The `with_feedback` context seen from the sender, and what is left after it -/

/-- entering `with_feedback(forced)`: a node that is not a receiver and is named gets the value as its state proxy
    (sender-side forcing; duplicate-free order) -/
theorem C05_enter_forced_sender (net : FNet S M) (order : List Nat) (hnd : order.Nodup)
    (forced : Nat → Option S) (σ : Store S M) (v : Nat) (hv : v ∈ order)
    (hs : net.fbSender v = none) (val : S) (hval : forced v = some val) :
    (enterFeedback net order forced σ v).proxy = some val := by
  unfold enterFeedback
  induction order generalizing σ with
  | nil => simp at hv
  | cons u us ih =>
    simp only [List.foldl_cons]
    have hnd' := (List.nodup_cons.mp hnd)
    rcases List.mem_cons.mp hv with rfl | hvs
    · rw [enterFeedback_not_mem net forced us _ v hnd'.1]
      unfold enterFbStep
      simp only [hs, hval]
      simp [upd, Store.get]
    · exact ih hnd'.2 _ hvs

/-- … and a receiver of that sender (nothing clamped on its own side) then reads exactly the forced value -/
theorem C05_sender_forced_read (net : FNet S M) (σ : Store S M) (r s : Nat) (val : S)
    (hr : net.fbSender r = some s) (hc : (σ r).clamp = none) (hp : (σ s).proxy = some val) :
    fbOf net σ r = some val := by
  simp [fbOf, hr, hc, NState.stateProxy, hp]

/-- **Leaving the context restores.** Whatever happened inside (`σc` is arbitrary), every non-receiver of the model
    has the proxy it had before the context, and nothing else is touched -/
theorem C05_exit_restores (net : FNet S M) (order : List Nat) (σ0 σc : Store S M) (v : Nat) :
    (v ∈ order → net.fbSender v = none → (exitFeedback net order σ0 σc v).proxy = (σ0 v).proxy)
    ∧ (exitFeedback net order σ0 σc v).st = (σc v).st
    ∧ (exitFeedback net order σ0 σc v).mem = (σc v).mem
    ∧ (exitFeedback net order σ0 σc v).clamp = (σc v).clamp
    ∧ ((v ∉ order ∨ (net.fbSender v).isSome) → exitFeedback net order σ0 σc v = σc v) := by
  refine ⟨?_, ?_, ?_, ?_, ?_⟩
  · intro hv hs
    simp [exitFeedback, Store.get, hv, hs]
  · simp only [exitFeedback, Store.get]; split <;> rfl
  · simp only [exitFeedback, Store.get]; split <;> rfl
  · simp only [exitFeedback, Store.get]; split <;> rfl
  · intro h
    simp only [exitFeedback, Store.get]
    rw [if_neg]
    rintro ⟨h1, h2⟩
    rcases h with h | h
    · exact h h1
    · cases hh : net.fbSender v with
      | none => rw [hh] at h; simp at h
      | some x => rw [hh] at h2; simp at h2

/-- **After a forced step the loop is free again.** If the sender had no proxy before the context (the normal
    situation for a hand-stepped loop), then after the context a receiver with nothing clamped reads the sender's
    CURRENT state — not the value that was forced inside, whatever was done inside -/
theorem C05_after_context_reads_state (net : FNet S M) (order : List Nat) (σ0 σc : Store S M) (r s : Nat)
    (hr : net.fbSender r = some s) (hs : s ∈ order) (hss : net.fbSender s = none)
    (h0 : (σ0 s).proxy = none) (hc : (σc r).clamp = none) :
    fbOf net (exitFeedback net order σ0 σc) r = some (σc s).st := by
  have hR := C05_exit_restores net order σ0 σc r
  have hS := C05_exit_restores net order σ0 σc s
  simp only [fbOf, hr]
  rw [hR.2.2.2.1, hc]
  simp only [NState.stateProxy]
  rw [hS.1 hs hss, h0, hS.2.1]
  rfl
