/-
  C16 — copies and saved models.
  Models: RpyModel/Names.lean (names, registry, name tables of a model under copy / deep copy /
  pickle), RpyModel/Compat.lean (legacy ESN update, save / load, load_compat).
-/
import RpyModel.Names
import RpyModel.Compat
import RpyProofs.Bridge
import RpyProofs.Props.C01
import Mathlib.Tactic.Ring

set_option linter.unusedSectionVars false
set_option linter.unusedSimpArgs false
set_option linter.unusedVariables false

open Names Compat

/-! ### name tables under copies -/

theorem mkModel_consistent (nodes : List NodeO) : (mkModel nodes).Consistent := rfl

theorem deepcopyModel_consistent (w : World) (m : ModelO) : (deepcopyModel w m).Consistent := rfl

/-- **Registry invariant**: after ANY history of node creations, model constructions, deep copies
    / pickle round-trips of nodes and of models, `Node.copy`, and garbage collections (which
    release names), every model's name tables are keyed by exactly the current names of its
    nodes — so every name-keyed operation (stateless runs, `return_states=[name]`, `model[name]`,
    name-keyed inputs and targets) finds its node. -/
theorem C16_registry_invariant (ops : List Op) (s : St) (h : ∀ m ∈ s.models, m.Consistent) :
    ∀ m ∈ (ops.foldl stepOp s).models, m.Consistent := by
  induction ops generalizing s with
  | nil => exact h
  | cons o os ih =>
    apply ih
    intro m hm
    cases o with
    | newNode => exact h m (by simpa [stepOp] using hm)
    | mkModel ids =>
      simp only [stepOp, List.mem_append, List.mem_singleton] at hm
      rcases hm with hm | rfl
      · exact h m hm
      · exact mkModel_consistent _
    | deepcopyNode i =>
      simp only [stepOp] at hm
      split at hm <;> exact h m hm
    | copyNode i =>
      simp only [stepOp] at hm
      split at hm <;> exact h m hm
    | deepcopyModel j =>
      simp only [stepOp] at hm
      split at hm
      · simp only [List.mem_append, List.mem_singleton] at hm
        rcases hm with hm | rfl
        · exact h m hm
        · exact deepcopyModel_consistent _ _
      · exact h m hm
    | release i =>
      simp only [stepOp] at hm
      split at hm <;> exact h m hm

theorem find_zip_map (nodes : List NodeO) (n : NodeO) (hn : n ∈ nodes) :
    ∃ n', ((nodes.map (·.name)).zip nodes).find? (·.1 == n.name) = some (n'.name, n') ∧ n'.name = n.name := by
  induction nodes with
  | nil => cases hn
  | cons a as ih =>
    by_cases ha : a.name = n.name
    · exact ⟨a, by simp [List.find?_cons, ha], ha⟩
    · have : n ∈ as := by
        rcases List.mem_cons.mp hn with rfl | h
        · exact absurd rfl ha
        · exact h
      obtain ⟨n', h1, h2⟩ := ih this
      exact ⟨n', by simp [List.find?_cons, ha, h1], h2⟩

/-- in a consistent model, looking a node up by its current name finds a node of that name -/
theorem C16_get_node_by_current_name (m : ModelO) (hc : m.Consistent) (n : NodeO) (hn : n ∈ m.nodes) :
    ∃ n', m.getNode n.name = some n' ∧ n'.name = n.name := by
  obtain ⟨n', h1, h2⟩ := find_zip_map m.nodes n hn
  refine ⟨n', ?_, h2⟩
  unfold ModelO.getNode
  rw [hc, h1]; rfl

/-- the defect that was repaired (D10), as a witness about the old semantics: a deep copy made
    while the original is alive has stale tables — the node's current name is not a key -/
theorem C16_registry_stale_witness :
    let w : World := ⟨["N-0"], 1⟩
    let m := mkModel [⟨"N-0"⟩]
    ¬ (deepcopyModelStale w m).Consistent ∧ (deepcopyModelStale w m).getNode "N-0-(copy)" = none := by
  simp only [ModelO.Consistent]
  decide

/-- finding K17: the new name is not registered, so two deep copies of one node carry the same
    name -/
theorem C16_copy_names_collide_witness :
    let w : World := ⟨["N-0"], 1⟩
    (deepcopyNode w ⟨"N-0"⟩).name = (deepcopyNode w ⟨"N-0"⟩).name ∧ (deepcopyNode w ⟨"N-0"⟩).name = "N-0-(copy)" := by
  decide

/-- `Node.copy()` on the other hand always yields a name that was not taken -/
theorem C16_node_copy_fresh (w : World) (n : NodeO) (hfresh : ∀ k, w.counter ≤ k → s!"N-{k}" ∉ w.registry) :
    (copyNode w n).2.name ∉ w.registry := by
  simp only [copyNode, newNode, freshName]
  exact hfresh w.counter (Nat.le_refl _)

/-! ### legacy models -/

/-- `save` then `load` restores every field except the activation, which becomes tanh -/
theorem C16_save_load {R : Type} {n m k : Nat} (l : Legacy R n m k) :
    load (save l) = { l with act := .tanh } := rfl

theorem C16_save_load_tanh {R : Type} {n m k : Nat} (l : Legacy R n m k) (h : l.act = .tanh) :
    load (save l) = l := by
  cases l; simp_all [load, save]

/-- finding K16: the activation is not stored -/
theorem C16_save_load_activation_lost {R : Type} {n m k : Nat} (l : Legacy R n m k) (h : l.act ≠ .tanh) :
    load (save l) ≠ l := by
  intro e
  have : (load (save l)).act = l.act := by rw [e]
  simp [load] at this
  exact h this.symm

section
variable {R : Type} [Field R] [ZeroTest R]

theorem vecMat_get {n m : Nat} (x : Vec R n) (W : Mat R n m) (j : Nat) (hj : j < m) :
    (vecMat x W)[j] = ∑ i : Fin n, x[i] * W[i][j] := by
  simp [vecMat, foldl_add_eq_sum]

theorem transpose_get {n m : Nat} (W : Mat R n m) (i j : Nat) (hi : i < m) (hj : j < n) :
    (transpose W)[i][j] = W[j][i] := by
  simp [transpose]

theorem legacy_pre_get {n m k : Nat} (ev : Act → R → R) (l : Legacy R n m k) (x : Vec R n) (u : Vec R m)
    (fb : Vec R k) (i : Nat) (hi : i < n) :
    (if l.hasFb then vadd (vadd (vadd (matVec l.Win u) l.biasCol) (vecMat x l.W)) (matVec l.Wfb (vmap (ev l.fbact) fb))
      else vadd (vadd (matVec l.Win u) l.biasCol) (vecMat x l.W))[i]
    = (∑ j : Fin n, (transpose l.W)[i][j] * x[j]) + (∑ j : Fin m, l.Win[i][j] * u[j]) + l.biasCol[i]
      + (if l.hasFb then ∑ j : Fin k, l.Wfb[i][j] * ev l.fbact fb[j] else 0) := by
  have hW : (∑ j : Fin n, (transpose l.W)[i][j] * x[j]) = (vecMat x l.W)[i] := by
    rw [vecMat_get x l.W i hi]
    apply Finset.sum_congr rfl
    intro j _
    simp [transpose, mul_comm]
  rw [hW]
  by_cases hfb : l.hasFb
  · simp only [hfb, if_true, vadd_get, matVec_get, dot_eq_sum, vmap_get, Fin.getElem_fin]
    ring
  · simp only [hfb, vadd_get, matVec_get, dot_eq_sum, Fin.getElem_fin]
    simp
    ring

/-- **`load_compat` reproduces the saved model, step by step**: for every legacy ESN with the
    tanh activation, every state, input and feedback vector (and whatever the noise draws, the
    gains being zero), one step of the converted v0.3 reservoir equals one step of the legacy
    model.  The transposition of W is what makes it true. -/
theorem C16_load_compat_step {n m k : Nat} (hz : ZeroTest.isZero (0 : R) = true) (ev : Act → R → R)
    (l : Legacy R n m k) (hact : l.act = .tanh) (st : ResState R n) (u : Vec R m) (fb : Vec R k)
    (xi : NoiseDraw R n m k) :
    (fwdInternal (loadCompat ev (save l)) st u fb xi).x = legacyStep ev l st.x u fb := by
  apply Vector.ext
  intro i hi
  have h := C01_step_internal hz (loadCompat ev (save l)) ⟨rfl, rfl, rfl⟩ st u fb xi ⟨i, hi⟩
  simp only [Fin.getElem_fin] at h
  rw [h]
  have hp := legacy_pre_get ev l st.x u fb i hi
  simp only [legacyStep, Vector.getElem_ofFn, hact, Fin.getElem_fin]
  rw [hp]
  simp [preact, loadCompat, save, WStore.toDense]
  exact Or.inl rfl

/-- **… and over every closed-loop run** (feedback = readout of the previous state), from every
    start state and feedback: the same states and the same outputs at every step. -/
theorem C16_load_compat_run {n m k : Nat} (hz : ZeroTest.isZero (0 : R) = true) (ev : Act → R → R)
    (l : Legacy R n m k) (hact : l.act = .tanh) (ro : Vec R n → Vec R k) (xi : NoiseDraw R n m k)
    (us : List (Vec R m)) (st : ResState R n) (y : Vec R k) :
    v3Run (loadCompat ev (save l)) ro xi st y us = legacyRun ev l ro st.x y us := by
  induction us generalizing st y with
  | nil => rfl
  | cons u us ih =>
    simp only [v3Run, legacyRun]
    rw [C16_load_compat_step hz ev l hact st u y xi]
    congr 1
    have := ih (fwdInternal (loadCompat ev (save l)) st u y xi) (ro (legacyStep ev l st.x u y))
    rw [C16_load_compat_step hz ev l hact st u y xi] at this
    exact this

end

/-- without the transposition the conversion is wrong: a 2-unit witness over ℚ (the defect that
    was repaired, K7) -/
theorem C16_untransposed_witness :
    let W : Mat Rat 2 2 := #v[#v[0, 1], #v[0, 0]]
    let x : Vec Rat 2 := #v[1, 0]
    vecMat x W ≠ matVec W x := by
  decide +kernel
